(* Expr.v — matcher expressions: the subset of govaluate (github.com/casbin/govaluate v1.3.0)
   that casbin matchers use, as an AST with an executable evaluator, plus the text-level
   helpers of util/util.go that enforce() applies to matcher texts (EscapeAssertion,
   RemoveComments, HasEval, strings.Contains).  Definitions only; proofs are in
   EnforceProofs.v.

   What is modelled here and validated only by the correspondence run (not verified):
   govaluate's evaluation rules (evaluationStage.go / stagePlanner.go / EvaluableExpression.go):
     - the left operand is evaluated first; `&&` returns false and `||` returns true on a
       boolean left operand BEFORE the right operand is evaluated or type-checked; otherwise
       both operands are evaluated and then type-checked (both must be bool);
     - `==` / `!=` are reflect.DeepEqual on the Go values: structural, never a type error;
     - `< <= > >=` need two numbers or two strings (strings compare bytewise);
     - `!` needs a bool; `+` adds two numbers, or concatenates fmt's %v of both sides as soon
       as one side is a string; `-` needs two numbers;
     - `x in (a, b, ...)`: the right side must be an array; membership is Go interface
       equality, which PANICS when both sides are maps (uncomparable dynamic type);
       a one-element clause is an array only when the element is a literal;
     - function arguments are evaluated first (left to right), then the function is called;
     - accessors `r_sub.Age.X` resolve fields of structs (exported names only) and keys of
       maps, anything else is an error; integers read from requests become float64.
   govaluate's parser is NOT modelled: the model takes the AST; the harness prints it and the
   `parse` table (a Section variable of the evaluator) maps every text that is compiled
   (matcher texts, eval() sub-rule strings) to its AST.

   Every Go partial operation is an explicit `Panic` result (a.(string) in g(), args[1] in
   g(), pVals[i] / rVals[i] in enforceParameters.Get, interface equality on maps); `Err` is a
   returned error.  The only unbounded recursion, eval() of a sub-rule that calls eval()
   again, runs on explicit fuel = maxEvalNesting (enforcer.go:1006): an eval() call made when
   the fuel is exhausted is exactly the "nested more than 100 levels deep" error. *)
From Coq Require Import List String Ascii Bool Arith ZArith NArith.
Import ListNotations.
From Casbin Require Import Base Roles.
Local Open Scope string_scope.

(* ---------- values ---------- *)
(* Go values that reach the evaluator: nil, string, float64 (integral here), bool,
   []interface{} and map[string]interface{} / struct values (is_struct = true).
   Representation invariants supplied by the harness: map fields sorted by key (fmt's order),
   struct fields in declaration order, numbers inside maps/structs are Go ints. *)
Inductive value :=
| VNil
| VStr (s : string)
| VNum (z : Z)
| VBool (b : bool)
| VList (l : list value)
| VObj (is_struct : bool) (fields : list (string * value)).

Inductive res := Ok (v : value) | Err | Panic.

(* reflect.DeepEqual *)
Fixpoint value_eqb (a b : value) {struct a} : bool :=
  match a, b with
  | VNil, VNil => true
  | VStr x, VStr y => String.eqb x y
  | VNum x, VNum y => Z.eqb x y
  | VBool x, VBool y => Bool.eqb x y
  | VList x, VList y =>
      (fix go (x y : list value) {struct x} : bool :=
         match x, y with
         | [], [] => true
         | a' :: x', b' :: y' => value_eqb a' b' && go x' y'
         | _, _ => false
         end) x y
  | VObj s x, VObj t y =>
      Bool.eqb s t &&
      (fix go (x y : list (string * value)) {struct x} : bool :=
         match x, y with
         | [], [] => true
         | (k, a') :: x', (k', b') :: y' => String.eqb k k' && value_eqb a' b' && go x' y'
         | _, _ => false
         end) x y
  | _, _ => false
  end.

(* Go `left == value` on two interface{} values (inStage): a run-time panic when both hold
   the same uncomparable dynamic type (two maps, two slices); structs used by the harness
   have scalar fields only and are comparable *)
Definition iface_eq (a b : value) : option bool :=
  match a, b with
  | VObj false _, VObj false _ => None
  | VList _, VList _ => None
  | _, _ => Some (value_eqb a b)
  end.

(* ---------- decimal printing of integers (fmt %v of an integral float64 below 1e6 / of an int) ---------- *)
Definition digit_char (n : N) : ascii := ascii_of_N (48 + n).
Fixpoint n_digits (fuel : nat) (n : N) (acc : string) : string :=
  match fuel with
  | 0 => acc
  | S f => let acc' := String (digit_char (N.modulo n 10)) acc in
           if N.ltb n 10 then acc' else n_digits f (N.div n 10) acc'
  end.
Definition n_to_string (n : N) : string := n_digits (S (N.size_nat n)) n "".
Definition z_to_string (z : Z) : string :=
  match z with
  | Z0 => "0"
  | Zpos p => n_to_string (Npos p)
  | Zneg p => String "-" (n_to_string (Npos p))
  end.

Fixpoint join_sp (l : list string) : string :=
  match l with
  | [] => ""
  | [x] => x
  | x :: t => x ++ String " " (join_sp t)
  end.

(* fmt.Sprintf("%v", v) *)
Fixpoint fmt_v (v : value) : string :=
  match v with
  | VNil => "<nil>"
  | VStr s => s
  | VNum z => z_to_string z
  | VBool b => if b then "true" else "false"
  | VList l => "[" ++ join_sp ((fix go (l : list value) : list string :=
                                  match l with [] => [] | x :: t => fmt_v x :: go t end) l) ++ "]"
  | VObj true fs => "{" ++ join_sp ((fix go (l : list (string * value)) : list string :=
                                  match l with [] => [] | (_, x) :: t => fmt_v x :: go t end) fs) ++ "}"
  | VObj false fs => "map[" ++ join_sp ((fix go (l : list (string * value)) : list string :=
                                  match l with [] => [] | (k, x) :: t => (k ++ String ":" (fmt_v x)) :: go t end) fs) ++ "]"
  end.

(* ---------- expressions ---------- *)
Inductive binop := OEq | ONe | OLt | OLe | OGt | OGe | OAnd | OOr | OAdd | OSub.

Inductive expr :=
| EVar (name : string)                       (* VARIABLE token: r_sub, p_obj, p2_act ... *)
| EAcc (base : string) (path : list string)  (* ACCESSOR token: r_sub.Age, r_obj.Owner.Name *)
| EStr (s : string)
| ENum (z : Z)
| EBool (b : bool)
| EBin (op : binop) (a b : expr)
| ENot (a : expr)
| EIn (a : expr) (l : list expr)
| ECall (f : string) (args : list expr).     (* g, g2, keyMatch, regexMatch, ..., eval *)

Definition is_literal (e : expr) : bool :=
  match e with EStr _ | ENum _ | EBool _ => true | _ => false end.

(* ---------- util.KeyMatch (builtin_operators.go:85): prefix up to the first '*' ---------- *)
Fixpoint index_star (s : string) : option nat :=
  match s with
  | EmptyString => None
  | String c t => if Ascii.eqb c "*"%char then Some 0 else option_map S (index_star t)
  end.
Definition key_match (key1 key2 : string) : bool :=
  match index_star key2 with
  | None => String.eqb key1 key2
  | Some i =>
      if Nat.ltb i (String.length key1)
      then String.eqb (substring 0 i key1) (substring 0 i key2)
      else String.eqb key1 (substring 0 i key2)
  end.

(* model/function.go LoadFunctionMap: name -> number of (string) arguments that
   validateVariadicArgs demands *)
Definition builtin_arity (f : string) : option nat :=
  if mem_str f ["keyMatch"; "keyMatch2"; "keyMatch3"; "keyMatch4"; "keyMatch5";
                "regexMatch"; "ipMatch"; "globMatch"; "keyGet"] then Some 2
  else if mem_str f ["keyGet2"; "keyGet3"] then Some 3
  else None.

Fixpoint all_strings (vs : list value) : option (list string) :=
  match vs with
  | [] => Some []
  | VStr s :: t => option_map (cons s) (all_strings t)
  | _ :: _ => None
  end.

(* ---------- evaluation environment: enforceParameters + the function map ---------- *)
Record env := {
  rtoks : list string;        (* e.model["r"][rType].Tokens *)
  rvals : list value;         (* the request *)
  ptoks : list string;        (* e.model["p"][pType].Tokens *)
  pvals : list string;        (* the policy rule under evaluation *)
  gdefs : list (string * (nat * list link));
                              (* role definitions: name -> (number of "_" in the definition:
                                 2 = RoleManagerImpl, 3 = DomainManager; links) *)
  eval_in_scope : bool        (* functions["eval"] is defined (hasEval of the matcher text) *)
}.

Definition with_pvals (en : env) (pv : list string) : env :=
  {| rtoks := rtoks en; rvals := rvals en; ptoks := ptoks en; pvals := pv;
     gdefs := gdefs en; eval_in_scope := eval_in_scope en |}.

(* rTokens / pTokens are Go maps filled in ascending index order: a repeated token keeps its
   LAST index *)
Fixpoint tok_index_from (tok : string) (toks : list string) (i : nat) (found : option nat) : option nat :=
  match toks with
  | [] => found
  | t :: rest => tok_index_from tok rest (S i) (if String.eqb tok t then Some i else found)
  end.
Definition tok_index (tok : string) (toks : list string) : option nat := tok_index_from tok toks 0 None.

(* enforceParameters.Get (enforcer.go:982) behind govaluate's sanitizedParameters *)
Definition get_param (en : env) (name : string) : res :=
  match name with
  | EmptyString => Ok VNil
  | String c _ =>
      if Ascii.eqb c "p"%char then
        match tok_index name (ptoks en) with
        | None => Err
        | Some i => match nth_error (pvals en) i with Some s => Ok (VStr s) | None => Panic end
        end
      else if Ascii.eqb c "r"%char then
        match tok_index name (rtoks en) with
        | None => Err
        | Some i => match nth_error (rvals en) i with Some v => Ok v | None => Panic end
        end
      else Err
  end.

Definition is_lower (c : ascii) : bool :=
  let n := nat_of_ascii c in Nat.leb 97 n && Nat.leb n 122.
Definition unexported (k : string) : bool :=
  match k with String c _ => is_lower c | EmptyString => false end.

(* makeAccessorStage: walk the path through structs and maps *)
Fixpoint access (v : value) (path : list string) : res :=
  match path with
  | [] => Ok v
  | k :: rest =>
      match v with
      | VObj st fs =>
          if st && unexported k then Err
          else match lookup k fs with
               | Some v' => access v' rest
               | None => Err
               end
      | _ => Err
      end
  end.

(* util.GenerateGFunction (builtin_operators.go:405) over RoleManagerImpl / DomainManager:
   every argument is asserted to be a string (panic otherwise), args[0] and args[1] must
   exist (panic otherwise); RoleManagerImpl ignores a domain argument, DomainManager uses
   the default domain "" when none is given *)
Definition g_call (count : nat) (ls : list link) (vs : list value) : res :=
  match all_strings vs with
  | None => Panic
  | Some (a :: b :: rest) =>
      Ok (VBool (match rest with
                 | [] => has_link ls a b ""
                 | d :: _ => if Nat.leb count 2 then has_link ls a b "" else has_link ls a b d
                 end))
  | Some _ => Panic
  end.

(* separatorStage: `a, b, c` builds []interface{}{a, b, c}; when the first element already is
   an array the others are appended to it *)
Definition tuple_of (vs : list value) : value :=
  match vs with
  | VList l :: (_ :: _) as t => VList (l ++ t)
  | _ => VList vs
  end.

(* makeFunctionStage: no clause content / a nil value -> f(); an array -> f(elems...);
   any other single value -> f(v) *)
Definition spread (vs : list value) : list value :=
  match vs with
  | [] => []
  | [VNil] => []
  | [VList l] => l
  | [v] => [v]
  | _ => match tuple_of vs with VList l => l | v => [v] end
  end.

Definition cmp_values (op : binop) (a b : value) : res :=
  let of_cmp (c : comparison) : bool :=
    match op, c with
    | OLt, Lt => true | OLe, Lt => true | OLe, Eq => true
    | OGt, Gt => true | OGe, Gt => true | OGe, Eq => true
    | _, _ => false
    end in
  match a, b with
  | VNum x, VNum y => Ok (VBool (of_cmp (Z.compare x y)))
  | VStr x, VStr y => Ok (VBool (of_cmp (String.compare x y)))
  | _, _ => Err
  end.

Definition is_str (v : value) : bool := match v with VStr _ => true | _ => false end.

Definition arith (op : binop) (a b : value) : res :=
  match op with
  | OAdd =>
      match a, b with
      | VNum x, VNum y => Ok (VNum (x + y))
      | _, _ => if is_str a || is_str b then Ok (VStr (fmt_v a ++ fmt_v b)) else Err
      end
  | _ =>
      match a, b with
      | VNum x, VNum y => Ok (VNum (x - y))
      | _, _ => Err
      end
  end.

(* inStage *)
Fixpoint in_list (a : value) (l : list value) : res :=
  match l with
  | [] => Ok (VBool false)
  | x :: t => match iface_eq a x with
              | None => Panic
              | Some true => Ok (VBool true)
              | Some false => in_list a t
              end
  end.

(* ---------- text helpers (util/util.go) ---------- *)
Definition is_digit (c : ascii) : bool := let n := nat_of_ascii c in Nat.leb 48 n && Nat.leb n 57.
Definition is_word (c : ascii) : bool :=
  let n := nat_of_ascii c in
  is_digit c || (Nat.leb 65 n && Nat.leb n 90) || (Nat.leb 97 n && Nat.leb n 122) || Nat.eqb n 95.
Definition is_rp (c : ascii) : bool := Ascii.eqb c "r"%char || Ascii.eqb c "p"%char.

(* EscapeAssertion: the regexp  \b ( (r|p) [0-9]* ) \.  with the dot replaced by '_'.
   A three-state scanner: at a word boundary, after (r|p) and digits, elsewhere. *)
Inductive esc_state := EIdle (prev_word : bool) | ECand.
Fixpoint escape_go (st : esc_state) (s : string) : string :=
  match s with
  | EmptyString => EmptyString
  | String c t =>
      match st with
      | EIdle pw =>
          if negb pw && is_rp c then String c (escape_go ECand t)
          else String c (escape_go (EIdle (is_word c)) t)
      | ECand =>
          if is_digit c then String c (escape_go ECand t)
          else if Ascii.eqb c "."%char then String "_"%char (escape_go (EIdle false) t)
          else String c (escape_go (EIdle (is_word c)) t)
      end
  end.
Definition escape (s : string) : string := escape_go (EIdle false) s.

Definition is_space (c : ascii) : bool :=
  let n := nat_of_ascii c in Nat.eqb n 32 || (Nat.leb 9 n && Nat.leb n 13).
Fixpoint trim_left (s : string) : string :=
  match s with
  | String c t => if is_space c then trim_left t else s
  | EmptyString => EmptyString
  end.
Fixpoint trim_right (s : string) : string :=
  match s with
  | EmptyString => EmptyString
  | String c t => match trim_right t with
                  | EmptyString => if is_space c then EmptyString else String c EmptyString
                  | t' => String c t'
                  end
  end.
Fixpoint before_hash (s : string) : option string :=   (* s[0:pos] when '#' occurs *)
  match s with
  | EmptyString => None
  | String c t => if Ascii.eqb c "#"%char then Some EmptyString
                  else option_map (String c) (before_hash t)
  end.
(* RemoveComments (ASCII white space only) *)
Definition remove_comments (s : string) : string :=
  match before_hash s with
  | None => s
  | Some h => trim_right (trim_left h)
  end.

(* strings.Contains *)
Fixpoint contains (needle hay : string) : bool :=
  prefix needle hay ||
  match hay with
  | EmptyString => false
  | String _ t => contains needle t
  end.

(* HasEval: the regexp  \b eval \( [^)]* \)  : the text eval( at a word boundary with a
   closing parenthesis somewhere behind it *)
Fixpoint has_eval_go (prev_word : bool) (s : string) : bool :=
  match s with
  | EmptyString => false
  | String c t =>
      (negb prev_word && prefix "eval(" s && contains ")" s) || has_eval_go (is_word c) t
  end.
Definition has_eval (s : string) : bool := has_eval_go false s.

(* ---------- compile-time checks of NewEvaluableExpressionWithFunctions that depend on the
   function map: a name followed by a clause must be a known function ---------- *)
Definition known_fn (gnames : list string) (eval_ok : bool) (f : string) : bool :=
  (eval_ok && String.eqb f "eval") || mem_str f gnames ||
  match builtin_arity f with Some _ => true | None => false end.

Fixpoint compile_ok (gnames : list string) (eval_ok : bool) (e : expr) : bool :=
  match e with
  | EVar _ | EAcc _ _ | EStr _ | ENum _ | EBool _ => true
  | EBin _ a b => compile_ok gnames eval_ok a && compile_ok gnames eval_ok b
  | ENot a => compile_ok gnames eval_ok a
  | EIn a l =>
      compile_ok gnames eval_ok a &&
      match l with [] => false | _ => true end &&
      (fix go (l : list expr) : bool :=
         match l with [] => true | x :: t => compile_ok gnames eval_ok x && go t end) l
  | ECall f args =>
      known_fn gnames eval_ok f &&
      (fix go (l : list expr) : bool :=
         match l with [] => true | x :: t => compile_ok gnames eval_ok x && go t end) args
  end.

Definition max_eval_nesting : nat := 100.   (* enforcer.go:1006 *)

(* ---------- the evaluator ---------- *)
Inductive tres := TOk (vs : list value) | TErr | TPanic.

Section Eval.
  (* the parser, for every text that gets compiled: matcher texts and eval() sub-rules *)
  Variable parse : string -> option expr.
  (* the built-in functions that are not modelled here (keyMatch2.., regexMatch, ipMatch,
     globMatch, keyGet..): name -> string arguments -> what the Go function returned *)
  Variable oracle : string -> list string -> res.

  Definition builtin (f : string) (vs : list value) : res :=
    match builtin_arity f with
    | None => Err
    | Some n =>
        if negb (Nat.eqb (List.length vs) n) then Err
        else match all_strings vs with
             | None => Err
             | Some ss =>
                 if String.eqb f "keyMatch"
                 then match ss with [a; b] => Ok (VBool (key_match a b)) | _ => Err end
                 else oracle f ss
             end
    end.

  Definition gnames_of (en : env) : list string := map fst (gdefs en).

  (* fuel = how many more nested eval() calls are allowed *)
  Fixpoint eval (fuel : nat) (en : env) : expr -> res :=
    fix ev (e : expr) : res :=
      let evl := fix evl (l : list expr) : tres :=
        match l with
        | [] => TOk []
        | x :: t => match ev x with
                    | Err => TErr
                    | Panic => TPanic
                    | Ok v => match evl t with
                              | TOk vs => TOk (v :: vs)
                              | r => r
                              end
                    end
        end in
      match e with
      | EVar name => get_param en name
      | EAcc base path =>
          match get_param en base with
          | Ok v => access v path
          | r => r
          end
      | EStr s => Ok (VStr s)
      | ENum z => Ok (VNum z)
      | EBool b => Ok (VBool b)
      | EBin OAnd a b =>
          match ev a with
          | Ok (VBool false) => Ok (VBool false)
          | Ok l => match ev b with
                    | Ok r => match l, r with
                              | VBool _, VBool rb => Ok (VBool rb)
                              | _, _ => Err
                              end
                    | r => r
                    end
          | r => r
          end
      | EBin OOr a b =>
          match ev a with
          | Ok (VBool true) => Ok (VBool true)
          | Ok l => match ev b with
                    | Ok r => match l, r with
                              | VBool _, VBool rb => Ok (VBool rb)
                              | _, _ => Err
                              end
                    | r => r
                    end
          | r => r
          end
      | EBin op a b =>
          match ev a with
          | Ok l => match ev b with
                    | Ok r =>
                        match op with
                        | OEq => Ok (VBool (value_eqb l r))
                        | ONe => Ok (VBool (negb (value_eqb l r)))
                        | OLt | OLe | OGt | OGe => cmp_values op l r
                        | _ => arith op l r
                        end
                    | r => r
                    end
          | r => r
          end
      | ENot a =>
          match ev a with
          | Ok (VBool b) => Ok (VBool (negb b))
          | Ok _ => Err
          | r => r
          end
      | EIn a l =>
          match ev a with
          | Ok lv =>
              let right :=
                match l with
                | [x] => if is_literal x
                         then match ev x with Ok v => Ok (VList [v]) | r => r end
                         else ev x
                | _ => match evl l with
                       | TOk vs => Ok (tuple_of vs)
                       | TErr => Err
                       | TPanic => Panic
                       end
                end in
              match right with
              | Ok (VList vs) => in_list lv vs
              | Ok _ => Err
              | r => r
              end
          | r => r
          end
      | ECall f args =>
          match evl args with
          | TErr => Err
          | TPanic => Panic
          | TOk vs =>
              let actual := spread vs in
              if eval_in_scope en && String.eqb f "eval" then
                match actual with
                | [a] =>
                    match fuel with
                    | 0 => Err            (* nested more than maxEvalNesting levels deep *)
                    | S fuel' =>
                        match a with
                        | VStr s =>
                            match parse (escape s) with
                            | Some e' =>
                                if compile_ok (gnames_of en) (eval_in_scope en) e'
                                then eval fuel' en e'
                                else Err
                            | None => Err
                            end
                        | _ => Err
                        end
                    end
                | _ => Err
                end
              else match lookup f (gdefs en) with
                   | Some (count, ls) => g_call count ls actual
                   | None => builtin f actual
                   end
          end
      end.
End Eval.
