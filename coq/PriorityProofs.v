(* PriorityProofs.v — with numeric priorities the listed rules stay sorted (and insertion is
   stable) under every operation; sorting by priority sorts; ordering by subject hierarchy
   terminates on every role graph. *)
From Coq Require Import List String Bool Arith ZArith Lia Sorted Permutation.
Import ListNotations.
From Casbin Require Import Base BaseProofs Store StoreProofs Priority Effect EffectProofs.

Definition pv (c : nat) (r : rule) : Z := match prio_of c r with Some v => v | None => 0%Z end.
Definition psorted (c : nat) (l : list rule) : Prop := StronglySorted Z.le (map (pv c) l).
Definition pnumeric (c : nat) (l : list rule) : Prop := Forall (fun r => prio_of c r <> None) l.

(* ---------- StronglySorted helpers ---------- *)
Lemma ss_app {A} (R : A -> A -> Prop) a b :
  StronglySorted R a -> StronglySorted R b -> (forall x y, In x a -> In y b -> R x y) ->
  StronglySorted R (a ++ b).
Proof.
  induction a as [|h t IH]; intros Ha Hb Hc; cbn [app]; [exact Hb|].
  inversion Ha; subst. constructor.
  - apply IH; [assumption|assumption|]. intros x y Hx Hy. apply Hc; [right; exact Hx|exact Hy].
  - apply Forall_app. split; [assumption|]. apply Forall_forall. intros y Hy. apply Hc; [left; reflexivity|exact Hy].
Qed.

Lemma ss_app_inv {A} (R : A -> A -> Prop) a b :
  StronglySorted R (a ++ b) ->
  StronglySorted R a /\ StronglySorted R b /\ (forall x y, In x a -> In y b -> R x y).
Proof.
  induction a as [|h t IH]; intros H; cbn [app] in H.
  - split; [constructor|]. split; [exact H|]. intros x y [].
  - inversion H; subst. destruct (IH H2) as [Ht [Hb Hc]]. apply Forall_app in H3 as [F1 F2].
    split; [constructor; assumption|]. split; [exact Hb|].
    intros x y [->|Hx] Hy; [eapply Forall_forall in F2; eassumption|apply Hc; assumption].
Qed.

Lemma ss_filter {A} (R : A -> A -> Prop) (f : A -> bool) l : StronglySorted R l -> StronglySorted R (filter f l).
Proof.
  induction 1 as [|a l Hs IH Hf]; cbn [filter]; [constructor|]. destruct (f a); [|exact IH].
  constructor; [exact IH|]. apply Forall_forall. intros x Hx. apply filter_In in Hx as [Hx _].
  eapply Forall_forall in Hf; eassumption.
Qed.

(* ---------- the priority bubble keeps the list sorted and is stable ---------- *)
Lemma prio_of_pv c r v : prio_of c r = Some v -> pv c r = v.
Proof. unfold pv. intros ->. reflexivity. Qed.

Lemma split_tail_bounds c v rl : forall mv rest,
  Forall (fun r => prio_of c r <> None) rl ->
  StronglySorted Z.ge (map (pv c) rl) ->
  split_tail c v rl = (mv, rest) ->
  (forall x, In x mv -> (v < pv c x)%Z) /\ (forall x, In x rest -> (pv c x <= v)%Z).
Proof.
  induction rl as [|x t IH]; intros mv rest Hn Hs H; cbn [split_tail] in H.
  - inversion H; subst. split; intros y [].
  - inversion Hn as [|? ? Hx Ht]; subst. cbn [map] in Hs. inversion Hs as [|? ? Hs' Hge]; subst.
    unfold prio_of in Hx. pose proof (prio_of_pv c x) as Hpv. unfold prio_of in Hpv.
    destruct (Nat.ltb c (List.length x)); [|congruence].
    destruct (atoi (nth c x ""%string)) as [vx|] eqn:Ea; [|congruence].
    specialize (Hpv vx eq_refl).
    destruct (vx <=? v)%Z eqn:El.
    + inversion H; subst. split; [intros y []|]. apply Z.leb_le in El.
      intros y [<-|Hy]; [lia|]. rewrite Forall_forall in Hge. specialize (Hge (pv c y) (in_map _ _ _ Hy)). lia.
    + destruct (split_tail c v t) as [mv' rest'] eqn:Es. inversion H; subst.
      destruct (IH mv' rest Ht Hs' eq_refl) as [H1 H2]. apply Z.leb_gt in El. split; [|exact H2].
      intros y Hy. apply in_app_iff in Hy as [Hy|[<-|[]]]; [apply H1; exact Hy|lia].
Qed.

Lemma ss_rev_ge l : StronglySorted Z.le l -> StronglySorted Z.ge (rev l).
Proof.
  induction 1 as [|a l Hs IH Hf]; cbn [rev]; [constructor|].
  apply ss_app; [exact IH|repeat constructor|].
  intros x y Hx [<-|[]]. apply in_rev in Hx. rewrite Forall_forall in Hf. specialize (Hf x Hx). lia.
Qed.

Theorem insert_sorted c l r v : pnumeric c l -> psorted c l -> prio_of c r = Some v ->
  psorted c (spec_insert (Some c) l r) /\
  exists pre suf, spec_insert (Some c) l r = pre ++ r :: suf /\ l = pre ++ suf /\
    (forall x, In x pre -> (pv c x <= v)%Z) /\ (forall x, In x suf -> (v < pv c x)%Z).
Proof.
  intros Hn Hs Hr. unfold spec_insert. rewrite Hr.
  destruct (split_tail c v (rev l)) as [mv rest] eqn:E.
  pose proof (split_tail_pol _ _ _ _ _ E) as El.
  assert (Hb : (forall x, In x mv -> (v < pv c x)%Z) /\ (forall x, In x rest -> (pv c x <= v)%Z)).
  { apply (split_tail_bounds c v (rev l) mv rest).
    - apply Forall_forall. intros x Hx. apply in_rev in Hx. eapply Forall_forall in Hn; eassumption.
    - rewrite map_rev. apply ss_rev_ge. exact Hs.
    - exact E. }
  destruct Hb as [Hmv Hrest].
  unfold psorted in *. rewrite El, map_app in Hs. apply ss_app_inv in Hs as [S1 [S2 S3]].
  split.
  - rewrite map_app. cbn [map]. apply ss_app; [exact S1| |].
    + constructor; [exact S2|]. apply Forall_forall. intros y Hy. apply in_map_iff in Hy as [x [<- Hx]].
      rewrite (prio_of_pv c r v Hr). specialize (Hmv x Hx). lia.
    + intros x y Hx [<-|Hy].
      * apply in_map_iff in Hx as [x0 [<- Hx0]]. rewrite (prio_of_pv c r v Hr). apply Hrest. apply in_rev. exact Hx0.
      * apply S3; assumption.
  - exists (rev rest), mv. split; [reflexivity|]. split; [exact El|]. split; [|exact Hmv].
    intros x Hx. apply Hrest. apply in_rev. exact Hx.
Qed.

(* removal, filtered removal and priority-preserving update keep the order sorted *)
Lemma psorted_remove c r l : psorted c l -> psorted c (remove_first r l).
Proof.
  unfold psorted. induction l as [|x t IH]; intros H; cbn [remove_first map]; [exact H|].
  cbn [map] in H. inversion H; subst. destruct (rule_eqb r x); [assumption|].
  cbn [map]. constructor; [apply IH; assumption|].
  apply Forall_forall. intros y Hy. apply in_map_iff in Hy as [z [<- Hz]].
  assert (In z t).
  { clear - Hz. induction t as [|w t IH]; cbn [remove_first] in Hz; [contradiction|].
    destruct (rule_eqb r w); [right; exact Hz|]. destruct Hz as [->|Hz]; [left; reflexivity|right; auto]. }
  eapply Forall_forall in H3; [eassumption|]. apply in_map. assumption.
Qed.

Lemma psorted_filter c (f : rule -> bool) l : psorted c l -> psorted c (filter f l).
Proof.
  unfold psorted. induction l as [|x t IH]; intros H; cbn [filter map]; [exact H|].
  cbn [map] in H. inversion H; subst. destruct (f x); [|apply IH; assumption].
  cbn [map]. constructor; [apply IH; assumption|].
  apply Forall_forall. intros y Hy. apply in_map_iff in Hy as [z [<- Hz]]. apply filter_In in Hz as [Hz _].
  eapply Forall_forall in H3; [eassumption|]. apply in_map. assumption.
Qed.

Lemma psorted_replace c o n l : pv c o = pv c n -> psorted c l -> psorted c (replace_first o n l).
Proof.
  unfold psorted. intros E H.
  assert (M : map (pv c) (replace_first o n l) = map (pv c) l).
  { clear H. induction l as [|x t IH]; cbn [replace_first map]; [reflexivity|].
    destruct (rule_eqb o x) eqn:Eo; cbn [map].
    - apply rule_eqb_eq in Eo. subst x. rewrite E. reflexivity.
    - rewrite IH. reflexivity. }
  rewrite M. exact H.
Qed.

(* the witness of F11: an update that changes the priority keeps the slot *)
Example update_priority_refuted :
  let l := [["5"; "a"]; ["10"; "b"]]%string in
  replace_first ["5"; "a"]%string ["20"; "a"]%string l = [["20"; "a"]; ["10"; "b"]]%string /\
  ~ psorted 0 [["20"; "a"]; ["10"; "b"]]%string.
Proof.
  split; [reflexivity|]. unfold psorted. intros H. vm_compute in H.
  apply StronglySorted_inv in H as [_ F]. inversion F as [|? ? Hle _]; subst. vm_compute in Hle. apply Hle. reflexivity.
Qed.

(* ---------- sorting a loaded policy ---------- *)
Lemma sink_perm less x l : Permutation (sink less x l) (x :: l).
Proof.
  induction l as [|y t IH]; cbn [sink]; [reflexivity|]. destruct (less x y); [|reflexivity].
  rewrite IH. apply perm_swap.
Qed.

Lemma insertion_sort_perm less l : Permutation (insertion_sort less l) l.
Proof.
  unfold insertion_sort. rewrite <- Permutation_rev.
  assert (H : forall acc, Permutation (fold_left (fun acc x => sink less x acc) l acc) (rev l ++ acc)).
  { induction l as [|x t IH]; intros acc; cbn [fold_left rev app]; [reflexivity|].
    rewrite IH, <- app_assoc. cbn [app]. apply Permutation_app_head. apply sink_perm. }
  rewrite H, app_nil_r. symmetry. apply Permutation_rev.
Qed.

(* on numeric priorities the reversed prefix stays sorted downwards *)
Lemma sink_sorted c x l : prio_of c x <> None -> Forall (fun r => prio_of c r <> None) l ->
  StronglySorted Z.ge (map (pv c) l) -> StronglySorted Z.ge (map (pv c) (sink (prio_less c) x l)).
Proof.
  intros Hx Hn Hs. induction l as [|y t IH]; cbn [sink map]; [repeat constructor|].
  inversion Hn as [|? ? Hy Ht]; subst. cbn [map] in Hs. inversion Hs as [|? ? Hs' Hge]; subst.
  assert (Hl : prio_less c x y = (pv c x <? pv c y)%Z).
  { unfold prio_less, pv, prio_of in *.
    destruct (Nat.ltb c (List.length x)) eqn:Lx; [|congruence].
    destruct (Nat.ltb c (List.length y)) eqn:Ly; [|congruence].
    destruct (atoi (nth c x ""%string)); [|congruence]. destruct (atoi (nth c y ""%string)); [|congruence]. reflexivity. }
  rewrite Hl. destruct (pv c x <? pv c y)%Z eqn:E.
  - apply Z.ltb_lt in E. cbn [map]. constructor; [apply IH; assumption|].
    apply Forall_forall. intros z Hz. apply in_map_iff in Hz as [w [<- Hw]].
    apply (Permutation_in _ (sink_perm _ x t)) in Hw. destruct Hw as [<-|Hw]; [lia|].
    rewrite Forall_forall in Hge. specialize (Hge (pv c w) (in_map _ _ _ Hw)). exact Hge.
  - apply Z.ltb_ge in E. cbn [map]. constructor; [constructor; assumption|].
    constructor; [lia|]. apply Forall_forall. intros z Hz. rewrite Forall_forall in Hge. specialize (Hge z Hz). lia.
Qed.

Lemma ss_rev_le l : StronglySorted Z.ge l -> StronglySorted Z.le (rev l).
Proof.
  induction 1 as [|a l Hs IH Hf]; cbn [rev]; [constructor|].
  apply ss_app; [exact IH|repeat constructor|].
  intros x y Hx [<-|[]]. apply in_rev in Hx. rewrite Forall_forall in Hf. specialize (Hf x Hx). lia.
Qed.

Theorem sort_by_priority_sorted c l : pnumeric c l ->
  psorted c (sort_by_priority c l) /\ Permutation (sort_by_priority c l) l.
Proof.
  intros Hn. split; [|apply insertion_sort_perm].
  unfold psorted, sort_by_priority, insertion_sort. rewrite map_rev. apply ss_rev_le.
  assert (H : forall acc, Forall (fun r => prio_of c r <> None) acc -> StronglySorted Z.ge (map (pv c) acc) ->
     StronglySorted Z.ge (map (pv c) (fold_left (fun acc x => sink (prio_less c) x acc) l acc)) ).
  { unfold pnumeric in Hn. induction l as [|x t IH]; intros acc Ha Hs; cbn [fold_left]; [exact Hs|].
    inversion Hn; subst. apply IH; [assumption| |apply sink_sorted; assumption].
    apply Forall_forall. intros y Hy. apply (Permutation_in _ (sink_perm _ x acc)) in Hy.
    destruct Hy as [<-|Hy]; [assumption|eapply Forall_forall in Ha; eassumption]. }
  apply H; constructor.
Qed.

(* ---------- the rule that decides ---------- *)
(* In a list sorted by priority the first matched determinate rule has the least priority among
   all matched determinate rules, and comes first among those of equal priority. *)
Theorem first_is_least c (l : list rule) (v : list (bool * eft)) i :
  psorted c l -> List.length v = List.length l ->
  first_idx det v 0 = Some i ->
  forall j x, nth_error v j = Some x -> det x = true ->
    i <= j /\ (pv c (nth i l []) <= pv c (nth j l []))%Z.
Proof.
  intros Hs Hlen Hi j x Hj Hd.
  apply first_idx_Some in Hi as [_ [[y [Hy Py]] Hmin]]. rewrite Nat.sub_0_r in *.
  assert (Hij : i <= j).
  { destruct (Nat.le_gt_cases i j) as [H|H]; [exact H|]. specialize (Hmin j x H Hj). congruence. }
  split; [exact Hij|].
  assert (Hjl : j < List.length l) by (rewrite <- Hlen; apply nth_error_Some; congruence).
  unfold psorted in Hs.
  destruct (Nat.eq_dec i j) as [->|Hne]; [lia|].
  assert (Hlt : i < j) by lia. clear - Hs Hlt Hjl.
  revert i j Hlt Hjl. induction l as [|a t IH]; intros i j Hlt Hjl; [cbn in Hjl; lia|].
  cbn [map] in Hs. inversion Hs; subst. destruct j as [|j]; [lia|]. destruct i as [|i]; cbn [nth].
  - rewrite Forall_forall in H2. apply H2. apply in_map. apply nth_In. cbn in Hjl. lia.
  - apply IH; [assumption|lia|cbn in Hjl; lia].
Qed.

(* ---------- subject hierarchy: ordering always terminates ---------- *)
Lemma levels_fuel pm n fuel : forall lv level m, n < lv + fuel -> levels pm n fuel lv level m <> HOutOfFuel.
Proof.
  induction fuel as [|f IH]; intros lv level m H; cbn [levels]; destruct level as [|x t]; try discriminate.
  - destruct (Nat.ltb n lv) eqn:E; [discriminate|]. apply Nat.ltb_ge in E. lia.
  - destruct (Nat.ltb n lv) eqn:E; [discriminate|]. apply IH. lia.
Qed.

Lemma all_roots_fuel pm n roots : forall m, all_roots pm n roots m <> HOutOfFuel.
Proof.
  induction roots as [|k t IH]; intros m; cbn [all_roots]; [discriminate|].
  destruct (lookup k m) as [[|v]|]; try apply IH.
  destruct (levels pm n (S n) 0 [k] m) eqn:E; [apply IH|discriminate|].
  exfalso. apply (levels_fuel pm n (S n) 0 [k] m); [lia|exact E].
Qed.

Theorem hierarchy_terminates gs : hierarchy_map gs <> HOutOfFuel.
Proof.
  unfold hierarchy_map. destruct (hier_init gs [] []) as [[m pm]|]; [apply all_roots_fuel|discriminate].
Qed.

(* a cycle below a root is reported as an error, a tree is levelled *)
Example hierarchy_cycle_is_error :
  hierarchy_map [["a"; "r"]; ["b"; "a"]; ["a"; "b"]]%string = HErr.
Proof. reflexivity. Qed.
Example hierarchy_tree_levels :
  sort_by_hierarchy [["alice"; "admin"]; ["admin"; "root"]]%string None
    [["root"; "d"]; ["alice"; "d"]; ["admin"; "d"]; ["zed"; "d"]]%string
  = Some [["alice"; "d"]; ["admin"; "d"]; ["root"; "d"]; ["zed"; "d"]]%string.
Proof. reflexivity. Qed.

(* ---------- every history keeps the order ---------- *)
Definition num_rule (c : nat) (r : rule) : Prop := prio_of c r <> None.

(* the calls the statement covers: additions and removals of rules with numeric priority,
   updates that keep the priority (F11 otherwise) *)
Definition prio_ok (c : nat) (op : sop) : Prop :=
  match op with
  | OAdd r => num_rule c r
  | OAddMany rs | OAddManyEx rs => Forall (num_rule c) rs
  | ORemove _ | ORemoveMany _ | ORemoveFiltered _ _ | OClear => True
  | OUpdate o n => num_rule c n /\ pv c o = pv c n
  | OUpdateMany os ns => Forall (num_rule c) ns /\ map (pv c) os = map (pv c) ns
  end.

Definition SortedNum (c : nat) (l : list rule) : Prop := pnumeric c l /\ psorted c l.

Lemma SortedNum_insert c l r : SortedNum c l -> num_rule c r -> SortedNum c (spec_insert (Some c) l r).
Proof.
  intros [Hn Hs] Hr. unfold num_rule in Hr. destruct (prio_of c r) as [v|] eqn:E; [|congruence]. split.
  - apply Forall_forall. intros x Hx. apply spec_insert_In in Hx as [->|Hx]; [congruence|].
    eapply Forall_forall in Hn; eassumption.
  - apply (insert_sorted c l r v Hn Hs E).
Qed.

Lemma SortedNum_add_many c rs : forall l, SortedNum c l -> Forall (num_rule c) rs ->
  SortedNum c (fst (spec_add_many (Some c) l rs)).
Proof.
  induction rs as [|r t IH]; intros l H F; cbn [spec_add_many fst]; [exact H|]. inversion F; subst.
  destruct (mem_rule r l); [apply IH; assumption|].
  specialize (IH (spec_insert (Some c) l r) (SortedNum_insert c l r H H2) H3).
  destruct (spec_add_many (Some c) (spec_insert (Some c) l r) t). exact IH.
Qed.

Lemma remove_first_In_sub r l x : In x (remove_first r l) -> In x l.
Proof.
  induction l as [|w t IH]; cbn [remove_first]; [tauto|].
  destruct (rule_eqb r w); [right; assumption|]. intros [->|H]; [left; reflexivity|right; auto].
Qed.

Lemma SortedNum_remove c l r : SortedNum c l -> SortedNum c (remove_first r l).
Proof.
  intros [Hn Hs]. split; [|apply psorted_remove; exact Hs].
  apply Forall_forall. intros x Hx. apply remove_first_In_sub in Hx. eapply Forall_forall in Hn; eassumption.
Qed.

Lemma SortedNum_remove_many c rs : forall l, SortedNum c l -> SortedNum c (fst (spec_remove_many l rs)).
Proof.
  induction rs as [|r t IH]; intros l H; cbn [spec_remove_many fst]; [exact H|].
  specialize (IH (remove_first r l) (SortedNum_remove c l r H)).
  destruct (spec_remove_many (remove_first r l) t). exact IH.
Qed.

Lemma SortedNum_replace c l o n : SortedNum c l -> num_rule c n -> pv c o = pv c n -> SortedNum c (replace_first o n l).
Proof.
  intros [Hn Hs] Hnum E. split; [|apply psorted_replace; assumption].
  apply Forall_forall. intros x Hx. apply replace_first_In in Hx as [->|Hx]; [exact Hnum|].
  eapply Forall_forall in Hn; eassumption.
Qed.

Lemma SortedNum_update_many c os : forall ns l l', SortedNum c l -> Forall (num_rule c) ns ->
  map (pv c) os = map (pv c) ns -> spec_update_many l os ns = Some l' -> SortedNum c l'.
Proof.
  induction os as [|o os' IH]; intros ns l l' H F E Hs; destruct ns as [|n ns']; cbn [spec_update_many] in Hs;
    try (inversion Hs; subst; exact H); try discriminate.
  destruct (mem_rule o l); [|discriminate]. inversion F; subst. cbn [map] in E. inversion E.
  apply (IH ns' (replace_first o n l) l'); try assumption. apply SortedNum_replace; assumption.
Qed.

Lemma SortedNum_filter c (f : rule -> bool) l : SortedNum c l -> SortedNum c (filter f l).
Proof.
  intros [Hn Hs]. split; [|apply psorted_filter; exact Hs].
  apply Forall_forall. intros x Hx. apply filter_In in Hx as [Hx _]. eapply Forall_forall in Hn; eassumption.
Qed.

Theorem spec_step_sorted c l op : SortedNum c l -> prio_ok c op -> SortedNum c (fst (spec_step (Some c) l op)).
Proof.
  intros H G. destruct op as [r|rs|rs|r|rs|o n|os ns|fi fvs|]; cbn [prio_ok] in G; cbn [spec_step].
  - destruct (mem_rule r l); cbn [fst]; [exact H|apply SortedNum_insert; assumption].
  - destruct (existsb _ rs); cbn [fst]; [exact H|apply SortedNum_add_many; assumption].
  - cbn [fst]. apply SortedNum_add_many; assumption.
  - cbn [fst]. apply SortedNum_remove; assumption.
  - destruct (existsb _ rs); cbn [fst]; [apply SortedNum_remove_many; assumption|exact H].
  - cbn [fst]. destruct G. apply SortedNum_replace; assumption.
  - destruct G as [F E]. destruct (Nat.eqb _ _); cbn [fst]; [|exact H].
    destruct (spec_update_many l os ns) as [l'|] eqn:Es; cbn [fst]; [|exact H].
    eapply SortedNum_update_many; eassumption.
  - destruct fvs; cbn [fst]; [exact H|apply SortedNum_filter; exact H].
  - cbn [fst]. split; constructor.
Qed.

Fixpoint prio_oks (c : nat) (ops : list sop) : Prop :=
  match ops with [] => True | op :: t => prio_ok c op /\ prio_oks c t end.

Theorem run_spec_sorted c ops : forall l, SortedNum c l -> prio_oks c ops ->
  SortedNum c (fst (run_spec (Some c) l ops)).
Proof.
  induction ops as [|op t IH]; intros l H G; cbn [run_spec fst]; [exact H|]. destruct G as [G1 G2].
  pose proof (spec_step_sorted c l op H G1) as H1.
  destruct (spec_step (Some c) l op) as [l1 r1]. cbn [fst] in H1.
  specialize (IH l1 H1 G2). destruct (run_spec (Some c) l1 t). exact IH.
Qed.

(* the headline: from an empty policy or from any loaded-and-sorted policy, after any sequence
   of guarded calls on the real store model the listed rules are sorted by priority *)
Theorem sorted_invariant c ops s : Inv s -> SortedNum c (pol s) -> guards (Some c) (pol s) ops -> prio_oks c ops ->
  SortedNum c (pol (fst (run_api (Some c) s ops))).
Proof.
  intros I H G P. destruct (run_refines (Some c) ops s I G) as [_ [E _]]. rewrite E.
  apply run_spec_sorted; assumption.
Qed.

Lemma SortedNum_nil c : SortedNum c [].
Proof. split; constructor. Qed.
