(* Run by ./check C02 only when Properties/C02Gen.v no longer compiles: looks for an input on
   which the translated MergeEffects (Gen/GoFuns.v) and the hand-written model Effect.merge
   differ -- every effect text x every vector of length <= 4 x every index.  Evaluation, not
   proof: it supports the replay of the violation. *)
From Coq Require Import List String ZArith.
From Casbin Require Import Effect GoLite Gen.GoFuns GoLiteEffector.
Import ListNotations.
Definition cex := (sweep MergeEffects 1 ++ sweep MergeEffects 2 ++ sweep MergeEffects 3 ++ sweep MergeEffects 4)%list.
Definition show (c : string * list slot * nat) :=
  let '(s, v, i) := c in
  (s, v, i, call MergeEffects (merge_args s v i (List.length v)) (40 + List.length v),
   enc_result (merge (classify s) (map entry_of v) i (List.length v))).
Eval vm_compute in (List.length cex, option_map show (hd_error cex)).
