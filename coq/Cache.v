(* Cache.v — executable model of the decision cache of casbin:
     enforcer_cached.go          CachedEnforcer          (variant Plain)
     enforcer_cached_synced.go   SyncedCachedEnforcer    (variant Synced)
     persist/cache/default-cache.go, cache_sync.go       (one sequential map model for both)
   plus the short specification vocabulary (invalidates, quiet, no_collision, respects_for), the
   guards on key texts (sep_safe for strings, ctx_req for requests carrying an EnforceContext) and
   the two test fixtures used by the correspondence check (the basic ACL model, acl_..., and a
   model with several request / policy / effect / matcher sections selected by a leading
   EnforceContext, cx_..., as underlying enforcers).
   Definitions only; proofs are in CacheProofs.v.

   The underlying enforcer is abstract: a state type U, a decision function
   uenforce : U -> list param -> option bool (None = Enforce returned an error) and a
   transformer ustep : U -> ucall M -> U * uret for the management calls the wrappers forward.
   All theorems are stated for arbitrary U / uenforce / ustep (Section variables). *)
From Coq Require Import List String Ascii Bool Arith ZArith.
Import ListNotations.
Open Scope string_scope.

(* ------------------------------------------------------------------------------------ *)
(* Go's interface{} values as they reach Enforce / GetCacheKey / RemovePolicy / AddPolicy *)
(* ------------------------------------------------------------------------------------ *)
Inductive param :=
| PStr (s : string)                    (* a string *)
| PCtx (rt pt et mt : string)          (* casbin.EnforceContext (a CacheableParam) *)
| PKey (text : string)                 (* any other CacheableParam; text = GetCacheKey() *)
| PSlice (l : list string)             (* a []string (the one-slice calling convention) *)
| PNon (n : nat).                      (* any other value: int, struct, ... *)

(* enforcer.go:68  "EnforceContext{" + RType + "-" + PType + "-" + EType + "-" + MType + "}" *)
Definition ctx_text (rt pt et mt : string) : string :=
  "EnforceContext{" ++ rt ++ "-" ++ pt ++ "-" ++ et ++ "-" ++ mt ++ "}".

(* the three cases of the type switch in GetCacheKey *)
Definition ptext (p : param) : option string :=
  match p with
  | PStr s => Some s
  | PCtx a b c d => Some (ctx_text a b c d)
  | PKey t => Some t
  | PSlice _ | PNon _ => None
  end.

(* the terminator written after every parameter *)
Definition sep : string := "$$".

(* GetCacheKey: ("", false) as soon as one parameter is neither string nor CacheableParam *)
Fixpoint get_key (ps : list param) : option string :=
  match ps with
  | [] => Some ""
  | p :: rest =>
      match ptext p with
      | None => None
      | Some t => match get_key rest with
                  | None => None
                  | Some k => Some (t ++ sep ++ k)
                  end
      end
  end.

Fixpoint key_of_texts (l : list string) : string :=
  match l with
  | [] => ""
  | t :: rest => t ++ sep ++ key_of_texts rest
  end.

(* ---------------------------------- guards on key texts ------------------------------ *)
Definition is_dollar (c : ascii) : bool := Ascii.eqb c "$"%char.

(* exact guard: every '$' is followed by a character other than '$'
   (= the text contains no "$$" and does not end in '$') *)
Fixpoint sep_safe (s : string) : bool :=
  match s with
  | EmptyString => true
  | String c s' =>
      if is_dollar c then
        match s' with
        | EmptyString => false
        | String d _ => negb (is_dollar d) && sep_safe s'
        end
      else sep_safe s'
  end.

(* the simple guard of the design: no '$' at all *)
Fixpoint dollar_free (s : string) : bool :=
  match s with
  | EmptyString => true
  | String c s' => negb (is_dollar c) && dollar_free s'
  end.

(* a request made of strings only, each of them sep_safe *)
Definition plain_req (r : list param) : bool :=
  forallb (fun p => match p with PStr s => sep_safe s | _ => false end) r.

(* ------------------- guards on requests that carry an EnforceContext ------------------ *)
(* The key text of a context is "EnforceContext{" RT "-" PT "-" ET "-" MT "}".  It is read back
   unambiguously when the first three names contain no '-' (the fourth may contain anything:
   it is what is left between the third '-' and the final '}'), and a STRING parameter is told
   apart from a context when it does not itself spell such a text. *)
Definition is_dash (c : ascii) : bool := Ascii.eqb c "-"%char.

Fixpoint dash_free (s : string) : bool :=
  match s with
  | EmptyString => true
  | String c s' => negb (is_dash c) && dash_free s'
  end.

(* s = p ++ rest *)
Fixpoint strip_prefix (p s : string) : option string :=
  match p with
  | EmptyString => Some s
  | String c p' =>
      match s with
      | EmptyString => None
      | String d s' => if Ascii.eqb c d then strip_prefix p' s' else None
      end
  end.

(* split at the first '-' *)
Fixpoint split_dash (s : string) : option (string * string) :=
  match s with
  | EmptyString => None
  | String c s' =>
      if is_dash c then Some (EmptyString, s')
      else match split_dash s' with
           | Some (a, b) => Some (String c a, b)
           | None => None
           end
  end.

(* s = d ++ "}" *)
Fixpoint strip_brace (s : string) : option string :=
  match s with
  | EmptyString => None
  | String c s' =>
      match strip_brace s' with
      | Some d => Some (String c d)
      | None =>
          match s' with
          | EmptyString => if Ascii.eqb c "}"%char then Some EmptyString else None
          | String _ _ => None
          end
      end
  end.

(* the canonical reading of a context key text: names up to the first three dashes *)
Definition parse_ctx (s : string) : option (string * string * string * string) :=
  match strip_prefix "EnforceContext{" s with
  | None => None
  | Some t0 =>
      match split_dash t0 with
      | None => None
      | Some (a, t1) =>
          match split_dash t1 with
          | None => None
          | Some (b, t2) =>
              match split_dash t2 with
              | None => None
              | Some (c, t3) =>
                  match strip_brace t3 with
                  | None => None
                  | Some d => Some (a, b, c, d)
                  end
              end
          end
      end
  end.

(* the string spells the key text of some EnforceContext *)
Definition ctx_shaped (s : string) : bool :=
  match parse_ctx s with Some _ => true | None => false end.

(* a parameter of a request made of strings and EnforceContext values, inside the guards:
     string   every '$' is followed by another character, and it is not a context key text
     context  RType, PType, EType contain no '-', and the whole key text is sep_safe
              (no "$$" inside a name, no '$' at the end of a name that is followed by "-$",
              which is the same condition as for strings, read on the text that is written) *)
Definition ctx_param_ok (p : param) : bool :=
  match p with
  | PStr s => sep_safe s && negb (ctx_shaped s)
  | PCtx a b c d => dash_free a && dash_free b && dash_free c && sep_safe (ctx_text a b c d)
  | PKey _ | PSlice _ | PNon _ => false
  end.

Definition ctx_req (r : list param) : bool := forallb ctx_param_ok r.

(* parser used by the injectivity proof: split at the first "$$" *)
Fixpoint split_sep (s : string) : option (string * string) :=
  match s with
  | EmptyString => None
  | String c s' =>
      let continue_ :=
        match split_sep s' with
        | Some (a, b) => Some (String c a, b)
        | None => None
        end in
      if is_dollar c then
        match s' with
        | EmptyString => None
        | String d rest => if is_dollar d then Some (EmptyString, rest) else continue_
        end
      else continue_
  end.

(* ------------------------------------------------------------------------------------ *)
(* persist/cache: DefaultCache (a Go map) / SyncCache (the same map behind a RWMutex)     *)
(* ------------------------------------------------------------------------------------ *)
Record entry := mk_entry { e_val : bool; e_ttl : Z; e_exp : Z }.
Notation cache := (list (string * entry)) (only parsing).

Fixpoint lookup (k : string) (c : cache) : option entry :=
  match c with
  | [] => None
  | (k', e) :: t => if String.eqb k k' then Some e else lookup k t
  end.

(* Delete (ErrNoSuchKey is ignored by every caller in the wrappers) *)
Definition delete (k : string) (c : cache) : cache :=
  filter (fun p => negb (String.eqb k (fst p))) c.

(* Set(key, value, extra...): ttl := -1 unless extra[0] is given; expiresAt := now + ttl *)
Definition cache_set (k : string) (v : bool) (extra : option Z) (now : Z) (c : cache) : cache :=
  let ttl := match extra with Some d => d | None => (-1)%Z end in
  (k, mk_entry v ttl (now + ttl)%Z) :: delete k c.

(* Get: miss when absent; when ttl > 0 and now is after expiresAt the item is deleted and it
   is a miss; otherwise the value *)
Definition cache_get (k : string) (now : Z) (c : cache) : cache * option bool :=
  match lookup k c with
  | None => (c, None)
  | Some e =>
      if ((0 <? e_ttl e)%Z && (e_exp e <? now)%Z)%bool then (delete k c, None)
      else (c, Some (e_val e))
  end.

(* ------------------------------------------------------------------------------------ *)
(* the wrappers                                                                          *)
(* ------------------------------------------------------------------------------------ *)
Inductive variant := Plain | Synced.

(* what the underlying enforcer is asked to do by a wrapper *)
Inductive ucall (M : Type) :=
| ULoad | UClear
| UAdd (ps : list param) | UAddMany (rules : list (list string))
| URemove (ps : list param) | URemoveMany (rules : list (list string))
| UOther (m : M).
Arguments ULoad {M}. Arguments UClear {M}. Arguments UAdd {M}. Arguments UAddMany {M}.
Arguments URemove {M}. Arguments URemoveMany {M}. Arguments UOther {M}.

Inductive uret := URet (ok err : bool) | UPanic.

Inductive out :=
| ODec (b err : bool)      (* Enforce: (decision, err != nil) *)
| ORet (ok err : bool)     (* management call: (bool result or true, err != nil) *)
| OPanic.                  (* the call panicked *)

Definition out_of_u (o : option bool) : out :=
  match o with Some b => ODec b false | None => ODec false true end.
Definition out_of_ret (r : uret) : out :=
  match r with URet ok err => ORet ok err | UPanic => OPanic end.

(* ruleParams: a single []string is spread into one parameter per field *)
Definition rule_params (ps : list param) : list param :=
  match ps with
  | [PSlice l] => map PStr l
  | _ => ps
  end.

(* RemovePolicy (both) / checkOneAndRemoveCache (synced): getKey(ruleParams(params)...),
   Delete when ok *)
Definition check_one (ps : list param) (c : cache) : cache :=
  match get_key (rule_params ps) with
  | Some k => delete k c
  | None => c
  end.

(* RemovePolicies (plain) / checkManyAndRemoveCache (synced):
     for _, rule := range rules { irule := make([]interface{}, len(rule))
                                  for i, param := range rule { irule[i] = param }
                                  key, _ := getKey(irule...); cache.Delete(key) }
   one key buffer per rule, all of its entries strings, so the key of a rule is always built
   from that rule alone. *)
Definition keys_of_batch (rules : list (list string)) : list string :=
  map key_of_texts rules.

Definition delete_all (ks : list string) (c : cache) : cache :=
  fold_left (fun c k => delete k c) ks c.

Definition check_many (rules : list (list string)) (c : cache) : cache :=
  delete_all (keys_of_batch rules) c.

Definition mem_str (k : string) (l : list string) : bool := existsb (String.eqb k) l.
Definition key_is (o : option string) (k : string) : bool :=
  match o with Some k' => String.eqb k k' | None => false end.

Section Wrapper.
  Variable U : Type.                  (* state of the underlying (Synced)Enforcer *)
  Variable M : Type.                  (* its mutators that the wrappers do not override *)
  Variable uenforce : U -> list param -> option bool.
  Variable ustep : U -> ucall M -> U * uret.

  Record state := mk_state {
    ust : U;
    cache_of : list (string * entry);
    enabled : bool;                   (* enableCache != 0 *)
    expire : Z                        (* expireTime *)
  }.

  Inductive op :=
  | Enforce (now : Z) (r : list param)     (* now = the clock at the moment of the call *)
  | InvalidateCache
  | LoadPolicy
  | ClearPolicy
  | RemovePolicy (ps : list param)
  | RemovePolicies (rules : list (list string))
  | AddPolicy (ps : list param)
  | AddPolicies (rules : list (list string))
  | EnableCache (b : bool)
  | SetExpireTime (d : Z)
  | Passthrough (m : M).               (* RemoveNamedPolicy, RemoveFilteredPolicy, UpdatePolicy ... *)

  (* NewCachedEnforcer / NewSyncedCachedEnforcer: enableCache = 1, empty cache, expireTime 0 *)
  Definition init (u : U) : state := mk_state u [] true 0%Z.

  Definition set_cache (s : state) (c : list (string * entry)) : state :=
    mk_state (ust s) c (enabled s) (expire s).

  (* forward a call to the embedded enforcer, with the cache as the wrapper left it *)
  Definition with_u (s : state) (call : ucall M) (c : list (string * entry)) : state * out :=
    let (u', r) := ustep (ust s) call in
    (mk_state u' c (enabled s) (expire s), out_of_ret r).

  (* (Synced)CachedEnforcer.Enforce *)
  Definition enforce_step (s : state) (now : Z) (r : list param) : state * out :=
    if negb (enabled s) then (s, out_of_u (uenforce (ust s) r))
    else
      match get_key r with
      | None => (s, out_of_u (uenforce (ust s) r))
      | Some k =>
          match cache_get k now (cache_of s) with
          | (c, Some v) => (set_cache s c, ODec v false)
          | (c, None) =>
              match uenforce (ust s) r with
              | None => (set_cache s c, ODec false true)
              | Some b => (set_cache s (cache_set k b (Some (expire s)) now c), ODec b false)
              end
          end
      end.

  Definition step (v : variant) (s : state) (o : op) : state * out :=
    match o with
    | Enforce now r => enforce_step s now r
    | InvalidateCache => (set_cache s [], ORet true false)
    | LoadPolicy => with_u s ULoad []
    | ClearPolicy => with_u s UClear []
    | RemovePolicy ps => with_u s (URemove ps) (check_one ps (cache_of s))
    | RemovePolicies rules => with_u s (URemoveMany rules) (check_many rules (cache_of s))
    | AddPolicy ps =>
        match v with
        | Synced => with_u s (UAdd ps) (check_one ps (cache_of s))
        | Plain => with_u s (UAdd ps) (cache_of s)           (* not overridden *)
        end
    | AddPolicies rules =>
        match v with
        | Synced => with_u s (UAddMany rules) (check_many rules (cache_of s))
        | Plain => with_u s (UAddMany rules) (cache_of s)    (* not overridden *)
        end
    | EnableCache b => (mk_state (ust s) (cache_of s) b (expire s), ORet true false)
    | SetExpireTime d => (mk_state (ust s) (cache_of s) (enabled s) d, ORet true false)
    | Passthrough m => with_u s (UOther m) (cache_of s)
    end.

  Definition run (v : variant) (s : state) (h : list op) : state :=
    fold_left (fun s o => fst (step v s o)) h s.

  (* ------------------------------ specification vocabulary -------------------------- *)

  (* the invalidation events the property lists, per key *)
  Definition invalidates (v : variant) (o : op) (k : string) : bool :=
    match o with
    | InvalidateCache | LoadPolicy | ClearPolicy => true
    | RemovePolicy ps => key_is (get_key (rule_params ps)) k
    | RemovePolicies rules => mem_str k (keys_of_batch rules)
    | AddPolicy ps =>
        match v with Synced => key_is (get_key (rule_params ps)) k | Plain => false end
    | AddPolicies rules =>
        match v with Synced => mem_str k (keys_of_batch rules) | Plain => false end
    | Enforce _ _ | EnableCache _ | SetExpireTime _ | Passthrough _ => false
    end.

  (* operations that call no mutator of the underlying enforcer *)
  Definition quiet (o : op) : bool :=
    match o with
    | Enforce _ _ | InvalidateCache | EnableCache _ | SetExpireTime _ => true
    | LoadPolicy | ClearPolicy | RemovePolicy _ | RemovePolicies _ | AddPolicy _ | AddPolicies _
    | Passthrough _ => false
    end.

  (* no other request of the history has the key of r *)
  Definition no_collision (h : list op) (r : list param) : Prop :=
    forall t r', In (Enforce t r') h -> get_key r' = get_key r -> r' = r.

  (* hypothesis on the underlying system used by `transparent`: an operation that is not an
     invalidation event for the key of r keeps every (non-error) decision for r.  Errors are
     never cached, so nothing is asked about them. *)
  Definition respects_for (v : variant) (r : list param) (o : op) : Prop :=
    forall s k b, get_key r = Some k -> invalidates v o k = false ->
      uenforce (ust s) r = Some b -> uenforce (ust (fst (step v s o))) r = Some b.

  (* the decision for r is served from the cache in state s at time now *)
  Definition hit (s : state) (now : Z) (r : list param) (b : bool) : Prop :=
    enabled s = true /\
    exists k, get_key r = Some k /\ snd (cache_get k now (cache_of s)) = Some b.
End Wrapper.

Arguments ust {U}. Arguments cache_of {U}. Arguments enabled {U}. Arguments expire {U}.
Arguments mk_state {U}. Arguments init {U}. Arguments set_cache {U}.
Arguments Enforce {M}. Arguments InvalidateCache {M}. Arguments LoadPolicy {M}.
Arguments ClearPolicy {M}. Arguments RemovePolicy {M}. Arguments RemovePolicies {M}.
Arguments AddPolicy {M}. Arguments AddPolicies {M}. Arguments EnableCache {M}.
Arguments SetExpireTime {M}. Arguments Passthrough {M}.
Arguments with_u {U M}. Arguments enforce_step {U}. Arguments step {U M}. Arguments run {U M}.
Arguments invalidates {M}. Arguments quiet {M}. Arguments no_collision {M}. Arguments respects_for {U M}.
Arguments hit {U}.

(* ------------------------------------------------------------------------------------ *)
(* Test fixture: the basic ACL model as the underlying enforcer                          *)
(*   r = sub, obj, act ; p = sub, obj, act ; e = some(where (p.eft == allow))            *)
(*   m = r.sub == p.sub && r.obj == p.obj && r.act == p.act                              *)
(* with a string adapter holding a fixed text (LoadPolicy restores it) and auto-save off. *)
(* Fields are assumed comma-free (the policy index of model/policy.go joins with ",").    *)
(* ------------------------------------------------------------------------------------ *)
Record acl_state := mk_acl { policy : list (list string); stored : list (list string) }.

(* management calls that neither wrapper overrides (all on ptype "p") *)
Inductive acl_mut :=
| MRemoveNamed (rule : list string)       (* RemoveNamedPolicy("p", ...), DeletePermissionForUser *)
| MAddNamed (rule : list string)          (* AddNamedPolicy("p", ...), AddPermissionForUser *)
| MUpdate (old new : list string)         (* UpdatePolicy *)
| MRemoveFiltered (idx : nat) (vals : list string).  (* RemoveFilteredPolicy, DeletePermission *)

Definition param_is (p : param) (f : string) : bool :=
  match p with PStr s => String.eqb s f | _ => false end.

Fixpoint fields_match (ps : list param) (rule : list string) : bool :=
  match ps, rule with
  | [], [] => true
  | p :: ps', f :: rule' => param_is p f && fields_match ps' rule'
  | _, _ => false
  end.

(* the policy loop of enforce(): "invalid policy size" on a rule of the wrong arity, stop at
   the first matching rule (allow-override) *)
Fixpoint acl_scan (pol : list (list string)) (ps : list param) : option bool :=
  match pol with
  | [] => Some false
  | rule :: rest =>
      if negb (Nat.eqb (List.length rule) 3) then None
      else if fields_match ps rule then Some true
      else acl_scan rest ps
  end.

(* a leading EnforceContext selects the r/p/e/m sections; anything but the default names is a
   nil dereference that enforce() recovers into an error *)
Definition strip_ctx (ps : list param) : option (list param) :=
  match ps with
  | PCtx rt pt et mt :: rest =>
      if (String.eqb rt "r" && String.eqb pt "p" && String.eqb et "e" && String.eqb mt "m")%bool
      then Some rest else None
  | _ => Some ps
  end.

Definition all_empty (ps : list param) : bool := forallb (fun p => param_is p "") ps.

(* empty policy: casbin evaluates the matcher once against empty policy fields *)
Definition acl_dec (pol : list (list string)) (rv : list param) : option bool :=
  match pol with
  | [] => Some (all_empty rv)
  | _ => acl_scan pol rv
  end.

Definition acl_enforce (st : acl_state) (ps : list param) : option bool :=
  match strip_ctx ps with
  | None => None
  | Some rv =>
      if negb (Nat.eqb (List.length rv) 3) then None   (* invalid request size *)
      else acl_dec (policy st) rv
  end.

Fixpoint str_list_eqb (a b : list string) : bool :=
  match a, b with
  | [], [] => true
  | x :: a', y :: b' => String.eqb x y && str_list_eqb a' b'
  | _, _ => false
  end.

Definition has_rule (rule : list string) (pol : list (list string)) : bool :=
  existsb (str_list_eqb rule) pol.

Fixpoint remove_first (rule : list string) (pol : list (list string)) : list (list string) :=
  match pol with
  | [] => []
  | r :: rest => if str_list_eqb rule r then rest else r :: remove_first rule rest
  end.

Definition add_absent (pol : list (list string)) (rule : list string) : list (list string) :=
  if has_rule rule pol then pol else pol ++ [rule].

Fixpoint replace_first (old new : list string) (pol : list (list string)) : list (list string) :=
  match pol with
  | [] => []
  | r :: rest => if str_list_eqb old r then new :: rest else r :: replace_first old new rest
  end.

(* AddNamedPolicy / RemoveNamedPolicy: one []string, or every parameter .(string)
   (params[0] on no parameter and a failing type assertion are panics) *)
Fixpoint all_strs (ps : list param) : option (list string) :=
  match ps with
  | [] => Some []
  | PStr s :: rest => match all_strs rest with Some l => Some (s :: l) | None => None end
  | _ :: _ => None
  end.

Definition rule_of_params (ps : list param) : option (list string) :=
  match ps with
  | [] => None
  | [PSlice l] => Some l
  | _ => all_strs ps
  end.

(* RemoveFilteredPolicy: a rule matches when every non-empty filter value equals the field at
   fieldIndex+i; None = index out of range (a panic in Go) *)
Fixpoint filter_match (idx : nat) (vals : list string) (rule : list string) : option bool :=
  match vals with
  | [] => Some true
  | v :: rest =>
      if String.eqb v "" then filter_match (S idx) rest rule
      else match nth_error rule idx with
           | None => None
           | Some f => if String.eqb f v then filter_match (S idx) rest rule else Some false
           end
  end.

Fixpoint filter_out (idx : nat) (vals : list string) (pol : list (list string))
  : option (list (list string)) :=
  match pol with
  | [] => Some []
  | r :: rest =>
      match filter_match idx vals r, filter_out idx vals rest with
      | Some true, Some l => Some l
      | Some false, Some l => Some (r :: l)
      | _, _ => None
      end
  end.

Definition set_policy (st : acl_state) (pol : list (list string)) : acl_state :=
  mk_acl pol (stored st).

Definition acl_add (st : acl_state) (rule : list string) : acl_state * uret :=
  if has_rule rule (policy st) then (st, URet false false)
  else (set_policy st (policy st ++ [rule]), URet true false).

Definition acl_remove (st : acl_state) (rule : list string) : acl_state * uret :=
  if has_rule rule (policy st) then (set_policy st (remove_first rule (policy st)), URet true false)
  else (st, URet false false).

Definition acl_step (st : acl_state) (c : ucall acl_mut) : acl_state * uret :=
  match c with
  | ULoad => (set_policy st (stored st), URet true false)
  | UClear => (set_policy st [], URet true false)
  | UAdd ps =>
      match rule_of_params ps with
      | None => (st, UPanic)
      | Some rule => acl_add st rule
      end
  | UAddMany rules =>
      (* HasPolicies: refuse when any rule is listed; then add each rule not yet listed *)
      if existsb (fun r => has_rule r (policy st)) rules then (st, URet false false)
      else (set_policy st (fold_left add_absent rules (policy st)), URet true false)
  | URemove ps =>
      match rule_of_params ps with
      | None => (st, UPanic)
      | Some rule => acl_remove st rule
      end
  | URemoveMany rules =>
      (* HasPolicies: refuse when no rule is listed; then remove the listed ones *)
      if existsb (fun r => has_rule r (policy st)) rules
      then (set_policy st (fold_left (fun p r => remove_first r p) rules (policy st)), URet true false)
      else (st, URet false false)
  | UOther (MRemoveNamed rule) => acl_remove st rule
  | UOther (MAddNamed rule) => acl_add st rule
  | UOther (MUpdate old new) =>
      if has_rule old (policy st)
      then (set_policy st (replace_first old new (policy st)), URet true false)
      else (st, URet false false)
  | UOther (MRemoveFiltered idx vals) =>
      match vals with
      | [] => (st, URet false true)
      | _ =>
          match filter_out idx vals (policy st) with
          | None => (st, UPanic)   (* Go panics after resetting the index; not used by the checks *)
          | Some pol' =>
              (set_policy st pol',
               URet (negb (Nat.eqb (List.length pol') (List.length (policy st)))) false)
          end
      end
  end.

Definition acl_init (rules : list (list string)) : state acl_state :=
  init (mk_acl rules rules).

Definition acl_op := op acl_mut.
Definition acl_run_step (v : variant) (s : state acl_state) (o : acl_op) : state acl_state * out :=
  step acl_enforce acl_step v s o.

(* guards of the ACL instance of `transparent` *)

(* request: no leading EnforceContext (such a request is never the "identical rule") and not
   the all-empty tuple (which casbin's empty-policy convention makes depend on whether ANY
   rule exists) *)
Definition acl_req_ok (r : list param) : bool :=
  match r with PCtx _ _ _ _ :: _ => false | _ => negb (all_empty r) end.

(* operation: one of the listed invalidating mutators (or no mutator at all); rules added on the synced variant have the arity of the policy definition *)
Definition acl_op_ok (v : variant) (o : acl_op) : bool :=
  match o with
  | Enforce _ _ | InvalidateCache | LoadPolicy | ClearPolicy | EnableCache _ | SetExpireTime _ => true
  | RemovePolicy _ => true
  | RemovePolicies _ => true
  | AddPolicy ps =>
      match v with
      | Synced => match rule_of_params ps with
                  | Some rule => Nat.eqb (List.length rule) 3
                  | None => true
                  end
      | Plain => false
      end
  | AddPolicies rules =>
      match v with
      | Synced => forallb (fun r => Nat.eqb (List.length r) 3) rules
      | Plain => false
      end
  | Passthrough _ => false
  end.

(* ------------------------------------------------------------------------------------ *)
(* Second test fixture: a model with several request / policy / effect / matcher sections, *)
(* selected per call by a leading EnforceContext                                          *)
(*   r  = sub, obj, act     r2 = sub, obj, act                                            *)
(*   p  = sub, obj, act     p2 = sub, obj, act                                            *)
(*   e  = some(where (p.eft == allow))        e2 = !some(where (p.eft == deny))           *)
(*   m  = r.sub == p.sub && r.obj == p.obj && r.act == p.act                              *)
(*   m2 = r2.sub == p2.sub && r2.obj == p2.obj                                            *)
(*   m3 = r.sub == p.sub && r.obj == p.obj                                                *)
(*   m4 = r2.sub == p2.sub && r2.obj == p2.obj && r2.act == p2.act                        *)
(*   m5 = r.sub == p2.sub && r.obj == p2.obj && r.act == p2.act                           *)
(*   m6 = r2.sub == p.sub && r2.obj == p.obj                                              *)
(* enforce() with context {RT, PT, ET, MT} (enforcer.go):                                 *)
(*   - a name that is not a section of its kind is a nil dereference, recovered into an   *)
(*     error;                                                                             *)
(*   - "invalid request size" unless three values follow the context;                     *)
(*   - the matcher reads the tokens RTOK_sub ... / PTOK_sub ... of the sections it was     *)
(*     written for: under any other RT / PT the parameter lookup fails (No parameter       *)
(*     found), an error;                                                                  *)
(*   - empty policy PT: the matcher is evaluated once against empty policy fields;         *)
(*   - otherwise the rules of PT are scanned in order, "invalid policy size" on a rule of  *)
(*     the wrong arity; e stops at the first match (allow), e2 (no eft column, so no rule  *)
(*     denies) scans to the end and allows.                                               *)
(* RemovePolicy / AddPolicy / ... of the wrappers act on "p"; "p2" is changed through      *)
(* AddNamedPolicy / RemoveNamedPolicy (pass-through). LoadPolicy restores both, ClearPolicy *)
(* empties both.                                                                          *)
(* ------------------------------------------------------------------------------------ *)
Record cx_state := mk_cx { cx_p : acl_state; cx_pol2 : list (list string); cx_stored2 : list (list string) }.

Inductive cx_mut :=
| CxP (m : acl_mut)                     (* a pass-through mutator on "p" *)
| CxAdd2 (rule : list string)           (* AddNamedPolicy("p2", ...) *)
| CxRemove2 (rule : list string).       (* RemoveNamedPolicy("p2", ...) *)

Inductive cx_eff := AllowOverride | DenyOverride.

(* matcher name -> (request section, policy section, number of leading fields compared) *)
Definition cx_matchers : list (string * (string * string * nat)) :=
  [("m", ("r", "p", 3)); ("m2", ("r2", "p2", 2)); ("m3", ("r", "p", 2));
   ("m4", ("r2", "p2", 3)); ("m5", ("r", "p2", 3)); ("m6", ("r2", "p", 2))].

Fixpoint cx_matcher (l : list (string * (string * string * nat))) (mt : string)
  : option (string * string * nat) :=
  match l with
  | [] => None
  | (k, d) :: rest => if String.eqb mt k then Some d else cx_matcher rest mt
  end.

Definition cx_effect (et : string) : option cx_eff :=
  if String.eqb et "e" then Some AllowOverride
  else if String.eqb et "e2" then Some DenyOverride else None.

Definition cx_known_r (rt : string) : bool := (String.eqb rt "r" || String.eqb rt "r2")%bool.

Definition cx_policy (st : cx_state) (pt : string) : option (list (list string)) :=
  if String.eqb pt "p" then Some (policy (cx_p st))
  else if String.eqb pt "p2" then Some (cx_pol2 st) else None.

(* the first n request values equal the first n fields of the rule *)
Fixpoint prefix_match (n : nat) (ps : list param) (rule : list string) : bool :=
  match n with
  | O => true
  | S n' =>
      match ps, rule with
      | p :: ps', f :: rule' => param_is p f && prefix_match n' ps' rule'
      | _, _ => false
      end
  end.

Fixpoint cx_scan (eff : cx_eff) (n : nat) (pol : list (list string)) (rv : list param) : option bool :=
  match pol with
  | [] => Some (match eff with AllowOverride => false | DenyOverride => true end)
  | rule :: rest =>
      if negb (Nat.eqb (List.length rule) 3) then None
      else match eff with
           | AllowOverride => if prefix_match n rv rule then Some true else cx_scan eff n rest rv
           | DenyOverride => cx_scan eff n rest rv
           end
  end.

Definition cx_eval (st : cx_state) (rt pt et mt : string) (rv : list param) : option bool :=
  match cx_matcher cx_matchers mt, cx_policy st pt, cx_effect et with
  | Some (mr, mp, n), Some pol, Some eff =>
      if negb (cx_known_r rt) then None
      else if negb (Nat.eqb (List.length rv) 3) then None              (* invalid request size *)
      else if negb (String.eqb rt mr && String.eqb pt mp) then None    (* No parameter found *)
      else match pol with
           | [] => match eff with
                   | AllowOverride => Some (prefix_match n rv [""; ""; ""])
                   | DenyOverride => Some true
                   end
           | _ :: _ => cx_scan eff n pol rv
           end
  | _, _, _ => None
  end.

Definition cx_enforce (st : cx_state) (ps : list param) : option bool :=
  match ps with
  | PCtx rt pt et mt :: rest => cx_eval st rt pt et mt rest
  | _ => cx_eval st "r" "p" "e" "m" ps
  end.

Definition cx_lift (st : cx_state) (c : ucall acl_mut) : cx_state * uret :=
  let (p', r) := acl_step (cx_p st) c in (mk_cx p' (cx_pol2 st) (cx_stored2 st), r).

Definition cx_set2 (st : cx_state) (pol2 : list (list string)) : cx_state :=
  mk_cx (cx_p st) pol2 (cx_stored2 st).

Definition cx_step (st : cx_state) (c : ucall cx_mut) : cx_state * uret :=
  match c with
  | ULoad => (mk_cx (set_policy (cx_p st) (stored (cx_p st))) (cx_stored2 st) (cx_stored2 st), URet true false)
  | UClear => (mk_cx (set_policy (cx_p st) []) [] (cx_stored2 st), URet true false)
  | UAdd ps => cx_lift st (UAdd ps)
  | UAddMany rules => cx_lift st (UAddMany rules)
  | URemove ps => cx_lift st (URemove ps)
  | URemoveMany rules => cx_lift st (URemoveMany rules)
  | UOther (CxP m) => cx_lift st (UOther m)
  | UOther (CxAdd2 rule) =>
      if has_rule rule (cx_pol2 st) then (st, URet false false)
      else (cx_set2 st (cx_pol2 st ++ [rule]), URet true false)
  | UOther (CxRemove2 rule) =>
      if has_rule rule (cx_pol2 st) then (cx_set2 st (remove_first rule (cx_pol2 st)), URet true false)
      else (st, URet false false)
  end.

Definition cx_init (rules1 rules2 : list (list string)) : state cx_state :=
  init (mk_cx (mk_acl rules1 rules1) rules2 rules2).

Definition cx_op := op cx_mut.
Definition cx_run_step (v : variant) (s : state cx_state) (o : cx_op) : state cx_state * out :=
  step cx_enforce cx_step v s o.

(* guard of the instance of `transparent` for this fixture: the same as acl_op_ok (listed
   invalidating mutators, which act on "p"; nothing that changes "p2") *)
Definition cx_op_ok (v : variant) (o : cx_op) : bool :=
  match o with
  | Enforce _ _ | InvalidateCache | LoadPolicy | ClearPolicy | EnableCache _ | SetExpireTime _ => true
  | RemovePolicy _ => true
  | RemovePolicies _ => true
  | AddPolicy ps =>
      match v with
      | Synced => match rule_of_params ps with
                  | Some rule => Nat.eqb (List.length rule) 3
                  | None => true
                  end
      | Plain => false
      end
  | AddPolicies rules =>
      match v with
      | Synced => forallb (fun r => Nat.eqb (List.length r) 3) rules
      | Plain => false
      end
  | Passthrough _ => false
  end.
