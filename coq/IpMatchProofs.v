(* IpMatchProofs.v — IPNet.Contains on the network ParseCIDR builds is prefix arithmetic on the
   numeric values (cidr_spec), for IPv4, IPv6 and IPv4-mapped IPv6 text forms. *)
From Coq Require Import List Bool Ascii Arith NArith Lia.
From Casbin Require Import Regex KeyMatch IpMatch.
Import ListNotations.
Local Open Scope N_scope.

(* ------------------------------------------------------------------ *)
(* bytes: facts checked by exhaustive computation over 0..255 *)

Definition byte_range : list N := map N.of_nat (seq 0 256).

Lemma in_byte_range : forall x, x < 256 -> In x byte_range.
Proof.
  intros x H. unfold byte_range. rewrite <- (N2Nat.id x). apply in_map. apply in_seq. lia.
Qed.

Definition mask_byte (r : N) : N := 255 - N.shiftr 255 r.

Lemma byte_mask_check :
  forallb (fun r => forallb (fun x => forallb (fun y =>
     Bool.eqb (N.land x (mask_byte r) =? N.land y (mask_byte r))
              (x / 2 ^ (8 - r) =? y / 2 ^ (8 - r))) byte_range) byte_range)
    (map N.of_nat (seq 0 8)) = true.
Proof. vm_compute. reflexivity. Qed.

Lemma byte_mask : forall r x y, r < 8 -> x < 256 -> y < 256 ->
  (N.land x (mask_byte r) =? N.land y (mask_byte r)) = (x / 2 ^ (8 - r) =? y / 2 ^ (8 - r)).
Proof.
  intros r x y Hr Hx Hy. pose proof byte_mask_check as C.
  rewrite forallb_forall in C.
  assert (Ir : In r (map N.of_nat (seq 0 8))).
  { rewrite <- (N2Nat.id r). apply in_map. apply in_seq. lia. }
  specialize (C r Ir). rewrite forallb_forall in C. specialize (C x (in_byte_range x Hx)).
  rewrite forallb_forall in C. specialize (C y (in_byte_range y Hy)).
  apply Bool.eqb_prop in C. exact C.
Qed.

Lemma land_255_check : forallb (fun x => N.land x 255 =? x) byte_range = true.
Proof. vm_compute. reflexivity. Qed.

Lemma land_255 : forall x, x < 256 -> N.land x 255 = x.
Proof.
  intros x H. pose proof land_255_check as C. rewrite forallb_forall in C.
  apply N.eqb_eq. apply C. apply in_byte_range. exact H.
Qed.

Lemma land_idem : forall a m, N.land (N.land a m) m = N.land a m.
Proof. intros a m. rewrite <- N.land_assoc, N.land_diag. reflexivity. Qed.

(* for a prefix shorter than 96 bits, byte 11 of the masked address cannot be 0xff *)
Lemma short_mask_check :
  forallb (fun o => forallb (fun x => negb (N.land x (nth 11 (cidr_mask_go 16 o) 0) =? 255)) byte_range)
    (map N.of_nat (seq 0 96)) = true.
Proof. vm_compute. reflexivity. Qed.

Lemma short_mask : forall o x, o < 96 -> x < 256 ->
  (N.land x (nth 11 (cidr_mask_go 16 o) 0) =? 255) = false.
Proof.
  intros o x Ho Hx. pose proof short_mask_check as C. rewrite forallb_forall in C.
  assert (Io : In o (map N.of_nat (seq 0 96))).
  { rewrite <- (N2Nat.id o). apply in_map. apply in_seq. lia. }
  specialize (C o Io). rewrite forallb_forall in C. specialize (C x (in_byte_range x Hx)).
  apply negb_true_iff in C. exact C.
Qed.

(* ------------------------------------------------------------------ *)
(* numeric value of a byte list *)

Lemma fold_val : forall xs a,
  fold_left (fun a b => a * 256 + b) xs a = a * 256 ^ N.of_nat (List.length xs) + val xs.
Proof.
  unfold val. induction xs as [|x xs IH]; intro a.
  - cbn. lia.
  - cbn [fold_left List.length]. rewrite IH, (IH (0 * 256 + x)).
    rewrite Nat2N.inj_succ, N.pow_succ_r'. lia.
Qed.

Lemma val_cons : forall x xs, val (x :: xs) = x * 256 ^ N.of_nat (List.length xs) + val xs.
Proof.
  intros x xs. unfold val at 1. cbn [fold_left]. rewrite fold_val. lia.
Qed.

Lemma bytes_ok_cons : forall x xs, bytes_ok (x :: xs) = true <-> x < 256 /\ bytes_ok xs = true.
Proof.
  intros x xs. unfold bytes_ok. cbn [forallb]. rewrite andb_true_iff, N.ltb_lt. tauto.
Qed.

Lemma val_bound : forall xs, bytes_ok xs = true -> val xs < 256 ^ N.of_nat (List.length xs).
Proof.
  induction xs as [|x xs IH]; intro H.
  - cbn. lia.
  - apply bytes_ok_cons in H. destruct H as [Hx H]. specialize (IH H).
    rewrite val_cons. cbn [List.length]. rewrite Nat2N.inj_succ, N.pow_succ_r'. nia.
Qed.

Lemma pow256 : forall n, 256 ^ n = 2 ^ (8 * n).
Proof. intro n. change 256 with (2 ^ 8). rewrite <- N.pow_mul_r. reflexivity. Qed.

Lemma mul_add_eqb : forall M a b q1 q2, q1 < M -> q2 < M ->
  (a * M + q1 =? b * M + q2) = (a =? b) && (q1 =? q2).
Proof.
  intros M a b q1 q2 H1 H2.
  destruct (N.eqb_spec a b) as [E|E]; destruct (N.eqb_spec q1 q2) as [F|F]; cbn [andb].
  - subst. apply N.eqb_refl.
  - apply N.eqb_neq. subst. lia.
  - apply N.eqb_neq. intro G. apply E.
    destruct (N.div_mod_unique M a b q1 q2 H1 H2) as [X _]; [lia|exact X].
  - apply N.eqb_neq. intro G. apply E.
    destruct (N.div_mod_unique M a b q1 q2 H1 H2) as [X _]; [lia|exact X].
Qed.

(* ------------------------------------------------------------------ *)
(* masks *)

Lemma cidr_mask_go_length : forall l n, List.length (cidr_mask_go l n) = l.
Proof.
  induction l as [|l IH]; intro n; [reflexivity|].
  cbn [cidr_mask_go]. destruct (8 <=? n); cbn [List.length]; rewrite IH; reflexivity.
Qed.

Lemma land_list_length : forall a m, List.length a = List.length m ->
  List.length (land_list a m) = List.length a.
Proof.
  induction a as [|x a IH]; intros [|y m] H; try reflexivity; try discriminate.
  cbn [land_list List.length]. rewrite IH; [reflexivity|]. cbn in H. lia.
Qed.

Lemma masked_zero : forall l b ip,
  masked_eq (land_list b (cidr_mask_go l 0)) (cidr_mask_go l 0) ip = true.
Proof.
  induction l as [|l IH]; intros b ip.
  - cbn [cidr_mask_go]. destruct b; reflexivity.
  - cbn [cidr_mask_go]. change (8 <=? 0) with false. cbn iota.
    change (255 - N.shiftr 255 0) with 0.
    destruct b as [|b0 b']; [reflexivity|]. destruct ip as [|a0 ip']; [reflexivity|].
    cbn [land_list masked_eq]. rewrite !N.land_0_r. cbn [N.eqb andb]. apply IH.
Qed.

(* Lemma A: comparing under the mask = comparing the first `ones` bits of the values *)
Lemma masked_eq_prefix : forall l ones b ip,
  List.length b = l -> List.length ip = l -> bytes_ok b = true -> bytes_ok ip = true ->
  ones <= 8 * N.of_nat l ->
  masked_eq (land_list b (cidr_mask_go l ones)) (cidr_mask_go l ones) ip =
  same_prefix (8 * N.of_nat l) ones (val b) (val ip).
Proof.
  unfold same_prefix.
  induction l as [|l IH]; intros ones b ip Lb Li Bb Bi Ho.
  - destruct b; [|discriminate]. destruct ip; [|discriminate]. reflexivity.
  - destruct b as [|b0 b']; [discriminate|]. destruct ip as [|a0 ip']; [discriminate|].
    cbn [List.length] in Lb, Li. injection Lb as Lb. injection Li as Li.
    apply bytes_ok_cons in Bb. destruct Bb as [Hb0 Bb].
    apply bytes_ok_cons in Bi. destruct Bi as [Ha0 Bi].
    pose proof (val_bound b' Bb) as Vb. pose proof (val_bound ip' Bi) as Vi.
    rewrite Lb in Vb. rewrite Li in Vi.
    rewrite !val_cons, Lb, Li.
    cbn [cidr_mask_go]. rewrite Nat2N.inj_succ in *.
    set (T := 8 * N.of_nat l) in *.
    assert (ET : 256 ^ N.of_nat l = 2 ^ T) by (unfold T; apply pow256).
    rewrite ET in *.
    replace (8 * N.succ (N.of_nat l)) with (T + 8) in * by (unfold T; lia).
    destruct (8 <=? ones) eqn:E8.
    + apply N.leb_le in E8.
      cbn [land_list masked_eq]. rewrite land_idem, (land_255 b0 Hb0), (land_255 a0 Ha0).
      rewrite (IH (ones - 8) b' ip' Lb Li Bb Bi) by (fold T; lia). fold T.
      replace (T + 8 - ones) with (T - (ones - 8)) by lia.
      set (k := T - (ones - 8)).
      assert (Hk : k <= T) by (unfold k; lia).
      assert (E2 : 2 ^ T = 2 ^ (T - k) * 2 ^ k).
      { rewrite <- N.pow_add_r. f_equal. lia. }
      assert (Pk : 2 ^ k <> 0) by (apply N.pow_nonzero; discriminate).
      rewrite E2.
      replace (b0 * (2 ^ (T - k) * 2 ^ k) + val b') with (b0 * 2 ^ (T - k) * 2 ^ k + val b') by lia.
      replace (a0 * (2 ^ (T - k) * 2 ^ k) + val ip') with (a0 * 2 ^ (T - k) * 2 ^ k + val ip') by lia.
      rewrite !N.div_add_l by exact Pk.
      symmetry. apply mul_add_eqb.
      * apply N.div_lt_upper_bound; [exact Pk|]. rewrite N.mul_comm, <- E2. exact Vb.
      * apply N.div_lt_upper_bound; [exact Pk|]. rewrite N.mul_comm, <- E2. exact Vi.
    + apply N.leb_gt in E8.
      cbn [land_list masked_eq]. rewrite land_idem, masked_zero, andb_true_r.
      fold (mask_byte ones). rewrite (byte_mask ones b0 a0 E8 Hb0 Ha0).
      replace (T + 8 - ones) with (T + (8 - ones)) by lia.
      rewrite N.pow_add_r.
      assert (PT : 2 ^ T <> 0) by (apply N.pow_nonzero; discriminate).
      assert (P8 : 2 ^ (8 - ones) <> 0) by (apply N.pow_nonzero; discriminate).
      rewrite <- !N.div_div by assumption.
      rewrite !N.div_add_l by exact PT.
      rewrite (N.div_small (val b')), (N.div_small (val ip')) by assumption.
      rewrite !N.add_0_r. reflexivity.
Qed.

Lemma mask_split : forall k l ones, 8 * N.of_nat k <= ones ->
  cidr_mask_go (k + l) ones = repeat 255 k ++ cidr_mask_go l (ones - 8 * N.of_nat k).
Proof.
  induction k as [|k IH]; intros l ones H.
  - cbn [Nat.add repeat app]. f_equal. cbn. lia.
  - cbn [Nat.add cidr_mask_go repeat app]. rewrite Nat2N.inj_succ in *.
    assert (E : 8 <=? ones = true) by (apply N.leb_le; lia). rewrite E.
    rewrite (IH l (ones - 8)) by lia. f_equal. f_equal. f_equal. lia.
Qed.

Lemma land_list_app : forall a1 a2 m1 m2, List.length a1 = List.length m1 ->
  land_list (a1 ++ a2) (m1 ++ m2) = land_list a1 m1 ++ land_list a2 m2.
Proof.
  induction a1 as [|x a1 IH]; intros a2 [|y m1] m2 H; try discriminate; [reflexivity|].
  cbn [app land_list]. rewrite IH; [reflexivity|]. cbn in H. lia.
Qed.

Lemma land_list_ff : forall a, bytes_ok a = true ->
  land_list a (repeat 255 (List.length a)) = a.
Proof.
  induction a as [|x a IH]; intro H; [reflexivity|].
  apply bytes_ok_cons in H. destruct H as [Hx H].
  cbn [List.length repeat land_list]. rewrite (land_255 x Hx), (IH H). reflexivity.
Qed.

Lemma bytes_ok_app : forall a b, bytes_ok (a ++ b) = bytes_ok a && bytes_ok b.
Proof. intros a b. unfold bytes_ok. apply forallb_app. Qed.

Lemma nth_land_list : forall n a m, (n < List.length a)%nat -> (n < List.length m)%nat ->
  nth n (land_list a m) 0 = N.land (nth n a 0) (nth n m 0).
Proof.
  induction n as [|n IH]; intros [|x a] [|y m] Ha Hm; cbn [List.length] in *; try lia.
  - reflexivity.
  - cbn [land_list nth]. apply IH; lia.
Qed.

Lemma bytes_ok_nth : forall a n, bytes_ok a = true -> nth n a 0 < 256.
Proof.
  induction a as [|x a IH]; intros n H.
  - destruct n; cbn; lia.
  - apply bytes_ok_cons in H. destruct H as [Hx H]. destruct n; cbn [nth]; [exact Hx|apply IH; exact H].
Qed.

(* ------------------------------------------------------------------ *)
(* is_mapped / to4 on masked addresses *)

Lemma is_mapped_app12 : forall p x y, List.length p = 12%nat -> is_mapped (p ++ x) = is_mapped (p ++ y).
Proof.
  intros p x y H. unfold is_mapped.
  rewrite !firstn_app, H. change (10 - 12)%nat with 0%nat. cbn [firstn]. rewrite !app_nil_r.
  rewrite !(app_nth1 p) by lia. reflexivity.
Qed.

Lemma split12 : forall b : list N, List.length b = 16%nat ->
  b = firstn 12 b ++ skipn 12 b /\ List.length (firstn 12 b) = 12%nat /\
  List.length (skipn 12 b) = 4%nat.
Proof.
  intros b H. split; [symmetry; apply firstn_skipn|].
  rewrite firstn_length, skipn_length, H. split; reflexivity.
Qed.

Lemma masked16_long : forall b ones, List.length b = 16%nat -> bytes_ok b = true ->
  96 <= ones ->
  land_list b (cidr_mask_go 16 ones) =
  firstn 12 b ++ land_list (skipn 12 b) (cidr_mask_go 4 (ones - 96)).
Proof.
  intros b ones Lb Bb Ho. destruct (split12 b Lb) as (E & L12 & L4).
  rewrite E at 1. change 16%nat with (12 + 4)%nat.
  rewrite (mask_split 12 4 ones) by (cbn; lia). change (8 * N.of_nat 12) with 96.
  rewrite land_list_app by (rewrite repeat_length; exact L12).
  rewrite <- L12 at 2. rewrite land_list_ff; [reflexivity|].
  rewrite E, bytes_ok_app in Bb. apply andb_true_iff in Bb. tauto.
Qed.

Lemma is_mapped_masked : forall b ones, List.length b = 16%nat -> bytes_ok b = true ->
  is_mapped (land_list b (cidr_mask_go 16 ones)) = (96 <=? ones) && is_mapped b.
Proof.
  intros b ones Lb Bb. destruct (96 <=? ones) eqn:E; cbn [andb].
  - apply N.leb_le in E. rewrite (masked16_long b ones Lb Bb E).
    destruct (split12 b Lb) as (Eb & L12 & _). rewrite Eb at 3. apply is_mapped_app12. exact L12.
  - apply N.leb_gt in E. unfold is_mapped.
    rewrite (nth_land_list 11) by (rewrite ?cidr_mask_go_length; lia).
    rewrite (short_mask ones (nth 11 b 0) E (bytes_ok_nth b 11 Bb)). apply andb_false_r.
Qed.

Lemma len_is_true : forall (A : Type) (l : list A) n, List.length l = n -> len_is l n = true.
Proof. intros A l n H. unfold len_is. rewrite H. apply Nat.eqb_refl. Qed.

Lemma len_is_false : forall (A : Type) (l : list A) n m, List.length l = n -> n <> m -> len_is l m = false.
Proof. intros A l n m H D. unfold len_is. rewrite H. apply Nat.eqb_neq. exact D. Qed.

Lemma to4_16 : forall ip : list N, List.length ip = 16%nat ->
  to4 ip = if is_mapped ip then Some (skipn 12 ip) else None.
Proof.
  intros ip H. unfold to4. rewrite (len_is_false _ ip 16%nat 4%nat H) by discriminate.
  rewrite (len_is_true _ ip 16%nat H). reflexivity.
Qed.

Lemma to4_4 : forall ip : list N, List.length ip = 4%nat -> to4 ip = Some ip.
Proof. intros ip H. unfold to4. rewrite (len_is_true _ ip 4%nat H). reflexivity. Qed.

Lemma bytes_ok_skipn : forall n a, bytes_ok a = true -> bytes_ok (skipn n a) = true.
Proof.
  intros n a H. rewrite <- (firstn_skipn n a), bytes_ok_app in H.
  apply andb_true_iff in H. tauto.
Qed.

(* ------------------------------------------------------------------ *)
(* the theorem *)

Theorem contains_cidr : forall a ones ip,
  addr_ok a = true -> ones <= bitlen a ->
  List.length ip = 16%nat -> bytes_ok ip = true ->
  exists nip nmask, mk_net a ones = Some (nip, nmask) /\
                    contains nip nmask ip = cidr_spec a ones ip.
Proof.
  intros a ones ip Ha Ho Li Bi. unfold cidr_spec, family. rewrite (to4_16 ip Li).
  pose proof (skipn_length 12 ip) as L4. rewrite Li in L4. change (16 - 12)%nat with 4%nat in L4.
  destruct a as [b|b]; cbn [addr_ok bitlen] in *; apply andb_true_iff in Ha; destruct Ha as [Lb Bb];
    apply Nat.eqb_eq in Lb.
  - (* dotted IPv4 network *)
    set (m := cidr_mask_go 4 ones).
    assert (Lm : List.length m = 4%nat) by apply cidr_mask_go_length.
    assert (Lnip : List.length (land_list b m) = 4%nat) by (rewrite land_list_length; congruence).
    exists (land_list b m), m. split.
    + unfold mk_net, cidr_mask. cbn [bitlen as16]. change (N.to_nat (32 / 8)) with 4%nat. fold m.
      unfold mask_ip. rewrite (len_is_false _ m 4%nat 16%nat Lm) by discriminate. cbn [andb].
      rewrite (len_is_true _ m 4%nat Lm).
      assert (L16 : List.length (v4pfx ++ b) = 16%nat) by (rewrite app_length, Lb; reflexivity).
      rewrite (len_is_true _ _ 16%nat L16). cbn [andb].
      assert (Ef : firstn 12 (v4pfx ++ b) = v4pfx).
      { rewrite firstn_app. change (List.length v4pfx) with 12%nat. change (12 - 12)%nat with 0%nat.
        cbn [firstn]. rewrite app_nil_r. reflexivity. }
      rewrite Ef. change (nlist_eqb v4pfx v4pfx) with true. cbn iota.
      assert (Es : skipn 12 (v4pfx ++ b) = b).
      { rewrite skipn_app. change (List.length v4pfx) with 12%nat. reflexivity. }
      rewrite Es, Lb, Lm. reflexivity.
    + unfold contains, net_num_mask. rewrite (to4_4 _ Lnip).
      rewrite (len_is_true _ m 4%nat Lm), (len_is_true _ _ 4%nat Lnip).
      rewrite (to4_16 ip Li). destruct (is_mapped ip).
      * rewrite L4, Lnip. cbn [Nat.eqb]. unfold m.
        rewrite (masked_eq_prefix 4 ones b (skipn 12 ip) Lb L4 Bb (bytes_ok_skipn 12 ip Bi))
          by (cbn; lia).
        reflexivity.
      * rewrite Li, Lnip. reflexivity.
  - (* IPv6 text form *)
    set (m := cidr_mask_go 16 ones).
    assert (Lm : List.length m = 16%nat) by apply cidr_mask_go_length.
    assert (Lnip : List.length (land_list b m) = 16%nat) by (rewrite land_list_length; congruence).
    exists (land_list b m), m. split.
    + unfold mk_net, cidr_mask. cbn [bitlen as16]. change (N.to_nat (128 / 8)) with 16%nat. fold m.
      unfold mask_ip. rewrite (len_is_true _ m 16%nat Lm).
      rewrite (len_is_false _ b 16%nat 4%nat Lb) by discriminate. cbn [andb].
      rewrite (len_is_false _ m 16%nat 4%nat Lm) by discriminate. cbn [andb].
      rewrite Lb, Lm. reflexivity.
    + unfold contains, net_num_mask. rewrite (to4_16 _ Lnip). unfold m at 1.
      rewrite (is_mapped_masked b ones Lb Bb).
      rewrite (len_is_false _ m 16%nat 4%nat Lm) by discriminate.
      rewrite (len_is_true _ m 16%nat Lm).
      rewrite (to4_16 ip Li).
      destruct ((96 <=? ones) && is_mapped b) eqn:Em.
      * apply andb_true_iff in Em. destruct Em as [E96 _]. apply N.leb_le in E96.
        assert (Ls : List.length (skipn 12 (land_list b m)) = 4%nat)
          by (rewrite skipn_length, Lnip; reflexivity).
        rewrite (len_is_true _ _ 4%nat Ls).
        assert (Esk : skipn 12 (land_list b m) = land_list (skipn 12 b) (cidr_mask_go 4 (ones - 96))).
        { unfold m. rewrite (masked16_long b ones Lb Bb E96).
          destruct (split12 b Lb) as (_ & L12 & _).
          rewrite skipn_app, L12. rewrite (skipn_all2 (n:=12) (firstn 12 b)) by (rewrite L12; lia).
          change (12 - 12)%nat with 0%nat. cbn [skipn app]. reflexivity. }
        assert (Esm : skipn 12 m = cidr_mask_go 4 (ones - 96)).
        { unfold m. change 16%nat with (12 + 4)%nat. rewrite (mask_split 12 4 ones) by (cbn; lia).
          change (8 * N.of_nat 12) with 96.
          rewrite skipn_app, repeat_length.
          rewrite (skipn_all2 (n:=12) (repeat 255 12)) by (rewrite repeat_length; lia).
          change (12 - 12)%nat with 0%nat. cbn [skipn app]. reflexivity. }
        destruct (is_mapped ip).
        -- rewrite L4, Ls. cbn [Nat.eqb]. rewrite Esk, Esm.
           destruct (split12 b Lb) as (_ & _ & Lb4).
           rewrite (masked_eq_prefix 4 (ones - 96) (skipn 12 b) (skipn 12 ip) Lb4 L4
                      (bytes_ok_skipn 12 b Bb) (bytes_ok_skipn 12 ip Bi)) by (cbn; lia).
           reflexivity.
        -- rewrite Li, Ls. reflexivity.
      * rewrite (len_is_true _ _ 16%nat Lnip).
        rewrite (len_is_false _ _ 16%nat 4%nat Lnip) by discriminate.
        destruct (is_mapped ip).
        -- rewrite L4, Lnip. reflexivity.
        -- rewrite Li, Lnip. cbn [Nat.eqb negb andb]. unfold m.
           rewrite (masked_eq_prefix 16 ones b ip Lb Li Bb Bi) by (cbn; lia).
           reflexivity.
Qed.

(* ------------------------------------------------------------------ *)
(* what the parsers return is well formed *)

Lemma bytes_ok_rev : forall l, bytes_ok (rev l) = bytes_ok l.
Proof.
  induction l as [|x l IH]; [reflexivity|].
  cbn [rev]. rewrite bytes_ok_app, IH. unfold bytes_ok. cbn [forallb]. rewrite andb_true_r. apply andb_comm.
Qed.

Lemma v4_go_ok : forall s v d acc f p r,
  v <= 255 -> bytes_ok acc = true -> (List.length acc <= 3)%nat ->
  v4_go s v d acc f p = Some r -> List.length r = 4%nat /\ bytes_ok r = true.
Proof.
  induction s as [|c t IH]; intros v d acc f p r Hv Hacc Hl H; cbn [v4_go] in H.
  - destruct (Nat.ltb (List.length acc) 3) eqn:E; [discriminate|]. apply Nat.ltb_ge in E.
    inversion H; subst. split.
    + cbn [rev]. rewrite app_length, rev_length. cbn [List.length]. lia.
    + change (bytes_ok (rev (v :: acc)) = true).
      rewrite bytes_ok_rev. apply bytes_ok_cons. split; [lia|exact Hacc].
  - destruct (digit_val c) as [dg|].
    + destruct ((d =? 1) && (v =? 0)); [discriminate|].
      destruct (255 <? v * 10 + dg) eqn:E; [discriminate|]. apply N.ltb_ge in E.
      exact (IH _ _ _ _ _ _ E Hacc Hl H).
    + destruct (Ascii.eqb c "."); [|discriminate].
      destruct (f || is_nil t || p); [discriminate|].
      destruct (Nat.eqb (List.length acc) 3) eqn:E; [discriminate|]. apply Nat.eqb_neq in E.
      apply (IH 0 0 (v :: acc) false true r); try assumption.
      * lia.
      * apply bytes_ok_cons. split; [lia|exact Hacc].
      * cbn [List.length]. lia.
Qed.

Lemma parse_v4_fields_ok : forall s r, parse_v4_fields s = Some r ->
  List.length r = 4%nat /\ bytes_ok r = true.
Proof.
  intros s r H. unfold parse_v4_fields in H.
  apply (v4_go_ok s 0 0 [] true false r); try assumption; try reflexivity; cbn; lia.
Qed.

Lemma hex_val_bound : forall c d, hex_val c = Some d -> d < 16.
Proof.
  intros c d H. unfold hex_val in H. set (n := N_of_ascii c) in *.
  destruct ((48 <=? n) && (n <=? 57)) eqn:E1.
  - apply andb_true_iff in E1. destruct E1 as [A B]. apply N.leb_le in A. apply N.leb_le in B.
    inversion H; subst. lia.
  - destruct ((97 <=? n) && (n <=? 102)) eqn:E2.
    + apply andb_true_iff in E2. destruct E2 as [A B]. apply N.leb_le in A. apply N.leb_le in B.
      inversion H; subst. lia.
    + destruct ((65 <=? n) && (n <=? 70)) eqn:E3; [|discriminate].
      apply andb_true_iff in E3. destruct E3 as [A B]. apply N.leb_le in A. apply N.leb_le in B.
      inversion H; subst. lia.
Qed.

Lemma hex_go_ok : forall s acc off a o rest,
  acc < 16 ^ N.of_nat off -> (off <= 4)%nat ->
  hex_go s acc off = Some (a, o, rest) -> a < 16 ^ N.of_nat o /\ (o <= 4)%nat.
Proof.
  induction s as [|c t IH]; intros acc off a o rest Ha Ho H; cbn [hex_go] in H.
  - inversion H; subst. split; assumption.
  - destruct (hex_val c) as [d|] eqn:Ed.
    + destruct (Nat.ltb 3 off) eqn:E; [discriminate|]. apply Nat.ltb_ge in E.
      apply (IH _ _ _ _ _) in H; [exact H| |lia].
      rewrite Nat2N.inj_succ, N.pow_succ_r'. pose proof (hex_val_bound c d Ed). lia.
    + inversion H; subst. split; assumption.
Qed.

Lemma bytes_ok_group : forall acc, acc < 65536 -> bytes_ok [acc / 256; acc mod 256] = true.
Proof.
  intros acc H. unfold bytes_ok. cbn [forallb]. rewrite andb_true_r.
  apply andb_true_iff. split; apply N.ltb_lt.
  - apply N.div_lt_upper_bound; lia.
  - apply N.mod_lt. discriminate.
Qed.

Lemma v6_loop_ok : forall fuel s ip ell r ell' rest,
  bytes_ok ip = true -> (List.length ip <= 16)%nat -> Nat.even (List.length ip) = true ->
  v6_loop fuel s ip ell = Some (r, ell', rest) ->
  bytes_ok r = true /\ (List.length r <= 16)%nat.
Proof.
  induction fuel as [|fuel IH]; intros s ip ell r ell' rest Hb Hl He H; cbn [v6_loop] in H.
  - inversion H; subst. split; assumption.
  - destruct (negb (Nat.ltb (List.length ip) 16)) eqn:E16.
    + inversion H; subst. split; assumption.
    + apply negb_false_iff in E16. apply Nat.ltb_lt in E16.
      destruct (hex_go s 0 0) as [[[acc off] rst]|] eqn:Eh; [|discriminate].
      destruct (hex_go_ok s 0 0 acc off rst) as [Hacc Hoff]; [cbn; lia|lia|exact Eh|].
      assert (Hacc' : acc < 65536).
      { eapply N.lt_le_trans; [exact Hacc|]. change 65536 with (16 ^ 4).
        apply N.pow_le_mono_r; lia. }
      assert (Hlen14 : (List.length ip <= 14)%nat).
      { destruct (Nat.even_spec (List.length ip)) as [X _]. destruct (X He) as [k Ek]. lia. }
      pose proof (bytes_ok_group acc Hacc') as Hgrp.
      set (grp := [acc / 256; acc mod 256]) in *.
      assert (Lgrp : List.length grp = 2%nat) by reflexivity.
      assert (Hb' : bytes_ok (ip ++ grp) = true).
      { rewrite bytes_ok_app, Hb, Hgrp. reflexivity. }
      assert (Hl' : (List.length (ip ++ grp) <= 16)%nat).
      { rewrite app_length, Lgrp. lia. }
      assert (He' : Nat.even (List.length (ip ++ grp)) = true).
      { rewrite app_length, Lgrp. rewrite Nat.add_comm. cbn [Nat.add Nat.even]. exact He. }
      destruct (Nat.eqb off 0); [discriminate|].
      destruct rst as [|c r1].
      * inversion H; subst. split; assumption.
      * destruct (Ascii.eqb c ".").
        -- destruct (is_none ell && negb (Nat.eqb (List.length ip) 12)); [discriminate|].
           destruct (Nat.ltb 16 (List.length ip + 4)) eqn:E4; [discriminate|]. apply Nat.ltb_ge in E4.
           destruct (parse_v4_fields s) as [f|] eqn:Ef; [|discriminate].
           destruct (parse_v4_fields_ok s f Ef) as [Lf Bf]. inversion H; subst.
           split; [rewrite bytes_ok_app, Hb, Bf; reflexivity|rewrite app_length; lia].
        -- destruct (negb (Ascii.eqb c ":")); [discriminate|].
           destruct r1 as [|c2 r2]; [discriminate|].
           destruct (Ascii.eqb c2 ":").
           ++ destruct ell; [discriminate|]. destruct (is_nil r2).
              ** inversion H; subst. split; assumption.
              ** exact (IH _ _ _ _ _ _ Hb' Hl' He' H).
           ++ exact (IH _ _ _ _ _ _ Hb' Hl' He' H).
Qed.

Lemma bytes_ok_zeros : forall n, bytes_ok (zeros n) = true.
Proof. induction n as [|n IH]; [reflexivity|]. cbn. exact IH. Qed.

Lemma bytes_ok_firstn : forall n a, bytes_ok a = true -> bytes_ok (firstn n a) = true.
Proof.
  intros n a H. rewrite <- (firstn_skipn n a), bytes_ok_app in H.
  apply andb_true_iff in H. tauto.
Qed.

Lemma parse_v6_ok : forall s r, parse_v6 s = Some r -> List.length r = 16%nat /\ bytes_ok r = true.
Proof.
  intros s r H. unfold parse_v6 in H.
  destruct (existsb (Ascii.eqb "%") s); [discriminate|].
  assert (K : forall s0 ell0,
    match v6_loop 9 s0 [] ell0 with
    | None => None
    | Some (ip, ell, rest) =>
        if negb (is_nil rest) then None
        else if Nat.ltb (List.length ip) 16 then
               match ell with
               | None => None
               | Some e => Some (firstn e ip ++ zeros (16 - List.length ip) ++ skipn e ip)
               end
             else if is_none ell then Some ip else None
    end = Some r -> List.length r = 16%nat /\ bytes_ok r = true).
  { intros s0 ell0 K. destruct (v6_loop 9 s0 [] ell0) as [[[ip ell] rest]|] eqn:El; [|discriminate].
    destruct (v6_loop_ok 9 s0 [] ell0 ip ell rest) as [Bi Li]; [reflexivity|cbn; lia|reflexivity|exact El|].
    destruct (negb (is_nil rest)); [discriminate|].
    destruct (Nat.ltb (List.length ip) 16) eqn:E.
    - apply Nat.ltb_lt in E. destruct ell as [e|]; [|discriminate].
      assert (Er : r = firstn e ip ++ zeros (16 - List.length ip) ++ skipn e ip) by congruence.
      clear K. subst r. split.
      + rewrite !app_length, firstn_length, skipn_length. unfold zeros. rewrite repeat_length. lia.
      + rewrite !bytes_ok_app, bytes_ok_zeros, (bytes_ok_firstn e ip Bi), (bytes_ok_skipn e ip Bi).
        reflexivity.
    - apply Nat.ltb_ge in E. destruct (is_none ell); [|discriminate]. inversion K; subst.
      split; [lia|exact Bi]. }
  destruct s as [|c1 [|c2 r0]].
  - apply (K [] None). exact H.
  - apply (K [c1] None). exact H.
  - destruct (Ascii.eqb c1 ":" && Ascii.eqb c2 ":").
    + destruct (is_nil r0).
      * inversion H; subst. split; [reflexivity|apply bytes_ok_zeros].
      * apply (K r0 (Some O)). exact H.
    + apply (K (c1 :: c2 :: r0) None). exact H.
Qed.

Lemma parse_addr_scan_ok : forall s whole a, parse_addr_scan whole s = Some a -> addr_ok a = true.
Proof.
  induction s as [|c t IH]; intros whole a H; cbn [parse_addr_scan] in H; [discriminate|].
  destruct (Ascii.eqb c ".").
  - destruct (parse_v4_fields whole) as [f|] eqn:E; [|discriminate]. inversion H; subst.
    destruct (parse_v4_fields_ok _ _ E) as [L B]. cbn [addr_ok]. rewrite (len_is_true _ f 4%nat L), B. reflexivity.
  - destruct (Ascii.eqb c ":").
    + destruct (parse_v6 whole) as [f|] eqn:E; [|discriminate]. inversion H; subst.
      destruct (parse_v6_ok _ _ E) as [L B]. cbn [addr_ok]. rewrite (len_is_true _ f 16%nat L), B. reflexivity.
    + destruct (Ascii.eqb c "%"); [discriminate|]. exact (IH whole a H).
Qed.

Lemma parse_addr_ok : forall s a, parse_addr s = Some a -> addr_ok a = true.
Proof. intros s a H. exact (parse_addr_scan_ok s s a H). Qed.

Lemma parse_ip_ok : forall s ip, parse_ip s = Some ip ->
  List.length ip = 16%nat /\ bytes_ok ip = true.
Proof.
  intros s ip H. unfold parse_ip in H. destruct (parse_addr s) as [a|] eqn:E; [|discriminate].
  inversion H; subst. pose proof (parse_addr_ok s a E) as Ok.
  destruct a as [b|b]; cbn [addr_ok as16] in *; apply andb_true_iff in Ok; destruct Ok as [L B];
    apply Nat.eqb_eq in L.
  - split; [rewrite app_length, L; reflexivity|rewrite bytes_ok_app, B; reflexivity].
  - split; assumption.
Qed.

(* ------------------------------------------------------------------ *)
(* IPMatch on texts *)

(* ip2 is "address/prefix": the result is prefix arithmetic *)
Theorem ipMatch_cidr : forall s1 s2 ip1 atxt mtxt ad n,
  parse_ip s1 = Some ip1 ->
  cut_slash s2 = Some (atxt, mtxt) -> parse_addr atxt = Some ad -> parse_dec mtxt = Some n ->
  n <= bitlen ad ->
  ipMatch s1 s2 = Some (cidr_spec ad n ip1).
Proof.
  intros s1 s2 ip1 atxt mtxt ad n H1 Hc Ha Hn Hle.
  destruct (parse_ip_ok s1 ip1 H1) as [L1 B1].
  destruct (contains_cidr ad n ip1 (parse_addr_ok _ _ Ha) Hle L1 B1) as (nip & nmask & Em & Ec).
  unfold ipMatch, parse_cidr. rewrite H1, Hc, Ha, Hn.
  assert (E : bitlen ad <? n = false) by (apply N.ltb_ge; exact Hle).
  rewrite E, Em, Ec. reflexivity.
Qed.

Lemma nlist_eqb_eq : forall a b, nlist_eqb a b = true <-> a = b.
Proof.
  induction a as [|x a IH]; destruct b as [|y b]; cbn [nlist_eqb]; split; intro H;
    try reflexivity; try discriminate.
  - apply andb_true_iff in H. destruct H as [H1 H2]. apply N.eqb_eq in H1. apply IH in H2.
    subst. reflexivity.
  - inversion H; subst. rewrite N.eqb_refl. cbn. apply IH. reflexivity.
Qed.

(* ip2 is a single address: equality of the 16-byte forms *)
Theorem ipMatch_single : forall s1 s2 ip1 ip2,
  parse_ip s1 = Some ip1 -> parse_cidr s2 = None -> parse_ip s2 = Some ip2 ->
  exists b, ipMatch s1 s2 = Some b /\ (b = true <-> ip1 = ip2).
Proof.
  intros s1 s2 ip1 ip2 H1 Hc H2. unfold ipMatch. rewrite H1, Hc, H2.
  destruct (parse_ip_ok _ _ H1) as [L1 _]. destruct (parse_ip_ok _ _ H2) as [L2 _].
  exists (ip_equal ip1 ip2). split; [reflexivity|].
  unfold ip_equal. rewrite L1, L2. cbn [Nat.eqb]. apply nlist_eqb_eq.
Qed.

(* IPMatch panics exactly on malformed arguments *)
Theorem ipMatch_panics : forall s1 s2,
  ipMatch s1 s2 = None <->
  parse_ip s1 = None \/ (parse_cidr s2 = None /\ parse_ip s2 = None).
Proof.
  intros s1 s2. unfold ipMatch. destruct (parse_ip s1) as [o1|]; [|split; [left; reflexivity|reflexivity]].
  destruct (parse_cidr s2) as [[nip nmask]|].
  - split; [discriminate|]. intros [H|[H _]]; discriminate.
  - destruct (parse_ip s2) as [o2|].
    + split; [discriminate|]. intros [H|[_ H]]; discriminate.
    + split; [right; split; reflexivity|reflexivity].
Qed.
