(* Csv.v — persist/adapter.go: LoadPolicyLine / LoadPolicyArray, and the part of Go's
   encoding/csv (reader.go, go1.23) that LoadPolicyLine uses:
     r.Comma = comma  r.Comment = hash  r.TrimLeadingSpace = true  LazyQuotes = false, one Read().
   Definitions only (the proofs are in CsvProofs.v), so the file extracts even when a proof breaks.

   Strings are byte strings (Coq [string] = list of [ascii] = Go string bytes).
   DOMAIN: a line given to [load_policy_line] contains no LF byte.  That is what every shipped
   caller passes (file adapter: bufio.Scanner lines; string adapter: strings.Split(text, LF)).
   With an LF inside, encoding/csv would read further physical lines; that is not modelled
   (the model then treats LF as one more blank byte).

   Go facts used (checked against $(go env GOROOT)/src/encoding/csv/reader.go, unicode.IsSpace,
   strings.TrimSpace, utf8.DecodeRune / DecodeLastRune):
   * unicode.IsSpace(r) holds exactly for U+0009..U+000D, U+0020, U+0085, U+00A0, U+1680,
     U+2000..U+200A, U+2028, U+2029, U+202F, U+205F, U+3000.  UTF-8 is decoded deterministically
     and only shortest forms are valid, an invalid byte decodes to U+FFFD of width 1 (not a
     blank); so "the next rune is a blank" = "the bytes start with one of the encodings below",
     and for DecodeLastRune "the bytes end with one of them" (every encoding below starts with a
     lead byte and continues with continuation bytes only, so scanning back to the nearest
     rune-start byte finds exactly its lead byte).
   * readLine at EOF drops ONE trailing CR; there is no LF, so lengthNL(line) = 0 throughout. *)
From Coq Require Import List String Ascii Bool Arith.
Import ListNotations.
Open Scope string_scope.

Notation rule := (list string).

Inductive result (A : Type) : Type :=
| Ok (a : A)
| Err.
Arguments Ok {A} a.
Arguments Err {A}.

(* ---------- bytes ---------- *)
Definition c_tab   : ascii := Eval compute in ascii_of_nat 9.
Definition c_lf    : ascii := Eval compute in ascii_of_nat 10.
Definition c_vt    : ascii := Eval compute in ascii_of_nat 11.
Definition c_ff    : ascii := Eval compute in ascii_of_nat 12.
Definition c_cr    : ascii := Eval compute in ascii_of_nat 13.
Definition c_sp    : ascii := Eval compute in ascii_of_nat 32.
Definition c_quote : ascii := Eval compute in ascii_of_nat 34.
Definition c_hash  : ascii := Eval compute in ascii_of_nat 35.
Definition c_comma : ascii := Eval compute in ascii_of_nat 44.
Definition c_C2 : ascii := Eval compute in ascii_of_nat 194.
Definition c_E1 : ascii := Eval compute in ascii_of_nat 225.
Definition c_E2 : ascii := Eval compute in ascii_of_nat 226.
Definition c_E3 : ascii := Eval compute in ascii_of_nat 227.
Definition c_80 : ascii := Eval compute in ascii_of_nat 128.
Definition c_81 : ascii := Eval compute in ascii_of_nat 129.
Definition c_85 : ascii := Eval compute in ascii_of_nat 133.
Definition c_9A : ascii := Eval compute in ascii_of_nat 154.
Definition c_9F : ascii := Eval compute in ascii_of_nat 159.
Definition c_A0 : ascii := Eval compute in ascii_of_nat 160.
Definition c_A8 : ascii := Eval compute in ascii_of_nat 168.
Definition c_A9 : ascii := Eval compute in ascii_of_nat 169.
Definition c_AF : ascii := Eval compute in ascii_of_nat 175.

(* one-byte blanks: \t \n \v \f \r and space *)
Definition is_sp1 (a : ascii) : bool :=
  Ascii.eqb a c_tab || Ascii.eqb a c_lf || Ascii.eqb a c_vt || Ascii.eqb a c_ff
  || Ascii.eqb a c_cr || Ascii.eqb a c_sp.
(* two-byte blanks: U+0085 = C2 85, U+00A0 = C2 A0 *)
Definition is_sp2 (a b : ascii) : bool :=
  Ascii.eqb a c_C2 && (Ascii.eqb b c_85 || Ascii.eqb b c_A0).
(* three-byte blanks: U+1680 = E1 9A 80; U+2000..U+200A = E2 80 80..8A; U+2028/2029 = E2 80 A8/A9;
   U+202F = E2 80 AF; U+205F = E2 81 9F; U+3000 = E3 80 80 *)
Definition is_sp3 (a b c : ascii) : bool :=
  (Ascii.eqb a c_E1 && Ascii.eqb b c_9A && Ascii.eqb c c_80)
  || (Ascii.eqb a c_E2 && Ascii.eqb b c_80 &&
      ((Nat.leb 128 (nat_of_ascii c) && Nat.leb (nat_of_ascii c) 138)
       || Ascii.eqb c c_A8 || Ascii.eqb c c_A9 || Ascii.eqb c c_AF))
  || (Ascii.eqb a c_E2 && Ascii.eqb b c_81 && Ascii.eqb c c_9F)
  || (Ascii.eqb a c_E3 && Ascii.eqb b c_80 && Ascii.eqb c c_80).

(* strings.TrimLeftFunc(s, unicode.IsSpace) / csv's TrimLeadingSpace: drop blanks at the front *)
Fixpoint trim_left (s : string) : string :=
  match s with
  | EmptyString => EmptyString
  | String a r1 =>
    if is_sp1 a then trim_left r1 else
    match r1 with
    | EmptyString => s
    | String b r2 =>
      if is_sp2 a b then trim_left r2 else
      match r2 with
      | EmptyString => s
      | String c r3 => if is_sp3 a b c then trim_left r3 else s
      end
    end
  end.

Fixpoint rev_onto (s acc : string) : string :=
  match s with
  | EmptyString => acc
  | String a r => rev_onto r (String a acc)
  end.
Definition rev_str (s : string) : string := rev_onto s EmptyString.

(* the same on the reversed string: a blank encoding read backwards *)
Fixpoint trim_left_rev (s : string) : string :=
  match s with
  | EmptyString => EmptyString
  | String a r1 =>
    if is_sp1 a then trim_left_rev r1 else
    match r1 with
    | EmptyString => s
    | String b r2 =>
      if is_sp2 b a then trim_left_rev r2 else
      match r2 with
      | EmptyString => s
      | String c r3 => if is_sp3 c b a then trim_left_rev r3 else s
      end
    end
  end.

(* strings.TrimRightFunc(s, unicode.IsSpace) *)
Definition trim_right (s : string) : string := rev_str (trim_left_rev (rev_str s)).
(* strings.TrimSpace *)
Definition trim (s : string) : string := trim_right (trim_left s).

(* ---------- small string functions ---------- *)
Fixpoint has_char (c : ascii) (s : string) : bool :=
  match s with
  | EmptyString => false
  | String a r => Ascii.eqb a c || has_char c r
  end.

(* strings.HasPrefix(s, #) / nextRune(line) is # *)
Definition starts_with (c : ascii) (s : string) : bool :=
  match s with
  | String a _ => Ascii.eqb a c
  | EmptyString => false
  end.

Fixpoint ends_with (c : ascii) (s : string) : bool :=
  match s with
  | EmptyString => false
  | String a EmptyString => Ascii.eqb a c
  | String _ r => ends_with c r
  end.

Fixpoint drop_last (s : string) : string :=
  match s with
  | EmptyString => EmptyString
  | String _ EmptyString => EmptyString
  | String a r => String a (drop_last r)
  end.

(* the field up to the first comma, and what follows that comma (None: no comma) *)
Fixpoint break_comma (s : string) : string * option string :=
  match s with
  | EmptyString => (EmptyString, None)
  | String a r =>
    if Ascii.eqb a c_comma then (EmptyString, Some r)
    else let (f, m) := break_comma r in (String a f, m)
  end.

(* strings.Split(s, comma) *)
Fixpoint split_on (c : ascii) (s : string) : list string :=
  match s with
  | EmptyString => [EmptyString]
  | String a r =>
    if Ascii.eqb a c then EmptyString :: split_on c r
    else match split_on c r with
         | h :: t => String a h :: t
         | [] => [String a EmptyString]
         end
  end.
Definition split_comma (s : string) : list string := split_on c_comma s.

(* strings.Join(rule, comma) : the key of PolicyMap (model.DefaultSep) *)
Definition rule_key (r : rule) : string := String.concat "," r.

(* ---------- encoding/csv, one record, no LF ---------- *)
(* the inside of a quoted field, after the opening quote *)
Inductive qres : Type :=
| QErr                                  (* ErrQuote: no closing quote, or a quote followed by other text *)
| QEnd (f : string)                     (* closing quote at the end of the line *)
| QMore (f : string) (rest : string).   (* closing quote followed by a comma; rest = after the comma *)

Definition qcons (a : ascii) (q : qres) : qres :=
  match q with
  | QErr => QErr
  | QEnd f => QEnd (String a f)
  | QMore f r => QMore (String a f) r
  end.

Fixpoint quoted (s : string) : qres :=
  match s with
  | EmptyString => QErr                                   (* abrupt end, LazyQuotes = false *)
  | String a r =>
    if Ascii.eqb a c_quote then
      match r with
      | EmptyString => QEnd EmptyString                   (* quote, then end of line *)
      | String b r' =>
        if Ascii.eqb b c_quote then qcons c_quote (quoted r')     (* doubled quote *)
        else if Ascii.eqb b c_comma then QMore EmptyString r'     (* quote, comma *)
        else QErr                                                 (* quote, other byte *)
      end
    else qcons a (quoted r)
  end.

(* parseField loop; fuel = an upper bound on the number of fields (every field but the last
   consumes its comma) *)
Fixpoint fields (fuel : nat) (line : string) : result (list string) :=
  match fuel with
  | O => Err
  | S n =>
    let l := trim_left line in                       (* TrimLeadingSpace *)
    if starts_with c_quote l then
      match l with
      | EmptyString => Err
      | String _ rest =>
        match quoted rest with
        | QErr => Err
        | QEnd f => Ok [f]
        | QMore f r =>
          match fields n r with
          | Ok fs => Ok (f :: fs)
          | Err => Err
          end
        end
      end
    else
      let (f, m) := break_comma l in
      if has_char c_quote f then Err                 (* ErrBareQuote *)
      else match m with
           | None => Ok [f]
           | Some r =>
             match fields n r with
             | Ok fs => Ok (f :: fs)
             | Err => Err
             end
           end
  end.

(* csv.Reader.Read on strings.NewReader(s): readLine (one trailing CR dropped at EOF), comment
   and empty lines skipped — after which there is nothing left to read: io.EOF *)
Definition read_record (s : string) : result (list string) :=
  match s with
  | EmptyString => Err                                           (* io.EOF *)
  | _ =>
    let line := if ends_with c_cr s then drop_last s else s in
    if starts_with c_hash line then Err                          (* comment, then io.EOF *)
    else match line with
         | EmptyString => Err                                    (* empty line, then io.EOF *)
         | _ => fields (S (String.length line)) line
         end
  end.

(* ---------- the policy store as LoadPolicyArray sees it ---------- *)
(* one assertion model[sec][key]: its key (the section is key[:1]), the number of tokens of its
   definition, and assertion.Policy (PolicyMap is the set of rule_key of these, see C06) *)
Record entry : Type := mkEntry { e_key : string; e_ntok : nat; e_rules : list rule }.
Notation store := (list entry).

Definition set_rules (e : entry) (rs : list rule) : entry := mkEntry (e_key e) (e_ntok e) rs.

(* key[:1] *)
Definition sec_of (key : string) : string :=
  match key with
  | EmptyString => EmptyString
  | String a _ => String a EmptyString
  end.

Fixpoint find_entry (key : string) (st : store) : option entry :=
  match st with
  | [] => None
  | e :: t => if String.eqb (e_key e) key then Some e else find_entry key t
  end.

Definition rules_of (key : string) (st : store) : list rule :=
  match find_entry key st with
  | Some e => e_rules e
  | None => []
  end.

(* _, ok := PolicyMap[strings.Join(rule, comma)] *)
Definition key_in (r : rule) (rs : list rule) : bool :=
  existsb (fun r' => String.eqb (rule_key r') (rule_key r)) rs.

(* assertion.Policy = append(assertion.Policy, rule)   (no priority column: see Filter.v notes) *)
Fixpoint add_rule (key : string) (r : rule) (st : store) : store :=
  match st with
  | [] => []
  | e :: t =>
    if String.eqb (e_key e) key then set_rules e (e_rules e ++ [r]) :: t
    else e :: add_rule key r t
  end.

(* HasPolicyEx's arity test *)
Definition arity_ok (key : string) (ntok : nat) (r : rule) : bool :=
  if String.eqb (sec_of key) "p" then Nat.eqb (List.length r) ntok
  else if String.eqb (sec_of key) "g" then Nat.leb ntok (List.length r)
  else true.

(* persist.LoadPolicyArray *)
Definition load_policy_array (toks : list string) (st : store) : result store :=
  match toks with
  | [] => Err
  | key :: r =>
    if String.eqb key "" then Err                       (* missing policy type (F13 repaired) *)
    else match find_entry key st with
         | None => Err                                  (* missing section / definition *)
         | Some e =>
           if negb (arity_ok key (e_ntok e) r) then Err
           else if key_in r (e_rules e) then Ok st      (* duplicate: skipped *)
           else Ok (add_rule key r st)
         end
  end.

(* line is empty or strings.HasPrefix(line, #) *)
Definition skip_line (line : string) : bool :=
  String.eqb line "" || starts_with c_hash line.

(* persist.LoadPolicyLine *)
Definition load_policy_line (line : string) (st : store) : result store :=
  if skip_line line then Ok st
  else match read_record line with
       | Err => Err
       | Ok toks => load_policy_array toks st
       end.

(* ---------- a line's meaning independent of the rules already stored ---------- *)
(* Err: the line is rejected; Ok None: nothing to load; Ok (Some (key, r)): rule r of type key.
   (CsvProofs.load_policy_line_classify: load_policy_line is this plus duplicate skipping.) *)
Definition classify (st : store) (line : string) : result (option (string * rule)) :=
  if skip_line line then Ok None
  else match read_record line with
       | Err => Err
       | Ok [] => Err
       | Ok (key :: r) =>
         if String.eqb key "" then Err
         else match find_entry key st with
              | None => Err
              | Some e => if arity_ok key (e_ntok e) r then Ok (Some (key, r)) else Err
              end
       end.

(* append the rules whose key is not yet listed, in order (what a sequence of LoadPolicyArray
   calls does to one assertion) *)
Fixpoint add_all (l : list rule) (rs : list rule) : list rule :=
  match rs with
  | [] => l
  | r :: t => if key_in r l then add_all l t else add_all (l ++ [r]) t
  end.

(* ---------- save printers (file-adapter SavePolicy, util.ArrayToString) ---------- *)
Definition print_line (key : string) (r : rule) : string :=
  key ++ ", " ++ String.concat ", " r.

(* ---------- the guard under which a line means what it looks like ---------- *)
(* no quote anywhere, no CR at the end, at least one field after the type, and no field ends in a
   blank (csv trims only leading blanks).  Then csv's record is the naive split with leading
   blanks removed (CsvProofs.read_record_safe). *)
Definition safe_piece (pc : string) : bool :=
  let f := trim_left pc in String.eqb (trim_right f) f.
Definition safe_line (line : string) : bool :=
  negb (has_char c_quote line) && negb (ends_with c_cr line) && negb (skip_line line)
  && Nat.leb 2 (List.length (split_comma line)) && forallb safe_piece (split_comma line).
Definition line_ok (line : string) : bool := skip_line line || safe_line line.

Definition comma_free (f : string) : bool := negb (has_char c_comma f).

(* a field that survives SavePolicy + LoadPolicyLine: no comma, no quote, no outer blanks *)
Definition safe_field (f : string) : bool :=
  negb (has_char c_comma f) && negb (has_char c_quote f) && String.eqb (trim f) f.
