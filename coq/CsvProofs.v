(* CsvProofs.v — lemmas about Csv.v.
   Main results:
     read_record_safe   : on a safe line, encoding/csv's record = the naive comma split with the
                          leading blanks of every piece removed
     load_policy_line_classify : LoadPolicyLine = classify + duplicate skipping
     add_all_firsts / firsts_filter / firsts_split : the list algebra of duplicate skipping
     rule_key_inj       : strings.Join(rule, comma) is injective on non-empty comma-free rules
     load_line_missing_type : the line ",a" is an error in every model (F13)
     read_record_print_line : what SavePolicy prints for a rule of safe fields reads back as that rule *)
From Coq Require Import List String Ascii Bool Arith Lia.
From Casbin Require Import Csv.
Import ListNotations.
Open Scope string_scope.

(* ---------- bytes ---------- *)
Lemma sp1_not (c : ascii) : is_sp1 c = false -> forall a, is_sp1 a = true -> Ascii.eqb a c = false.
Proof.
  intros Hc a Ha. destruct (Ascii.eqb_spec a c) as [->|]; [congruence|reflexivity].
Qed.

Lemma sp2_fst a b : is_sp2 a b = true -> a = c_C2.
Proof. unfold is_sp2. intros H. apply andb_true_iff in H. apply Ascii.eqb_eq. tauto. Qed.

Lemma sp2_snd a b : is_sp2 a b = true -> b = c_85 \/ b = c_A0.
Proof.
  unfold is_sp2. intros H. apply andb_true_iff in H. destruct H as [_ H].
  apply orb_true_iff in H. rewrite !Ascii.eqb_eq in H. exact H.
Qed.

Lemma sp3_fst a b c : is_sp3 a b c = true -> a = c_E1 \/ a = c_E2 \/ a = c_E3.
Proof.
  unfold is_sp3. intros H.
  repeat (apply orb_true_iff in H; destruct H as [H|H]);
    repeat (apply andb_true_iff in H; destruct H as [H ?]);
    apply Ascii.eqb_eq in H; auto.
Qed.

Lemma sp3_snd a b c : is_sp3 a b c = true -> b = c_9A \/ b = c_80 \/ b = c_81.
Proof.
  unfold is_sp3. intros H.
  repeat (apply orb_true_iff in H; destruct H as [H|H]);
    repeat (apply andb_true_iff in H; destruct H as [H ?]);
    match goal with K : Ascii.eqb b _ = true |- _ => apply Ascii.eqb_eq in K; auto end.
Qed.

Lemma sp3_thd a b c : is_sp3 a b c = true -> Nat.leb 128 (nat_of_ascii c) = true.
Proof.
  unfold is_sp3. intros H.
  repeat (apply orb_true_iff in H; destruct H as [H|H]);
    repeat (apply andb_true_iff in H; destruct H as [H ?]);
    try (match goal with K : Ascii.eqb c _ = true |- _ => apply Ascii.eqb_eq in K; subst c; reflexivity end).
  - match goal with K : (_ || _ || _ || _) = true |- _ => rename K into K0 end.
    repeat (apply orb_true_iff in K0; destruct K0 as [K0|K0]);
      try (apply Ascii.eqb_eq in K0; subst c; reflexivity).
    apply andb_true_iff in K0. tauto.
Qed.

(* a byte that is no part of any blank encoding: below 128 and not a one-byte blank *)
Definition plain_byte (q : ascii) : Prop :=
  is_sp1 q = false /\ Nat.leb 128 (nat_of_ascii q) = false.

Lemma plain_not_sp1 q a : plain_byte q -> is_sp1 a = true -> Ascii.eqb a q = false.
Proof. intros [H _] Ha. eapply sp1_not; eauto. Qed.

Lemma plain_not_sp2 q a b : plain_byte q -> is_sp2 a b = true ->
  Ascii.eqb a q = false /\ Ascii.eqb b q = false.
Proof.
  intros [_ H] Hs. split.
  - destruct (Ascii.eqb_spec a q) as [->|]; [|reflexivity].
    apply sp2_fst in Hs. subst q. discriminate H.
  - destruct (Ascii.eqb_spec b q) as [->|]; [|reflexivity].
    apply sp2_snd in Hs. destruct Hs; subst q; discriminate H.
Qed.

Lemma plain_not_sp3 q a b c : plain_byte q -> is_sp3 a b c = true ->
  Ascii.eqb a q = false /\ Ascii.eqb b q = false /\ Ascii.eqb c q = false.
Proof.
  intros [_ H] Hs. repeat split.
  - destruct (Ascii.eqb_spec a q) as [->|]; [|reflexivity].
    apply sp3_fst in Hs. destruct Hs as [?|[?|?]]; subst q; discriminate H.
  - destruct (Ascii.eqb_spec b q) as [->|]; [|reflexivity].
    apply sp3_snd in Hs. destruct Hs as [?|[?|?]]; subst q; discriminate H.
  - destruct (Ascii.eqb_spec c q) as [->|]; [|reflexivity].
    apply sp3_thd in Hs. congruence.
Qed.

Lemma comma_plain : plain_byte c_comma.  Proof. split; reflexivity. Qed.
Lemma quote_plain : plain_byte c_quote.  Proof. split; reflexivity. Qed.

(* ---------- trim_left ---------- *)
Definition starts_blank (s : string) : bool :=
  match s with
  | EmptyString => false
  | String a r1 =>
    is_sp1 a ||
    match r1 with
    | EmptyString => false
    | String b r2 =>
      is_sp2 a b ||
      match r2 with
      | EmptyString => false
      | String c _ => is_sp3 a b c
      end
    end
  end.

Lemma trim_left_noblank s : starts_blank s = false -> trim_left s = s.
Proof.
  destruct s as [|a [|b [|c r]]]; simpl; intros H; auto.
  - apply orb_false_iff in H. destruct H as [-> _]. reflexivity.
  - apply orb_false_iff in H. destruct H as [-> H].
    apply orb_false_iff in H. destruct H as [-> _]. reflexivity.
  - apply orb_false_iff in H. destruct H as [-> H].
    apply orb_false_iff in H. destruct H as [-> H]. rewrite H. reflexivity.
Qed.

(* induction along the recursion of trim_left *)
Lemma trim_left_rect (P : string -> string -> Prop) :
  (forall a r, is_sp1 a = true -> P r (trim_left r) -> P (String a r) (trim_left r)) ->
  (forall a b r, is_sp1 a = false -> is_sp2 a b = true -> P r (trim_left r) ->
                 P (String a (String b r)) (trim_left r)) ->
  (forall a b c r, is_sp1 a = false -> is_sp2 a b = false -> is_sp3 a b c = true ->
                   P r (trim_left r) -> P (String a (String b (String c r))) (trim_left r)) ->
  (forall s, starts_blank s = false -> P s s) ->
  forall s, P s (trim_left s).
Proof.
  intros H1 H2 H3 H0.
  assert (G : forall n s, String.length s <= n -> P s (trim_left s)).
  { induction n as [|n IH]; intros s Hl.
    - destruct s; [|simpl in Hl; lia]. apply (H0 ""). reflexivity.
    - destruct s as [|a r1]. { apply (H0 ""). reflexivity. }
      simpl in Hl.
      destruct (is_sp1 a) eqn:E1.
      { replace (trim_left (String a r1)) with (trim_left r1) by (simpl; rewrite E1; reflexivity).
        apply H1; auto. apply IH. lia. }
      destruct r1 as [|b r2].
      { replace (trim_left (String a "")) with (String a "") by (simpl; rewrite E1; reflexivity).
        apply H0. simpl. rewrite E1. reflexivity. }
      simpl in Hl.
      destruct (is_sp2 a b) eqn:E2.
      { replace (trim_left (String a (String b r2))) with (trim_left r2)
          by (simpl; rewrite E1, E2; reflexivity).
        apply H2; auto. apply IH. lia. }
      destruct r2 as [|c r3].
      { replace (trim_left (String a (String b ""))) with (String a (String b ""))
          by (simpl; rewrite E1, E2; reflexivity).
        apply H0. simpl. rewrite E1, E2. reflexivity. }
      simpl in Hl.
      destruct (is_sp3 a b c) eqn:E3.
      { replace (trim_left (String a (String b (String c r3)))) with (trim_left r3)
          by (simpl; rewrite E1, E2, E3; reflexivity).
        apply H3; auto. apply IH. lia. }
      replace (trim_left (String a (String b (String c r3)))) with (String a (String b (String c r3)))
        by (simpl; rewrite E1, E2, E3; reflexivity).
      apply H0. simpl. rewrite E1, E2, E3. reflexivity. }
  intros s. apply (G (String.length s)). lia.
Qed.

(* what trim_left leaves is a suffix: it contains no byte the string did not contain *)
Lemma trim_left_has_char q s : has_char q s = false -> has_char q (trim_left s) = false.
Proof.
  apply (trim_left_rect (fun s t => has_char q s = false -> has_char q t = false)).
  - intros a r _ IH H. simpl in H. apply orb_false_iff in H. tauto.
  - intros a b r _ _ IH H. simpl in H. repeat (apply orb_false_iff in H; destruct H as [? H]). auto.
  - intros a b c r _ _ _ IH H. simpl in H. repeat (apply orb_false_iff in H; destruct H as [? H]). auto.
  - auto.
Qed.

Lemma trim_left_length s : String.length (trim_left s) <= String.length s.
Proof.
  apply (trim_left_rect (fun s t => String.length t <= String.length s)); intros; simpl; lia.
Qed.

(* ---------- break_comma / split_comma ---------- *)
Lemma split_on_nonempty c s : split_on c s <> [].
Proof. destruct s as [|a r]; simpl; [discriminate|]. destruct (Ascii.eqb a c); [discriminate|].
  destruct (split_on c r); discriminate. Qed.

Lemma split_comma_break s :
  split_comma s = match break_comma s with
                  | (f, None) => [f]
                  | (f, Some r) => f :: split_comma r
                  end.
Proof.
  unfold split_comma. induction s as [|a r IH]; simpl; [reflexivity|].
  destruct (Ascii.eqb a c_comma); [reflexivity|].
  rewrite IH. destruct (break_comma r) as [f [r'|]]; reflexivity.
Qed.

Lemma break_comma_has_char q s f m : break_comma s = (f, m) -> has_char q s = false ->
  has_char q f = false /\ (forall r, m = Some r -> has_char q r = false).
Proof.
  revert f m. induction s as [|a r IH]; simpl; intros f m E H.
  - inversion E; subst. split; [reflexivity|discriminate].
  - apply orb_false_iff in H. destruct H as [Ha Hr].
    destruct (Ascii.eqb a c_comma).
    + inversion E; subst. split; [reflexivity|]. intros r0 R. inversion R; subst; exact Hr.
    + destruct (break_comma r) as [f' m'] eqn:B. inversion E; subst.
      destruct (IH f' m eq_refl Hr) as [I1 I2]. split; [simpl; rewrite Ha, I1; reflexivity|exact I2].
Qed.

Lemma break_comma_length s f r : break_comma s = (f, Some r) -> String.length r < String.length s.
Proof.
  revert f. induction s as [|a s IH]; simpl; intros f E; [discriminate|].
  destruct (Ascii.eqb a c_comma).
  - inversion E; subst. lia.
  - destruct (break_comma s) as [f' m'] eqn:B. inversion E; subst. specialize (IH f' eq_refl). lia.
Qed.

Lemma break_comma_field_comma_free s f m : break_comma s = (f, m) -> has_char c_comma f = false.
Proof.
  revert f m. induction s as [|a s IH]; simpl; intros f m E.
  - inversion E; reflexivity.
  - destruct (Ascii.eqb a c_comma) eqn:Ea.
    + inversion E; reflexivity.
    + destruct (break_comma s) as [f' m'] eqn:B. inversion E; subst. simpl. rewrite Ea.
      exact (IH f' m eq_refl).
Qed.

Lemma split_comma_comma_free s : Forall (fun p => has_char c_comma p = false) (split_comma s).
Proof.
  assert (G : forall n s, String.length s < n ->
                          Forall (fun p => has_char c_comma p = false) (split_comma s)).
  { induction n as [|n IH]; intros s0 Hl; [lia|].
    rewrite split_comma_break. destruct (break_comma s0) as [f [r|]] eqn:B.
    - constructor; [eapply break_comma_field_comma_free; eauto|].
      apply IH. apply break_comma_length in B. lia.
    - constructor; [eapply break_comma_field_comma_free; eauto|constructor]. }
  apply (G (S (String.length s))). lia.
Qed.

(* the field of a string that does not start with a blank does not start with one either *)
Lemma starts_blank_break s f m : break_comma s = (f, m) -> starts_blank s = false ->
  starts_blank f = false.
Proof.
  intros E H.
  destruct s as [|a r1]; simpl in E. { inversion E; reflexivity. }
  destruct (Ascii.eqb a c_comma) eqn:Ea. { inversion E; reflexivity. }
  simpl in H. apply orb_false_iff in H. destruct H as [S1 H].
  destruct r1 as [|b r2]; simpl in E. { inversion E; subst. simpl. rewrite S1. reflexivity. }
  destruct (Ascii.eqb b c_comma) eqn:Eb. { inversion E; subst. simpl. rewrite S1. reflexivity. }
  apply orb_false_iff in H. destruct H as [S2 H].
  destruct r2 as [|c r3]; simpl in E. { inversion E; subst. simpl. rewrite S1, S2. reflexivity. }
  destruct (Ascii.eqb c c_comma) eqn:Ec. { inversion E; subst. simpl. rewrite S1, S2. reflexivity. }
  destruct (break_comma r3) as [f' m']. inversion E; subst. simpl. rewrite S1, S2, H. reflexivity.
Qed.

(* csv trims the rest of the line before it looks for the comma; that is the same as trimming
   the piece, because no blank encoding contains a comma *)
Lemma break_comma_trim_left s :
  forall f m, break_comma s = (f, m) -> break_comma (trim_left s) = (trim_left f, m).
Proof.
  apply (trim_left_rect (fun s t => forall f m, break_comma s = (f, m) ->
                                                break_comma t = (trim_left f, m))).
  - intros a r Ha IH f m E. simpl in E.
    rewrite (plain_not_sp1 _ _ comma_plain Ha) in E.
    destruct (break_comma r) as [f' m'] eqn:B. inversion E; subst.
    simpl. rewrite Ha. apply IH. reflexivity.
  - intros a b r Ha Hab IH f m E. simpl in E.
    destruct (plain_not_sp2 _ _ _ comma_plain Hab) as [Ea Eb]. rewrite Ea, Eb in E.
    destruct (break_comma r) as [f' m'] eqn:B. inversion E; subst.
    simpl. rewrite Ha, Hab. apply IH. reflexivity.
  - intros a b c r Ha Hab Habc IH f m E. simpl in E.
    destruct (plain_not_sp3 _ _ _ _ comma_plain Habc) as [Ea [Eb Ec]]. rewrite Ea, Eb, Ec in E.
    destruct (break_comma r) as [f' m'] eqn:B. inversion E; subst.
    simpl. rewrite Ha, Hab, Habc. apply IH. reflexivity.
  - intros s0 Hs f m E. rewrite E. f_equal. symmetry. apply trim_left_noblank.
    eapply starts_blank_break; eauto.
Qed.

(* ---------- the csv reader on a line without quotes ---------- *)
Lemma starts_with_has_char c s : has_char c s = false -> starts_with c s = false.
Proof. destruct s; simpl; [reflexivity|]. intros H. apply orb_false_iff in H. tauto. Qed.

Lemma fields_noquote : forall n line, String.length line < n -> has_char c_quote line = false ->
  fields n line = Ok (map trim_left (split_comma line)).
Proof.
  induction n as [|n IH]; intros line Hl Hq; [lia|].
  cbn [fields].
  pose proof (trim_left_has_char c_quote line Hq) as Hq'.
  rewrite (starts_with_has_char _ _ Hq').
  destruct (break_comma line) as [f m] eqn:B.
  rewrite (break_comma_trim_left line f m B).
  destruct (break_comma_has_char c_quote line f m B Hq) as [Hf Hm].
  rewrite (trim_left_has_char c_quote f Hf).
  rewrite split_comma_break, B.
  destruct m as [r|]; [|reflexivity].
  rewrite IH; [reflexivity| |auto].
  apply break_comma_length in B. lia.
Qed.

Lemma safe_line_parts line : safe_line line = true ->
  has_char c_quote line = false /\ ends_with c_cr line = false /\ skip_line line = false /\
  2 <= List.length (split_comma line) /\ forallb safe_piece (split_comma line) = true.
Proof.
  unfold safe_line. intros H.
  repeat (apply andb_true_iff in H; destruct H as [H ?]).
  repeat match goal with K : negb _ = true |- _ => apply negb_true_iff in K end.
  repeat split; auto. apply Nat.leb_le. assumption.
Qed.

(* on a safe line csv.Reader.Read returns the naive split with leading blanks removed *)
Lemma read_record_safe line : safe_line line = true ->
  read_record line = Ok (map trim_left (split_comma line)).
Proof.
  intros H. destruct (safe_line_parts line H) as [Hq [Hcr [Hsk _]]].
  unfold skip_line in Hsk. apply orb_false_iff in Hsk. destruct Hsk as [Hne Hh].
  unfold read_record. destruct line as [|a r]. { discriminate Hne. }
  rewrite Hcr, Hh. apply fields_noquote; [lia|exact Hq].
Qed.

(* ---------- LoadPolicyLine = classify + duplicate skipping ---------- *)
Lemma load_policy_line_classify line st :
  load_policy_line line st =
  match classify st line with
  | Err => Err
  | Ok None => Ok st
  | Ok (Some (k, r)) => Ok (if key_in r (rules_of k st) then st else add_rule k r st)
  end.
Proof.
  unfold load_policy_line, classify.
  destruct (skip_line line); [reflexivity|].
  destruct (read_record line) as [toks|]; [|reflexivity].
  unfold load_policy_array. destruct toks as [|key r]; [reflexivity|].
  destruct (String.eqb key ""); [reflexivity|].
  destruct (find_entry key st) as [e|] eqn:F; [|reflexivity].
  destruct (arity_ok key (e_ntok e) r); simpl; [|reflexivity].
  unfold rules_of. rewrite F.
  destruct (key_in r (e_rules e)); reflexivity.
Qed.

(* F13: a rule without a policy type is an error, whatever the model *)
Lemma load_line_missing_type st : load_policy_line ",a" st = Err.
Proof. reflexivity. Qed.

(* ---------- the store ---------- *)
(* two stores with the same definitions (keys and token counts), whatever their rules *)
Definition same_defs (st st' : store) : Prop :=
  forall k, option_map e_ntok (find_entry k st) = option_map e_ntok (find_entry k st').

Lemma same_defs_refl st : same_defs st st.  Proof. intros k; reflexivity. Qed.
Lemma same_defs_trans a b c : same_defs a b -> same_defs b c -> same_defs a c.
Proof. intros H1 H2 k. rewrite H1. apply H2. Qed.
Lemma same_defs_sym a b : same_defs a b -> same_defs b a.
Proof. intros H k. symmetry. apply H. Qed.

Lemma find_entry_add_rule k r st k' :
  find_entry k' (add_rule k r st) =
  if String.eqb k' k then option_map (fun e => set_rules e (e_rules e ++ [r])) (find_entry k st)
  else find_entry k' st.
Proof.
  induction st as [|e t IH]; simpl.
  - destruct (String.eqb k' k); reflexivity.
  - destruct (String.eqb (e_key e) k) eqn:E; simpl.
    + destruct (String.eqb k' k) eqn:E'.
      * apply String.eqb_eq in E, E'. rewrite E, E', String.eqb_refl. reflexivity.
      * destruct (String.eqb (e_key e) k') eqn:E''; [|reflexivity].
        apply String.eqb_eq in E, E''. rewrite <- E, <- E'', String.eqb_refl in E'. discriminate.
    + destruct (String.eqb (e_key e) k') eqn:E''.
      * destruct (String.eqb k' k) eqn:E'; [|reflexivity].
        apply String.eqb_eq in E', E''. rewrite E'', E', String.eqb_refl in E. discriminate.
      * exact IH.
Qed.

Lemma add_rule_same_defs k r st : same_defs st (add_rule k r st).
Proof.
  intros k'. rewrite find_entry_add_rule.
  destruct (String.eqb_spec k' k) as [->|]; [|reflexivity].
  destruct (find_entry k st); reflexivity.
Qed.

Lemma rules_of_add_rule k r st k' : find_entry k st <> None ->
  rules_of k' (add_rule k r st) = if String.eqb k' k then (rules_of k st ++ [r])%list else rules_of k' st.
Proof.
  intros H. unfold rules_of. rewrite find_entry_add_rule.
  destruct (String.eqb k' k); [|reflexivity].
  destruct (find_entry k st); [reflexivity|congruence].
Qed.

Lemma classify_same_defs st st' line : same_defs st st' -> classify st line = classify st' line.
Proof.
  intros H. unfold classify. destruct (skip_line line); [reflexivity|].
  destruct (read_record line) as [[|key r]|]; try reflexivity.
  destruct (String.eqb key ""); [reflexivity|].
  specialize (H key).
  destruct (find_entry key st) as [e|], (find_entry key st') as [e'|]; simpl in H; try discriminate; [|reflexivity].
  inversion H as [H']. rewrite H'. reflexivity.
Qed.

Lemma classify_some_find st line k r : classify st line = Ok (Some (k, r)) ->
  find_entry k st <> None /\ skip_line line = false /\ read_record line = Ok (k :: r).
Proof.
  unfold classify. destruct (skip_line line); [discriminate|].
  destruct (read_record line) as [[|key r0]|]; try discriminate.
  destruct (String.eqb key ""); [discriminate|].
  destruct (find_entry key st) as [e|] eqn:F; [|discriminate].
  destruct (arity_ok key (e_ntok e) r0); [|discriminate].
  intros E. inversion E; subst. rewrite F. repeat split; congruence.
Qed.

(* ---------- duplicate skipping as list algebra ---------- *)
Definition kmem (k : string) (s : list string) : bool := existsb (String.eqb k) s.

(* the elements whose key was not seen before, in order *)
Fixpoint firsts (seen : list string) (xs : list rule) : list rule :=
  match xs with
  | [] => []
  | x :: t => if kmem (rule_key x) seen then firsts seen t
              else x :: firsts (rule_key x :: seen) t
  end.

Lemma key_in_kmem r l : key_in r l = kmem (rule_key r) (map rule_key l).
Proof.
  unfold key_in, kmem. induction l as [|x l IH]; simpl; [reflexivity|].
  rewrite IH. f_equal. apply String.eqb_sym.
Qed.

Lemma kmem_app k a b : kmem k (a ++ b) = kmem k a || kmem k b.
Proof. unfold kmem. apply existsb_app. Qed.

Lemma key_in_app r a b : key_in r (a ++ b) = key_in r a || key_in r b.
Proof. unfold key_in. apply existsb_app. Qed.

Lemma firsts_ext s1 s2 xs : (forall k, kmem k s1 = kmem k s2) -> firsts s1 xs = firsts s2 xs.
Proof.
  revert s1 s2. induction xs as [|x t IH]; intros s1 s2 H; simpl; [reflexivity|].
  rewrite (H (rule_key x)). destruct (kmem (rule_key x) s2).
  - apply IH. exact H.
  - f_equal. apply IH. intros k. simpl. rewrite H. reflexivity.
Qed.

Lemma firsts_drop_unused k seen ys : (forall y, In y ys -> rule_key y <> k) ->
  firsts (k :: seen) ys = firsts seen ys.
Proof.
  revert seen. induction ys as [|y t IH]; intros seen H; simpl; [reflexivity|].
  assert (Hy : String.eqb (rule_key y) k = false).
  { apply String.eqb_neq. apply H. left; reflexivity. }
  rewrite Hy. simpl. destruct (kmem (rule_key y) seen).
  - apply IH. intros; apply H; right; assumption.
  - f_equal. rewrite (firsts_ext (rule_key y :: k :: seen) (k :: rule_key y :: seen)).
    + apply IH. intros; apply H; right; assumption.
    + intros k0. simpl. rewrite !orb_assoc. f_equal. apply orb_comm.
Qed.

(* duplicate skipping commutes with a filter that cannot tell two rules of equal key apart *)
Lemma firsts_filter (P : rule -> bool) seen xs :
  (forall x y, In x xs -> In y xs -> rule_key x = rule_key y -> P x = P y) ->
  firsts seen (filter P xs) = filter P (firsts seen xs).
Proof.
  revert seen. induction xs as [|x t IH]; intros seen Hinv; simpl; [reflexivity|].
  assert (Hinv' : forall a b, In a t -> In b t -> rule_key a = rule_key b -> P a = P b).
  { intros a b Ha Hb. apply Hinv; right; assumption. }
  destruct (P x) eqn:Px; simpl.
  - destruct (kmem (rule_key x) seen); simpl; [apply IH; exact Hinv'|].
    rewrite Px. f_equal. apply IH. exact Hinv'.
  - destruct (kmem (rule_key x) seen); simpl; [apply IH; exact Hinv'|].
    rewrite Px. rewrite <- IH by exact Hinv'.
    symmetry. apply firsts_drop_unused.
    intros y Hy E. apply filter_In in Hy. destruct Hy as [Hy Py].
    assert (P y = P x) by (apply Hinv; [right; exact Hy|left; reflexivity|exact E]).
    congruence.
Qed.

(* what was seen before only removes elements *)
Lemma firsts_split s1 s2 xs :
  firsts (s1 ++ s2) xs = filter (fun x => negb (kmem (rule_key x) s1)) (firsts s2 xs).
Proof.
  revert s2. induction xs as [|x t IH]; intros s2; simpl; [reflexivity|].
  rewrite kmem_app.
  destruct (kmem (rule_key x) s2) eqn:K2.
  - rewrite orb_true_r. apply IH.
  - rewrite orb_false_r. destruct (kmem (rule_key x) s1) eqn:K1; simpl; rewrite K1; simpl.
    + rewrite <- IH. apply firsts_ext. intros k. rewrite !kmem_app. simpl.
      destruct (String.eqb_spec k (rule_key x)) as [->|]; [rewrite K1; reflexivity|reflexivity].
    + f_equal. rewrite <- IH. apply firsts_ext. intros k. rewrite kmem_app. simpl. rewrite kmem_app.
      rewrite !orb_assoc. f_equal. apply orb_comm.
Qed.

Lemma add_all_firsts l xs : add_all l xs = (l ++ firsts (map rule_key l) xs)%list.
Proof.
  revert l. induction xs as [|x t IH]; intros l; simpl; [rewrite app_nil_r; reflexivity|].
  rewrite key_in_kmem. destruct (kmem (rule_key x) (map rule_key l)) eqn:K; [apply IH|].
  rewrite IH, <- app_assoc. simpl. do 2 f_equal.
  apply firsts_ext. intros k. rewrite map_app, kmem_app. simpl. rewrite orb_false_r. apply orb_comm.
Qed.

Lemma add_all_nil xs : add_all [] xs = firsts [] xs.
Proof. rewrite add_all_firsts. reflexivity. Qed.

(* loading onto l = l, then the not-yet-listed ones among a load onto the empty list *)
Lemma add_all_onto l xs :
  add_all l xs = (l ++ filter (fun x => negb (key_in x l)) (add_all [] xs))%list.
Proof.
  rewrite add_all_firsts, add_all_nil. f_equal.
  pose proof (firsts_split (map rule_key l) [] xs) as H. rewrite app_nil_r in H. rewrite H.
  apply filter_ext. intros x. rewrite key_in_kmem. reflexivity.
Qed.

Lemma In_firsts_key_in r seen xs : In r xs ->
  kmem (rule_key r) seen = true \/ key_in r (firsts seen xs) = true.
Proof.
  revert seen. induction xs as [|x t IH]; intros seen H; [destruct H|]. simpl.
  destruct (kmem (rule_key x) seen) eqn:K.
  - destruct H as [->|H]; [left; exact K|]. apply IH. exact H.
  - destruct H as [->|H].
    + right. unfold key_in. simpl. rewrite String.eqb_refl. reflexivity.
    + destruct (IH (rule_key x :: seen) H) as [H1|H1].
      * simpl in H1. apply orb_true_iff in H1. destruct H1 as [H1|H1]; [|left; exact H1].
        right. unfold key_in. simpl. rewrite String.eqb_sym, H1. reflexivity.
      * right. unfold key_in in *. simpl. rewrite H1. apply orb_true_r.
Qed.

(* every loaded rule ends up listed (itself, or the earlier rule with its key) *)
Lemma add_all_covers l xs r : In r xs -> key_in r (add_all l xs) = true.
Proof.
  intros H. rewrite add_all_firsts, key_in_app.
  destruct (In_firsts_key_in r (map rule_key l) xs H) as [K|K].
  - rewrite key_in_kmem, K. reflexivity.
  - rewrite K. apply orb_true_r.
Qed.

Lemma add_all_keeps l xs r : key_in r l = true -> key_in r (add_all l xs) = true.
Proof. intros H. rewrite add_all_firsts, key_in_app, H. reflexivity. Qed.

(* ---------- strings.Join(rule, comma) on comma-free fields ---------- *)
Lemma append_comma_inj x x' s s' :
  has_char c_comma x = false -> has_char c_comma x' = false ->
  x ++ String c_comma s = x' ++ String c_comma s' -> x = x' /\ s = s'.
Proof.
  revert x'. induction x as [|a x IH]; intros x' Hx Hx' E.
  - destruct x' as [|a' x'']; simpl in E.
    + inversion E; auto.
    + inversion E; subst. simpl in Hx'. try rewrite Ascii.eqb_refl in Hx'. discriminate.
  - destruct x' as [|a' x'']; simpl in E.
    + inversion E; subst. simpl in Hx. try rewrite Ascii.eqb_refl in Hx. discriminate.
    + inversion E; subst. simpl in Hx, Hx'.
      apply orb_false_iff in Hx. apply orb_false_iff in Hx'.
      destruct (IH x'') as [-> ->]; tauto.
Qed.

Lemma has_char_app c a b : has_char c (a ++ b) = has_char c a || has_char c b.
Proof. induction a as [|x a IH]; simpl; [reflexivity|]. rewrite IH. apply orb_assoc. Qed.

Lemma rule_key_cons x y t : rule_key (x :: y :: t) = x ++ String c_comma (rule_key (y :: t)).
Proof. reflexivity. Qed.

Lemma rule_key_one x : rule_key [x] = x.
Proof. reflexivity. Qed.

Lemma rule_key_inj r1 : forall r2,
  Forall (fun f => has_char c_comma f = false) r1 -> Forall (fun f => has_char c_comma f = false) r2 ->
  r1 <> [] -> r2 <> [] -> rule_key r1 = rule_key r2 -> r1 = r2.
Proof.
  induction r1 as [|x [|y t] IH]; intros r2 F1 F2 N1 N2 E; [congruence| |].
  - destruct r2 as [|x' [|y' t']]; [congruence| |].
    + rewrite !rule_key_one in E. congruence.
    + rewrite rule_key_cons, rule_key_one in E. subst x.
      inversion F1 as [|? ? Hx _]; subst. rewrite has_char_app in Hx. simpl in Hx.
      try rewrite Ascii.eqb_refl in Hx. rewrite orb_true_r in Hx. discriminate.
  - destruct r2 as [|x' [|y' t']]; [congruence| |].
    + rewrite rule_key_cons, rule_key_one in E. subst x'.
      inversion F2 as [|? ? Hx _]; subst. rewrite has_char_app in Hx. simpl in Hx.
      try rewrite Ascii.eqb_refl in Hx. rewrite orb_true_r in Hx. discriminate.
    + rewrite !rule_key_cons in E.
      inversion F1 as [|? ? Hx F1']; subst. inversion F2 as [|? ? Hx' F2']; subst.
      destruct (append_comma_inj _ _ _ _ Hx Hx' E) as [-> E'].
      f_equal. apply IH; auto; discriminate.
Qed.

(* the rule of a safe line: comma-free fields, at least one *)
Lemma safe_line_rule st line k r : safe_line line = true -> classify st line = Ok (Some (k, r)) ->
  r <> [] /\ Forall (fun f => has_char c_comma f = false) r /\
  exists p0 ps, split_comma line = p0 :: ps /\ k = trim_left p0 /\ r = map trim_left ps.
Proof.
  intros Hs Hc. destruct (classify_some_find _ _ _ _ Hc) as [_ [_ Hr]].
  rewrite (read_record_safe line Hs) in Hr. inversion Hr as [Hm].
  destruct (safe_line_parts line Hs) as [_ [_ [_ [Hlen _]]]].
  pose proof (split_comma_comma_free line) as Hcf.
  destruct (split_comma line) as [|p0 ps]; [simpl in Hlen; lia|].
  simpl in Hm. inversion Hm; subst.
  repeat split.
  - destruct ps; [simpl in Hlen; lia|discriminate].
  - inversion Hcf as [|? ? _ Hps]; subst. clear - Hps.
    induction Hps as [|p ps Hp _ IH]; simpl; constructor; auto.
    apply trim_left_has_char. exact Hp.
  - exists p0, ps. auto.
Qed.

(* ---------- print, then parse (for the save / load round trip of C10) ---------- *)
Lemma rev_onto_length s acc : String.length (rev_onto s acc) = String.length s + String.length acc.
Proof. revert acc. induction s as [|a s IH]; intros acc; simpl; [reflexivity|]. rewrite IH. simpl. lia. Qed.

Lemma rev_str_length s : String.length (rev_str s) = String.length s.
Proof. unfold rev_str. rewrite rev_onto_length. simpl. lia. Qed.

Lemma sapp_assoc (a b c : string) : (a ++ b) ++ c = a ++ (b ++ c).
Proof. induction a as [|x a IH]; simpl; [reflexivity|]. rewrite IH. reflexivity. Qed.

Lemma sapp_nil_r (a : string) : a ++ "" = a.
Proof. induction a as [|x a IH]; simpl; [reflexivity|]. rewrite IH. reflexivity. Qed.

Lemma rev_onto_app s acc : rev_onto s acc = rev_str s ++ acc.
Proof.
  unfold rev_str. revert acc. induction s as [|a s IH]; intros acc; simpl; [reflexivity|].
  rewrite IH, (IH (String a "")). rewrite sapp_assoc. reflexivity.
Qed.

Lemma rev_str_cons_aux a s : rev_str (String a s) = rev_str s ++ String a "".
Proof. unfold rev_str at 1. simpl. apply rev_onto_app. Qed.

Lemma rev_str_app a b : rev_str (a ++ b) = rev_str b ++ rev_str a.
Proof.
  induction a as [|x a IH]; simpl.
  - rewrite sapp_nil_r. reflexivity.
  - rewrite !rev_str_cons_aux, IH, sapp_assoc. reflexivity.
Qed.

Lemma rev_str_cons a s : rev_str (String a s) = rev_str s ++ String a "".
Proof. unfold rev_str at 1. simpl. apply rev_onto_app. Qed.

Lemma ends_with_rev c s : ends_with c s = starts_with c (rev_str s).
Proof.
  induction s as [|a s IH]; [reflexivity|].
  rewrite rev_str_cons. destruct s as [|b s]; [reflexivity|].
  change (ends_with c (String a (String b s))) with (ends_with c (String b s)). rewrite IH.
  destruct (rev_str (String b s)) as [|x t] eqn:E; [|reflexivity].
  pose proof (rev_str_length (String b s)) as L. rewrite E in L. simpl in L. lia.
Qed.

Lemma trim_left_rev_length s : String.length (trim_left_rev s) <= String.length s.
Proof.
  assert (G : forall n s, String.length s <= n -> String.length (trim_left_rev s) <= String.length s).
  { induction n as [|n IH]; intros s0 Hl.
    - destruct s0; simpl in *; lia.
    - destruct s0 as [|a [|b [|c r]]]; simpl in *; try lia.
      + destruct (is_sp1 a); simpl; lia.
      + destruct (is_sp1 a); [destruct (is_sp1 b); simpl; lia|]. destruct (is_sp2 b a); simpl; lia.
      + destruct (is_sp1 a).
        * specialize (IH (String b (String c r))). simpl in IH. specialize (IH ltac:(lia)). lia.
        * destruct (is_sp2 b a).
          -- specialize (IH (String c r)). simpl in IH. specialize (IH ltac:(lia)). lia.
          -- destruct (is_sp3 c b a); [|simpl; lia]. specialize (IH r ltac:(lia)). lia. }
  apply (G (String.length s)). lia.
Qed.

(* a string that TrimSpace leaves alone does not end in a one-byte blank *)
Lemma trim_right_fix_last s a : trim_right s = s -> ends_with a s = true -> is_sp1 a = false.
Proof.
  intros T E. destruct (is_sp1 a) eqn:S; [|reflexivity]. exfalso.
  rewrite ends_with_rev in E. unfold trim_right in T.
  destruct (rev_str s) as [|x t] eqn:R; [discriminate E|].
  simpl in E. apply Ascii.eqb_eq in E. subst x.
  assert (L : String.length (trim_left_rev (String a t)) <= String.length t).
  { simpl. rewrite S. apply trim_left_rev_length. }
  pose proof (rev_str_length (trim_left_rev (String a t))) as L1.
  pose proof (rev_str_length s) as L2. rewrite R in L2. rewrite T in L1. simpl in L2. lia.
Qed.

Lemma split_comma_app p r : has_char c_comma p = false ->
  split_comma (p ++ String c_comma r) = p :: split_comma r.
Proof.
  unfold split_comma. induction p as [|a p IH]; intros H; simpl.
  - try rewrite Ascii.eqb_refl. reflexivity.
  - simpl in H. apply orb_false_iff in H. destruct H as [Ha Hp]. rewrite Ha, (IH Hp). reflexivity.
Qed.

Lemma split_comma_one p : has_char c_comma p = false -> split_comma p = [p].
Proof.
  unfold split_comma. induction p as [|a p IH]; intros H; simpl; [reflexivity|].
  simpl in H. apply orb_false_iff in H. destruct H as [Ha Hp]. rewrite Ha, (IH Hp). reflexivity.
Qed.

Lemma safe_field_parts f : safe_field f = true ->
  has_char c_comma f = false /\ has_char c_quote f = false /\ trim f = f.
Proof.
  unfold safe_field. intros H. repeat (apply andb_true_iff in H; destruct H as [H ?]).
  apply negb_true_iff in H. apply negb_true_iff in H1. apply String.eqb_eq in H0. auto.
Qed.

Lemma trim_fix_left f : trim f = f -> trim_left f = f.
Proof.
  unfold trim, trim_right. intros H.
  assert (L : String.length (trim_left f) = String.length f).
  { pose proof (trim_left_length f). pose proof (trim_left_rev_length (rev_str (trim_left f))).
    pose proof (rev_str_length (trim_left_rev (rev_str (trim_left f)))).
    pose proof (rev_str_length (trim_left f)). rewrite H in H2. lia. }
  revert L. apply (trim_left_rect (fun s t => String.length t = String.length s -> t = s)).
  - intros a r _ _ L. pose proof (trim_left_length r). simpl in L. lia.
  - intros a b r _ _ _ L. pose proof (trim_left_length r). simpl in L. lia.
  - intros a b c0 r _ _ _ _ L. pose proof (trim_left_length r). simpl in L. lia.
  - reflexivity.
Qed.

Lemma trim_fix_right f : trim f = f -> trim_right f = f.
Proof. intros H. pose proof (trim_fix_left f H) as L. unfold trim in H. rewrite L in H. exact H. Qed.

Lemma trim_left_space f : trim_left (String c_sp f) = trim_left f.
Proof. reflexivity. Qed.

(* the pieces of ", f1, f2, ..." *)
Lemma split_comma_tail r : Forall (fun f => has_char c_comma f = false) r -> r <> [] ->
  map trim_left (split_comma (String c_sp (String.concat ", " r))) = map trim_left r.
Proof.
  induction r as [|f [|g t] IH]; intros F N; [congruence| |].
  - inversion F; subst. simpl String.concat.
    rewrite (split_comma_one (String c_sp f)); [reflexivity|]. simpl. assumption.
  - inversion F as [|? ? Hf F']; subst.
    change (String.concat ", " (f :: g :: t)) with (f ++ String c_comma (String c_sp (String.concat ", " (g :: t)))).
    change (String c_sp (f ++ String c_comma (String c_sp (String.concat ", " (g :: t)))))
      with (String c_sp f ++ String c_comma (String c_sp (String.concat ", " (g :: t)))).
    rewrite split_comma_app by (simpl; exact Hf).
    cbn [map]. rewrite IH by (auto; discriminate). reflexivity.
Qed.

Lemma ends_with_app c a b : b <> "" -> ends_with c (a ++ b) = ends_with c b.
Proof.
  intros N. induction a as [|x a IH]; [reflexivity|].
  simpl. destruct (a ++ b) as [|y t] eqn:E; [|exact IH].
  destruct a; simpl in E; [congruence|discriminate].
Qed.

(* what SavePolicy prints for a rule of safe fields, LoadPolicyLine reads back *)
Lemma read_record_print_line key r :
  safe_field key = true -> key <> "" -> starts_with c_hash key = false ->
  forallb safe_field r = true -> r <> [] ->
  read_record (print_line key r) = Ok (key :: r).
Proof.
  intros Hk Nk Hh Hr Nr. destruct (safe_field_parts key Hk) as [Kc [Kq Kt]].
  assert (Fr : Forall (fun f => has_char c_comma f = false /\ has_char c_quote f = false /\ trim f = f) r).
  { rewrite forallb_forall in Hr. apply Forall_forall. intros f Hf. apply safe_field_parts. auto. }
  unfold print_line.
  change (key ++ ", " ++ String.concat ", " r)
    with (key ++ String c_comma (String c_sp (String.concat ", " r))).
  set (tail := String c_sp (String.concat ", " r)).
  (* no quote *)
  assert (Tq : has_char c_quote tail = false).
  { unfold tail. clear - Fr. simpl. induction Fr as [|f [|g t] [_ [Hq _]] _ IH]; simpl; auto.
    change (String.concat ", " (f :: g :: t)) with (f ++ String c_comma (String c_sp (String.concat ", " (g :: t)))).
    rewrite has_char_app, Hq. simpl. exact IH. }
  (* no CR at the end *)
  assert (Tcr : ends_with c_cr tail = false).
  { unfold tail. clear - Fr Nr. induction Fr as [|f [|g t] [_ [_ Ht]] Fr' IH]; [congruence| |].
    - simpl String.concat. destruct f as [|a f']; [reflexivity|].
      change (String c_sp (String a f')) with (String c_sp "" ++ String a f').
      rewrite ends_with_app by discriminate.
      destruct (ends_with c_cr (String a f')) eqn:E; [|reflexivity].
      pose proof (trim_right_fix_last _ c_cr (trim_fix_right _ Ht) E) as X. discriminate X.
    - change (String.concat ", " (f :: g :: t)) with (f ++ String c_comma (String c_sp (String.concat ", " (g :: t)))).
      replace (String c_sp (f ++ String c_comma (String c_sp (String.concat ", " (g :: t)))))
        with ((String c_sp f ++ String c_comma "") ++ String c_sp (String.concat ", " (g :: t)))
        by (rewrite sapp_assoc; reflexivity).
      rewrite ends_with_app by discriminate. apply IH. discriminate. }
  unfold read_record.
  destruct (key ++ String c_comma tail) as [|a0 l0] eqn:EL.
  { destruct key; [congruence|discriminate]. }
  rewrite <- EL.
  replace (ends_with c_cr (key ++ String c_comma tail)) with false
    by (symmetry; change (key ++ String c_comma tail) with (key ++ (String c_comma "" ++ tail));
        rewrite <- sapp_assoc, ends_with_app; [exact Tcr|unfold tail; discriminate]).
  replace (starts_with c_hash (key ++ String c_comma tail)) with false
    by (destruct key; [congruence|exact (eq_sym Hh)]).
  rewrite EL, <- EL.
  rewrite fields_noquote; [|lia|rewrite has_char_app, Kq; simpl; exact Tq].
  rewrite split_comma_app by exact Kc. cbn [map].
  rewrite (trim_fix_left key Kt). f_equal. f_equal.
  unfold tail. rewrite split_comma_tail; auto.
  - clear - Fr. induction Fr as [|f t [_ [_ Ht]] _ IH]; simpl; [reflexivity|].
    rewrite (trim_fix_left f Ht), IH. reflexivity.
  - clear - Fr. induction Fr as [|f t [Hc _] _ IH]; constructor; auto.
Qed.
