(* RoleCond.v — executable model of the CONDITIONAL role managers of
   rbac/default-role-manager/role_manager.go (ConditionalRoleManager, ConditionalDomainManager) and of
   the conditional branch of model/assertion.go + internal_api.go that drives them.  Definitions
   only; the model follows the Go code function by function AS IT IS NOW.  It reuses the heap / Role
   objects / RoleManagerImpl of RoleGraph.v (ConditionalRoleManager embeds RoleManagerImpl: AddLink,
   DeleteLink, GetRoles, GetUsers, Clear, AddMatchingFunc, rebuild, Range are the promoted methods).

   Link condition functions.  Role.linkConditionFuncMap / linkConditionFuncParamsMap live INSIDE the
   Role object of the user and are keyed by linkConditionFuncKey{roleName, domainName}.  Here they
   are two tables of the manager keyed by (object id of the user Role, roleName, domainName): a new
   Role object (after Clear, after a rebuild, in a manager assembled by copyFrom) has a new id, hence
   no functions and no parameters, exactly as in Go.  A stored function is an identifier (nat); what
   the user's function answers is the Section variable  cf : id -> params -> option bool  (None = the
   function returned an error) — an oracle, never an axiom.  The harness draws the functions from a
   fixed family and hands the driver the same table.

   What the code does and the model repeats (each is a theorem or a computed witness in
   RoleCondProofs.v):
   * getNextRoles: no function registered for (current, next, domain) -> the link passes; registered
     -> it is called on the CURRENT parameters (none stored = no arguments); an error counts as "does
     not pass" AND stops the sync.Map.Range that is being walked (the remaining entries of THAT map are
     skipped: `return false` of the Range callback).  The model walks a map in insertion order; Go's
     order is unspecified, so with an erroring function HasLink is order dependent in Go.
   * hasLinkHelper hands `domains` to getNextRoles on the first level only; the recursive call drops
     it, so from the second hop on the functions / parameters of the DEFAULT domain "" are consulted.
   * GetLinkConditionFunc / GetLinkConditionFuncParams create the two roles when absent and remove
     only the first created one: when both are new the second stays registered (a lingering name).
   * copyFrom copies links only; rebuild (AddMatchingFunc) re-adds links only; Clear drops all Role
     objects: in each case every function and parameter list is lost.
   * ConditionalDomainManager inherits GetRoles / GetUsers / GetDomains / AddMatchingFunc /
     AddDomainMatchingFunc / rangeAffectedRoleManagers from DomainManager, whose type assertions to RoleManagerImpl
     panic on the *ConditionalRoleManager values of rmMap: modelled as the result CPanic with
     the state reached at the panic.  (GetLinkConditionFunc*, Range on a ConditionalDomainManager
     dereference the nil allRoles of the embedded zero ConditionalRoleManager: not modelled.)
   NOT modelled: a nil function value, logging, concurrency. *)
From Coq Require Import List String Bool Arith.
Import ListNotations.
From Casbin Require Import Base Roles RoleGraph.

(* ---------- the two per-Role maps ---------- *)
(* (id of the Role object that owns the map, linkConditionFuncKey{roleName, domainName}) *)
Definition ckey := (nat * (string * string))%type.
Definition ckey_eqb (a b : ckey) : bool :=
  Nat.eqb (fst a) (fst b) &&
  (String.eqb (fst (snd a)) (fst (snd b)) && String.eqb (snd (snd a)) (snd (snd b))).

(* sync.Map Load / Store *)
Fixpoint kget {A} (k : ckey) (m : list (ckey * A)) : option A :=
  match m with
  | [] => None
  | (k', v) :: t => if ckey_eqb k k' then Some v else kget k t
  end.
Fixpoint kput {A} (k : ckey) (v : A) (m : list (ckey * A)) : list (ckey * A) :=
  match m with
  | [] => [(k, v)]
  | (k', v') :: t => if ckey_eqb k k' then (k, v) :: t else (k', v') :: kput k v t
  end.

(* const defaultDomain string = "" *)
Definition ddom : string := EmptyString.

(* ---------- ConditionalRoleManager ---------- *)
Record crm := mkCrm {
  c_rm : rmgr;                          (* the embedded RoleManagerImpl *)
  c_fn : list (ckey * nat);             (* linkConditionFuncMap of every Role: -> function id *)
  c_par : list (ckey * list string) }.  (* linkConditionFuncParamsMap of every Role *)

Definition with_rm (s : crm) (m : rmgr) : crm := mkCrm m (c_fn s) (c_par s).

(* NewConditionalRoleManager / newConditionalRoleManagerWithMatchingFunc *)
Definition crm_new (mfset : bool) : crm := mkCrm (new_rm mfset) [] [].
(* Clear (promoted RoleManagerImpl.Clear): a fresh allRoles, so every Role object, with its function
   and parameter maps, is gone *)
Definition crm_clear (s : crm) : crm := mkCrm (rm_clear (c_rm s)) [] [].

(* rangeRoles as the sequence of sync.Map.Range calls it makes: r.roles; the matched map of every
   role; the roles map of every pattern that matches r.  concat = RoleGraph.range_roles *)
Definition range_segs (h : list (nat * robj)) (o : robj) : list (list (string * nat)) :=
  o_roles o :: map (fun p => o_matched (obj_of h (snd p))) (o_roles o)
            ++ map (fun p => o_roles (obj_of h (snd p))) (o_matchedBy o).

Section WithCond.
Variable mf : string -> string -> bool.            (* role matching function *)
Variable dmf : string -> string -> bool.           (* domain matching function *)
Variable cf : nat -> list string -> option bool.   (* the users' link condition functions; None = error *)

(* AddLink / DeleteLink / GetRoles / GetUsers: the promoted methods of RoleManagerImpl; the
   condition functions play no part in them *)
Definition crm_add_link (s : crm) (n1 n2 : string) : crm := with_rm s (add_link mf (c_rm s) n1 n2).
Definition crm_delete_link (s : crm) (n1 n2 : string) : crm := with_rm s (delete_link mf (c_rm s) n1 n2).
Definition crm_get_roles (s : crm) (name : string) : crm * list string :=
  let '(m, l) := get_roles mf (c_rm s) name in (with_rm s m, l).
Definition crm_get_users (s : crm) (name : string) : crm * list string :=
  let '(m, l) := get_users mf (c_rm s) name in (with_rm s m, l).
(* AddMatchingFunc: RoleManagerImpl.rebuild = Clear + AddLink of every old link: new Role objects *)
Definition crm_add_matching_func (s : crm) : crm := mkCrm (rm_add_matching_func mf (c_rm s)) [] [].
(* func (crm *ConditionalRoleManager) copyFrom(other): other.Range(crm.AddLink) — links only *)
Definition crm_copy_from (s other : crm) : crm := with_rm s (copy_from mf (c_rm s) (c_rm other)).

(* GetDomainLinkConditionFunc(userName, roleName, domain) *)
Definition crm_get_fn (s : crm) (un rn d : string) : crm * option nat :=
  let '(m1, u, uc) := get_role mf (c_rm s) un in
  let '(m2, r, rc) := get_role mf m1 rn in
  if uc then (with_rm s (remove_role m2 (name_of (m_heap m2) u)), None)       (* role stays when created too *)
  else if rc then (with_rm s (remove_role m2 (name_of (m_heap m2) r)), None)
  else (with_rm s m2, kget (u, (name_of (m_heap m2) r, d)) (c_fn s)).

(* GetLinkConditionFuncParams(userName, roleName, domain...) *)
Definition crm_get_params (s : crm) (un rn d : string) : crm * option (list string) :=
  let '(m1, u, uc) := get_role mf (c_rm s) un in
  let '(m2, r, rc) := get_role mf m1 rn in
  if uc then (with_rm s (remove_role m2 (name_of (m_heap m2) u)), None)
  else if rc then (with_rm s (remove_role m2 (name_of (m_heap m2) r)), None)
  else (with_rm s m2, kget (u, (name_of (m_heap m2) r, d)) (c_par s)).

(* AddDomainLinkConditionFunc(userName, roleName, domain, fn); AddLinkConditionFunc = domain "" *)
Definition crm_add_fn (s : crm) (un rn d : string) (f : nat) : crm :=
  let '(m1, u, _) := get_role mf (c_rm s) un in
  let '(m2, r, _) := get_role mf m1 rn in
  mkCrm m2 (kput (u, (name_of (m_heap m2) r, d)) f (c_fn s)) (c_par s).

(* SetDomainLinkConditionFuncParams(userName, roleName, domain, params...) *)
Definition crm_set_params (s : crm) (un rn d : string) (ps : list string) : crm :=
  let '(m1, u, _) := get_role mf (c_rm s) un in
  let '(m2, r, _) := get_role mf m1 rn in
  mkCrm m2 (c_fn s) (kput (u, (name_of (m_heap m2) r, d)) ps (c_par s)).

(* the first half of getNextRoles: does the link current -> next pass in domain d?
   Some true: no function registered, or it holds on the current parameters; Some false: it does not
   hold; None: it returned an error.  Inside hasLinkHelper both names are registered (the structure
   is well-formed, RoleCondProofs.CWF), so the getRole calls of GetDomainLinkConditionFunc find
   them; the lookup is therefore pure here (crm_get_fn is the stateful public entry point) *)
Definition cond_pass (s : crm) (cur next d : string) : option bool :=
  let m := c_rm s in
  match lookup cur (m_all m), lookup next (m_all m) with
  | Some u, Some r =>
      let k := (u, (name_of (m_heap m) r, d)) in
      match kget k (c_fn s) with
      | Some f => cf f (match kget k (c_par s) with Some ps => ps | None => [] end)
      | None => Some true
      end
  | _, _ => Some true
  end.

(* one sync.Map.Range with getNextRoles as callback: an error returns false = the Range stops *)
Fixpoint seg_next (s : crm) (cur d : string) (seg next : list (string * nat)) : list (string * nat) :=
  match seg with
  | [] => next
  | q :: t =>
      let nn := name_of (m_heap (c_rm s)) (snd q) in      (* nextRole.name *)
      match cond_pass s cur nn d with
      | None => next
      | Some true => seg_next s cur d t (mput nn (snd q) next)
      | Some false => seg_next s cur d t next
      end
  end.

(* the loop `for _, role := range roles` of ConditionalRoleManager.hasLinkHelper *)
Fixpoint chl_scan (s : crm) (d target : string) (frontier next : list (string * nat))
                  : option (list (string * nat)) :=
  match frontier with
  | [] => Some next
  | p :: t =>
      let m := c_rm s in
      let o := obj_of (m_heap m) (snd p) in
      if String.eqb target (o_name o) || (m_mf m && rm_match mf (m_mf m) (o_name o) target) then None
      else chl_scan s d target t
             (fold_left (fun acc seg => seg_next s (o_name o) d seg acc) (range_segs (m_heap m) o) next)
  end.

(* hasLinkHelper(targetName, roles, level, domains...): fuel = level + 1.  The recursive call is
   `crm.hasLinkHelper(targetName, nextRoles, level-1)`: WITHOUT domains *)
Fixpoint chl_helper (s : crm) (fuel : nat) (d target : string) (frontier : list (string * nat)) : bool :=
  match fuel with
  | 0 => false
  | S f =>
      match frontier with
      | [] => false
      | _ => match chl_scan s d target frontier [] with
             | None => true
             | Some next => chl_helper s f ddom target next
             end
      end
  end.

(* ConditionalRoleManager.HasLink(name1, name2, domains...); d = domains[0], "" when none is given
   (getNextRoles then asks GetLinkConditionFunc = the default domain) *)
Definition crm_has_link (n : nat) (s : crm) (n1 n2 d : string) : crm * bool :=
  let m := c_rm s in
  if String.eqb n1 n2 || (m_mf m && rm_match mf (m_mf m) n1 n2) then (s, true)
  else
    let '(m1, u, uc) := get_role mf m n1 in
    let '(m2, r, rc) := get_role mf m1 n2 in
    let res := chl_helper (with_rm s m2) (S n) d (name_of (m_heap m2) r) [(name_of (m_heap m2) u, u)] in
    let m3 := if rc then remove_role m2 (name_of (m_heap m2) r) else m2 in
    let m4 := if uc then remove_role m3 (name_of (m_heap m3) u) else m3 in
    (with_rm s m4, res).

(* ---------- operations and histories of one ConditionalRoleManager ---------- *)
Inductive cop :=
| CAdd (u r : string) | CDel (u r : string) | CHas (u r d : string)
| CRoles (u : string) | CUsers (u : string) | CClear | CAddMF
| CAddFn (u r d : string) (f : nat) | CSetPar (u r d : string) (ps : list string)
| CGetFn (u r d : string) | CGetPar (u r d : string).
Inductive cres :=
| CUnit | CBool (b : bool) | CList (l : list string)
| CFn (o : option nat) | CPar (o : option (list string)) | CPanic.

Definition cstep (n : nat) (s : crm) (op : cop) : crm * cres :=
  match op with
  | CAdd u r => (crm_add_link s u r, CUnit)
  | CDel u r => (crm_delete_link s u r, CUnit)
  | CHas u r d => let '(s', b) := crm_has_link n s u r d in (s', CBool b)
  | CRoles u => let '(s', l) := crm_get_roles s u in (s', CList l)
  | CUsers u => let '(s', l) := crm_get_users s u in (s', CList l)
  | CClear => (crm_clear s, CUnit)
  | CAddMF => (crm_add_matching_func s, CUnit)
  | CAddFn u r d f => (crm_add_fn s u r d f, CUnit)
  | CSetPar u r d ps => (crm_set_params s u r d ps, CUnit)
  | CGetFn u r d => let '(s', o) := crm_get_fn s u r d in (s', CFn o)
  | CGetPar u r d => let '(s', o) := crm_get_params s u r d in (s', CPar o)
  end.
Definition crun (n : nat) (s : crm) (ops : list cop) : crm :=
  fold_left (fun acc op => fst (cstep n acc op)) ops s.

(* ---------- ConditionalDomainManager ---------- *)
Record cdmgr := mkCdm {
  cd_rms : list (string * crm);   (* DomainManager.rmMap: domain -> *ConditionalRoleManager *)
  cd_mf : bool;                   (* DomainManager.matchingFunc != nil *)
  cd_dmf : bool }.                (* DomainManager.domainMatchingFunc != nil *)

Definition cdm_new : cdmgr := mkCdm [] false false.
Definition set_crms (dm : cdmgr) v := mkCdm v (cd_mf dm) (cd_dmf dm).
(* Clear = DomainManager.Clear (the shallower of the two promoted Clear methods) *)
Definition cdm_clear (dm : cdmgr) : cdmgr := set_crms dm [].
(* DomainManager.Match *)
Definition cdm_match (dm : cdmgr) (str pattern : string) : bool :=
  String.eqb str pattern || (cd_dmf dm && dmf str pattern).

(* getConditionalRoleManager(domain, store) *)
Definition get_crm (dm : cdmgr) (domain : string) (store : bool) : cdmgr * crm :=
  match lookup domain (cd_rms dm) with
  | Some rm => (dm, rm)
  | None =>
      let rm0 := crm_new (cd_mf dm) in
      let rms1 := if store then mput domain rm0 (cd_rms dm) else cd_rms dm in
      let rm1 :=
        if cd_dmf dm then
          fold_left (fun acc p =>
                       if negb (String.eqb domain (fst p)) && cdm_match dm domain (fst p)
                       then crm_copy_from acc (snd p) else acc) rms1 rm0
        else rm0 in
      ((if store then set_crms dm (mput domain rm1 rms1) else dm), rm1)
  end.

(* DomainManager.rangeAffectedRoleManagers(domain, fn) on a ConditionalDomainManager: the first
   stored manager whose domain matches is asserted to be a *RoleManagerImpl: panic *)
Definition cdm_affected (dm : cdmgr) (domain : string) : bool :=
  cd_dmf dm && existsb (fun p => negb (String.eqb domain (fst p)) && cdm_match dm (fst p) domain) (cd_rms dm).

Definition cdm_add_link (dm : cdmgr) (n1 n2 domain : string) : cdmgr * cres :=
  let '(dm1, rm) := get_crm dm domain true in
  let dm2 := set_crms dm1 (mput domain (crm_add_link rm n1 n2) (cd_rms dm1)) in
  (dm2, if cdm_affected dm2 domain then CPanic else CUnit).
Definition cdm_delete_link (dm : cdmgr) (n1 n2 domain : string) : cdmgr * cres :=
  let '(dm1, rm) := get_crm dm domain true in
  let dm2 := set_crms dm1 (mput domain (crm_delete_link rm n1 n2) (cd_rms dm1)) in
  (dm2, if cdm_affected dm2 domain then CPanic else CUnit).

(* HasLink(name1, name2, domains...): the manager of the domain (assembled for the occasion when
   none is stored) answers HasLink(name1, name2, domains...) *)
Definition cdm_has_link (n : nat) (dm : cdmgr) (n1 n2 domain : string) : cdmgr * bool :=
  let '(dm1, rm) := get_crm dm domain false in
  let '(rm', b) := crm_has_link n rm n1 n2 domain in
  (match lookup domain (cd_rms dm1) with
   | Some _ => set_crms dm1 (mput domain rm' (cd_rms dm1))
   | None => dm1
   end, b).

(* AddLinkConditionFunc / AddDomainLinkConditionFunc / Set...Params: forwarded to EVERY stored
   manager (and to none other: a domain without a manager at that moment never sees the call) *)
Definition cdm_add_fn (dm : cdmgr) (un rn d : string) (f : nat) : cdmgr :=
  set_crms dm (map (fun p => (fst p, crm_add_fn (snd p) un rn d f)) (cd_rms dm)).
Definition cdm_set_params (dm : cdmgr) (un rn d : string) (ps : list string) : cdmgr :=
  set_crms dm (map (fun p => (fst p, crm_set_params (snd p) un rn d ps)) (cd_rms dm)).

(* DomainManager.GetRoles / GetUsers: getRoleManager(domain, false) asserts *RoleManagerImpl on the
   stored manager of the domain, or, assembling a new plain one, on the first stored manager *)
Definition cdm_get_list (dm : cdmgr) (domain : string) : cres :=
  match lookup domain (cd_rms dm) with
  | Some _ => CPanic
  | None => if cd_dmf dm then (match cd_rms dm with [] => CList [] | _ => CPanic end) else CList []
  end.
(* DomainManager.GetDomains *)
Definition cdm_get_domains (dm : cdmgr) : cres :=
  match cd_rms dm with [] => CList [] | _ => CPanic end.
Definition cdm_get_all_domains (dm : cdmgr) : list string := map fst (cd_rms dm).
(* DomainManager.AddMatchingFunc / AddDomainMatchingFunc: the field is set, then the Range asserts *)
Definition cdm_add_matching_func (dm : cdmgr) : cdmgr * cres :=
  (mkCdm (cd_rms dm) true (cd_dmf dm), match cd_rms dm with [] => CUnit | _ => CPanic end).
Definition cdm_add_domain_matching_func (dm : cdmgr) : cdmgr * cres :=
  (mkCdm (cd_rms dm) (cd_mf dm) true, match cd_rms dm with [] => CUnit | _ => CPanic end).

Inductive cdop :=
| KAdd (u r d : string) | KDel (u r d : string) | KHas (u r d : string)
| KRoles (u d : string) | KUsers (u d : string) | KClear | KAddMF | KAddDMF
| KAddFn (u r d : string) (f : nat) | KSetPar (u r d : string) (ps : list string)
| KDomains (u : string) | KAllDomains.

Definition cdstep (n : nat) (dm : cdmgr) (op : cdop) : cdmgr * cres :=
  match op with
  | KAdd u r d => cdm_add_link dm u r d
  | KDel u r d => cdm_delete_link dm u r d
  | KHas u r d => let '(dm', b) := cdm_has_link n dm u r d in (dm', CBool b)
  | KRoles _ d => (dm, cdm_get_list dm d)
  | KUsers _ d => (dm, cdm_get_list dm d)
  | KClear => (cdm_clear dm, CUnit)
  | KAddMF => cdm_add_matching_func dm
  | KAddDMF => cdm_add_domain_matching_func dm
  | KAddFn u r d f => (cdm_add_fn dm u r d f, CUnit)
  | KSetPar u r d ps => (cdm_set_params dm u r d ps, CUnit)
  | KDomains _ => (dm, cdm_get_domains dm)
  | KAllDomains => (dm, CList (cdm_get_all_domains dm))
  end.
Definition cdrun (n : nat) (dm : cdmgr) (ops : list cdop) : cdmgr :=
  fold_left (fun acc op => fst (cdstep n acc op)) ops dm.

(* ---------- the enforcer's conditional branch (model/assertion.go, internal_api.go, enforcer.go) ----------
   A role definition g = _, _, (_, .., _) has Tokens = 2 and a ConditionalRoleManager;
   g = _, _, _, (_, .., _) has Tokens = 3 and a ConditionalDomainManager (enforcer.initRmMap).
   np = len(ParamsTokens); count = strings.Count(Value, "_") = Tokens + np. *)
Inductive cmgr := MC (s : crm) | MD (dm : cdmgr).
Definition ntok (m : cmgr) : nat := match m with MC _ => 2 | MD _ => 3 end.
Definition fld (i : nat) (r : rule) : string := nth i r EmptyString.

Definition mgr_clear (m : cmgr) : cmgr :=
  match m with MC s => MC (crm_clear s) | MD dm => MD (cdm_clear dm) end.
Definition mgr_has_link (n : nat) (m : cmgr) (u r d : string) : cmgr * bool :=
  match m with
  | MC s => let '(s', b) := crm_has_link n s u r d in (MC s', b)
  | MD dm => let '(dm', b) := cdm_has_link n dm u r d in (MD dm', b)
  end.
Definition mgr_add_fn (m : cmgr) (u r d : string) (f : nat) : cmgr :=
  match m with MC s => MC (crm_add_fn s u r d f) | MD dm => MD (cdm_add_fn dm u r d f) end.
Definition mgr_set_params (m : cmgr) (u r d : string) (ps : list string) : cmgr :=
  match m with MC s => MC (crm_set_params s u r d ps) | MD dm => MD (cdm_set_params dm u r d ps) end.

(* Assertion.addConditionalRoleLink(rule, domainRule) with domainRule = rule[2:len(Tokens)]:
   AddLink, then the parameters rule[len(Tokens):] are stored for the link *)
Definition cond_link_add (m : cmgr) (rule : rule) : cmgr :=
  match m with
  | MC s => MC (crm_set_params (crm_add_link s (fld 0 rule) (fld 1 rule)) (fld 0 rule) (fld 1 rule) ddom (skipn 2 rule))
  | MD dm => MD (cdm_set_params (fst (cdm_add_link dm (fld 0 rule) (fld 1 rule) (fld 2 rule)))
                                (fld 0 rule) (fld 1 rule) (fld 2 rule) (skipn 3 rule))
  end.
(* CondRM.DeleteLink(rule[0], rule[1], rule[2:]...) *)
Definition cond_link_del (m : cmgr) (rule : rule) : cmgr :=
  match m with
  | MC s => MC (crm_delete_link s (fld 0 rule) (fld 1 rule))
  | MD dm => MD (fst (cdm_delete_link dm (fld 0 rule) (fld 1 rule) (fld 2 rule)))
  end.

(* Assertion.buildIncrementalConditionalRoleLinks(condRM, op, rules) / buildConditionalRoleLinks:
   a rule shorter than count stops the loop with an error, a longer one is truncated *)
Fixpoint build_cond (np : nat) (adding : bool) (rules : list rule) (m : cmgr) : cmgr * bool :=
  match rules with
  | [] => (m, true)
  | r :: t =>
      let count := ntok m + np in
      if List.length r <? count then (m, false)
      else let r' := firstn count r in
           build_cond np adding t (if adding then cond_link_add m r' else cond_link_del m r')
  end.

Record cenf := mkCenf {
  e_rules : list rule;     (* model["g"][ptype].Policy *)
  e_mgr : cmgr;            (* condRmMap[ptype] *)
  e_store : list rule }.   (* what the adapter's LoadPolicy delivers (a fixed text) *)

Inductive eop :=
| EAddOne (r : rule)                       (* AddGroupingPolicy: addPolicyWithoutNotify *)
| EAddMany (rs : list rule)                (* AddGroupingPolicies: addPoliciesWithoutNotify *)
| ERemoveOne (r : rule)                    (* RemoveGroupingPolicy *)
| ERemoveMany (rs : list rule)             (* RemoveGroupingPolicies *)
| EBuildInc (adding : bool) (rs : list rule)   (* Enforcer.BuildIncrementalConditionalRoleLinks *)
| ELoad                                    (* LoadPolicy: rebuildConditionalRoleLinks *)
| EClearPolicy                             (* ClearPolicy: clearRoleLinks *)
| EAddFn (u r d : string) (f : nat)        (* AddNamed[Domain]LinkConditionFunc *)
| ESetPar (u r d : string) (ps : list string)   (* SetNamed[Domain]LinkConditionFuncParams *)
| EHas (u r d : string).                   (* what g(u, r[, d]) of the matcher computes *)

Definition add_new (rs : list rule) (listed : list rule) : list rule :=
  fold_left (fun acc r => if mem_rule r acc then acc else acc ++ [r]) rs listed.
Definition remove_listed (rs : list rule) (listed : list rule) : list rule :=
  fold_left (fun acc r => filter (fun x => negb (rule_eqb r x)) acc) rs listed.

(* the boolean is the `bool` the management call returns (for EHas: the answer) *)
Definition estep (n np : nat) (e : cenf) (op : eop) : cenf * bool :=
  match op with
  | EAddOne r =>
      (* HasPolicy; model.AddPolicy; BuildIncrementalRoleLinks only: rmMap has no entry for a
         conditional definition, so NO link is built *)
      if mem_rule r (e_rules e) then (e, false)
      else (mkCenf (e_rules e ++ [r]) (e_mgr e) (e_store e), true)
  | EAddMany rs =>
      if existsb (fun r => mem_rule r (e_rules e)) rs then (e, false)
      else (mkCenf (add_new rs (e_rules e)) (fst (build_cond np true rs (e_mgr e))) (e_store e), true)
  | ERemoveOne r =>
      (* model.RemovePolicy; BuildIncrementalRoleLinks(PolicyRemove) only: the link stays *)
      if mem_rule r (e_rules e)
      then (mkCenf (remove_listed [r] (e_rules e)) (e_mgr e) (e_store e), true) else (e, false)
  | ERemoveMany rs =>
      if existsb (fun r => mem_rule r (e_rules e)) rs
      then (mkCenf (remove_listed rs (e_rules e)) (e_mgr e) (e_store e), true) else (e, false)
  | EBuildInc adding rs =>
      let '(m, ok) := build_cond np adding rs (e_mgr e) in (mkCenf (e_rules e) m (e_store e), ok)
  | ELoad =>
      (* a failing rebuild returns before `e.model = newModel`: the old listing stays *)
      let '(m, ok) := build_cond np true (e_store e) (mgr_clear (e_mgr e)) in
      (mkCenf (if ok then e_store e else e_rules e) m (e_store e), ok)
  | EClearPolicy => (mkCenf [] (mgr_clear (e_mgr e)) (e_store e), true)
  | EAddFn u r d f => (mkCenf (e_rules e) (mgr_add_fn (e_mgr e) u r d f) (e_store e), true)
  | ESetPar u r d ps => (mkCenf (e_rules e) (mgr_set_params (e_mgr e) u r d ps) (e_store e), true)
  | EHas u r d => let '(m, b) := mgr_has_link n (e_mgr e) u r d in (mkCenf (e_rules e) m (e_store e), b)
  end.
Definition erun (n np : nat) (e : cenf) (ops : list eop) : cenf :=
  fold_left (fun acc op => fst (estep n np acc op)) ops e.

End WithCond.

(* no condition function is ever consulted *)
Definition no_cf (_ : nat) (_ : list string) : option bool := Some true.
