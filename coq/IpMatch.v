(* IpMatch.v — executable model of util.IPMatch / IPMatchFunc and of the parts of Go's net and
   net/netip packages (go1.23) it calls:
     netip.ParseAddr (parseIPv4Fields, parseIPv6), net.ParseIP, net.ParseCIDR, net.CIDRMask,
     IP.To4, IP.Mask, IP.Equal, IPNet.Contains (networkNumberAndMask).
   Addresses are byte lists (bytes are N), exactly the []byte values of the Go code.
   Definitions only; IpMatchProofs.v proves that Contains on a parsed network is prefix
   arithmetic on the numeric value of the addresses. *)
From Coq Require Import List Bool Ascii Arith NArith.
From Casbin Require Import Regex KeyMatch.
Import ListNotations.
Local Open Scope char_scope.
Local Open Scope N_scope.

(* ------------------------------------------------------------------ *)
(* text -> netip.Addr *)

Definition digit_val (c : ascii) : option N :=
  let n := N_of_ascii c in
  if (48 <=? n) && (n <=? 57) then Some (n - 48) else None.

Definition hex_val (c : ascii) : option N :=
  let n := N_of_ascii c in
  if (48 <=? n) && (n <=? 57) then Some (n - 48)
  else if (97 <=? n) && (n <=? 102) then Some (n - 87)
  else if (65 <=? n) && (n <=? 70) then Some (n - 55)
  else None.

Definition is_nil {A : Type} (l : list A) : bool := match l with [] => true | _ => false end.
Definition is_none {A : Type} (o : option A) : bool := match o with None => true | Some _ => false end.

(* parseIPv4Fields on s = in[off:end]; acc = fields so far (reversed), first = (i == 0),
   prev_dot = (s[i-1] == '.') *)
Fixpoint v4_go (s : str) (val digLen : N) (acc : list N) (first prev_dot : bool)
  : option (list N) :=
  match s with
  | [] => if Nat.ltb (List.length acc) 3 then None else Some (rev (val :: acc))
  | c :: t =>
      match digit_val c with
      | Some d =>
          if (digLen =? 1) && (val =? 0) then None          (* octet with leading zero *)
          else let val' := val * 10 + d in
               if 255 <? val' then None else v4_go t val' (digLen + 1) acc false false
      | None =>
          if Ascii.eqb c "." then
            if first || is_nil t || prev_dot then None       (* field without a digit *)
            else if Nat.eqb (List.length acc) 3 then None    (* too long *)
            else v4_go t 0 0 (val :: acc) false true
          else None                                          (* unexpected character *)
      end
  end.

Definition parse_v4_fields (s : str) : option (list N) := v4_go s 0 0 [] true false.

(* the hex-number loop of parseIPv6: Some (value, number of digits, rest); None = 5th digit *)
Fixpoint hex_go (s : str) (acc : N) (off : nat) : option (N * nat * str) :=
  match s with
  | [] => Some (acc, off, [])
  | c :: t =>
      match hex_val c with
      | Some d => if Nat.ltb 3 off then None else hex_go t (acc * 16 + d) (S off)
      | None => Some (acc, off, s)
      end
  end.

(* the main loop of parseIPv6.  ip = the bytes written so far (i = length ip), ell = ellipsis.
   Result: Some (ip, ell, text left when the loop ended) *)
Fixpoint v6_loop (fuel : nat) (s : str) (ip : list N) (ell : option nat)
  : option (list N * option nat * str) :=
  match fuel with
  | O => Some (ip, ell, s)
  | S fuel' =>
      let i := List.length ip in
      if negb (Nat.ltb i 16) then Some (ip, ell, s)
      else
        match hex_go s 0 0 with
        | None => None                                   (* more than 4 digits in a group *)
        | Some (acc, off, rest) =>
            if Nat.eqb off 0 then None                   (* no digit *)
            else
              match rest with
              | [] => Some (ip ++ [acc / 256; acc mod 256], ell, [])
              | c :: r1 =>
                  if Ascii.eqb c "." then
                    (* trailing IPv4: the whole remaining text, from the start of this group *)
                    if is_none ell && negb (Nat.eqb i 12) then None
                    else if Nat.ltb 16 (i + 4) then None
                    else match parse_v4_fields s with
                         | None => None
                         | Some f => Some (ip ++ f, ell, [])
                         end
                  else
                    let ip' := ip ++ [acc / 256; acc mod 256] in
                    if negb (Ascii.eqb c ":") then None  (* want colon *)
                    else
                      match r1 with
                      | [] => None                       (* colon must be followed by more *)
                      | c2 :: r2 =>
                          if Ascii.eqb c2 ":" then
                            match ell with
                            | Some _ => None             (* multiple :: *)
                            | None =>
                                if is_nil r2 then Some (ip', Some (List.length ip'), [])
                                else v6_loop fuel' r2 ip' (Some (List.length ip'))
                            end
                          else v6_loop fuel' r1 ip' ell
                      end
              end
        end
  end.

Definition zeros (n : nat) : list N := repeat 0 n.

Definition parse_v6 (s : str) : option (list N) :=
  if existsb (Ascii.eqb "%") s then None        (* zone: ParseIP / ParseCIDR reject it *)
  else
    let start :=
      match s with
      | c1 :: c2 :: r => if Ascii.eqb c1 ":" && Ascii.eqb c2 ":" then Some (r, Some O, is_nil r)
                         else Some (s, None, false)
      | _ => Some (s, None, false)
      end in
    match start with
    | None => None
    | Some (s0, ell0, only_ellipsis) =>
        if only_ellipsis then Some (zeros 16)
        else
          match v6_loop 9 s0 [] ell0 with
          | None => None
          | Some (ip, ell, rest) =>
              if negb (is_nil rest) then None                 (* trailing garbage *)
              else
                let i := List.length ip in
                if Nat.ltb i 16 then
                  match ell with
                  | None => None                              (* too short *)
                  | Some e => Some (firstn e ip ++ zeros (16 - i) ++ skipn e ip)
                  end
                else if is_none ell then Some ip else None    (* :: must expand to something *)
          end
    end.

Inductive addr := A4 (b : list N) | A6 (b : list N).

(* netip.ParseAddr followed by the "no zone" test *)
Fixpoint parse_addr_scan (whole s : str) : option addr :=
  match s with
  | [] => None
  | c :: t =>
      if Ascii.eqb c "." then option_map A4 (parse_v4_fields whole)
      else if Ascii.eqb c ":" then option_map A6 (parse_v6 whole)
      else if Ascii.eqb c "%" then None
      else parse_addr_scan whole t
  end.

Definition parse_addr (s : str) : option addr := parse_addr_scan s s.

Definition v4pfx : list N := zeros 10 ++ [255; 255].

Definition as16 (a : addr) : list N := match a with A4 b => v4pfx ++ b | A6 b => b end.
Definition bitlen (a : addr) : N := match a with A4 _ => 32 | A6 _ => 128 end.

(* net.ParseIP: always the 16-byte form *)
Definition parse_ip (s : str) : option (list N) := option_map as16 (parse_addr s).

(* ------------------------------------------------------------------ *)
(* net.IP operations *)

Fixpoint nlist_eqb (a b : list N) : bool :=
  match a, b with
  | [], [] => true
  | x :: a', y :: b' => (x =? y) && nlist_eqb a' b'
  | _, _ => false
  end.

Definition len_is {A : Type} (l : list A) (n : nat) : bool := Nat.eqb (List.length l) n.

Definition is_mapped (ip : list N) : bool :=
  forallb (fun b => b =? 0) (firstn 10 ip) && (nth 10 ip 0 =? 255) && (nth 11 ip 0 =? 255).

Definition to4 (ip : list N) : option (list N) :=
  if len_is ip 4 then Some ip
  else if len_is ip 16 && is_mapped ip then Some (skipn 12 ip)
  else None.

(* CIDRMask(ones, bits), bits = 8*l *)
Fixpoint cidr_mask_go (l : nat) (n : N) : list N :=
  match l with
  | O => []
  | S l' => if 8 <=? n then 255 :: cidr_mask_go l' (n - 8)
            else (255 - N.shiftr 255 n) :: cidr_mask_go l' 0
  end.

Definition cidr_mask (ones bits : N) : list N := cidr_mask_go (N.to_nat (bits / 8)) ones.

Fixpoint land_list (a m : list N) : list N :=
  match a, m with
  | x :: a', y :: m' => N.land x y :: land_list a' m'
  | _, _ => []
  end.

(* IP.Mask *)
Definition mask_ip (ip mask : list N) : option (list N) :=
  let mask := if len_is mask 16 && len_is ip 4 && forallb (fun b => b =? 255) (firstn 12 mask)
              then skipn 12 mask else mask in
  let ip := if len_is mask 4 && len_is ip 16 && nlist_eqb (firstn 12 ip) v4pfx
            then skipn 12 ip else ip in
  if Nat.eqb (List.length ip) (List.length mask) then Some (land_list ip mask) else None.

(* networkNumberAndMask; None = (nil, nil) *)
Definition net_num_mask (nip nmask : list N) : option (list N * list N) :=
  match (match to4 nip with
         | Some x => Some x
         | None => if len_is nip 16 then Some nip else None
         end) with
  | None => None
  | Some ip =>
      if len_is nmask 4 then (if len_is ip 4 then Some (ip, nmask) else None)
      else if len_is nmask 16 then Some (ip, if len_is ip 4 then skipn 12 nmask else nmask)
      else None
  end.

Fixpoint masked_eq (nn m ip : list N) : bool :=
  match nn, m, ip with
  | n :: nn', k :: m', a :: ip' => (N.land n k =? N.land a k) && masked_eq nn' m' ip'
  | _, _, _ => true
  end.

(* IPNet.Contains *)
Definition contains (nip nmask ip : list N) : bool :=
  let '(nn, m) := match net_num_mask nip nmask with Some p => p | None => ([], []) end in
  let ip := match to4 ip with Some x => x | None => ip end in
  if Nat.eqb (List.length ip) (List.length nn) then masked_eq nn m ip else false.

(* IP.Equal on two 16-byte values (what ParseIP returns) *)
Definition ip_equal (a b : list N) : bool :=
  if Nat.eqb (List.length a) (List.length b) then nlist_eqb a b
  else if len_is a 4 && len_is b 16 then nlist_eqb (firstn 12 b) v4pfx && nlist_eqb a (skipn 12 b)
  else if len_is a 16 && len_is b 4 then nlist_eqb (firstn 12 a) v4pfx && nlist_eqb (skipn 12 a) b
  else false.

(* ------------------------------------------------------------------ *)
(* net.ParseCIDR *)

Fixpoint cut_slash (s : str) : option (str * str) :=
  match s with
  | [] => None
  | c :: t => if Ascii.eqb c "/" then Some ([], t)
              else match cut_slash t with Some (a, b) => Some (c :: a, b) | None => None end
  end.

(* dtoi on the whole mask text: digits only, at least one.  (Go gives up at 0xFFFFFF; any such
   value is larger than the bit length and rejected anyway.) *)
Fixpoint dec_go (s : str) (n : N) : option N :=
  match s with
  | [] => Some n
  | c :: t => match digit_val c with Some d => dec_go t (n * 10 + d) | None => None end
  end.

Definition parse_dec (s : str) : option N := if is_nil s then None else dec_go s 0.

(* the *IPNet of ParseCIDR for a parsed address and prefix length *)
Definition mk_net (a : addr) (ones : N) : option (list N * list N) :=
  let m := cidr_mask ones (bitlen a) in
  match mask_ip (as16 a) m with
  | Some nip => Some (nip, m)
  | None => None
  end.

Definition parse_cidr (s : str) : option (list N * list N) :=
  match cut_slash s with
  | None => None
  | Some (a, m) =>
      match parse_addr a with
      | None => None
      | Some ad =>
          match parse_dec m with
          | None => None
          | Some n => if bitlen ad <? n then None else mk_net ad n
          end
      end
  end.

(* ------------------------------------------------------------------ *)
(* util.IPMatch; None = panic *)
Definition ipMatch (ip1 ip2 : str) : option bool :=
  match parse_ip ip1 with
  | None => None
  | Some o1 =>
      match parse_cidr ip2 with
      | Some (nip, nmask) => Some (contains nip nmask o1)
      | None =>
          match parse_ip ip2 with
          | None => None
          | Some o2 => Some (ip_equal o1 o2)
          end
      end
  end.

Definition ipMatchFunc := func2 (fun a b => of_opt (ipMatch a b)).

(* ------------------------------------------------------------------ *)
(* specification: prefix arithmetic on the numeric value *)

Definition val (bs : list N) : N := fold_left (fun a b => a * 256 + b) bs 0.

Definition bytes_ok (bs : list N) : bool := forallb (fun b => b <? 256) bs.

(* the first `ones` of `bits` bits of a and b are equal *)
Definition same_prefix (bits ones a b : N) : bool :=
  a / 2 ^ (bits - ones) =? b / 2 ^ (bits - ones).

(* how Go classifies a 16-byte address: IPv4 (this includes ::ffff:a.b.c.d) or IPv6 *)
Definition family (ip16 : list N) : bool * N :=
  match to4 ip16 with
  | Some b => (true, val b)
  | None => (false, val ip16)
  end.

(* membership of the address ip16 in the network written "a/ones" *)
Definition cidr_spec (a : addr) (ones : N) (ip16 : list N) : bool :=
  let '(is4, v) := family ip16 in
  match a with
  | A4 b => is4 && same_prefix 32 ones (val b) v
  | A6 b =>
      if (96 <=? ones) && is_mapped b
      then is4 && same_prefix 32 (ones - 96) (val (skipn 12 b)) v
      else negb is4 && same_prefix 128 ones (val b) v
  end.

Definition addr_ok (a : addr) : bool :=
  match a with
  | A4 b => len_is b 4 && bytes_ok b
  | A6 b => len_is b 16 && bytes_ok b
  end.
