(* Enforce.v — executable model of Enforcer.enforce (enforcer.go:623-844) and of the four
   entry points Enforce / EnforceEx / EnforceWithMatcher / BatchEnforce (enforcer.go:864-898),
   plus the short specification `perm_spec`.  Definitions only; proofs are in
   EnforceProofs.v.

   The function follows the Go statement by statement:
     defer recover()                       -> `recover` below: Panicked |-> (false, err)
     if !e.enabled { return true, nil }
     functions := fm + one g-function per role definition
     EnforceContext in rvals[0]            -> rq_ctx
     expString := model matcher | RemoveComments(EscapeAssertion(custom matcher))
                                           (a missing m-key is a nil *Assertion dereference: panic)
     rTokens / pTokens                     (missing r-/p-key: panic)
     hasEval := util.HasEval(expString); functions["eval"] when hasEval
     expression := compile(expString)      (error; unknown function names are compile errors)
     len(rTokens) != len(rvals)            -> error  (AFTER compilation)
     if policyLen != 0 && strings.Contains(expString, pType+"_"):
         for each rule in stored order: arity error / Eval error / result typing /
         eft column / MergeEffects (a missing e-key panics here) / break
     else: hasEval && empty policy -> error; Eval on all-empty fields;
           result.(bool) (panic on a non-bool); MergeEffects at (0, 1)
     explain index guard; decision := effect == Allow.
   The effect merge is Casbin.Effect.merge (the proved model of MergeEffects), applied to the
   same zero-padded arrays as in Effect.loop, but each slot is evaluated only when the loop
   reaches it (a failing rule behind the deciding rule is never evaluated). *)
From Coq Require Import List String Ascii Bool Arith ZArith.
Import ListNotations.
From Casbin Require Import Base Roles Effect Expr.
Local Open Scope string_scope.

(* ---------- the model (model.Model as far as enforce reads it) ---------- *)
Record ectx := { c_r : string; c_p : string; c_e : string; c_m : string }.
Definition default_ctx : ectx := {| c_r := "r"; c_p := "p"; c_e := "e"; c_m := "m" |}.
(* NewEnforceContext(suffix) *)
Definition ctx_of_suffix (sfx : string) : ectx :=
  {| c_r := "r" ++ sfx; c_p := "p" ++ sfx; c_e := "e" ++ sfx; c_m := "m" ++ sfx |}.

Record emodel := {
  enabled : bool;                                   (* e.enabled *)
  r_defs : list (string * list string);             (* r-key -> Tokens *)
  p_defs : list (string * (list string * list rule)); (* p-key -> (Tokens, Policy in stored order) *)
  e_defs : list (string * string);                  (* e-key -> Value *)
  m_defs : list (string * string);                  (* m-key -> Value (as stored by AddDef) *)
  g_defs : list (string * (nat * list link))        (* g-key -> (number of "_", role links) *)
}.

(* a request: optional EnforceContext as first argument, then the values *)
Record request := { rq_ctx : option ectx; rq_vals : list value }.

(* Model.AddDef for sec = "m" (model/model.go:85-91): what is stored as the matcher Value *)
Fixpoint map_chars (f : ascii -> ascii) (s : string) : string :=
  match s with EmptyString => EmptyString | String c t => String (f c) (map_chars f t) end.
Definition unbracket (c : ascii) : ascii :=
  if Ascii.eqb c "["%char then "("%char else if Ascii.eqb c "]"%char then ")"%char else c.
Definition prep_matcher (text : string) : string := remove_comments (escape text).
Definition load_matcher (text : string) : string :=
  let v := prep_matcher text in
  if contains "in" v then map_chars unbracket v else v.
(* AddDef for sec = "e" *)
Definition load_effect (text : string) : string := prep_matcher text.
(* AddDef for sec = "r" / "p": key + "_" + TrimSpace(token) *)
Definition load_tokens (key : string) (value : string) : list string :=
  map (fun t => key ++ "_" ++ trim_right (trim_left t)) (split_comma value).

(* constant/constants.go *)
Definition effect_of (s : string) : effect_expr :=
  if String.eqb s "some(where (p_eft == allow))" then AllowOverride
  else if String.eqb s "!some(where (p_eft == deny))" then DenyOverride
  else if String.eqb s "some(where (p_eft == allow)) && !some(where (p_eft == deny))" then AllowAndDeny
  else if String.eqb s "priority(p_eft) || deny" then Priority
  else if String.eqb s "subjectPriority(p_eft) || deny" then SubjectPriority
  else Unsupported.

(* ---------- results ---------- *)
Definition error_outcome : outcome := {| decision := false; explain := None; failed := true |}.
Definition err (o : outcome) : bool := failed o.

(* outcome of the function body before the deferred recover() *)
Inductive pres := Done (o : outcome) | Panicked.
Definition recover (p : pres) : outcome :=
  match p with Done o => o | Panicked => error_outcome end.

(* one policy slot when the loop reaches it *)
Inductive sres := SOk (en : bool * eft) | SErr | SPanic.
(* state of (effect, explainIndex) after the loop *)
Inductive lres := LOk (e : eft) (x : option nat) | LErr | LPanic.

(* everything enforce has computed when it reaches the policy loop *)
Record ready := {
  rd_ef : option string;        (* e.model["e"][eType].Value; None: the key is missing *)
  rd_expr : expr;               (* the compiled matcher *)
  rd_env : env;                 (* tokens, request values, role definitions; pvals unset *)
  rd_ptype : string;
  rd_policy : list rule;
  rd_uses_p : bool;             (* strings.Contains(expString, pType+"_") *)
  rd_has_eval : bool
}.

Inductive prep := PDisabled | PReady (s : ready) | PErr | PPanic.

Section Enforce.
  Variable parse : string -> option expr.
  Variable oracle : string -> list string -> res.

  (* statements up to and including the request-size check *)
  Definition prepare (M : emodel) (matcher : string) (rq : request) : prep :=
    if negb (enabled M) then PDisabled else
    let cx := match rq_ctx rq with Some c => c | None => default_ctx end in
    match (if String.eqb matcher "" then lookup (c_m cx) (m_defs M)
           else Some (prep_matcher matcher)) with
    | None => PPanic
    | Some exp_string =>
        match lookup (c_r cx) (r_defs M) with
        | None => PPanic
        | Some rtk =>
            match lookup (c_p cx) (p_defs M) with
            | None => PPanic
            | Some (ptk, policy) =>
                let he := has_eval exp_string in
                let gn := map fst (g_defs M) in
                match parse exp_string with
                | None => PErr
                | Some e =>
                    if negb (compile_ok gn he e) then PErr
                    else if negb (Nat.eqb (List.length rtk) (List.length (rq_vals rq))) then PErr
                    else PReady {| rd_ef := lookup (c_e cx) (e_defs M);
                                   rd_expr := e;
                                   rd_env := {| rtoks := rtk; rvals := rq_vals rq; ptoks := ptk;
                                                pvals := []; gdefs := g_defs M;
                                                eval_in_scope := he |};
                                   rd_ptype := c_p cx;
                                   rd_policy := policy;
                                   rd_uses_p := contains (c_p cx ++ "_") exp_string;
                                   rd_has_eval := he |}
                end
            end
        end
    end.

  (* expression.Eval(parameters) with parameters.pVals = pv *)
  Definition eval_rule (s : ready) (pv : rule) : res :=
    eval parse oracle max_eval_nesting (with_pvals (rd_env s) pv) (rd_expr s).

  (* the p_eft column: allow / deny / anything else; no such column: allow *)
  Definition eft_col (s : ready) (pv : rule) : option eft :=
    match tok_index (rd_ptype s ++ "_eft") (ptoks (rd_env s)) with
    | None => Some Allow
    | Some j => match nth_error pv j with
                | None => None                      (* pVals[j] out of range *)
                | Some f => Some (if String.eqb f "allow" then Allow
                                  else if String.eqb f "deny" then Deny else Indet)
                end
    end.

  (* the body of the policy loop up to MergeEffects *)
  Definition slot (s : ready) (pv : rule) : sres :=
    if negb (Nat.eqb (List.length (ptoks (rd_env s))) (List.length pv)) then SErr
    else match eval_rule s pv with
         | Err => SErr
         | Panic => SPanic
         | Ok v =>
             match (match v with
                    | VBool b => Some b
                    | VNum z => Some (negb (Z.eqb z 0))
                    | _ => None
                    end) with
             | None => SErr                         (* matcher result should be bool, int or float *)
             | Some m => match eft_col s pv with
                         | None => SPanic
                         | Some e => SOk (m, e)
                         end
             end
         end.

  (* for policyIndex, pvals := range policy { ... MergeEffects(...); if effect != Indeterminate { break } }
     acc = the slots evaluated so far (matcherResults / policyEffects [0..i)), n = policyLen *)
  Fixpoint lazy_loop (ef : option effect_expr) (sl : rule -> sres) (n : nat)
           (acc : list (bool * eft)) (rest : list rule) : lres :=
    match rest with
    | [] => LOk Indet None
    | pv :: rest' =>
        match sl pv with
        | SErr => LErr
        | SPanic => LPanic
        | SOk en =>
            match ef with
            | None => LPanic                        (* e.model["e"][eType] is nil *)
            | Some ef' =>
                let i := List.length acc in
                match merge ef' ((acc ++ [en]) ++ repeat zero (n - S i)) i n with
                | None => LErr
                | Some r =>
                    match fst r with
                    | Indet => match rest' with
                               | [] => LOk (fst r) (snd r)
                               | _ => lazy_loop ef sl n (acc ++ [en]) rest'
                               end
                    | _ => LOk (fst r) (snd r)
                    end
                end
            end
        end
    end.

  Definition blank_rule (s : ready) : rule :=
    repeat "" (List.length (dedup (ptoks (rd_env s)))).   (* make([]string, len(pTokens)) *)

  Definition policy_branch (s : ready) : bool :=
    match rd_policy s with [] => false | _ => rd_uses_p s end.

  Definition run (s : ready) : lres :=
    let ef := option_map effect_of (rd_ef s) in
    if policy_branch s then
      lazy_loop ef (slot s) (List.length (rd_policy s)) [] (rd_policy s)
    else if rd_has_eval s && match rd_policy s with [] => true | _ => false end then LErr
    else match eval_rule s (blank_rule s) with
         | Err => LErr
         | Panic => LPanic
         | Ok (VBool b) =>
             match ef with
             | None => LPanic
             | Some ef' =>
                 match merge ef' [(true, if b then Allow else Indet)] 0 1 with
                 | None => LErr
                 | Some r => LOk (fst r) (snd r)
                 end
             end
         | Ok _ => LPanic                           (* result.(bool) *)
         end.

  (* explainIndex != -1 && len(policy) > explainIndex; effect == Allow *)
  Definition finish (policy_len : nat) (r : lres) : pres :=
    match r with
    | LErr => Done error_outcome
    | LPanic => Panicked
    | LOk e x =>
        Done {| decision := eft_eqb e Allow;
                explain := match x with
                           | Some j => if Nat.ltb j policy_len then Some j else None
                           | None => None
                           end;
                failed := false |}
    end.

  Definition enforce_body (M : emodel) (matcher : string) (rq : request) : pres :=
    match prepare M matcher rq with
    | PDisabled => Done {| decision := true; explain := None; failed := false |}
    | PErr => Done error_outcome
    | PPanic => Panicked
    | PReady s => finish (List.length (rd_policy s)) (run s)
    end.

  (* e.enforce(matcher, &explain, rvals...) seen from outside: (ok, explain index, err != nil) *)
  Definition enforce (M : emodel) (matcher : string) (rq : request) : outcome :=
    recover (enforce_body M matcher rq).

  (* ---------- the public entry points ---------- *)
  Definition api_enforce (M : emodel) (rq : request) : bool * bool :=
    let o := enforce M "" rq in (decision o, failed o).
  Definition api_enforce_ex (M : emodel) (rq : request) : bool * option nat * bool :=
    let o := enforce M "" rq in (decision o, explain o, failed o).
  Definition api_enforce_with_matcher (M : emodel) (matcher : string) (rq : request) : bool * bool :=
    let o := enforce M matcher rq in (decision o, failed o).
  (* BatchEnforce: stops at the first error and returns the results collected so far *)
  Fixpoint api_batch_enforce (M : emodel) (rqs : list request) : list bool * bool :=
    match rqs with
    | [] => ([], false)
    | rq :: t =>
        let o := enforce M "" rq in
        if failed o then ([], true)
        else let '(rs, e) := api_batch_enforce M t in (decision o :: rs, e)
    end.

  (* ---------- specification ---------- *)
  (* the matcher holds for (request, rule): it evaluates to true or to a non-zero number *)
  Definition matcher_true (s : ready) (pv : rule) : bool :=
    match eval_rule s pv with
    | Ok (VBool b) => b
    | Ok (VNum z) => negb (Z.eqb z 0)
    | _ => false
    end.
  Definition eft_of_rule (s : ready) (pv : rule) : eft :=
    match eft_col s pv with Some e => e | None => Indet end.
  Definition spec_entry (s : ready) (pv : rule) : bool * eft := (matcher_true s pv, eft_of_rule s pv).

  (* PERM semantics: evaluate the matcher against each rule in stored order and combine the
     matched rules' effects as the policy effect prescribes; with an empty policy or a matcher
     that mentions no policy field, casbin's convention: one evaluation on empty fields whose
     effect is allow-if-true *)
  Definition perm_spec (ef : effect_expr) (s : ready) : bool :=
    if policy_branch s then combine ef (map (spec_entry s) (rd_policy s))
    else combine ef [(true, if matcher_true s (blank_rule s) then Allow else Indet)].

  (* guard of the error-free theorem, as a boolean so that it can be evaluated *)
  Definition slot_ok (s : ready) (pv : rule) : bool :=
    match slot s pv with SOk _ => true | _ => false end.
  Definition error_free (s : ready) : bool :=
    if policy_branch s then forallb (slot_ok s) (rd_policy s)
    else negb (rd_has_eval s && match rd_policy s with [] => true | _ => false end) &&
         match eval_rule s (blank_rule s) with Ok (VBool _) => true | _ => false end.
End Enforce.
