From Coq Require Import List String ZArith Bool Lia.
From Casbin Require Import Effect GoLite Gen.GoFuns GoLiteEffector GoLiteProofs.
Import ListNotations.
Open Scope string_scope.

Ltac ev := cbn [eval eval_list lookup set val_eq arith option_map builtin1 String.eqb Ascii.eqb Bool.eqb andb negb eft_code eft_eqb].
Ltac zc :=
  change (0 =? 0)%Z with true; change (1 =? 0)%Z with false; change (2 =? 0)%Z with false;
  change (0 =? 1)%Z with false; change (1 =? 1)%Z with true; change (2 =? 1)%Z with false;
  change (0 =? 2)%Z with false; change (1 =? 2)%Z with false; change (2 =? 2)%Z with true.
Ltac step := first
  [ rewrite exec_S_seq | rewrite exec_S_assign | rewrite exec_S_if | rewrite exec_S_block
  | rewrite exec_S_skip | rewrite exec_S_break | rewrite exec_S_continue | rewrite exec_S_return ]; ev; zc; ev.

Definition d0 : slot := (0%Z, Allow).

(* the sub-terms of the generated function that are loops, picked out of it by shape *)
Definition prio_loop : stmt :=
  ltac:(let b := eval cbv delta [MergeEffects f_body] in (f_body MergeEffects) in
        match b with context [SFor ?c ?p ?bd] => exact (SFor c p bd) end).
Definition range_body : stmt :=
  ltac:(let b := eval cbv delta [MergeEffects f_body] in (f_body MergeEffects) in
        match b with context [SRange _ _ _ ?bd] => exact bd end).

Section Frame.
Variables (s : string) (zs : list slot) (pi pl : Z).
Definition fr (vres vexp vi ve vi2 : val) : env :=
  [("expr", VStr s); ("effects", effects_val zs); ("matches", matches_val zs);
   ("policyIndex", VInt pi); ("policyLength", VInt pl); ("result", vres); ("explainIndex", vexp);
   ("i", vi); ("eft", ve); ("i#2", vi2)].

Lemma idx_effects i : i < List.length zs ->
  index_val (effects_val zs) (VInt (Z.of_nat i)) = Some (VInt (eft_code (snd (nth i zs d0)))).
Proof.
  intros H. unfold effects_val, effects_list. rewrite index_val_nat by (rewrite map_length; exact H).
  now rewrite (nth_error_map_nth _ _ _ d0) by exact H.
Qed.
Lemma idx_matches i : i < List.length zs ->
  index_val (matches_val zs) (VInt (Z.of_nat i)) = Some (VInt (fst (nth i zs d0))).
Proof.
  intros H. unfold matches_val, matches_list. rewrite index_val_nat by (rewrite map_length; exact H).
  now rewrite (nth_error_map_nth _ _ _ d0) by exact H.
Qed.

Lemma last_det_app1 l x k :
  last_det (l ++ [x])%list k = if fst x && negb (eft_eqb (snd x) Indet) then Some (k + List.length l, snd x) else last_det l k.
Proof.
  revert k; induction l as [|[m e] t IH]; intros k.
  - destruct x as [m e]. cbn [app last_det fst snd List.length]. rewrite Nat.add_0_r. reflexivity.
  - cbn [app last_det List.length]. rewrite IH. destruct (fst x && negb (eft_eqb (snd x) Indet)).
    + f_equal. f_equal. lia.
    + reflexivity.
Qed.

Lemma firstn_S_nth {A} (l : list A) m d : m < List.length l -> firstn (S m) l = (firstn m l ++ [nth m l d])%list.
Proof.
  revert m; induction l as [|a l IH]; intros m H; simpl in *; [lia|].
  destruct m as [|m]; [reflexivity|]. simpl. f_equal. apply IH. lia.
Qed.

Lemma prio_loop_spec : forall m fk, m <= List.length zs -> m <= fk ->
  forall vres vexp vi ve,
  exec (S (S (S (S (S (S (S (S fk)))))))) prio_loop (fr vres vexp vi ve (VInt (Z.of_nat m - 1))) =
  ONormal (match last_det (firstn m (map entry_of zs)) 0 with
           | Some (j, e') => fr (VInt (if eft_eqb e' Allow then 0 else 2)) (VInt (Z.of_nat j)) vi ve (VInt (Z.of_nat j))
           | None => fr vres vexp vi ve (VInt (-1))
           end).
Proof.
  induction m as [|m IH]; intros fk Hm Hfk vres vexp vi ve.
  - unfold prio_loop, fr. rewrite exec_S_for. ev. reflexivity.
  - destruct fk as [|fk]; [lia|].
    replace (Z.of_nat (S m) - 1)%Z with (Z.of_nat m) by lia.
    unfold prio_loop, fr. rewrite exec_S_for. ev.
    replace (0 <=? Z.of_nat m)%Z with true by (symmetry; apply Z.leb_le; lia).
    rewrite (firstn_S_nth _ m zero) by (rewrite map_length; lia).
    change zero with (entry_of d0). rewrite map_nth. rewrite last_det_app1.
    pose proof (idx_effects m ltac:(lia)) as He. pose proof (idx_matches m ltac:(lia)) as Hmm.
    destruct (nth m zs d0) as [z e]. cbn [fst snd] in He, Hmm. unfold entry_of. cbn [fst snd].
    repeat step. rewrite Hmm. ev.
    destruct (Z.eqb z 0) eqn:Ez; cbn [negb andb].
    + repeat step.
      replace (Z.of_nat m - 1)%Z with (Z.of_nat (S m) - 1 - 1)%Z by lia.
      replace (Z.of_nat (S m) - 1 - 1)%Z with (Z.of_nat m - 1)%Z by lia.
      specialize (IH fk ltac:(lia) ltac:(lia) vres vexp vi ve). unfold prio_loop, fr in IH. rewrite IH.
      reflexivity.
    + repeat step. rewrite He. ev.
      destruct e; ev; zc; ev; repeat step; rewrite ?He; ev; zc; repeat step.
      * rewrite firstn_length, map_length. rewrite Nat.min_l by lia. reflexivity.
      * specialize (IH fk ltac:(lia) ltac:(lia) vres vexp vi ve). unfold prio_loop, fr in IH. rewrite IH. reflexivity.
      * rewrite firstn_length, map_length. rewrite Nat.min_l by lia. reflexivity.
Qed.

Lemma nth_middle' (pre rest : list slot) p : nth (List.length pre) (pre ++ p :: rest)%list d0 = p.
Proof. induction pre as [|a pre IH]; simpl; [reflexivity|exact IH]. Qed.

Lemma range_spec : forall rest pre fk, zs = (pre ++ rest)%list ->
  forall vres vexp vi ve vi2, exists vi' ve',
  range_loop (exec (S (S (S (S (S (S fk)))))) range_body) "i" "eft" (Z.of_nat (List.length pre))
    (effects_list rest) (fr vres vexp vi ve vi2) =
  ONormal (match first_allow (map entry_of rest) (List.length pre) with
           | Some j => fr (VInt 0) (VInt (Z.of_nat j)) vi' ve' vi2
           | None => fr vres vexp vi' ve' vi2
           end).
Proof.
  induction rest as [|p rest IH]; intros pre fk Hz vres vexp vi ve vi2.
  - exists vi, ve. reflexivity.
  - cbn [effects_list map]. fold (effects_list rest). rewrite range_loop_cons. unfold fr at 1. ev.
    assert (Hlen : List.length pre < List.length zs) by (rewrite Hz, app_length; simpl; lia).
    pose proof (idx_matches _ Hlen) as Hmm. rewrite Hz in Hmm at 2. rewrite nth_middle' in Hmm.
    destruct p as [z e]. cbn [fst snd] in Hmm. cbn [first_allow entry_of fst snd]. unfold entry_of at 1. cbn [fst snd].
    unfold range_body. repeat step. rewrite Hmm. ev.
    assert (Hz' : zs = ((pre ++ [(z, e)]) ++ rest)%list) by (rewrite <- app_assoc; exact Hz).
    assert (Hl' : (Z.of_nat (List.length pre) + 1)%Z = Z.of_nat (List.length (pre ++ [(z, e)])%list))
      by (rewrite app_length; simpl; lia).
    assert (Hs : S (List.length pre) = List.length (pre ++ [(z, e)])%list) by (rewrite app_length; simpl; lia).
    destruct (Z.eqb z 0) eqn:Ez; cbn [negb andb].
    + repeat step. rewrite Hl', Hs.
      destruct (IH (pre ++ [(z, e)])%list fk Hz' vres vexp (VInt (Z.of_nat (List.length pre))) (VInt (eft_code e)) vi2) as (vi' & ve' & H).
      exists vi', ve'. unfold fr at 1 in H. exact H.
    + repeat step. destruct e; ev; zc; ev; repeat step.
      * eexists _, _. reflexivity.
      * rewrite Hl', Hs.
        destruct (IH (pre ++ [(z, Indet)])%list fk Hz' vres vexp (VInt (Z.of_nat (List.length pre))) (VInt 1) vi2) as (vi' & ve' & H).
        exists vi', ve'. unfold fr at 1 in H. exact H.
      * rewrite Hl', Hs.
        destruct (IH (pre ++ [(z, Deny)])%list fk Hz' vres vexp (VInt (Z.of_nat (List.length pre))) (VInt 2) vi2) as (vi' & ve' & H).
        exists vi', ve'. unfold fr at 1 in H. exact H.
Qed.
End Frame.

Lemma nth_entries zs i : nth i (map entry_of zs) zero = entry_of (nth i zs d0).
Proof. change zero with (entry_of d0). apply map_nth. Qed.
Lemma eqb_pred i n : 1 <= n -> Z.eqb (Z.of_nat i) (Z.of_nat n - 1) = Nat.eqb i (n - 1).
Proof. intros H. destruct (Nat.eqb_spec i (n-1)); [apply Z.eqb_eq|apply Z.eqb_neq]; lia. Qed.
Lemma ltb_pred i n : 1 <= n -> Z.ltb (Z.of_nat i) (Z.of_nat n - 1) = Nat.ltb i (n - 1).
Proof. intros H. destruct (Nat.ltb_spec i (n-1)); [apply Z.ltb_lt|apply Z.ltb_ge]; lia. Qed.

Lemma vlen_effects zs : vlen (effects_val zs) = Some (Z.of_nat (List.length zs)).
Proof. unfold effects_val, effects_list, vlen. now rewrite map_length. Qed.

Lemma exec_S_range_var f i x v body r l :
  lookup v r = Some (VSlice l) -> exec (S f) (SRange i x (EVar v) body) r = range_loop (exec f body) i x 0%Z l r.
Proof. intros H. rewrite exec_S_range. cbn [eval]. now rewrite H. Qed.

Ltac do_range s zs :=
  erewrite exec_S_range_var by (cbn [lookup String.eqb Ascii.eqb Bool.eqb andb]; unfold effects_val; reflexivity);
  match goal with
  | |- context [range_loop (exec (S (S (S (S (S (S ?fk)))))) _) "i" "eft" 0%Z _
                  (_ :: _ :: _ :: (_, VInt ?pi) :: (_, VInt ?pl) :: (_, ?vres) :: (_, ?vexp) :: (_, ?vi) :: (_, ?ve) :: (_, ?vi2) :: nil)] =>
      let vi' := fresh "vi'" in let ve' := fresh "ve'" in let Hr := fresh "Hr" in
      destruct (range_spec s zs pi pl zs [] fk eq_refl vres vexp vi ve vi2) as (vi' & ve' & Hr);
      unfold fr, range_body in Hr; change (Z.of_nat (List.length (@nil slot))) with 0%Z in Hr;
      change (List.length (@nil slot)) with 0 in Hr; rewrite Hr; clear Hr
  end.

Ltac do_prio s zs k Hk :=
  rewrite vlen_effects; ev;
  match goal with
  | |- context [exec (S (S (S (S (S (S (S (S ?fk)))))))) (SFor _ _ _)
                  (_ :: _ :: _ :: (_, VInt ?pi) :: (_, VInt ?pl) :: (_, ?vres) :: (_, ?vexp) :: (_, ?vi) :: (_, ?ve) :: _ :: nil)] =>
      let Hp := fresh "Hp" in
      pose proof (prio_loop_spec s zs pi pl (List.length zs) fk (le_n _) ltac:(lia) vres vexp vi ve) as Hp;
      replace (firstn (List.length zs) (map entry_of zs)) with (map entry_of zs) in Hp
        by (symmetry; rewrite <- (map_length entry_of zs); apply firstn_all);
      unfold fr, prio_loop in Hp; rewrite Hp; clear Hp
  end.

Theorem MergeEffects_refines_merge_at : forall s zs i n k, i < List.length zs -> 1 <= n -> List.length zs <= k ->
  call MergeEffects (merge_args s zs i n) (40 + k) = OReturn (enc_result (merge (classify s) (map entry_of zs) i n)).
Proof.
  intros s zs i n k Hi Hn Hk.
  unfold call, frame, MergeEffects, merge_args.
  cbn [f_body f_params f_locals bind app Nat.add map].
  unfold merge, classify. rewrite nth_entries.
  pose proof (idx_effects zs i Hi) as He. pose proof (idx_matches zs i Hi) as Hm.
  destruct (nth i zs d0) as [z e]. cbn [fst snd] in He, Hm. unfold entry_of at 1. cbn [fst snd].
  repeat step.
  destruct (String.eqb s "some(where (p_eft == allow))") eqn:E1.
  { repeat step. rewrite Hm. ev.
    destruct (Z.eqb z 0) eqn:Ez; cbn [negb andb]; repeat step; [reflexivity|].
    rewrite He. ev. destruct e; ev; zc; ev; repeat step; reflexivity. }
  repeat step.
  destruct (String.eqb s "!some(where (p_eft == deny))") eqn:E2.
  { repeat step. rewrite Hm. ev.
    destruct (Z.eqb z 0) eqn:Ez; cbn [negb andb]; repeat step.
    - rewrite eqb_pred by exact Hn. destruct (Nat.eqb i (n - 1)); repeat step; reflexivity.
    - rewrite He. ev. destruct e; ev; zc; ev; repeat step; try reflexivity;
      rewrite eqb_pred by exact Hn; destruct (Nat.eqb i (n - 1)); repeat step; reflexivity. }
  repeat step.
  destruct (String.eqb s "some(where (p_eft == allow)) && !some(where (p_eft == deny))") eqn:E3.
  { repeat step. rewrite Hm. ev.
    destruct (Z.eqb z 0) eqn:Ez; cbn [negb andb]; repeat step.
    - rewrite ltb_pred by exact Hn. destruct (Nat.ltb i (n - 1)); repeat step; [reflexivity|].
      do_range s zs. destruct (first_allow (map entry_of zs) 0); repeat step; reflexivity.
    - rewrite He. ev. destruct e; ev; zc; ev; repeat step; try reflexivity;
      rewrite ltb_pred by exact Hn; destruct (Nat.ltb i (n - 1)); repeat step; try reflexivity;
      do_range s zs; destruct (first_allow (map entry_of zs) 0); repeat step; reflexivity. }
  repeat step.
  destruct (String.eqb s "priority(p_eft) || deny") eqn:E4.
  { repeat step. do_prio s zs k Hk.
    destruct (last_det (map entry_of zs) 0) as [[j e']|]; repeat step; [destruct (eft_eqb e' Allow)|]; reflexivity. }
  destruct (String.eqb s "subjectPriority(p_eft) || deny") eqn:E5.
  { repeat step. do_prio s zs k Hk.
    destruct (last_det (map entry_of zs) 0) as [[j e']|]; repeat step; [destruct (eft_eqb e' Allow)|]; reflexivity. }
  repeat step. reflexivity.
Qed.

(* for every sufficient amount of fuel *)
Theorem MergeEffects_refines_merge : forall s zs i n fuel,
  i < List.length zs -> 1 <= n -> 40 + List.length zs <= fuel ->
  call MergeEffects (merge_args s zs i n) fuel = OReturn (enc_result (merge (classify s) (map entry_of zs) i n)).
Proof.
  intros s zs i n fuel Hi Hn Hf.
  eapply call_mono; [apply (MergeEffects_refines_merge_at s zs i n (List.length zs)); auto | discriminate | exact Hf].
Qed.

Lemma entry_slot x : entry_of (slot_of x) = x.
Proof. destruct x as [[|] e]; reflexivity. Qed.
Lemma entries_slots a : map entry_of (map slot_of a) = a.
Proof. rewrite map_map. induction a as [|x a IH]; simpl; [reflexivity|]. now rewrite entry_slot, IH. Qed.
Lemma eft_code_inv e : eft_of_code (eft_code e) = e.
Proof. destruct e; reflexivity. Qed.
Lemma dec_enc r : dec_result (OReturn (enc_result r)) = Some r.
Proof.
  destruct r as [[e [j|]]|]; cbn [enc_result dec_result]; rewrite ?eft_code_inv; try reflexivity.
  replace (Z.of_nat j <? 0)%Z with false by (symmetry; apply Z.ltb_ge; lia). now rewrite Nat2Z.id.
Qed.

Lemma merge_gen_is_merge s a i n : i < List.length a -> 1 <= n -> merge_gen s a i n = merge (classify s) a i n.
Proof.
  intros Hi Hn. unfold merge_gen.
  rewrite MergeEffects_refines_merge by (rewrite ?map_length; auto).
  now rewrite dec_enc, entries_slots.
Qed.

Lemma loop_with_merge ef v n fuel i : loop_with (merge ef) v n fuel i = loop ef v n fuel i.
Proof. revert i; induction fuel as [|f IH]; intros i; cbn [loop_with loop]; [reflexivity|]. now rewrite IH. Qed.

Lemma arr_length v i n : i < n -> n <= List.length v -> List.length (arr v i n) = n.
Proof. intros H1 H2. unfold arr. rewrite app_length, firstn_length, repeat_length. lia. Qed.

Lemma loop_with_ext mg1 mg2 v n :
  (forall i, i < n -> mg1 (arr v i n) i n = mg2 (arr v i n) i n) ->
  forall fuel i, i < n -> loop_with mg1 v n fuel i = loop_with mg2 v n fuel i.
Proof.
  intros H fuel; induction fuel as [|f IH]; intros i Hi; cbn [loop_with]; [reflexivity|].
  rewrite (H i Hi). destruct (mg2 (arr v i n) i n) as [r|]; [|reflexivity].
  destruct (fst r); try reflexivity.
  destruct (Nat.eqb (S i) n) eqn:E; [reflexivity|]. apply IH.
  apply Nat.eqb_neq in E. lia.
Qed.

Theorem stream_gen_is_stream s v : v <> [] -> stream_gen s v = stream (classify s) v.
Proof.
  intros Hv. unfold stream_gen, stream.
  assert (Hn : 1 <= List.length v) by (destruct v; [congruence | simpl; lia]).
  rewrite (loop_with_ext (merge_gen s) (merge (classify s)) v (List.length v)).
  - now rewrite loop_with_merge.
  - intros i Hi. apply merge_gen_is_merge; [rewrite arr_length; lia | exact Hn].
  - lia.
Qed.
