(* MetaProofs.v — proofs about Meta.v:
     1. the lazy enforce loop `erun` has the closed form
          error        <-> an erroring slot comes before the first stopping slot
          otherwise    decision = Effect.combine of the (forced) vector
     2. the relational theorems of property C17. *)
From Coq Require Import List Bool Arith Lia Permutation.
Import ListNotations.
From Casbin Require Import Effect EffectProofs Meta.

(* ================= 1. the lazy loop ================= *)

Lemma forced_app a b : forced (a ++ b) = forced a ++ forced b.
Proof. apply map_app. Qed.

Lemma forced_length ov : length (forced ov) = length ov.
Proof. apply map_length. Qed.

(* whenever the lazy loop returns a result, the eager loop of Effect.v returns the same *)
Lemma eloop_sound ef ov n : forall fuel i r,
  eloop ef ov n fuel i = Some r -> loop ef (forced ov) n fuel i = Some r.
Proof.
  induction fuel as [|fuel IH]; intros i r H; cbn [eloop loop] in *; [exact H|].
  destruct (nth_error ov i) as [[[m|] e]|]; try discriminate.
  destruct (merge ef (arr (forced ov) i n) i n) as [r0|]; [|discriminate].
  destruct (fst r0); try exact H.
  destruct (Nat.eqb (S i) n); [exact H|apply IH; exact H].
Qed.

(* one step of MergeEffects in the middle of a vector whose prefix did not stop the loop *)
Lemma merge_mid ef pre x suf :
  supported ef = true -> existsb (breaker ef) pre = false ->
  exists r,
    merge ef (arr (pre ++ x :: suf) (length pre) (length (pre ++ x :: suf)))
          (length pre) (length (pre ++ x :: suf)) = Some r /\
    (breaker ef x = true -> fst r <> Indet) /\
    (breaker ef x = false -> suf <> [] -> fst r = Indet).
Proof.
  intros Hs Hpre. destruct ef; try discriminate.
  - (* allow-override *)
    unfold merge. rewrite nth_arr_mid. destruct x as [m e]. cbn [breaker]. unfold matched_with. cbn [fst snd].
    destruct (m && eft_eqb e Allow); eexists; (split; [reflexivity|]); split; intros; cbn [fst]; congruence.
  - (* deny-override *)
    unfold merge. rewrite nth_arr_mid. destruct x as [m e]. cbn [breaker]. unfold matched_with. cbn [fst snd].
    destruct (m && eft_eqb e Deny).
    + eexists; (split; [reflexivity|]); split; intros; cbn [fst]; congruence.
    + replace (Nat.eqb (length pre) (length (pre ++ (m, e) :: suf) - 1))
        with (match suf with [] => true | _ => false end).
      2:{ rewrite app_length. cbn [length]. destruct suf; cbn [length]; symmetry;
          [apply Nat.eqb_eq|apply Nat.eqb_neq]; lia. }
      destruct suf; eexists; (split; [reflexivity|]); split; intros; cbn [fst]; congruence.
  - (* allow-and-deny *)
    unfold merge. rewrite nth_arr_mid. destruct x as [m e]. cbn [breaker]. unfold matched_with. cbn [fst snd].
    destruct (m && eft_eqb e Deny).
    + eexists; (split; [reflexivity|]); split; intros; cbn [fst]; congruence.
    + replace (Nat.ltb (length pre) (length (pre ++ (m, e) :: suf) - 1))
        with (match suf with [] => false | _ => true end).
      2:{ rewrite app_length. cbn [length]. destruct suf; cbn [length]; symmetry;
          [apply Nat.ltb_ge|apply Nat.ltb_lt]; lia. }
      destruct suf; eexists; (split; [reflexivity|]); split; intros; cbn [fst]; congruence.
  - (* priority *)
    rewrite (merge_priority_eq Priority _ _ _ (or_introl eq_refl)).
    rewrite arr_mid, last_det_zeros, (last_det_snoc _ _ _ Hpre). cbn [breaker].
    destruct (det x); eexists; (split; [reflexivity|]); split; intros; cbn [fst]; try congruence.
    destruct (eft_eqb (snd x) Allow); discriminate.
  - (* subject priority *)
    rewrite (merge_priority_eq SubjectPriority _ _ _ (or_intror eq_refl)).
    rewrite arr_mid, last_det_zeros, (last_det_snoc _ _ _ Hpre). cbn [breaker].
    destruct (det x); eexists; (split; [reflexivity|]); split; intros; cbn [fst]; try congruence.
    destruct (eft_eqb (snd x) Allow); discriminate.
Qed.

Lemma nth_error_mid {A} (pre : list A) x suf : nth_error (pre ++ x :: suf) (length pre) = Some x.
Proof. rewrite nth_error_app2 by lia. rewrite Nat.sub_diag. reflexivity. Qed.

(* the lazy loop fails exactly when an erroring slot is reached *)
Lemma eloop_fail_iff ef : supported ef = true -> forall suf pre fuel,
  suf <> [] -> length suf <= fuel ->
  existsb (breaker ef) (forced pre) = false ->
  (eloop ef (pre ++ suf) (length (pre ++ suf)) fuel (length pre) = None <-> reaches_error ef suf = true).
Proof.
  intros Hs. induction suf as [|x suf IH]; intros pre fuel Hne Hf Hpre; [congruence|].
  destruct fuel as [|fuel]; [cbn in Hf; lia|].
  cbn [eloop]. rewrite nth_error_mid. destruct x as [[m|] e]; cbn [reaches_error].
  2:{ split; reflexivity. }
  rewrite forced_app. cbn [forced map]. change (map force suf) with (forced suf).
  change (force (Some m, e)) with ((m, e) : entry).
  replace (length (pre ++ (Some m, e) :: suf)) with (length (forced pre ++ (m, e) :: forced suf))
    by (rewrite !app_length; cbn [length]; rewrite !forced_length; reflexivity).
  rewrite <- (forced_length pre).
  destruct (merge_mid ef (forced pre) (m, e) (forced suf) Hs Hpre) as [r [Hr [Hb Hc]]].
  rewrite Hr.
  destruct (breaker ef (m, e)) eqn:B.
  - specialize (Hb eq_refl). destruct (fst r); try congruence; split; discriminate.
  - destruct suf as [|y suf'].
    + cbn [forced map app]. rewrite app_length. cbn [length].
      replace (Nat.eqb (S (length (forced pre))) (length (forced pre) + 1)) with true
        by (symmetry; apply Nat.eqb_eq; lia).
      cbn [reaches_error]. destruct (fst r); split; discriminate.
    + rewrite (Hc eq_refl) by discriminate.
      replace (Nat.eqb (S (length (forced pre))) (length (forced pre ++ (m, e) :: forced (y :: suf')))) with false
        by (symmetry; apply Nat.eqb_neq; rewrite app_length; cbn [length forced map]; lia).
      rewrite forced_length.
      replace (length (forced pre ++ (m, e) :: forced (y :: suf'))) with (length ((pre ++ [(Some m, e)]) ++ y :: suf'))
        by (rewrite !app_length; cbn [length forced map]; rewrite !forced_length, ?map_length; lia).
      rewrite (snoc_assoc pre (Some m, e) y suf'). rewrite <- (len_snoc pre (Some m, e)).
      apply IH; [discriminate|cbn [length] in *; lia|].
      rewrite forced_app, existsb_app. cbn [forced map existsb].
      change (force (Some m, e)) with ((m, e) : entry). rewrite Hpre, B. reflexivity.
Qed.

(* closed form of the policy branch of enforce, for every supported effect and every vector *)
Theorem erun_spec ef ov : supported ef = true -> ov <> [] ->
  failed (erun ef ov) = reaches_error ef ov /\
  (reaches_error ef ov = false -> decision (erun ef ov) = combine ef (forced ov)) /\
  (reaches_error ef ov = true -> decision (erun ef ov) = false).
Proof.
  intros Hs Hne.
  pose proof (eloop_fail_iff ef Hs ov [] (length ov) Hne (le_n _) eq_refl) as Hiff.
  cbn [app length] in Hiff. unfold erun.
  destruct (eloop ef ov (length ov) (length ov) 0) as [[e x]|] eqn:E.
  - assert (Hre : reaches_error ef ov = false).
    { destruct (reaches_error ef ov); [|reflexivity]. destruct Hiff as [_ H]. specialize (H eq_refl). discriminate. }
    rewrite Hre. cbn [failed decision]. split; [reflexivity|]. split; [|discriminate]. intros _.
    apply eloop_sound in E. rewrite <- (forced_length ov) in E.
    assert (Hne' : forced ov <> []) by (destruct ov; [congruence|discriminate]).
    destruct (stream_correct ef (forced ov) Hs Hne') as [_ Hd]. unfold stream in Hd. rewrite E in Hd.
    cbn [decision] in Hd. exact Hd.
  - destruct Hiff as [H _]. rewrite (H eq_refl). cbn [failed decision error_outcome].
    split; [reflexivity|]. split; [discriminate|reflexivity].
Qed.

(* an error-free run decides like the declarative combination *)
Corollary erun_ok ef ov d : supported ef = true -> ov <> [] ->
  ok (erun ef ov) d -> reaches_error ef ov = false /\ d = combine ef (forced ov).
Proof.
  intros Hs Hne [Hf Hd]. destruct (erun_spec ef ov Hs Hne) as [H1 [H2 _]].
  rewrite Hf in H1. symmetry in H1. split; [exact H1|]. rewrite <- Hd. apply H2. exact H1.
Qed.

Corollary erun_ok_intro ef ov : supported ef = true -> ov <> [] ->
  reaches_error ef ov = false -> ok (erun ef ov) (combine ef (forced ov)).
Proof.
  intros Hs Hne Hre. destruct (erun_spec ef ov Hs Hne) as [H1 [H2 _]]. split; [congruence|auto].
Qed.

(* a run that was not stopped has evaluated every slot *)
Lemma no_break_all_evaluated ef ov :
  reaches_error ef ov = false -> existsb (breaker ef) (forced ov) = false -> forallb evaluated ov = true.
Proof.
  induction ov as [|[[m|] e] t IH]; cbn [reaches_error forced map existsb forallb]; intros Hr Hb;
    [reflexivity| |discriminate].
  change (force (Some m, e)) with ((m, e) : entry) in Hb.
  apply orb_false_iff in Hb as [Hx Ht]. rewrite Hx in Hr. cbn [evaluated fst andb]. apply IH; assumption.
Qed.

Lemma all_evaluated_no_error ef ov : forallb evaluated ov = true -> reaches_error ef ov = false.
Proof.
  induction ov as [|[[m|] e] t IH]; cbn [reaches_error forallb evaluated fst andb]; intros H;
    [reflexivity| |discriminate].
  destruct (breaker ef (m, e)); [reflexivity|apply IH; exact H].
Qed.

(* once stopped, whatever follows is not looked at *)
Lemma reaches_error_app_break ef ov t :
  reaches_error ef ov = false -> existsb (breaker ef) (forced ov) = true ->
  reaches_error ef (ov ++ t) = false.
Proof.
  induction ov as [|[[m|] e] u IH]; cbn [reaches_error forced map existsb app]; intros Hr Hb;
    [discriminate| |discriminate].
  change (force (Some m, e)) with ((m, e) : entry) in Hb.
  destruct (breaker ef (m, e)); [reflexivity|]. cbn [orb] in Hb. apply IH; assumption.
Qed.

Lemma forallb_perm {A} (p : A -> bool) l l' : Permutation l l' -> forallb p l = forallb p l'.
Proof.
  induction 1; cbn [forallb]; try congruence.
  destruct (p x), (p y); reflexivity.
Qed.

(* ---------- the policy-free branch ---------- *)
Lemma nopolicy_ok ef blank d : supported ef = true ->
  ok (nopolicy ef blank) d ->
  exists b, blank = Some b /\ d = match ef with DenyOverride => true | _ => b end.
Proof.
  intros Hs [Hf Hd]. destruct blank as [b|]; cbn [nopolicy] in *; [|discriminate].
  exists b. split; [reflexivity|]. rewrite <- Hd. apply nopolicy_decision. exact Hs.
Qed.

Lemma nopolicy_ok_intro ef b : supported ef = true ->
  ok (nopolicy ef (Some b)) (match ef with DenyOverride => true | _ => b end).
Proof.
  intros Hs. cbn [nopolicy]. split; [|apply nopolicy_decision; exact Hs].
  unfold stream_nopolicy. apply stream_correct; [exact Hs|discriminate].
Qed.

Lemma ok_error d : ~ ok error_outcome d.
Proof. intros [H _]. discriminate. Qed.

Lemma ok_fun o d d' : ok o d -> ok o d' -> d = d'.
Proof. intros [_ H] [_ H']. congruence. Qed.

Lemma granted_ok o : granted o = true <-> ok o true.
Proof.
  unfold granted, ok. destruct (failed o), (decision o); cbn; split; try tauto; try discriminate;
    intros [H1 H2]; discriminate.
Qed.

Lemma ok_false_not_granted o : ok o false -> granted o = false.
Proof. intros [Hf Hd]. unfold granted. rewrite Hf, Hd. reflexivity. Qed.

(* ---------- vector-level facts about the three order-insensitive effects ---------- *)
Lemma some_allow_forced ov :
  some_allow (forced ov) = true <-> exists x, In x ov /\ fst x = Some true /\ snd x = Allow.
Proof.
  unfold some_allow, forced. rewrite existsb_exists. split.
  - intros [y [Hy My]]. apply in_map_iff in Hy as [x [<- Hx]]. exists x. split; [exact Hx|].
    apply matched_with_inv in My as [H1 H2]. unfold force in *. cbn [fst snd] in *.
    destruct (fst x) as [[|]|]; try discriminate. split; [reflexivity|exact H2].
  - intros [x [Hx [H1 H2]]]. exists (force x). split; [apply in_map; exact Hx|].
    unfold matched_with, force. cbn [fst snd]. rewrite H1, H2. reflexivity.
Qed.

Lemma some_deny_forced ov :
  some_deny (forced ov) = true <-> exists x, In x ov /\ fst x = Some true /\ snd x = Deny.
Proof.
  unfold some_deny, forced. rewrite existsb_exists. split.
  - intros [y [Hy My]]. apply in_map_iff in Hy as [x [<- Hx]]. exists x. split; [exact Hx|].
    apply matched_with_inv in My as [H1 H2]. unfold force in *. cbn [fst snd] in *.
    destruct (fst x) as [[|]|]; try discriminate. split; [reflexivity|exact H2].
  - intros [x [Hx [H1 H2]]]. exists (force x). split; [apply in_map; exact Hx|].
    unfold matched_with, force. cbn [fst snd]. rewrite H1, H2. reflexivity.
Qed.

(* ================= 2. decisions over a policy ================= *)
Lemma bool_cases (b : bool) : b = true \/ b = false.
Proof. destruct b; auto. Qed.

Local Ltac side := first [assumption | discriminate | reflexivity].

Section DecideProofs.
  Variables request rule : Type.
  Variable eftcol : rule -> eft.
  Variable blank_rule : rule.
  Variables uses_p has_eval : bool.

  Notation dec mt := (decide request rule mt eftcol blank_rule uses_p has_eval).
  Notation vc mt := (vec request rule mt eftcol).

  Lemma vec_app mt p q req : vc mt (p ++ q) req = vc mt p req ++ vc mt q req.
  Proof. apply map_app. Qed.

  Lemma vec_nil_iff mt p req : vc mt p req = [] <-> p = [].
  Proof. destruct p; cbn; split; congruence. Qed.

  Lemma decide_policy mt ef p req : p <> [] -> uses_p = true ->
    dec mt ef p req = erun ef (vc mt p req).
  Proof.
    intros Hp Hu. unfold decide, decide_vec. destruct p as [|x t]; [congruence|].
    cbn [vec map]. rewrite Hu. reflexivity.
  Qed.

  Lemma decide_no_p mt ef p req : p <> [] -> uses_p = false ->
    dec mt ef p req = nopolicy ef (mt req blank_rule).
  Proof.
    intros Hp Hu. unfold decide, decide_vec. destruct p as [|x t]; [congruence|].
    cbn [vec map]. rewrite Hu. reflexivity.
  Qed.

  Lemma decide_empty mt ef req :
    dec mt ef [] req = if has_eval then error_outcome else nopolicy ef (mt req blank_rule).
  Proof. reflexivity. Qed.

  (* two match functions that agree give the same outcome *)
  Lemma decide_ext mt mt' ef p req : (forall rl, mt req rl = mt' req rl) ->
    dec mt ef p req = dec mt' ef p req.
  Proof.
    intros H. unfold decide, vec. rewrite (H blank_rule). f_equal.
    apply map_ext. intros rl. rewrite H. reflexivity.
  Qed.

  Lemma in_vec mt p req rl : In rl p -> In (mt req rl, eftcol rl) (vc mt p req).
  Proof. intros H. unfold vec. apply (in_map (fun rl0 => (mt req rl0, eftcol rl0))). exact H. Qed.

  Lemma in_vec_inv mt p req x : In x (vc mt p req) -> exists rl, In rl p /\ x = (mt req rl, eftcol rl).
  Proof. unfold vec. intros H. apply in_map_iff in H as [rl [E H]]. exists rl. split; [exact H|symmetry; exact E]. Qed.

  (* ---------- allow-override: the decision is monotone in the SET of rules ---------- *)
  Section OneMatcher.
  Variable mt : request -> rule -> option bool.

  Theorem allow_monotone_incl small big req :
    incl small big ->
    nonempty_guard request rule mt blank_rule uses_p small req = true ->
    ok (dec mt AllowOverride small req) true ->
    forall d, ok (dec mt AllowOverride big req) d -> d = true.
  Proof.
    intros Hincl Hg Hs d Hb.
    destruct (bool_cases uses_p) as [Hu|Hu].
    - destruct small as [|s0 st].
      + (* the guard: the policy-free branch did not grant *)
        rewrite decide_empty in Hs. destruct (bool_cases has_eval) as [He|He]; rewrite He in Hs; [exfalso; exact (ok_error _ Hs)|].
        apply nopolicy_ok in Hs as [b [Hb1 Hb2]]; [|reflexivity]. subst b.
        cbn [nonempty_guard negb orb] in Hg. rewrite Hu in Hg. cbn in Hg. rewrite Hb1 in Hg. discriminate.
      + assert (Hbig : big <> []).
        { intros ->. specialize (Hincl s0 (or_introl eq_refl)). contradiction. }
        rewrite decide_policy in Hs by side.
        rewrite decide_policy in Hb by side.
        apply erun_ok in Hs as [_ Hs]; [|reflexivity|cbn; discriminate].
        apply erun_ok in Hb as [_ Hb]; [|reflexivity|rewrite vec_nil_iff; exact Hbig].
        subst d. cbn [combine] in *. symmetry in Hs. apply some_allow_forced in Hs as [x [Hx [H1 H2]]].
        apply some_allow_forced. apply in_vec_inv in Hx as [rl [Hrl ->]]. cbn [fst snd] in *.
        exists (mt req rl, eftcol rl). split; [apply in_vec, Hincl, Hrl|]. split; assumption.
    - (* the matcher does not look at the policy *)
      destruct small as [|s0 st].
      + rewrite decide_empty in Hs. destruct (bool_cases has_eval) as [He|He]; rewrite He in Hs; [exfalso; exact (ok_error _ Hs)|].
        destruct big as [|b0 bt].
        * rewrite decide_empty, He in Hb. exact (ok_fun _ _ _ Hb Hs).
        * rewrite decide_no_p in Hb by side. exact (ok_fun _ _ _ Hb Hs).
      + assert (Hbig : big <> []).
        { intros ->. specialize (Hincl s0 (or_introl eq_refl)). contradiction. }
        rewrite decide_no_p in Hs by side.
        rewrite decide_no_p in Hb by side.
        exact (ok_fun _ _ _ Hb Hs).
  Qed.

  (* adding a rule anywhere never revokes (when the new run is error-free) *)
  Corollary allow_monotone_add_rule p1 p2 r req :
    nonempty_guard request rule mt blank_rule uses_p (p1 ++ p2) req = true ->
    ok (dec mt AllowOverride (p1 ++ p2) req) true ->
    forall d, ok (dec mt AllowOverride (p1 ++ r :: p2) req) d -> d = true.
  Proof.
    apply allow_monotone_incl. intros x Hx. apply in_app_or in Hx as [H|H]; apply in_or_app;
      [left; exact H|right; right; exact H].
  Qed.

  (* removing a rule never grants *)
  Corollary allow_antitone_remove_rule p1 p2 r req :
    nonempty_guard request rule mt blank_rule uses_p (p1 ++ p2) req = true ->
    ok (dec mt AllowOverride (p1 ++ r :: p2) req) false ->
    granted (dec mt AllowOverride (p1 ++ p2) req) = false.
  Proof.
    intros Hg Hbig. destruct (granted (dec mt AllowOverride (p1 ++ p2) req)) eqn:G; [|reflexivity].
    apply granted_ok in G.
    pose proof (allow_monotone_add_rule p1 p2 r req Hg G false Hbig). discriminate.
  Qed.

  (* AddPolicy appends: then no proviso on the new run is needed, the deciding rule is
     reached before the new one *)
  Theorem allow_monotone_append p q req :
    nonempty_guard request rule mt blank_rule uses_p p req = true ->
    ok (dec mt AllowOverride p req) true ->
    ok (dec mt AllowOverride (p ++ q) req) true.
  Proof.
    intros Hg Hs. destruct q as [|q0 qt]; [rewrite app_nil_r; exact Hs|].
    destruct (bool_cases uses_p) as [Hu|Hu].
    - destruct p as [|s0 st].
      + rewrite decide_empty in Hs. destruct (bool_cases has_eval) as [He|He]; rewrite He in Hs; [exfalso; exact (ok_error _ Hs)|].
        apply nopolicy_ok in Hs as [b [Hb1 Hb2]]; [|reflexivity]. subst b.
        cbn [nonempty_guard] in Hg. rewrite Hu in Hg. cbn in Hg. rewrite Hb1 in Hg. discriminate.
      + rewrite decide_policy in Hs by side.
        rewrite decide_policy by side.
        apply erun_ok in Hs as [Hr Hs]; [|reflexivity|cbn; discriminate].
        cbn [combine] in Hs. symmetry in Hs.
        assert (Hr' : reaches_error AllowOverride (vc mt ((s0 :: st) ++ q0 :: qt) req) = false).
        { rewrite vec_app. apply reaches_error_app_break; assumption. }
        pose proof (erun_ok_intro AllowOverride _ eq_refl
                      (proj2 (not_iff_compat (vec_nil_iff mt ((s0 :: st) ++ q0 :: qt) req)) ltac:(discriminate)) Hr') as Hok.
        cbn [combine] in Hok. rewrite vec_app, forced_app in Hok. unfold some_allow in Hok, Hs.
        rewrite existsb_app, Hs in Hok. rewrite vec_app. exact Hok.
    - destruct p as [|s0 st].
      + rewrite decide_empty in Hs. destruct (bool_cases has_eval) as [He|He]; rewrite He in Hs; [exfalso; exact (ok_error _ Hs)|].
        rewrite decide_no_p by side. exact Hs.
      + rewrite decide_no_p in Hs by side.
        rewrite decide_no_p by side. exact Hs.
  Qed.

  (* ---------- deny-override / allow-and-deny: adding a deny rule never grants ---------- *)
  Theorem deny_add_never_grants ef p1 p2 r req :
    (ef = DenyOverride \/ ef = AllowAndDeny) -> eftcol r = Deny ->
    ok (dec mt ef (p1 ++ p2) req) false ->
    granted (dec mt ef (p1 ++ r :: p2) req) = false.
  Proof.
    intros Hef Hr Hs.
    assert (Hsup : supported ef = true) by (destruct Hef; subst; reflexivity).
    destruct (granted (dec mt ef (p1 ++ r :: p2) req)) eqn:G; [exfalso|reflexivity].
    apply granted_ok in G.
    assert (Hbig : p1 ++ r :: p2 <> []) by (destruct p1; discriminate).
    destruct (bool_cases uses_p) as [Hu|Hu].
    - rewrite decide_policy in G by side.
      apply erun_ok in G as [_ G]; [|exact Hsup|rewrite vec_nil_iff; exact Hbig].
      rewrite vec_app, forced_app in G. cbn [vec map forced] in G.
      change (map force (map (fun rl => (mt req rl, eftcol rl)) p2)) with (forced (vc mt p2 req)) in G.
      rewrite Hr in G.
      destruct (p1 ++ p2) as [|s0 st] eqn:Esm.
      + apply app_eq_nil in Esm as [-> ->]. rewrite decide_empty in Hs.
        destruct (bool_cases has_eval) as [He|He]; rewrite He in Hs; [exact (ok_error _ Hs)|].
        apply nopolicy_ok in Hs as [b [Hb1 Hb2]]; [|exact Hsup].
        destruct Hef; subst ef; [discriminate|]. subst b.
        cbn in G. destruct (mt req r) as [[|]|]; cbn in G; discriminate.
      + rewrite <- Esm in Hs. rewrite decide_policy in Hs by (try (rewrite Esm; discriminate); side).
        apply erun_ok in Hs as [_ Hs]; [|exact Hsup|rewrite vec_nil_iff, Esm; discriminate].
        rewrite vec_app, forced_app in Hs.
        destruct Hef; subst ef; cbn [combine] in *; unfold some_allow, some_deny in *;
          rewrite existsb_app in *; cbn [existsb] in G.
        * destruct (existsb (matched_with Deny) (forced (vc mt p1 req))); cbn in *; [discriminate|].
          destruct (existsb (matched_with Deny) (forced (vc mt p2 req))); cbn in *; [|discriminate].
          rewrite orb_true_r in G. discriminate.
        * rewrite existsb_app in *. cbn [existsb] in G.
          destruct (existsb (matched_with Deny) (forced (vc mt p1 req))); cbn in *;
            [rewrite andb_false_r in G; discriminate|].
          destruct (existsb (matched_with Deny) (forced (vc mt p2 req))); cbn in *;
            [rewrite orb_true_r, andb_false_r in G; discriminate|].
          replace (matched_with Allow (force (mt req r, Deny))) with false in G
            by (unfold matched_with, force; cbn; rewrite andb_false_r; reflexivity).
          cbn [orb] in G. rewrite andb_true_r in Hs.
          destruct (matched_with Deny (force (mt req r, Deny))); cbn in G;
            [rewrite andb_false_r in G; discriminate|].
          rewrite andb_true_r in G. congruence.
    - rewrite decide_no_p in G by side.
      destruct (p1 ++ p2) as [|s0 st] eqn:Esm.
      + rewrite decide_empty in Hs. destruct (bool_cases has_eval) as [He|He]; rewrite He in Hs; [exact (ok_error _ Hs)|].
        pose proof (ok_fun _ _ _ Hs G). discriminate.
      + rewrite decide_no_p in Hs by side.
        pose proof (ok_fun _ _ _ Hs G). discriminate.
  Qed.

  (* ---------- order insensitivity ---------- *)
  Lemma perm_vec p p' req : Permutation p p' -> Permutation (forced (vc mt p req)) (forced (vc mt p' req)).
  Proof. intros P. unfold forced, vec. apply Permutation_map, Permutation_map. exact P. Qed.

  (* strongest true statement: whenever BOTH actual runs return no error they agree, no matter
     whether some rule behind the deciding one would fail to evaluate *)
  Theorem perm_invariant ef p p' req d d' :
    order_insensitive_effect ef = true -> Permutation p p' ->
    ok (dec mt ef p req) d -> ok (dec mt ef p' req) d' -> d = d'.
  Proof.
    intros He P H H'.
    assert (Hsup : supported ef = true) by (destruct ef; try discriminate; reflexivity).
    destruct p as [|x t].
    - apply Permutation_nil in P. subst p'. exact (ok_fun _ _ _ H H').
    - assert (Hp' : p' <> []).
      { intros ->. apply Permutation_sym, Permutation_nil in P. discriminate. }
      destruct (bool_cases uses_p) as [Hu|Hu].
      + rewrite decide_policy in H by side.
        rewrite decide_policy in H' by side.
        apply erun_ok in H as [_ H]; [|exact Hsup|cbn; discriminate].
        apply erun_ok in H' as [_ H']; [|exact Hsup|rewrite vec_nil_iff; exact Hp'].
        subst d d'. apply combine_order_insensitive; [exact He|apply perm_vec; exact P].
      + rewrite decide_no_p in H by side.
        rewrite decide_no_p in H' by side.
        exact (ok_fun _ _ _ H H').
  Qed.

  (* a sufficient condition for both runs to be error-free: every rule evaluates *)
  Theorem perm_invariant_total ef p p' req :
    order_insensitive_effect ef = true -> Permutation p p' ->
    forallb evaluated (vc mt p req) = true ->
    failed (dec mt ef p' req) = failed (dec mt ef p req) /\
    decision (dec mt ef p' req) = decision (dec mt ef p req).
  Proof.
    intros He P Hall.
    assert (Hsup : supported ef = true) by (destruct ef; try discriminate; reflexivity).
    destruct p as [|x t].
    - apply Permutation_nil in P. subst p'. split; reflexivity.
    - assert (Hp' : p' <> []).
      { intros ->. apply Permutation_sym, Permutation_nil in P. discriminate. }
      destruct (bool_cases uses_p) as [Hu|Hu].
      + rewrite (decide_policy mt ef (x :: t)) by side.
        rewrite (decide_policy mt ef p') by side.
        assert (Hall' : forallb evaluated (vc mt p' req) = true).
        { rewrite <- Hall. symmetry. apply forallb_perm. unfold vec. apply Permutation_map. exact P. }
        pose proof (all_evaluated_no_error ef _ Hall) as R.
        pose proof (all_evaluated_no_error ef _ Hall') as R'.
        destruct (erun_spec ef (vc mt (x :: t) req) Hsup ltac:(cbn; discriminate)) as [F [D _]].
        destruct (erun_spec ef (vc mt p' req) Hsup (proj2 (not_iff_compat (vec_nil_iff mt p' req)) Hp')) as [F' [D' _]].
        split; [congruence|]. rewrite (D R), (D' R'). symmetry.
        apply combine_order_insensitive; [exact He|apply perm_vec; exact P].
      + rewrite (decide_no_p mt ef (x :: t)) by side.
        rewrite (decide_no_p mt ef p') by side. split; reflexivity.
  Qed.
  End OneMatcher.

  (* ---------- role links ---------- *)
  Section LinkProofs.
    Variables garg linkset : Type.
    Variable g : linkset -> garg -> bool.
    Variable sub : linkset -> linkset -> Prop.
    Hypothesis g_monotone : forall L L' a, sub L L' -> g L a = true -> g L' a = true.

    Notation ev := (meval request rule garg linkset g).

    Lemma meval_gfree e L L' req rl : gfree request rule garg e = true -> ev L e req rl = ev L' e req rl.
    Proof.
      induction e as [a IHa b IHb|a IHa b IHb|a IHa|sel|f]; cbn [gfree meval]; intros H;
        try (apply andb_true_iff in H as [Ha Hb]; rewrite (IHa Ha), (IHb Hb); reflexivity).
      - rewrite (IHa H). reflexivity.
      - discriminate.
      - reflexivity.
    Qed.

    (* a matcher without negation above g() cannot flip from true to false when links are added
       (it may start to fail, or stop failing, because of short-circuit evaluation) *)
    Lemma meval_monotone e L L' req rl :
      positive request rule garg e = true -> sub L L' ->
      ev L e req rl = Some true -> ev L' e req rl <> Some false.
    Proof.
      intros Hp Hs. induction e as [a IHa b IHb|a IHa b IHb|a IHa|sel|f]; cbn [positive meval] in *.
      - apply andb_true_iff in Hp as [Ha Hb]. specialize (IHa Ha). specialize (IHb Hb).
        destruct (ev L a req rl) as [[|]|]; try discriminate. intros H.
        destruct (ev L' a req rl) as [[|]|]; try discriminate; [auto|].
        intros _. apply IHa; reflexivity.
      - apply andb_true_iff in Hp as [Ha Hb]. specialize (IHa Ha). specialize (IHb Hb).
        destruct (ev L a req rl) as [[|]|]; try discriminate; intros H.
        + destruct (ev L' a req rl) as [[|]|]; try discriminate. intros _. apply IHa; reflexivity.
        + destruct (ev L' a req rl) as [[|]|]; try discriminate. auto.
      - rewrite (meval_gfree a L L' req rl Hp). intros H. rewrite H. discriminate.
      - destruct (sel req rl) as [x|]; cbn [option_map]; [|discriminate].
        intros H. injection H as H. rewrite (g_monotone L L' x Hs H). discriminate.
      - intros H. rewrite H. discriminate.
    Qed.

    (* allow-override + negation-free matcher + monotone g: more links never revoke *)
    Theorem link_monotone e L L' p req :
      positive request rule garg e = true -> sub L L' ->
      ok (dec (ev L e) AllowOverride p req) true ->
      forall d, ok (dec (ev L' e) AllowOverride p req) d -> d = true.
    Proof.
      intros Hp Hsub H d H'.
      assert (Hblank : forall o, ok (nopolicy AllowOverride (ev L e req blank_rule)) true ->
                                 ok (nopolicy AllowOverride (ev L' e req blank_rule)) o -> o = true).
      { intros o A B. apply nopolicy_ok in A as [b [A1 A2]]; [|reflexivity]. subst b.
        apply nopolicy_ok in B as [b' [B1 B2]]; [|reflexivity]. subst o.
        pose proof (meval_monotone e L L' req blank_rule Hp Hsub A1) as M. rewrite B1 in M.
        destruct b'; [reflexivity|congruence]. }
      destruct p as [|x t].
      - rewrite decide_empty in H, H'. destruct (bool_cases has_eval) as [He|He]; rewrite He in H, H'; [exfalso; exact (ok_error _ H)|].
        exact (Hblank d H H').
      - destruct (bool_cases uses_p) as [Hu|Hu].
        + rewrite decide_policy in H by side.
          rewrite decide_policy in H' by side.
          apply erun_ok in H as [_ H]; [|reflexivity|cbn; discriminate].
          apply erun_ok in H' as [R' H']; [|reflexivity|cbn; discriminate].
          cbn [combine] in *. symmetry in H. apply some_allow_forced in H as [y [Hy [H1 H2]]].
          apply in_vec_inv in Hy as [rl [Hrl ->]]. cbn [fst snd] in *.
          destruct d; [reflexivity|exfalso]. symmetry in H'.
          pose proof (no_break_all_evaluated AllowOverride _ R' H') as Hall.
          pose proof (meval_monotone e L L' req rl Hp Hsub H1) as M.
          rewrite forallb_forall in Hall. specialize (Hall _ (in_vec (ev L' e) (x :: t) req rl Hrl)).
          unfold evaluated in Hall. cbn [fst] in Hall.
          destruct (ev L' e req rl) as [[|]|] eqn:E; [|congruence|discriminate].
          assert (some_allow (forced (vc (ev L' e) (x :: t) req)) = true); [|congruence].
          apply some_allow_forced. exists (ev L' e req rl, eftcol rl).
          split; [apply in_vec; exact Hrl|]. cbn [fst snd]. split; [exact E|exact H2].
        + rewrite decide_no_p in H by side.
          rewrite decide_no_p in H' by side.
          exact (Hblank d H H').
    Qed.

    (* read the other way round: fewer links never grant *)
    Corollary link_antitone e L L' p req :
      positive request rule garg e = true -> sub L L' ->
      ok (dec (ev L' e) AllowOverride p req) false ->
      granted (dec (ev L e) AllowOverride p req) = false.
    Proof.
      intros Hp Hsub H'. destruct (granted (dec (ev L e) AllowOverride p req)) eqn:G; [|reflexivity].
      apply granted_ok in G. pose proof (link_monotone e L L' p req Hp Hsub G false H'). discriminate.
    Qed.

    (* when g gives the same answers, every matcher (negation or not) gives the same result *)
    Lemma meval_ext e L L' req rl : (forall a, g L a = g L' a) -> ev L e req rl = ev L' e req rl.
    Proof.
      intros H. induction e as [a IHa b IHb|a IHa b IHb|a IHa|sel|f]; cbn [meval];
        rewrite ?IHa, ?IHb; try reflexivity.
      destruct (sel req rl); cbn [option_map]; [rewrite H|]; reflexivity.
    Qed.
  End LinkProofs.

  (* reloading the same rules and the same links in another order: for link sets given as
     lists, a g that is monotone for list inclusion depends on the SET of links only *)
  Theorem reload_other_order (garg link : Type) (g : list link -> garg -> bool)
          (e : mexpr request rule garg) ef L L' p p' req d d' :
    (forall K K' a, incl K K' -> g K a = true -> g K' a = true) ->
    order_insensitive_effect ef = true ->
    Permutation p p' -> (forall x, In x L <-> In x L') ->
    ok (dec (meval request rule garg (list link) g L e) ef p req) d ->
    ok (dec (meval request rule garg (list link) g L' e) ef p' req) d' -> d = d'.
  Proof.
    intros Hmono He P Hset H H'.
    assert (Hg : forall a, g L a = g L' a).
    { intros a. destruct (g L a) eqn:A, (g L' a) eqn:B; try reflexivity.
      - rewrite (Hmono L L' a) in B; [discriminate| |exact A]. intros x Hx. apply Hset, Hx.
      - rewrite (Hmono L' L a) in A; [discriminate| |exact B]. intros x Hx. apply Hset, Hx. }
    rewrite (decide_ext _ (meval request rule garg (list link) g L' e)) in H
      by (intros rl; apply meval_ext; exact Hg).
    exact (perm_invariant _ ef p p' req d d' He P H H').
  Qed.
End DecideProofs.

(* ================= 3. the ordered-set store ================= *)
Section StoreProofs.
  Variable rule : Type.
  Variable rule_eq_dec : forall a b : rule, {a = b} + {a <> b}.
  Notation sadd := (store_add rule rule_eq_dec).
  Notation sremove := (store_remove rule rule_eq_dec).

  Lemma has_rule_iff r p : has_rule rule rule_eq_dec r p = true <-> In r p.
  Proof.
    unfold has_rule. rewrite existsb_exists. split.
    - intros [x [Hx E]]. destruct (rule_eq_dec r x); [subst; exact Hx|discriminate].
    - intros H. exists r. split; [exact H|]. destruct (rule_eq_dec r r); [reflexivity|congruence].
  Qed.

  (* adding a listed rule is refused: nothing changes *)
  Lemma store_add_dup r p : In r p -> sadd r p = p.
  Proof. intros H. unfold store_add. apply has_rule_iff in H. rewrite H. reflexivity. Qed.

  Lemma store_add_new r p : ~ In r p -> sadd r p = p ++ [r].
  Proof.
    intros H. unfold store_add. destruct (has_rule rule rule_eq_dec r p) eqn:E; [|reflexivity].
    apply has_rule_iff in E. contradiction.
  Qed.

  Lemma store_remove_snoc r p : ~ In r p -> sremove r (p ++ [r]) = p.
  Proof.
    induction p as [|x t IH]; intros H; cbn [app store_remove].
    - destruct (rule_eq_dec r r); [reflexivity|congruence].
    - destruct (rule_eq_dec r x) as [->|N]; [exfalso; apply H; left; reflexivity|].
      rewrite IH; [reflexivity|]. intros Hin. apply H. right. exact Hin.
  Qed.

  (* adding a new rule and removing it again restores the list, order included *)
  Lemma store_add_remove r p : ~ In r p -> sremove r (sadd r p) = p.
  Proof. intros H. rewrite (store_add_new r p H). apply store_remove_snoc. exact H. Qed.

  Lemma store_remove_perm r p : In r p -> Permutation p (r :: sremove r p).
  Proof.
    induction p as [|x t IH]; intros H; [contradiction|]. cbn [store_remove].
    destruct (rule_eq_dec r x) as [->|N]; [reflexivity|].
    destruct H as [->|H]; [congruence|].
    rewrite (IH H) at 1. apply perm_swap.
  Qed.

  Lemma store_remove_not_in r p : NoDup p -> ~ In r (sremove r p).
  Proof.
    induction 1 as [|x t Hx ND IH]; cbn [store_remove]; [tauto|].
    destruct (rule_eq_dec r x) as [->|N]; [exact Hx|]. intros [E|H]; [congruence|contradiction].
  Qed.

  (* removing a listed rule and adding it back moves it to the end: a permutation *)
  Lemma store_remove_add_perm r p : NoDup p -> In r p -> Permutation (sadd r (sremove r p)) p.
  Proof.
    intros ND H. rewrite store_add_new by (apply store_remove_not_in; exact ND).
    rewrite (store_remove_perm r p H) at 2. symmetry. apply Permutation_cons_append.
  Qed.

  Lemma store_add_nodup r p : NoDup p -> NoDup (sadd r p).
  Proof.
    intros ND. unfold store_add. destruct (has_rule rule rule_eq_dec r p) eqn:E; [exact ND|].
    apply (Permutation_NoDup (Permutation_cons_append p r)). constructor; [|exact ND].
    intros Hin. apply has_rule_iff in Hin. congruence.
  Qed.
End StoreProofs.

(* ================= 4. the default role manager is monotone ================= *)
Section LinkSetProofs.
  Variable name : Type.
  Variable name_eqb : name -> name -> bool.

  Lemma existsb_incl {A} (f : A -> bool) l l' : incl l l' -> existsb f l = true -> existsb f l' = true.
  Proof.
    intros Hi H. apply existsb_exists in H as [x [Hx Fx]]. apply existsb_exists. exists x. split; [apply Hi, Hx|exact Fx].
  Qed.

  Lemma succs_incl L L' f f' : incl L L' -> incl f f' ->
    incl (flat_map (succs name name_eqb L) f) (flat_map (succs name name_eqb L') f').
  Proof.
    intros HL Hf y Hy. apply in_flat_map in Hy as [x [Hx Hy]]. apply in_flat_map. exists x. split; [apply Hf, Hx|].
    unfold succs in *. apply in_map_iff in Hy as [l [El Hl]]. apply in_map_iff. exists l. split; [exact El|].
    apply filter_In in Hl as [Hl1 Hl2]. apply filter_In. split; [apply HL, Hl1|exact Hl2].
  Qed.

  Lemma reach_monotone L L' : incl L L' -> forall level f f' t, incl f f' ->
    reach name name_eqb L level f t = true -> reach name name_eqb L' level f' t = true.
  Proof.
    intros HL. induction level as [|k IH]; intros f f' t Hf H; cbn [reach] in *;
      apply orb_true_iff in H as [H|H]; apply orb_true_iff.
    - left. exact (existsb_incl _ _ _ Hf H).
    - discriminate.
    - left. exact (existsb_incl _ _ _ Hf H).
    - right. apply (IH _ _ t (succs_incl L L' f f' HL Hf)). exact H.
  Qed.

  (* adding links only adds derived links (bounded-depth search included) *)
  Theorem has_link_monotone L L' a : incl L L' ->
    has_link name name_eqb L a = true -> has_link name name_eqb L' a = true.
  Proof.
    intros HL H. unfold has_link in *. apply orb_true_iff in H as [H|H]; apply orb_true_iff; [left; exact H|right].
    apply (reach_monotone L L' HL _ _ _ _ (incl_refl _) H).
  Qed.

  Variable dom : Type.
  Variable dom_eqb : dom -> dom -> bool.

  Theorem has_link_dom_monotone L L' a : incl L L' ->
    has_link_dom name name_eqb dom dom_eqb L a = true -> has_link_dom name name_eqb dom dom_eqb L' a = true.
  Proof.
    intros HL. unfold has_link_dom. apply has_link_monotone. unfold links_of.
    intros x Hx. apply in_map_iff in Hx as [l [El Hl]]. apply in_map_iff. exists l. split; [exact El|].
    apply filter_In in Hl as [H1 H2]. apply filter_In. split; [apply HL, H1|exact H2].
  Qed.
End LinkSetProofs.

(* ================= 5. store operations and decisions ================= *)
Section StoreDecisions.
  Variables request rule : Type.
  Variable rule_eq_dec : forall a b : rule, {a = b} + {a <> b}.
  Variable mt : request -> rule -> option bool.
  Variable eftcol : rule -> eft.
  Variable blank_rule : rule.
  Variables uses_p has_eval : bool.
  Notation dec := (decide request rule mt eftcol blank_rule uses_p has_eval).

  (* adding a rule that is already listed is refused, so every outcome is literally the same *)
  Theorem dup_add_neutral ef r p req : In r p ->
    store_add rule rule_eq_dec r p = p /\
    dec ef (store_add rule rule_eq_dec r p) req = dec ef p req.
  Proof. intros H. rewrite (store_add_dup rule rule_eq_dec r p H). split; reflexivity. Qed.

  (* adding a new rule and removing it again restores the list and hence every outcome
     (error or not, explanation index included), for every effect, priority ones too *)
  Theorem add_remove_neutral ef r p req : ~ In r p ->
    store_remove rule rule_eq_dec r (store_add rule rule_eq_dec r p) = p /\
    dec ef (store_remove rule rule_eq_dec r (store_add rule rule_eq_dec r p)) req = dec ef p req.
  Proof. intros H. rewrite (store_add_remove rule rule_eq_dec r p H). split; reflexivity. Qed.

  (* removing a listed rule and adding it back moves it to the end; the error-free decisions
     of the non-priority effects do not notice *)
  Theorem remove_readd_neutral ef r p req d d' :
    order_insensitive_effect ef = true -> NoDup p -> In r p ->
    ok (dec ef p req) d ->
    ok (dec ef (store_add rule rule_eq_dec r (store_remove rule rule_eq_dec r p)) req) d' -> d = d'.
  Proof.
    intros He ND Hin H H'.
    apply (perm_invariant request rule eftcol blank_rule uses_p has_eval mt ef _ _ req d d' He
             (Permutation_sym (store_remove_add_perm rule rule_eq_dec r p ND Hin)) H H').
  Qed.
End StoreDecisions.

(* ================= 6. the hypotheses matter ================= *)
(* concrete universe: requests, rules and names are numbers; rule 9 fails to evaluate *)
Definition ex_mt (req rl : nat) : option bool :=
  if Nat.eqb rl 9 then None else Some (Nat.eqb req rl).
Definition ex_allow (_ : nat) : eft := Allow.
Definition ex_dec := decide nat nat ex_mt ex_allow 0 true false.

(* without the guard on the empty policy: the policy-free branch evaluates the matcher on
   empty fields, so the request made of empty strings is allowed by the EMPTY policy and
   adding a rule revokes it (and removing the only rule grants it) *)
Lemma add_to_empty_refuted :
  exists (r req : nat),
    nonempty_guard nat nat ex_mt 0 true [] req = false /\
    granted (ex_dec AllowOverride [] req) = true /\
    ok (ex_dec AllowOverride [r] req) false.
Proof. exists 1, 0. vm_compute. repeat split. Qed.

(* without "the new run is error-free": a rule that fails to evaluate, inserted in front of the
   deciding rule, turns an allowed request into an error (decision false) *)
Lemma insert_error_refuted :
  exists (p1 p2 : list nat) (r req : nat),
    ok (ex_dec AllowOverride (p1 ++ p2) req) true /\
    failed (ex_dec AllowOverride (p1 ++ r :: p2) req) = true /\
    granted (ex_dec AllowOverride (p1 ++ r :: p2) req) = false.
Proof. exists [], [1], 9, 1. vm_compute. repeat split. Qed.

(* because of the early break, an error is reached in one order and not in the other *)
Lemma perm_error_refuted :
  exists (p p' : list nat) (req : nat), Permutation p p' /\
    ok (ex_dec AllowOverride p req) true /\ failed (ex_dec AllowOverride p' req) = true.
Proof. exists [1; 9], [9; 1], 1. split; [apply perm_swap|]. vm_compute. repeat split. Qed.

(* the priority effect is order-sensitive *)
Definition ex_eft (rl : nat) : eft := if Nat.eqb rl 1 then Allow else Deny.
Definition ex_any (req rl : nat) : option bool := Some true.
Lemma priority_perm_refuted :
  exists (p p' : list nat) (req : nat), Permutation p p' /\
    ok (decide nat nat ex_any ex_eft 0 true false Priority p req) true /\
    ok (decide nat nat ex_any ex_eft 0 true false Priority p' req) false.
Proof. exists [1; 2], [2; 1], 0. split; [apply perm_swap|]. vm_compute. repeat split. Qed.

(* a matcher with negation above g(): adding a link revokes.  m = !g(r.sub, p.sub) *)
Definition ex_g : list (nat * nat) -> nat * nat -> bool := has_link nat Nat.eqb.
Definition ex_neg : mexpr nat nat (nat * nat) := MNot _ _ _ (MG _ _ _ (fun req rl => Some (req, rl))).
Definition ex_pos : mexpr nat nat (nat * nat) :=
  MAnd _ _ _ (MG _ _ _ (fun req rl => Some (req, rl))) (MAtom _ _ _ (fun req rl => Some (negb (Nat.eqb rl 7)))).
Definition ex_ldec (e : mexpr nat nat (nat * nat)) (L : list (nat * nat)) :=
  decide nat nat (meval nat nat (nat * nat) (list (nat * nat)) ex_g L e) ex_allow 0 true false.

Lemma negation_refuted :
  exists (L L' : list (nat * nat)) (p : list nat) (req : nat), incl L L' /\
    positive nat nat (nat * nat) ex_neg = false /\
    ok (ex_ldec ex_neg L AllowOverride p req) true /\
    ok (ex_ldec ex_neg L' AllowOverride p req) false.
Proof.
  exists [], [(1, 2)], [2], 1. split; [intros x []|]. vm_compute. repeat split.
Qed.

(* non-vacuity: a negation-free matcher g(r.sub, p.sub) && <atom>, a two-step role chain,
   a request granted through the chain, still granted after adding a link *)
Lemma link_monotone_nonvacuous :
  let L := [(1, 2); (2, 3)] in let L' := (4, 5) :: L in
  positive nat nat (nat * nat) ex_pos = true /\ incl L L' /\
  ok (ex_ldec ex_pos L AllowOverride [5; 3] 1) true /\
  ok (ex_ldec ex_pos [(1, 2)] AllowOverride [5; 3] 1) false /\
  ok (ex_ldec ex_pos L' AllowOverride [5; 3] 1) true.
Proof. cbv zeta. split; [reflexivity|]. split; [intros x H; right; exact H|]. vm_compute. repeat split. Qed.

(* ================= 7. instances for the default role manager ================= *)
(* the monotonicity hypothesis of link_monotone / reload_other_order is not vacuous: it holds
   of the bounded frontier search of RoleManagerImpl (no patterns) over the listed links,
   with and without domains *)
Section DefaultRoleManager.
  Variables request rule : Type.
  Variable eftcol : rule -> eft.
  Variable blank_rule : rule.
  Variables uses_p has_eval : bool.
  Variable name : Type.
  Variable name_eqb : name -> name -> bool.
  Variable dom : Type.
  Variable dom_eqb : dom -> dom -> bool.

  Notation hl := (has_link name name_eqb).
  Notation hld := (has_link_dom name name_eqb dom dom_eqb).
  Notation decl L e := (decide request rule (meval request rule (name * name) (list (name * name)) hl L e)
                               eftcol blank_rule uses_p has_eval).
  Notation decd L e := (decide request rule (meval request rule (name * name * dom) (list (name * name * dom)) hld L e)
                               eftcol blank_rule uses_p has_eval).

  Corollary link_monotone_default e L L' p req :
    positive request rule (name * name) e = true -> incl L L' ->
    ok (decl L e AllowOverride p req) true ->
    forall d, ok (decl L' e AllowOverride p req) d -> d = true.
  Proof.
    apply (link_monotone request rule eftcol blank_rule uses_p has_eval _ _ hl (@incl _)).
    intros K K' a. apply has_link_monotone.
  Qed.

  Corollary link_antitone_default e L L' p req :
    positive request rule (name * name) e = true -> incl L L' ->
    ok (decl L' e AllowOverride p req) false ->
    granted (decl L e AllowOverride p req) = false.
  Proof.
    apply (link_antitone request rule eftcol blank_rule uses_p has_eval _ _ hl (@incl _)).
    intros K K' a. apply has_link_monotone.
  Qed.

  Corollary link_monotone_default_dom e L L' p req :
    positive request rule (name * name * dom) e = true -> incl L L' ->
    ok (decd L e AllowOverride p req) true ->
    forall d, ok (decd L' e AllowOverride p req) d -> d = true.
  Proof.
    apply (link_monotone request rule eftcol blank_rule uses_p has_eval _ _ hld (@incl _)).
    intros K K' a. apply has_link_dom_monotone.
  Qed.

  Corollary link_antitone_default_dom e L L' p req :
    positive request rule (name * name * dom) e = true -> incl L L' ->
    ok (decd L' e AllowOverride p req) false ->
    granted (decd L e AllowOverride p req) = false.
  Proof.
    apply (link_antitone request rule eftcol blank_rule uses_p has_eval _ _ hld (@incl _)).
    intros K K' a. apply has_link_dom_monotone.
  Qed.

  Corollary reload_other_order_default e ef L L' p p' req d d' :
    order_insensitive_effect ef = true ->
    Permutation p p' -> Permutation L L' ->
    ok (decl L e ef p req) d -> ok (decl L' e ef p' req) d' -> d = d'.
  Proof.
    intros He P PL.
    apply (reload_other_order request rule eftcol blank_rule uses_p has_eval _ _ hl e ef L L' p p' req d d');
      [intros K K' a; apply has_link_monotone|exact He|exact P|].
    intros x. split; [apply Permutation_in; exact PL|apply Permutation_in, Permutation_sym; exact PL].
  Qed.

  Corollary reload_other_order_default_dom e ef L L' p p' req d d' :
    order_insensitive_effect ef = true ->
    Permutation p p' -> Permutation L L' ->
    ok (decd L e ef p req) d -> ok (decd L' e ef p' req) d' -> d = d'.
  Proof.
    intros He P PL.
    apply (reload_other_order request rule eftcol blank_rule uses_p has_eval _ _ hld e ef L L' p p' req d d');
      [intros K K' a; apply has_link_dom_monotone|exact He|exact P|].
    intros x. split; [apply Permutation_in; exact PL|apply Permutation_in, Permutation_sym; exact PL].
  Qed.
End DefaultRoleManager.

(* ================= 8. the decision depends only on the SET of listed rules ================= *)
(* ... not on the order in which rules and links were added, nor on detours (rules / links added
   and removed again, links that were redundant when they were added). *)
Section HistoryProofs.
  Variable A : Type.
  Variable A_eq_dec : forall a b : A, {a = b} + {a <> b}.
  Notation sremove := (store_remove A A_eq_dec).

  Lemma store_remove_in r y p : In y (sremove r p) -> In y p.
  Proof.
    induction p as [|x t IH]; cbn [store_remove]; [tauto|].
    destruct (A_eq_dec r x) as [->|N]; intros H; [right; exact H|].
    destruct H as [->|H]; [left; reflexivity|right; exact (IH H)].
  Qed.

  Lemma store_remove_nodup r p : NoDup p -> NoDup (sremove r p).
  Proof.
    induction 1 as [|x t Hx ND IH]; cbn [store_remove]; [constructor|].
    destruct (A_eq_dec r x) as [->|N]; [exact ND|].
    constructor; [|exact IH]. intros Hin. apply Hx. exact (store_remove_in r x t Hin).
  Qed.

  (* the listing never holds a rule twice, whatever the history *)
  Lemma hrun_nodup h : forall l, NoDup l -> NoDup (hrun A A_eq_dec h l).
  Proof.
    induction h as [|o h IH]; intros l ND; [exact ND|]. cbn [hrun fold_left].
    apply IH. destruct o as [x|x]; cbn [hstep]; [apply store_add_nodup|apply store_remove_nodup]; exact ND.
  Qed.

  (* two histories that end with the same members end with permutations of one list *)
  Lemma hrun_same_set_perm h h' :
    (forall x, In x (hrun A A_eq_dec h []) <-> In x (hrun A A_eq_dec h' [])) ->
    Permutation (hrun A A_eq_dec h []) (hrun A A_eq_dec h' []).
  Proof.
    intros Hset. apply NoDup_Permutation; [apply hrun_nodup; constructor|apply hrun_nodup; constructor|exact Hset].
  Qed.
End HistoryProofs.

Section HistoryDecisions.
  Variables request rule : Type.
  Variable rule_eq_dec : forall a b : rule, {a = b} + {a <> b}.
  Variable eftcol : rule -> eft.
  Variable blank_rule : rule.
  Variables uses_p has_eval : bool.
  Variables garg link : Type.
  Variable link_eq_dec : forall a b : link, {a = b} + {a <> b}.
  Variable g : list link -> garg -> bool.
  Hypothesis g_mono : forall K K' a, incl K K' -> g K a = true -> g K' a = true.
  Notation decl L e := (decide request rule (meval request rule garg (list link) g L e)
                               eftcol blank_rule uses_p has_eval).

  (* a monotone link relation is a function of the link SET *)
  Lemma g_set_ext L L' : (forall x, In x L <-> In x L') -> forall a, g L a = g L' a.
  Proof.
    intros Hset a. destruct (g L a) eqn:E1, (g L' a) eqn:E2; try reflexivity.
    - rewrite (g_mono L L' a) in E2; [discriminate| |exact E1]. intros x Hx. apply Hset, Hx.
    - rewrite (g_mono L' L a) in E1; [discriminate| |exact E2]. intros x Hx. apply Hset, Hx.
  Qed.

  (* same listed rules (same order), link lists with the same members: the whole outcome —
     decision, error flag, explanation — is the same, for EVERY effect, priority included *)
  Theorem links_only_set (e : mexpr request rule garg) ef L L' p req :
    (forall x, In x L <-> In x L') -> decl L e ef p req = decl L' e ef p req.
  Proof.
    intros Hset. apply decide_ext. intros rl. apply meval_ext. apply g_set_ext. exact Hset.
  Qed.

  (* two histories of add / remove calls for rules and for links that end with the same SETS of
     listed rules and listed links: every error-free decision is the same *)
  Theorem history_independent (e : mexpr request rule garg) ef
          (hp hp' : list (hop rule)) (hg hg' : list (hop link)) req d d' :
    order_insensitive_effect ef = true ->
    (forall x, In x (hrun rule rule_eq_dec hp []) <-> In x (hrun rule rule_eq_dec hp' [])) ->
    (forall x, In x (hrun link link_eq_dec hg []) <-> In x (hrun link link_eq_dec hg' [])) ->
    ok (decl (hrun link link_eq_dec hg []) e ef (hrun rule rule_eq_dec hp []) req) d ->
    ok (decl (hrun link link_eq_dec hg' []) e ef (hrun rule rule_eq_dec hp' []) req) d' ->
    d = d'.
  Proof.
    intros He Hp Hg H H'.
    exact (reload_other_order request rule eftcol blank_rule uses_p has_eval garg link g e ef _ _ _ _ req d d'
             g_mono He (hrun_same_set_perm rule rule_eq_dec hp hp' Hp) Hg H H').
  Qed.
End HistoryDecisions.

(* instances: the default role manager without patterns, with and without domains *)
Section HistoryDefaultRoleManager.
  Variables request rule : Type.
  Variable rule_eq_dec : forall a b : rule, {a = b} + {a <> b}.
  Variable eftcol : rule -> eft.
  Variable blank_rule : rule.
  Variables uses_p has_eval : bool.
  Variable name : Type.
  Variable name_eqb : name -> name -> bool.
  Variable link_eq_dec : forall a b : name * name, {a = b} + {a <> b}.
  Variable dom : Type.
  Variable dom_eqb : dom -> dom -> bool.
  Variable dlink_eq_dec : forall a b : name * name * dom, {a = b} + {a <> b}.
  Notation hl := (has_link name name_eqb).
  Notation hld := (has_link_dom name name_eqb dom dom_eqb).

  Corollary has_link_set L L' a : (forall x, In x L <-> In x L') -> hl L a = hl L' a.
  Proof.
    intros Hset. apply (g_set_ext (name * name) (name * name) hl); [|exact Hset].
    intros K K' b. apply has_link_monotone.
  Qed.

  Corollary has_link_dom_set L L' a : (forall x, In x L <-> In x L') -> hld L a = hld L' a.
  Proof.
    intros Hset. apply (g_set_ext (name * name * dom) (name * name * dom) hld); [|exact Hset].
    intros K K' b. apply has_link_dom_monotone.
  Qed.

  Corollary history_independent_default (e : mexpr request rule (name * name)) ef hp hp' hg hg' req d d' :
    order_insensitive_effect ef = true ->
    (forall x, In x (hrun rule rule_eq_dec hp []) <-> In x (hrun rule rule_eq_dec hp' [])) ->
    (forall x, In x (hrun (name * name) link_eq_dec hg []) <-> In x (hrun (name * name) link_eq_dec hg' [])) ->
    ok (decide request rule (meval request rule (name * name) (list (name * name)) hl (hrun (name * name) link_eq_dec hg []) e)
               eftcol blank_rule uses_p has_eval ef (hrun rule rule_eq_dec hp []) req) d ->
    ok (decide request rule (meval request rule (name * name) (list (name * name)) hl (hrun (name * name) link_eq_dec hg' []) e)
               eftcol blank_rule uses_p has_eval ef (hrun rule rule_eq_dec hp' []) req) d' ->
    d = d'.
  Proof.
    apply (history_independent request rule rule_eq_dec eftcol blank_rule uses_p has_eval
             (name * name) (name * name) link_eq_dec hl).
    intros K K' a. apply has_link_monotone.
  Qed.

  Corollary history_independent_default_dom (e : mexpr request rule (name * name * dom)) ef hp hp' hg hg' req d d' :
    order_insensitive_effect ef = true ->
    (forall x, In x (hrun rule rule_eq_dec hp []) <-> In x (hrun rule rule_eq_dec hp' [])) ->
    (forall x, In x (hrun (name * name * dom) dlink_eq_dec hg []) <-> In x (hrun (name * name * dom) dlink_eq_dec hg' [])) ->
    ok (decide request rule (meval request rule (name * name * dom) (list (name * name * dom)) hld
                                   (hrun (name * name * dom) dlink_eq_dec hg []) e)
               eftcol blank_rule uses_p has_eval ef (hrun rule rule_eq_dec hp []) req) d ->
    ok (decide request rule (meval request rule (name * name * dom) (list (name * name * dom)) hld
                                   (hrun (name * name * dom) dlink_eq_dec hg' []) e)
               eftcol blank_rule uses_p has_eval ef (hrun rule rule_eq_dec hp' []) req) d' ->
    d = d'.
  Proof.
    apply (history_independent request rule rule_eq_dec eftcol blank_rule uses_p has_eval
             (name * name * dom) (name * name * dom) dlink_eq_dec hld).
    intros K K' a. apply has_link_dom_monotone.
  Qed.
End HistoryDefaultRoleManager.

(* non-vacuity: the two histories of the "redundant link" shape.  Names 1 = alice, 2 = editor,
   3 = admin.  History A adds 1->2, 2->3, 1->3 (redundant when added) and removes 2->3; history B
   adds 1->3 and 1->2 only.  Both end with the link set {1->2, 1->3}; request 1 is granted by the
   rule for 3 after both. *)
Definition ex_link_dec : forall a b : nat * nat, {a = b} + {a <> b}.
Proof. decide equality; apply Nat.eq_dec. Defined.
Definition ex_hist_a : list (hop (nat * nat)) :=
  [HAdd _ (1, 2); HAdd _ (2, 3); HAdd _ (1, 3); HRemove _ (2, 3)].
Definition ex_hist_b : list (hop (nat * nat)) := [HAdd _ (1, 3); HAdd _ (1, 2)].
Lemma history_nonvacuous :
  hrun _ ex_link_dec ex_hist_a [] = [(1, 2); (1, 3)] /\
  hrun _ ex_link_dec ex_hist_b [] = [(1, 3); (1, 2)] /\
  ok (ex_ldec ex_pos (hrun _ ex_link_dec ex_hist_a []) AllowOverride [5; 3] 1) true /\
  ok (ex_ldec ex_pos (hrun _ ex_link_dec ex_hist_b []) AllowOverride [3; 5] 1) true /\
  ok (ex_ldec ex_pos [(1, 2)] AllowOverride [5; 3] 1) false.
Proof. vm_compute. repeat split. Qed.
