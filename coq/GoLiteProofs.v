(* GoLiteProofs.v — generic facts about the GoLite semantics: one-step unfolding equations (so
   that proofs about a translated function can execute it symbolically without unfolding the
   whole interpreter), indexing lemmas, and fuel monotonicity. *)
From Coq Require Import List String ZArith Bool Lia.
From Casbin Require Import GoLite.
Import ListNotations.
Open Scope string_scope.

Lemma exec_S_skip f r : exec (S f) SSkip r = ONormal r. Proof. reflexivity. Qed.
Lemma exec_S_assign f x e r :
  exec (S f) (SAssign x e) r = match eval r e with Some v => ONormal (set x v r) | None => OPanic end.
Proof. reflexivity. Qed.
Lemma exec_S_seq f a b r :
  exec (S f) (SSeq a b) r = match exec f a r with ONormal r' => exec f b r' | o => o end.
Proof. reflexivity. Qed.
Lemma exec_S_if f c a b r :
  exec (S f) (SIf c a b) r =
  match eval r c with Some (VBool true) => exec f a r | Some (VBool false) => exec f b r | _ => OPanic end.
Proof. reflexivity. Qed.
Lemma exec_S_block f a r :
  exec (S f) (SBlock a) r = match exec f a r with OBreak r' => ONormal r' | o => o end.
Proof. reflexivity. Qed.
Lemma exec_S_for f c post body r :
  exec (S f) (SFor c post body) r =
  match eval r c with
  | Some (VBool true) =>
      match exec f body r with
      | ONormal r' | OContinue r' =>
          match exec f post r' with ONormal r'' => exec f (SFor c post body) r'' | o => o end
      | OBreak r' => ONormal r'
      | o => o
      end
  | Some (VBool false) => ONormal r
  | _ => OPanic
  end.
Proof. reflexivity. Qed.
Lemma exec_S_range f i x e body r :
  exec (S f) (SRange i x e body) r =
  match eval r e with
  | Some (VSlice l) => range_loop (exec f body) i x 0%Z l r
  | Some VNil => ONormal r
  | _ => OPanic
  end.
Proof. reflexivity. Qed.
Lemma exec_S_break f r : exec (S f) SBreak r = OBreak r. Proof. reflexivity. Qed.
Lemma exec_S_continue f r : exec (S f) SContinue r = OContinue r. Proof. reflexivity. Qed.
Lemma exec_S_return f es r :
  exec (S f) (SReturn es) r = match eval_list r es with Some vs => OReturn vs | None => OPanic end.
Proof. reflexivity. Qed.

Lemma range_loop_cons body i x k v t r :
  range_loop body i x k (v :: t) r =
  match body (set x v (set i (VInt k) r)) with
  | ONormal r' | OContinue r' => range_loop body i x (k + 1)%Z t r'
  | OBreak r' => ONormal r'
  | o => o
  end.
Proof. reflexivity. Qed.
Lemma range_loop_nil body i x k r : range_loop body i x k [] r = ONormal r.
Proof. reflexivity. Qed.

(* a[i] for a slice value and an index that is a natural number below the length *)
Lemma index_val_nat l (i : nat) :
  i < List.length l -> index_val (VSlice l) (VInt (Z.of_nat i)) = nth_error l i.
Proof.
  intros Hlt. unfold index_val.
  replace ((0 <=? Z.of_nat i)%Z && (Z.of_nat i <? Z.of_nat (List.length l))%Z) with true.
  - now rewrite Nat2Z.id.
  - symmetry. apply andb_true_intro. split; [apply Z.leb_le | apply Z.ltb_lt]; lia.
Qed.

Lemma nth_error_map_nth {A B} (g : A -> B) (l : list A) (i : nat) (d : A) :
  i < List.length l -> nth_error (map g l) i = Some (g (nth i l d)).
Proof.
  revert i; induction l as [|a l IH]; intros i Hi; simpl in *; [lia|].
  destruct i as [|i]; simpl; [reflexivity|]. apply IH; lia.
Qed.

(* ---------- fuel monotonicity ---------- *)
Definition finished (o : outcome) : Prop := o <> OFuel.

Lemma range_loop_mono (b1 b2 : env -> outcome) i x :
  (forall r o, b1 r = o -> finished o -> b2 r = o) ->
  forall l k r o, range_loop b1 i x k l r = o -> finished o -> range_loop b2 i x k l r = o.
Proof.
  intros Hb l; induction l as [|v t IH]; intros k r o H Hf; simpl in *; [exact H|].
  destruct (b1 (set x v (set i (VInt k) r))) as [r'|r'|r'|vs| |] eqn:E.
  - rewrite (Hb _ _ E) by discriminate. now apply IH.
  - rewrite (Hb _ _ E) by discriminate. exact H.
  - rewrite (Hb _ _ E) by discriminate. now apply IH.
  - rewrite (Hb _ _ E) by discriminate. exact H.
  - rewrite (Hb _ _ E) by discriminate. exact H.
  - subst o. now elim Hf.
Qed.

Lemma exec_mono : forall f s r o, exec f s r = o -> finished o -> forall f', f <= f' -> exec f' s r = o.
Proof.
  induction f as [|f IH]; intros s r o H Hf f' Hle.
  - simpl in H. subst o. now elim Hf.
  - destruct f' as [|f']; [lia|]. assert (Hle' : f <= f') by lia.
    destruct s; cbn [exec] in *; try exact H.
    + (* seq *)
      destruct (exec f s1 r) as [r'|r'|r'|vs| |] eqn:E;
        try (rewrite (IH _ _ _ E) by (discriminate || exact Hle'); try exact H; try (eapply IH; eassumption)).
      subst o. now elim Hf.
    + (* if *)
      destruct (eval r c) as [[| |[|]| | |]|]; try exact H; eapply IH; eassumption.
    + (* block *)
      destruct (exec f s r) as [r'|r'|r'|vs| |] eqn:E;
        try (rewrite (IH _ _ _ E) by (discriminate || exact Hle'); exact H).
      subst o. now elim Hf.
    + (* for *)
      destruct (eval r c) as [[| |[|]| | |]|]; try exact H.
      destruct (exec f s2 r) as [r'|r'|r'|vs| |] eqn:E;
        try (rewrite (IH _ _ _ E) by (discriminate || exact Hle')); try exact H.
      * destruct (exec f s1 r') as [r''|r''|r''|vs| |] eqn:E2;
          try (rewrite (IH _ _ _ E2) by (discriminate || exact Hle')); try exact H.
        -- eapply IH; eassumption.
        -- subst o. now elim Hf.
      * destruct (exec f s1 r') as [r''|r''|r''|vs| |] eqn:E2;
          try (rewrite (IH _ _ _ E2) by (discriminate || exact Hle')); try exact H.
        -- eapply IH; eassumption.
        -- subst o. now elim Hf.
      * subst o. now elim Hf.
    + (* range *)
      destruct (eval r e) as [[| | |l| |]|]; try exact H.
      eapply range_loop_mono; [|exact H|exact Hf].
      intros r0 o0 H0 Hf0. eapply IH; eassumption.
Qed.

Lemma call_mono fn args f o : call fn args f = o -> finished o -> forall f', f <= f' -> call fn args f' = o.
Proof. unfold call. intros. eapply exec_mono; eassumption. Qed.
