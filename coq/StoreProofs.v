(* StoreProofs.v — the policy store refines an ordered set of rules and its index stays
   coherent, for every operation, under the guard that rules are non-empty and comma-free
   (F07) and that update targets are not already listed (F08). *)
From Coq Require Import List String Ascii Bool Arith ZArith Lia Permutation.
Import ListNotations.
From Casbin Require Import Base BaseProofs Store.

(* first position whose key is k *)
Fixpoint find_key (k : string) (l : list rule) (i : nat) : option nat :=
  match l with
  | [] => None
  | r :: t => if String.eqb k (key r) then Some i else find_key k t (S i)
  end.

Definition Coh (s : store) : Prop :=
  NoDup (map key (pol s)) /\ forall k, lookup k (idx s) = find_key k (pol s) 0.
Definition WF (l : list rule) : Prop := Forall (fun r => wf_rule r = true) l.
Definition Inv (s : store) : Prop := Coh s /\ WF (pol s).

(* two stores with the same rules and the same index content *)
Definition eqv (s s' : store) : Prop := pol s = pol s' /\ forall k, lookup k (idx s) = lookup k (idx s').

Lemma eqv_refl s : eqv s s. Proof. split; reflexivity. Qed.
Lemma eqv_trans a b c : eqv a b -> eqv b c -> eqv a c.
Proof. intros [P1 L1] [P2 L2]. split; [congruence|]. intros k. rewrite L1. apply L2. Qed.
Lemma eqv_Coh a b : eqv a b -> Coh b -> Coh a.
Proof. intros [P L] [N C]. split; [rewrite P; exact N|]. intros k. rewrite L, P. apply C. Qed.

(* ---------- find_key ---------- *)
Lemma find_key_shift k l i : find_key k l (S i) = option_map S (find_key k l i).
Proof.
  revert i. induction l as [|r t IH]; intros i; cbn [find_key option_map]; [reflexivity|].
  destruct (String.eqb k (key r)); [reflexivity|apply IH].
Qed.

Lemma find_key_add k l i j : find_key k l (i + j) = option_map (fun n => n + j) (find_key k l i).
Proof.
  revert i. induction l as [|r t IH]; intros i; cbn [find_key option_map]; [reflexivity|].
  destruct (String.eqb k (key r)); [reflexivity|]. apply (IH (S i)).
Qed.

Lemma find_key_None k l i : find_key k l i = None <-> ~ In k (map key l).
Proof.
  revert i. induction l as [|r t IH]; intros i; cbn [find_key map In]; [tauto|].
  destruct (String.eqb k (key r)) eqn:E.
  - apply String.eqb_eq in E. split; [discriminate|]. intros H. exfalso. apply H. left. auto.
  - apply String.eqb_neq in E. rewrite IH. split; [intros H [H1|H1]; [congruence|auto]|tauto].
Qed.

Lemma find_key_app k l1 l2 i :
  find_key k (l1 ++ l2) i =
  match find_key k l1 i with Some j => Some j | None => find_key k l2 (i + List.length l1) end.
Proof.
  revert i. induction l1 as [|r t IH]; intros i; cbn [app find_key List.length].
  - rewrite Nat.add_0_r. reflexivity.
  - destruct (String.eqb k (key r)); [reflexivity|]. rewrite IH. replace (S i + List.length t) with (i + S (List.length t)) by lia. reflexivity.
Qed.

Lemma find_key_Some k l i j : find_key k l i = Some j ->
  i <= j /\ exists r, nth_error l (j - i) = Some r /\ key r = k.
Proof.
  revert i. induction l as [|r t IH]; intros i H; cbn [find_key] in H; [discriminate|].
  destruct (String.eqb k (key r)) eqn:E.
  - inversion H; subst. apply String.eqb_eq in E. split; [lia|]. rewrite Nat.sub_diag. exists r. split; [reflexivity|auto].
  - apply IH in H as [Hle [r' [Hn Hk]]]. split; [lia|]. exists r'. split; [|exact Hk].
    replace (j - i) with (S (j - S i)) by lia. exact Hn.
Qed.

Lemma find_key_nth l : NoDup (map key l) -> forall i r, nth_error l i = Some r -> find_key (key r) l 0 = Some i.
Proof.
  induction l as [|x t IH]; intros ND i r H; [destruct i; discriminate|].
  cbn [map] in ND. inversion ND as [|? ? Hnin ND']; subst.
  destruct i as [|i]; cbn [nth_error] in H; cbn [find_key].
  - inversion H; subst. rewrite String.eqb_refl. reflexivity.
  - destruct (String.eqb (key r) (key x)) eqn:E.
    + apply String.eqb_eq in E. exfalso. apply Hnin. rewrite <- E. apply in_map. eapply nth_error_In; eassumption.
    + rewrite find_key_shift, (IH ND' i r H). reflexivity.
Qed.

Lemma in_map_key_wf r l : WF l -> wf_rule r = true -> In (key r) (map key l) <-> In r l.
Proof.
  intros W Wr. split.
  - intros H. apply in_map_iff in H as [x [E Hx]]. assert (wf_rule x = true) by (eapply Forall_forall in W; eassumption).
    apply key_injective in E; subst; assumption.
  - apply in_map.
Qed.

Lemma NoDup_keys_NoDup l : NoDup (map key l) -> NoDup l.
Proof. apply NoDup_map_inv. Qed.

(* ---------- has ---------- *)
Lemma has_true_key s r : Coh s -> (has s r = true <-> In (key r) (map key (pol s))).
Proof.
  intros [_ C]. unfold has. rewrite C.
  destruct (find_key (key r) (pol s) 0) eqn:E.
  - split; [intros _|reflexivity]. destruct (in_dec string_dec (key r) (map key (pol s))) as [H|H]; [exact H|].
    apply (find_key_None _ _ 0) in H. congruence.
  - split; [discriminate|]. intros H. apply (find_key_None _ _ 0) in E. contradiction.
Qed.

Theorem has_iff_In s r : Inv s -> wf_rule r = true -> (has s r = true <-> In r (pol s)).
Proof. intros [C W] Wr. rewrite (has_true_key s r C). apply in_map_key_wf; assumption. Qed.

Lemma has_false_key s r : Coh s -> has s r = false -> ~ In (key r) (map key (pol s)).
Proof. intros C H Hin. apply (has_true_key s r C) in Hin. congruence. Qed.

Lemma lookup_Some_nth s k i : Coh s -> lookup k (idx s) = Some i ->
  exists r, nth_error (pol s) i = Some r /\ key r = k.
Proof.
  intros [_ C] H. rewrite C in H. apply find_key_Some in H as [_ [r [Hn Hk]]].
  rewrite Nat.sub_0_r in Hn. eauto.
Qed.

(* ---------- add ---------- *)
Lemma incr_lookup k k' m :
  lookup k' (incr k m) = if String.eqb k' k then Some (match lookup k m with Some n => S n | None => 1 end) else lookup k' m.
Proof. unfold incr. destruct (lookup k m); rewrite lookup_set; reflexivity. Qed.

Lemma fold_incr_lookup (l : list rule) : forall m k, NoDup (map key l) ->
  lookup k (fold_left (fun m x => incr (key x) m) l m) =
  if mem_str k (map key l) then Some (match lookup k m with Some n => S n | None => 1 end) else lookup k m.
Proof.
  induction l as [|x t IH]; intros m k ND; cbn [fold_left map mem_str existsb]; [reflexivity|].
  cbn [map] in ND. inversion ND as [|? ? Hnin ND']; subst. rewrite (IH _ _ ND').
  fold (mem_str k (map key t)). rewrite incr_lookup.
  destruct (String.eqb k (key x)) eqn:E; cbn [orb].
  - apply String.eqb_eq in E. subst k.
    destruct (mem_str (key x) (map key t)) eqn:M; [apply mem_str_In in M; contradiction|reflexivity].
  - destruct (mem_str k (map key t)); reflexivity.
Qed.

Lemma split_tail_app c v rl mv rest : split_tail c v rl = (mv, rest) -> rev rl = rev rest ++ mv.
Proof.
  revert mv rest. induction rl as [|x t IH]; intros mv rest H; cbn [split_tail] in H.
  - inversion H; reflexivity.
  - destruct (Nat.ltb c (List.length x)); [|inversion H; subst; rewrite app_nil_r; reflexivity].
    destruct (atoi (nth c x ""%string)) as [vx|]; [|inversion H; subst; rewrite app_nil_r; reflexivity].
    destruct (vx <=? v)%Z; [inversion H; subst; rewrite app_nil_r; reflexivity|].
    destruct (split_tail c v t) as [mv' rest'] eqn:E. inversion H; subst.
    cbn [rev]. rewrite (IH _ _ eq_refl), app_assoc. reflexivity.
Qed.

Lemma split_tail_pol c v l mv rest : split_tail c v (rev l) = (mv, rest) -> l = rev rest ++ mv.
Proof. intros H. apply split_tail_app in H. rewrite rev_involutive in H. exact H. Qed.

Lemma NoDup_app_l {A} (a b : list A) : NoDup (a ++ b) -> NoDup a.
Proof. induction a as [|x a IH]; cbn; intros H; [constructor|]. inversion H; subst. constructor; [rewrite in_app_iff in *; tauto|auto]. Qed.
Lemma NoDup_app_r {A} (a b : list A) : NoDup (a ++ b) -> NoDup b.
Proof. induction a as [|x a IH]; cbn; intros H; [exact H|]. inversion H; auto. Qed.
Lemma NoDup_app_disj {A} (a b : list A) x : NoDup (a ++ b) -> In x a -> In x b -> False.
Proof.
  induction a as [|y a IH]; cbn; intros H Ha Hb; [contradiction|]. inversion H; subst.
  destruct Ha as [->|Ha]; [apply H2; apply in_or_app; auto|eauto].
Qed.
Lemma NoDup_insert {A} (a b : list A) x : NoDup (a ++ b) -> ~ In x (a ++ b) -> NoDup (a ++ x :: b).
Proof.
  intros H Hn. apply NoDup_Add with (a := x) (l := a ++ b); [apply Add_app|]. constructor; assumption.
Qed.

(* the list after AddPolicy *)
Theorem add_pol prio s r : pol (add prio s r) = spec_insert prio (pol s) r.
Proof.
  unfold add, spec_insert, prio_of. destruct prio as [c|]; [|reflexivity].
  destruct (Nat.ltb c (List.length r)); [|reflexivity].
  destruct (atoi (nth c r ""%string)); [|reflexivity].
  destruct (split_tail c z (rev (pol s))); reflexivity.
Qed.

Lemma spec_insert_perm prio l r : Permutation (spec_insert prio l r) (r :: l).
Proof.
  unfold spec_insert. destruct prio as [c|]; [|apply Permutation_sym, Permutation_cons_append].
  destruct (prio_of c r); [|apply Permutation_sym, Permutation_cons_append].
  destruct (split_tail c z (rev l)) as [mv rest] eqn:E. apply split_tail_pol in E. rewrite E.
  apply Permutation_sym, Permutation_middle.
Qed.

Lemma spec_insert_In prio l r x : In x (spec_insert prio l r) <-> x = r \/ In x l.
Proof.
  split; intros H.
  - apply (Permutation_in _ (spec_insert_perm prio l r)) in H. destruct H; auto.
  - apply (Permutation_in _ (Permutation_sym (spec_insert_perm prio l r))). destruct H; [left; auto|right; auto].
Qed.

Theorem add_Coh prio s r : Coh s -> has s r = false -> Coh (add prio s r).
Proof.
  intros C Hn. pose proof (has_false_key s r C Hn) as Hnin. destruct C as [ND C].
  assert (Plain : Coh {| pol := pol s ++ [r]; idx := set (key r) (List.length (pol s)) (idx s) |}).
  { split; cbn [pol idx].
    - rewrite map_app. cbn [map]. apply NoDup_insert; rewrite app_nil_r; assumption.
    - intros k. rewrite lookup_set, find_key_app. cbn [find_key Nat.add].
      destruct (String.eqb k (key r)) eqn:E.
      + apply String.eqb_eq in E. subst k. apply (find_key_None _ _ 0) in Hnin. rewrite Hnin. reflexivity.
      + rewrite C. destruct (find_key k (pol s) 0); reflexivity. }
  unfold add. destruct prio as [c|]; [|exact Plain].
  destruct (Nat.ltb c (List.length r)); [|exact Plain].
  destruct (atoi (nth c r ""%string)) as [v|]; [|exact Plain].
  destruct (split_tail c v (rev (pol s))) as [mv rest] eqn:E. apply split_tail_pol in E.
  assert (NDk : NoDup (map key (rev rest) ++ map key mv)) by (rewrite <- map_app, <- E; exact ND).
  split; cbn [pol idx].
  - rewrite map_app. cbn [map]. apply NoDup_insert; [exact NDk|]. rewrite <- map_app, <- E. exact Hnin.
  - intros k. rewrite lookup_set.
    rewrite find_key_app. cbn [find_key Nat.add].
    destruct (String.eqb k (key r)) eqn:Ek.
    + apply String.eqb_eq in Ek. subst k.
      assert (Hr : ~ In (key r) (map key (rev rest))).
      { intros H. apply Hnin. rewrite E, map_app. apply in_or_app. auto. }
      apply (find_key_None _ _ 0) in Hr. rewrite Hr, rev_length. reflexivity.
    + rewrite fold_incr_lookup.
      2:{ rewrite map_rev. apply NoDup_rev. apply (NoDup_app_r _ _ NDk). }
      cbn [idx]. rewrite lookup_set, Ek, C. rewrite E. rewrite find_key_app. cbn [Nat.add].
      destruct (find_key k (rev rest) 0) as [j|] eqn:F1.
      * (* k sits in the part that does not move *)
        destruct (mem_str k (map key (rev mv))) eqn:M; [|reflexivity].
        exfalso. apply mem_str_In in M. rewrite map_rev, <- in_rev in M.
        apply (NoDup_app_disj _ _ k NDk); [|exact M].
        destruct (in_dec string_dec k (map key (rev rest))) as [H|H]; [exact H|]. apply (find_key_None _ _ 0) in H. congruence.
      * rewrite find_key_shift.
        destruct (find_key k mv (List.length (rev rest))) as [j|] eqn:F2; cbn [option_map].
        -- assert (M : mem_str k (map key (rev mv)) = true).
           { apply mem_str_In. rewrite map_rev, <- in_rev.
             destruct (in_dec string_dec k (map key mv)) as [H|H]; [exact H|]. apply (find_key_None _ _ (List.length (rev rest))) in H. congruence. }
           rewrite M. reflexivity.
        -- assert (M : mem_str k (map key (rev mv)) = false).
           { apply not_true_iff_false. intros M. apply mem_str_In in M. rewrite map_rev, <- in_rev in M.
             apply (find_key_None _ _ (List.length (rev rest))) in F2. contradiction. }
           rewrite M. reflexivity.
Qed.

Theorem add_Inv prio s r : Inv s -> wf_rule r = true -> has s r = false -> Inv (add prio s r).
Proof.
  intros [C W] Wr Hn. split; [apply add_Coh; assumption|].
  rewrite add_pol. apply Forall_forall. intros x Hx. apply spec_insert_In in Hx as [->|Hx]; [exact Wr|].
  eapply Forall_forall in W; eassumption.
Qed.

(* ---------- add_many ---------- *)
(* spec: add, in order, the rules that are not yet listed (also not earlier in the batch) *)

Lemma has_mem_rule s r : Inv s -> wf_rule r = true -> has s r = mem_rule r (pol s).
Proof.
  intros I W. destruct (has s r) eqn:H.
  - symmetry. apply mem_rule_In. apply (has_iff_In s r I W). exact H.
  - symmetry. apply not_true_iff_false. intros M. apply mem_rule_In in M. apply (has_iff_In s r I W) in M. congruence.
Qed.

Theorem add_many_spec prio rs : forall s, Inv s -> WF rs ->
  Inv (fst (add_many prio s rs)) /\
  pol (fst (add_many prio s rs)) = fst (spec_add_many prio (pol s) rs) /\
  snd (add_many prio s rs) = snd (spec_add_many prio (pol s) rs).
Proof.
  induction rs as [|r t IH]; intros s I W; cbn [add_many spec_add_many fst snd]; [auto|].
  inversion W as [|? ? Wr Wt]; subst. rewrite <- (has_mem_rule s r I Wr).
  destruct (has s r) eqn:H; [apply IH; assumption|].
  assert (I' : Inv (add prio s r)) by (apply add_Inv; assumption).
  destruct (IH (add prio s r) I' Wt) as [I2 [P2 A2]]. rewrite add_pol in P2, A2.
  destruct (add_many prio (add prio s r) t) as [s2 aff2]. destruct (spec_add_many prio (spec_insert prio (pol s) r) t) as [l2 a2].
  cbn [fst snd] in *. subst. auto.
Qed.

(* ---------- reindex / remove ---------- *)
Lemma lookup_reindex l : forall i m k, NoDup (map key l) ->
  lookup k (reindex l i m) = match find_key k l i with Some j => Some j | None => lookup k m end.
Proof.
  induction l as [|r t IH]; intros i m k ND; cbn [reindex find_key]; [reflexivity|].
  cbn [map] in ND. inversion ND as [|? ? Hnin ND']; subst. rewrite (IH _ _ _ ND').
  destruct (String.eqb k (key r)) eqn:E.
  - apply String.eqb_eq in E. subst k. apply (find_key_None _ _ (S i)) in Hnin. rewrite Hnin. apply lookup_set_eq.
  - destruct (find_key k t (S i)); [reflexivity|]. rewrite lookup_set, E. reflexivity.
Qed.

Lemma remove_first_split pre r suf : ~ In r pre -> remove_first r (pre ++ r :: suf) = pre ++ suf.
Proof.
  induction pre as [|x t IH]; intros H; cbn [app remove_first].
  - rewrite rule_eqb_refl. reflexivity.
  - destruct (rule_eqb r x) eqn:E; [apply rule_eqb_eq in E; subst; exfalso; apply H; left; reflexivity|].
    rewrite IH; [reflexivity|]. intros Hin. apply H. right. exact Hin.
Qed.

Lemma remove_first_notin r l : ~ In r l -> remove_first r l = l.
Proof.
  induction l as [|x t IH]; intros H; cbn [remove_first]; [reflexivity|].
  destruct (rule_eqb r x) eqn:E; [apply rule_eqb_eq in E; subst; exfalso; apply H; left; reflexivity|].
  rewrite IH; [reflexivity|]. intros Hin. apply H. right. exact Hin.
Qed.

Lemma Coh_split s i r : Coh s -> nth_error (pol s) i = Some r ->
  exists pre suf, pol s = pre ++ r :: suf /\ List.length pre = i /\
  firstn i (pol s) = pre /\ skipn (S i) (pol s) = suf /\
  ~ In (key r) (map key pre) /\ ~ In (key r) (map key suf) /\
  NoDup (map key pre ++ map key suf).
Proof.
  intros [ND _] H. destruct (nth_error_split_at _ _ _ H) as [E L].
  exists (firstn i (pol s)), (skipn (S i) (pol s)). split; [exact E|]. split; [exact L|]. split; [reflexivity|]. split; [reflexivity|].
  rewrite E, map_app in ND. cbn [map] in ND. apply NoDup_remove in ND as [ND1 ND2].
  rewrite in_app_iff in ND2. tauto.
Qed.

Theorem remove_spec s r : Inv s -> wf_rule r = true ->
  Inv (fst (remove s r)) /\ pol (fst (remove s r)) = remove_first r (pol s) /\
  snd (remove s r) = mem_rule r (pol s).
Proof.
  intros I Wr. pose proof (has_mem_rule s r I Wr) as Hm. destruct I as [C W]. unfold has in Hm. unfold remove.
  destruct (lookup (key r) (idx s)) as [i|] eqn:L; cbn [fst snd].
  - destruct (lookup_Some_nth s _ _ C L) as [r' [Hn Hk]].
    assert (r' = r). { apply key_injective; [eapply Forall_forall in W; [eassumption|eapply nth_error_In; eassumption]|exact Wr|exact Hk]. } subst r'.
    destruct (Coh_split s i r C Hn) as (pre & suf & E & Len & Ef & Es & N1 & N2 & ND). destruct C as [_ C].
    rewrite Ef, Es.
    split; [split; [split|]|split]; cbn [pol idx].
    + rewrite map_app. exact ND.
    + intros k. rewrite lookup_reindex by (apply (NoDup_app_r _ _ ND)). rewrite find_key_app, Len. cbn [Nat.add].
      rewrite lookup_del, C. rewrite E. rewrite find_key_app, Len. cbn [find_key Nat.add].
      destruct (find_key k pre 0) as [j|] eqn:F1.
      * assert (Hin : In k (map key pre)).
        { destruct (in_dec string_dec k (map key pre)) as [H|H]; [exact H|]. apply (find_key_None _ _ 0) in H. congruence. }
        assert (F2 : find_key k suf i = None).
        { apply find_key_None. intros H. apply (NoDup_app_disj _ _ k ND); assumption. }
        rewrite F2. destruct (String.eqb k (key r)) eqn:Ek; [|reflexivity].
        apply String.eqb_eq in Ek. subst k. contradiction.
      * rewrite (find_key_shift k _ i).
        destruct (find_key k suf i) as [j|] eqn:F2; cbn [option_map].
        -- destruct (String.eqb k (key r)) eqn:Ek.
           ++ apply String.eqb_eq in Ek. subst k. apply (find_key_None _ _ i) in N2. congruence.
           ++ reflexivity.
        -- destruct (String.eqb k (key r)); reflexivity.
    + rewrite E in W. apply Forall_app in W as [W1 W2]. inversion W2; subst. apply Forall_app. auto.
    + rewrite E. rewrite remove_first_split; [reflexivity|]. intros H. apply N1. apply in_map. exact H.
    + exact Hm.
  - split; [split; assumption|]. split; [|exact Hm]. symmetry. apply remove_first_notin.
    intros H. apply mem_rule_In in H. congruence.
Qed.

Lemma remove_first_WF r l : WF l -> WF (remove_first r l).
Proof.
  induction l as [|x t IH]; intros W; cbn [remove_first]; [exact W|]. inversion W as [|? ? Wx Wt]; subst.
  destruct (rule_eqb r x); [exact Wt|constructor; [exact Wx|apply IH; exact Wt]].
Qed.

(* ---------- remove_many ---------- *)

Theorem remove_many_spec rs : forall s, Inv s -> WF rs ->
  Inv (fst (remove_many s rs)) /\
  pol (fst (remove_many s rs)) = fst (spec_remove_many (pol s) rs) /\
  snd (remove_many s rs) = snd (spec_remove_many (pol s) rs).
Proof.
  induction rs as [|r t IH]; intros s I W; cbn [remove_many spec_remove_many fst snd]; [auto|].
  inversion W as [|? ? Wr Wt]; subst. destruct (remove_spec s r I Wr) as [I1 [P1 B1]].
  destruct (remove s r) as [s1 ok]. cbn [fst snd] in *.
  destruct (IH s1 I1 Wt) as [I2 [P2 A2]]. rewrite P1 in P2, A2.
  destruct (remove_many s1 t) as [s2 aff]. destruct (spec_remove_many (remove_first r (pol s)) t) as [l2 a2].
  cbn [fst snd] in *. subst. auto.
Qed.

(* ---------- update ---------- *)
Lemma replace_first_split pre o n suf : ~ In o pre -> replace_first o n (pre ++ o :: suf) = pre ++ n :: suf.
Proof.
  induction pre as [|x t IH]; intros H; cbn [app replace_first].
  - rewrite rule_eqb_refl. reflexivity.
  - destruct (rule_eqb o x) eqn:E; [apply rule_eqb_eq in E; subst; exfalso; apply H; left; reflexivity|].
    rewrite IH; [reflexivity|]. intros Hin. apply H. right. exact Hin.
Qed.
Lemma replace_first_notin o n l : ~ In o l -> replace_first o n l = l.
Proof.
  induction l as [|x t IH]; intros H; cbn [replace_first]; [reflexivity|].
  destruct (rule_eqb o x) eqn:E; [apply rule_eqb_eq in E; subst; exfalso; apply H; left; reflexivity|].
  rewrite IH; [reflexivity|]. intros Hin. apply H. right. exact Hin.
Qed.

(* the update of slot i from o to n; shared by UpdatePolicy, UpdatePolicies and its rollback *)
Lemma update_slot s i o n : Inv s -> nth_error (pol s) i = Some o -> wf_rule n = true ->
  ~ In n (pol s) ->
  let s' := {| pol := set_nth i n (pol s); idx := set (key n) i (del (key o) (idx s)) |} in
  Inv s' /\ pol s' = replace_first o n (pol s) /\ nth_error (pol s') i = Some n.
Proof.
  intros [C W] Hn Wn Nn s'. destruct (Coh_split s i o C Hn) as (pre & suf & E & Len & Ef & Es & N1 & N2 & ND).
  assert (Wo : wf_rule o = true) by (eapply Forall_forall in W; [eassumption|eapply nth_error_In; eassumption]).
  assert (Nk : ~ In (key n) (map key (pol s))) by (rewrite (in_map_key_wf n _ W Wn); exact Nn).
  assert (P : pol s' = pre ++ n :: suf).
  { unfold s'. cbn [pol]. rewrite E. rewrite <- Len. apply set_nth_app. }
  destruct C as [NDs C].
  split; [split; [split|]|split].
  - rewrite P, map_app. cbn [map]. apply NoDup_insert; [exact ND|].
    intros H. apply Nk. rewrite E, map_app. cbn [map]. rewrite in_app_iff in *. cbn [In]. tauto.
  - intros k. rewrite P. unfold s'. cbn [idx]. rewrite lookup_set, lookup_del, C. rewrite E.
    rewrite !find_key_app, Len. cbn [find_key Nat.add].
    destruct (String.eqb k (key n)) eqn:E1.
    + apply String.eqb_eq in E1. subst k.
      assert (F : find_key (key n) pre 0 = None).
      { apply find_key_None. intros H. apply Nk. rewrite E, map_app. apply in_or_app. auto. }
      rewrite F. reflexivity.
    + destruct (String.eqb k (key o)) eqn:E2.
      * apply String.eqb_eq in E2. subst k. apply (find_key_None _ _ 0) in N1. rewrite N1.
        apply (find_key_None _ _ (S i)) in N2. rewrite N2. reflexivity.
      * reflexivity.
  - rewrite P. rewrite E in W. apply Forall_app in W as [W1 W2]. inversion W2; subst. apply Forall_app. auto.
  - rewrite P. rewrite E. rewrite replace_first_split; [reflexivity|]. intros H. apply N1. apply in_map. exact H.
  - rewrite P. rewrite nth_error_app2 by lia. rewrite Len, Nat.sub_diag. reflexivity.
Qed.

Theorem update_spec s o n : Inv s -> wf_rule o = true -> wf_rule n = true -> ~ In n (pol s) ->
  Inv (fst (update s o n)) /\ pol (fst (update s o n)) = replace_first o n (pol s) /\
  snd (update s o n) = mem_rule o (pol s).
Proof.
  intros I Wo Wn Nn. pose proof (has_mem_rule s o I Wo) as Hm. unfold has in Hm. unfold update.
  destruct (lookup (key o) (idx s)) as [i|] eqn:L; cbn [fst snd].
  - destruct (lookup_Some_nth s _ _ (proj1 I) L) as [r' [Hn Hk]].
    assert (r' = o). { apply key_injective; [destruct I as [_ W]; eapply Forall_forall in W; [eassumption|eapply nth_error_In; eassumption]|exact Wo|exact Hk]. } subst r'.
    destruct (update_slot s i o n I Hn Wn Nn) as [I' [P' _]]. auto.
  - split; [exact I|]. split; [|exact Hm]. symmetry. apply replace_first_notin.
    intros H. apply mem_rule_In in H. congruence.
Qed.

(* the witnesses of F08: updating to a rule that is already listed duplicates it *)
Example update_to_listed_refuted :
  let s := fst (add_many None empty_store [["a"%string]; ["b"%string]]) in
  pol (fst (update s ["a"%string] ["b"%string])) = [["b"%string]; ["b"%string]].
Proof. reflexivity. Qed.

(* ---------- update_many with rollback ---------- *)
Lemma rollback_one_eqv a b e : eqv a b -> eqv (rollback_one a e) (rollback_one b e).
Proof.
  intros [P L]. destruct e as [i [o n]]. unfold rollback_one. split; cbn [pol idx]; [rewrite P; reflexivity|].
  intros k. rewrite !lookup_set, !lookup_del, L. reflexivity.
Qed.
Lemma rollback_eqv m : forall a b, eqv a b -> eqv (fold_left rollback_one m a) (fold_left rollback_one m b).
Proof. induction m as [|e t IH]; intros a b H; cbn [fold_left]; [exact H|]. apply IH, rollback_one_eqv, H. Qed.

(* undoing one slot update restores the store (up to the representation of the index) *)
Lemma undo_slot s i o n : Inv s -> nth_error (pol s) i = Some o -> wf_rule n = true -> ~ In n (pol s) ->
  eqv (rollback_one {| pol := set_nth i n (pol s); idx := set (key n) i (del (key o) (idx s)) |} (i, (o, n))) s.
Proof.
  intros [C W] Hn Wn Nn. unfold rollback_one. split; cbn [pol idx].
  - rewrite set_nth_set_nth. apply set_nth_same. exact Hn.
  - intros k. rewrite lookup_set, lookup_del, lookup_set, lookup_del.
    assert (Nk : ~ In (key n) (map key (pol s))) by (rewrite (in_map_key_wf n _ W Wn); exact Nn).
    destruct C as [ND C].
    destruct (String.eqb k (key o)) eqn:E1.
    + apply String.eqb_eq in E1. subst k. rewrite C. symmetry. apply find_key_nth; assumption.
    + destruct (String.eqb k (key n)) eqn:E2; [|reflexivity].
      apply String.eqb_eq in E2. subst k. rewrite C. symmetry. apply find_key_None. exact Nk.
Qed.

(* guard of the batch update: the new rules are well-formed, pairwise distinct, not listed,
   and none of them is an old rule of the same call (F08) *)

Lemma replace_first_In o n l x : In x (replace_first o n l) -> x = n \/ In x l.
Proof.
  induction l as [|y t IH]; cbn [replace_first]; [tauto|]. destruct (rule_eqb o y).
  - cbn [In]. intros [H|H]; auto.
  - cbn [In]. intros [H|H]; auto. destruct (IH H); auto.
Qed.

Lemma set_mod_fresh i v m : ~ In i (map fst m) -> set_mod i v m = m ++ [(i, v)].
Proof.
  induction m as [|[j w] t IH]; cbn [set_mod map fst In app]; intros H; [reflexivity|].
  destruct (Nat.eqb i j) eqn:E; [apply Nat.eqb_eq in E; subst; exfalso; apply H; auto|].
  rewrite IH; [reflexivity|tauto].
Qed.

(* The rollback list is iterated newest-first in the proofs below; Go iterates a map (any
   order).  We therefore show the result for the reverse of the recorded list as well. *)
Definition Slots (s : store) (m : list (nat * (rule * rule))) : Prop :=
  forall i o n, In (i, (o, n)) m -> nth_error (pol s) i = Some n.

Lemma update_many_loop_spec os : forall ns s s0 m,
  Inv s -> WF os -> WF ns -> NoDup ns ->
  (forall n, In n ns -> ~ In n (pol s)) ->
  (forall n, In n ns -> ~ In n os) ->
  (forall o, In o os -> ~ In o (map (fun e => snd (snd e)) m)) ->
  Slots s m -> NoDup (map fst m) ->
  Inv s0 -> eqv (fold_left rollback_one (rev m) s) s0 ->
  let r := update_many_loop s os ns m in
  Inv (fst r) /\
  match spec_update_many (pol s) os ns with
  | Some l' => snd r = true /\ pol (fst r) = l'
  | None => snd r = false /\ pol (fst r) = pol s0
  end.
Proof.
  induction os as [|o os' IH]; intros ns s s0 m I Wo Wn NDn Hfresh Hdisj Hold Hslots NDm I0 Hundo r.
  - subst r. destruct ns; cbn [update_many_loop spec_update_many fst snd]; auto.
  - destruct ns as [|n ns']; [subst r; cbn [update_many_loop spec_update_many fst snd]; auto|].
    subst r. cbn [update_many_loop spec_update_many].
    inversion Wo as [|? ? Wo1 Wo']; subst. inversion Wn as [|? ? Wn1 Wn']; subst. inversion NDn as [|? ? Nn1 NDn']; subst.
    pose proof (has_mem_rule s o I Wo1) as Hm. unfold has in Hm. rewrite <- Hm.
    destruct (lookup (key o) (idx s)) as [i|] eqn:L.
    + destruct (lookup_Some_nth s _ _ (proj1 I) L) as [r' [Hn Hk]].
      assert (r' = o). { apply key_injective; [destruct I as [_ W]; eapply Forall_forall in W; [eassumption|eapply nth_error_In; eassumption]|exact Wo1|exact Hk]. } subst r'.
      assert (Nn : ~ In n (pol s)) by (apply Hfresh; left; reflexivity).
      destruct (update_slot s i o n I Hn Wn1 Nn) as [I' [P' Hi']].
      set (s' := {| pol := set_nth i n (pol s); idx := set (key n) i (del (key o) (idx s)) |}) in *.
      assert (Hfr : ~ In i (map fst m)).
      { intros H. apply in_map_iff in H as [[j [o2 n2]] [Ej Hin]]. cbn [fst] in Ej. subst j.
        pose proof (Hslots _ _ _ Hin) as Hs. rewrite Hn in Hs. inversion Hs; subst.
        apply (Hold n2 (or_introl eq_refl)). apply in_map_iff. exists (i, (o2, n2)). split; [reflexivity|exact Hin]. }
      rewrite (set_mod_fresh _ _ _ Hfr). rewrite <- P'.
      apply (IH ns' s' s0 (m ++ [(i, (o, n))])); try assumption.
      * intros x Hx. rewrite P'. intros Hin. apply replace_first_In in Hin as [->|Hin]; [contradiction|].
        apply (Hfresh x (or_intror Hx)). exact Hin.
      * intros x Hx Hin. apply (Hdisj x (or_intror Hx)). right. exact Hin.
      * intros x Hx. rewrite map_app, in_app_iff. cbn [map snd In]. intros [H|[H|[]]].
        -- apply (Hold x (or_intror Hx)). exact H.
        -- subst x. apply (Hdisj n (or_introl eq_refl)). right. exact Hx.
      * intros j o2 n2 Hin. apply in_app_iff in Hin as [Hin|[Hin|[]]].
        -- pose proof (Hslots _ _ _ Hin) as Hs. unfold s'. cbn [pol]. rewrite nth_error_set_nth.
           destruct (Nat.eqb i j) eqn:Eij; [|exact Hs]. apply Nat.eqb_eq in Eij. subst j.
           exfalso. apply Hfr. apply in_map_iff. exists (i, (o2, n2)). auto.
        -- inversion Hin; subst. exact Hi'.
      * rewrite map_app. cbn [map fst]. apply NoDup_insert; rewrite app_nil_r; assumption.
      * rewrite rev_app_distr. cbn [rev app fold_left].
        eapply eqv_trans; [|exact Hundo]. apply rollback_eqv. apply (undo_slot s i o n I Hn Wn1 Nn).
    + cbn [fst snd]. destruct Hundo as [Pu Lu]. split; [|split; [reflexivity|exact Pu]].
      split; [apply (eqv_Coh _ s0); [split; assumption|apply I0]|rewrite Pu; apply I0].
Qed.

Theorem update_many_spec s os ns :
  Inv s -> WF os -> WF ns -> NoDup ns ->
  (forall n, In n ns -> ~ In n (pol s)) -> (forall n, In n ns -> ~ In n os) ->
  Inv (fst (update_many s os ns)) /\
  match spec_update_many (pol s) os ns with
  | Some l' => snd (update_many s os ns) = true /\ pol (fst (update_many s os ns)) = l'
  | None => snd (update_many s os ns) = false /\ pol (fst (update_many s os ns)) = pol s
  end.
Proof.
  intros I Wo Wn ND Hf Hd. unfold update_many.
  apply (update_many_loop_spec os ns s s []); try assumption.
  - intros o _ [].
  - intros i o n [].
  - constructor.
  - apply eqv_refl.
Qed.

(* F08: a batch whose new rules overlap its old rules loses a rule *)
Example update_many_overlap_refuted :
  let s := fst (add_many None empty_store [["a"%string]; ["b"%string]]) in
  let s' := fst (update_many s [["a"%string]; ["b"%string]] [["b"%string]; ["c"%string]]) in
  pol s' = [["c"%string]; ["b"%string]] /\ has s' ["b"%string] = false.
Proof. split; reflexivity. Qed.

(* ---------- filtered queries and removals ---------- *)
Definition in_range (fi : nat) (fvs : list string) (l : list rule) : Prop :=
  forall r, In r l -> rule_matches fi fvs r <> None.

Lemma in_range_arity fi fvs l n : (forall r, In r l -> List.length r = n) -> fi + List.length fvs <= n ->
  in_range fi fvs l.
Proof.
  intros Har Hle r Hr. specialize (Har r Hr). clear Hr l. revert fi Hle.
  induction fvs as [|fv t IH]; intros fi Hle; cbn [rule_matches]; [discriminate|].
  cbn [List.length] in Hle. destruct (String.eqb fv ""%string); [apply IH; lia|].
  destruct (nth_error r fi) eqn:E; [|apply nth_error_None in E; lia].
  destruct (String.eqb s fv); [apply IH; lia|discriminate].
Qed.

Theorem get_filtered_spec fi fvs l : in_range fi fvs l ->
  get_filtered fi fvs l = Some (filter (matches_spec fi fvs) l).
Proof.
  induction l as [|r t IH]; intros H; cbn [get_filtered filter]; [reflexivity|].
  assert (Hr : rule_matches fi fvs r <> None) by (apply H; left; reflexivity).
  unfold matches_spec at 1. destruct (rule_matches fi fvs r) as [b|]; [|congruence].
  rewrite IH by (intros x Hx; apply H; right; exact Hx). reflexivity.
Qed.

Lemma scan_filtered_spec fi fvs l : forall tmp m eff, in_range fi fvs l ->
  exists m', scan_filtered fi fvs l tmp m eff =
    Some (tmp ++ filter (fun r => negb (matches_spec fi fvs r)) l, m', eff ++ filter (matches_spec fi fvs) l) /\
  (NoDup (map key (tmp ++ filter (fun r => negb (matches_spec fi fvs r)) l)) ->
   forall k, lookup k m' = match find_key k (filter (fun r => negb (matches_spec fi fvs r)) l) (List.length tmp) with
                           | Some j => Some j | None => lookup k m end).
Proof.
  induction l as [|r t IH]; intros tmp m eff H; cbn [scan_filtered filter].
  - exists m. rewrite !app_nil_r. split; [reflexivity|]. intros _ k. reflexivity.
  - assert (Hr : rule_matches fi fvs r <> None) by (apply H; left; reflexivity).
    assert (Ht : in_range fi fvs t) by (intros x Hx; apply H; right; exact Hx).
    destruct (rule_matches fi fvs r) as [b|] eqn:Er; [|congruence].
    assert (Hm : matches_spec fi fvs r = b) by (unfold matches_spec; rewrite Er; reflexivity).
    rewrite Hm. destruct b; cbn [negb].
    + destruct (IH tmp m (eff ++ [r]) Ht) as [m' [E L]]. exists m'. rewrite E, <- app_assoc. split; [reflexivity|exact L].
    + destruct (IH (tmp ++ [r]) (set (key r) (List.length tmp) m) eff Ht) as [m' [E L]]. exists m'.
      rewrite E, <- app_assoc. split; [reflexivity|]. cbn [app]. intros ND k.
      rewrite <- app_assoc in L. cbn [app] in L. rewrite (L ND k). cbn [find_key]. rewrite app_length. cbn [List.length].
      replace (List.length tmp + 1) with (S (List.length tmp)) by lia.
      destruct (String.eqb k (key r)) eqn:Ek.
      * apply String.eqb_eq in Ek. subst k.
        assert (F : find_key (key r) (filter (fun r0 => negb (matches_spec fi fvs r0)) t) (S (List.length tmp)) = None).
        { apply find_key_None. rewrite map_app in ND. apply NoDup_app_r in ND. cbn [map] in ND. inversion ND; assumption. }
        rewrite F. apply lookup_set_eq.
      * destruct (find_key k _ (S (List.length tmp))); [reflexivity|]. rewrite lookup_set, Ek. reflexivity.
Qed.

Lemma NoDup_map_filter (f : rule -> bool) l : NoDup (map key l) -> NoDup (map key (filter f l)).
Proof.
  induction l as [|x t IH]; cbn [map filter]; intros H; [constructor|]. inversion H as [|? ? Hn H']; subst.
  destruct (f x); [|auto]. cbn [map]. constructor; [|auto].
  intros Hin. apply Hn. apply in_map_iff in Hin as [y [E Hy]]. apply filter_In in Hy as [Hy _].
  rewrite <- E. apply in_map. exact Hy.
Qed.

Lemma filter_len_le {A} (f : A -> bool) l : List.length (filter f l) <= List.length l.
Proof. induction l as [|x t IH]; cbn [filter List.length]; [lia|]. destruct (f x); cbn [List.length]; lia. Qed.

Lemma filter_length_lt {A} (f : A -> bool) l :
  List.length (filter f l) = List.length l <-> forallb f l = true.
Proof.
  induction l as [|x t IH]; cbn [filter forallb List.length]; [tauto|].
  pose proof (filter_len_le f t) as Hle.
  destruct (f x); cbn [List.length andb].
  - rewrite <- IH. split; lia.
  - split; [lia|discriminate].
Qed.

Lemma filter_all {A} (f : A -> bool) l : forallb f l = true -> filter f l = l.
Proof.
  induction l as [|x t IH]; cbn [filter forallb]; [reflexivity|]. intros H. apply andb_true_iff in H as [Hx Ht].
  rewrite Hx, (IH Ht). reflexivity.
Qed.

Theorem remove_filtered_spec s fi fvs : Inv s -> in_range fi fvs (pol s) ->
  exists s' res eff, remove_filtered s fi fvs = Some (s', res, eff) /\
    Inv s' /\
    pol s' = filter (fun r => negb (matches_spec fi fvs r)) (pol s) /\
    eff = filter (matches_spec fi fvs) (pol s) /\
    res = existsb (matches_spec fi fvs) (pol s).
Proof.
  intros [[ND C] W] H. unfold remove_filtered.
  destruct (scan_filtered_spec fi fvs (pol s) [] [] [] H) as [m' [E L]]. rewrite E. cbn [app].
  set (kept := filter (fun r => negb (matches_spec fi fvs r)) (pol s)) in *.
  assert (NDk : NoDup (map key kept)) by (apply NoDup_map_filter; exact ND).
  specialize (L NDk). cbn [List.length lookup] in L.
  assert (Lk : forall k, lookup k m' = find_key k kept 0) by (intros k; rewrite L; destruct (find_key k kept 0); reflexivity).
  assert (Wk : WF kept) by (apply Forall_forall; intros x Hx; apply filter_In in Hx as [Hx _]; eapply Forall_forall in W; eassumption).
  assert (Hex : existsb (matches_spec fi fvs) (pol s) = negb (forallb (fun r => negb (matches_spec fi fvs r)) (pol s))).
  { clear. induction (pol s) as [|x t IH]; cbn [existsb forallb]; [reflexivity|]. rewrite IH. destruct (matches_spec fi fvs x); reflexivity. }
  destruct (Nat.eqb (List.length kept) (List.length (pol s))) eqn:El.
  - apply Nat.eqb_eq in El. apply filter_length_lt in El. pose proof (filter_all _ _ El) as Ek. fold kept in Ek.
    eexists _, _, _. split; [reflexivity|]. cbn [pol idx].
    split; [split; [split; [exact ND|]|exact W]|]. { intros k. cbn [idx pol]. rewrite Lk, Ek. reflexivity. }
    split; [symmetry; exact Ek|]. split; [reflexivity|]. rewrite Hex, El. reflexivity.
  - apply Nat.eqb_neq in El. eexists _, _, _. split; [reflexivity|]. cbn [pol idx].
    split; [split; [split; [exact NDk|exact Lk]|exact Wk]|]. split; [reflexivity|]. split; [reflexivity|].
    rewrite Hex. destruct (forallb (fun r => negb (matches_spec fi fvs r)) (pol s)) eqn:F; [|reflexivity].
    exfalso. apply El. apply filter_length_lt. exact F.
Qed.

(* ---------- clear / reindex_all ---------- *)
Lemma empty_Inv : Inv empty_store.
Proof. split; [split; [constructor|reflexivity]|constructor]. Qed.


(* ---------- the management API refines the ordered-set specification ---------- *)
Definition op_guard (l : list rule) (op : sop) : Prop :=
  match op with
  | OAdd r | ORemove r => wf_rule r = true
  | OAddMany rs | OAddManyEx rs | ORemoveMany rs => WF rs
  | OUpdate o n => wf_rule o = true /\ wf_rule n = true /\ ~ In n l
  | OUpdateMany os ns => WF os /\ WF ns /\ NoDup ns /\ (forall n, In n ns -> ~ In n l) /\ (forall n, In n ns -> ~ In n os)
  | ORemoveFiltered fi fvs => in_range fi fvs l
  | OClear => True
  end.

Lemma has_any_mem s rs : Inv s -> WF rs -> has_any s rs = existsb (fun r => mem_rule r (pol s)) rs.
Proof.
  intros I W. unfold has_any. induction rs as [|r t IH]; cbn [existsb]; [reflexivity|].
  inversion W; subst. rewrite IH by assumption. rewrite (has_mem_rule s r I) by assumption. reflexivity.
Qed.

Lemma spec_remove_many_aff rs : forall l, existsb (fun r => mem_rule r l) rs = true ->
  WF rs -> NoDup l -> snd (spec_remove_many l rs) <> [].
Proof.
  induction rs as [|r t IH]; intros l H W ND; cbn [existsb spec_remove_many] in *; [discriminate|].
  destruct (spec_remove_many (remove_first r l) t) as [l' aff] eqn:E. cbn [snd].
  destruct (mem_rule r l) eqn:M; [discriminate|]. cbn [orb] in H.
  assert (R : remove_first r l = l) by (apply remove_first_notin; intros Hin; apply mem_rule_In in Hin; congruence).
  rewrite R in E. inversion W; subst. specialize (IH l H H3 ND). rewrite E in IH. exact IH.
Qed.

Theorem api_refines prio s op : Inv s -> op_guard (pol s) op ->
  Inv (fst (api_step prio s op)) /\
  (pol (fst (api_step prio s op)), snd (api_step prio s op)) = spec_step prio (pol s) op.
Proof.
  intros I G. destruct op as [r|rs|rs|r|rs|o n|os ns|fi fvs|]; cbn [op_guard] in G; cbn [api_step spec_step].
  - rewrite <- (has_mem_rule s r I G). destruct (has s r) eqn:H; cbn [fst snd]; [auto|].
    split; [apply add_Inv; assumption|]. rewrite add_pol. reflexivity.
  - rewrite <- (has_any_mem s rs I G). destruct (has_any s rs); cbn [fst snd]; [auto|].
    destruct (add_many_spec prio rs s I G) as [I' [P' _]]. rewrite P'. auto.
  - destruct (add_many_spec prio rs s I G) as [I' [P' _]]. cbn [fst snd]. rewrite P'. auto.
  - destruct (remove_spec s r I G) as [I' [P' B']]. destruct (remove s r) as [s' b]. cbn [fst snd] in *.
    split; [exact I'|]. rewrite P', B'. reflexivity.
  - rewrite <- (has_any_mem s rs I G). destruct (has_any s rs) eqn:H; cbn [fst snd]; [|auto].
    destruct (remove_many_spec rs s I G) as [I' [P' A']]. destruct (remove_many s rs) as [s' aff]. cbn [fst snd] in *.
    split; [exact I'|]. rewrite P'. f_equal. f_equal.
    rewrite (has_any_mem s rs I G) in H.
    pose proof (spec_remove_many_aff rs (pol s) H G (NoDup_keys_NoDup _ (proj1 (proj1 I)))) as Hne.
    rewrite <- A' in Hne. destruct aff; [congruence|reflexivity].
  - destruct G as [Wo [Wn Nn]]. destruct (update_spec s o n I Wo Wn Nn) as [I' [P' B']].
    destruct (update s o n) as [s' b]. cbn [fst snd] in *. split; [exact I'|]. rewrite P', B'. reflexivity.
  - destruct G as [Wo [Wn [ND [Hf Hd]]]]. destruct (Nat.eqb (List.length os) (List.length ns)); cbn [fst snd]; [|auto].
    destruct (update_many_spec s os ns I Wo Wn ND Hf Hd) as [I' Hs].
    destruct (update_many s os ns) as [s' b]. cbn [fst snd] in *.
    destruct (spec_update_many (pol s) os ns) as [l'|]; destruct Hs as [Hb Hp]; rewrite Hb, Hp; auto.
  - destruct fvs as [|fv fvs']; cbn [fst snd]; [auto|].
    destruct (remove_filtered_spec s fi (fv :: fvs') I G) as (s' & res & eff & E & I' & P' & _ & R').
    rewrite E. cbn [fst snd]. split; [exact I'|]. rewrite P', R'. reflexivity.
  - cbn [fst snd]. split; [apply empty_Inv|reflexivity].
Qed.

(* every reachable state: any sequence of guarded calls *)
Fixpoint run_api (prio : option nat) (s : store) (ops : list sop) : store * list sres :=
  match ops with
  | [] => (s, [])
  | op :: t => let '(s1, r) := api_step prio s op in let '(s2, rs) := run_api prio s1 t in (s2, r :: rs)
  end.
Fixpoint run_spec (prio : option nat) (l : list rule) (ops : list sop) : list rule * list sres :=
  match ops with
  | [] => (l, [])
  | op :: t => let '(l1, r) := spec_step prio l op in let '(l2, rs) := run_spec prio l1 t in (l2, r :: rs)
  end.
Fixpoint guards (prio : option nat) (l : list rule) (ops : list sop) : Prop :=
  match ops with
  | [] => True
  | op :: t => op_guard l op /\ guards prio (fst (spec_step prio l op)) t
  end.

Theorem run_refines prio ops : forall s, Inv s -> guards prio (pol s) ops ->
  Inv (fst (run_api prio s ops)) /\
  pol (fst (run_api prio s ops)) = fst (run_spec prio (pol s) ops) /\
  snd (run_api prio s ops) = snd (run_spec prio (pol s) ops).
Proof.
  induction ops as [|op t IH]; intros s I G; cbn [run_api run_spec fst snd]; [auto|].
  destruct G as [G1 G2]. destruct (api_refines prio s op I G1) as [I1 E1].
  destruct (api_step prio s op) as [s1 r1]. destruct (spec_step prio (pol s) op) as [l1 r1'] eqn:Es.
  cbn [fst snd] in *. inversion E1; subst. destruct (IH s1 I1 G2) as [I2 [P2 R2]].
  destruct (run_api prio s1 t) as [s2 rs2]. destruct (run_spec prio (pol s1) t) as [l2 rs2'].
  cbn [fst snd] in *. subst. auto.
Qed.

(* ---------- consequences at the level of the specification ---------- *)
(* a call that reports false left the listed rules unchanged *)
Theorem spec_false_unchanged prio l op : snd (spec_step prio l op) = RBool false -> fst (spec_step prio l op) = l.
Proof.
  destruct op as [r|rs|rs|r|rs|o n|os ns|fi fvs|]; cbn [spec_step].
  - destruct (mem_rule r l); cbn [fst snd]; [reflexivity|discriminate].
  - destruct (existsb _ rs); cbn [fst snd]; [reflexivity|discriminate].
  - cbn [snd]. discriminate.
  - cbn [fst snd]. intros H. inversion H as [M]. apply remove_first_notin. intros Hin. apply mem_rule_In in Hin. congruence.
  - destruct (existsb _ rs); cbn [fst snd]; [discriminate|reflexivity].
  - cbn [fst snd]. intros H. inversion H as [M]. apply replace_first_notin. intros Hin. apply mem_rule_In in Hin. congruence.
  - destruct (Nat.eqb _ _); cbn [fst snd]; [|discriminate].
    destruct (spec_update_many l os ns); cbn [fst snd]; [discriminate|reflexivity].
  - destruct fvs; cbn [fst snd]; [discriminate|]. intros H. inversion H as [M].
    apply filter_all. clear H. induction l as [|x t IH]; cbn [existsb forallb] in *; [reflexivity|].
    apply orb_false_iff in M as [Mx Mt]. rewrite Mx, (IH Mt). reflexivity.
  - cbn [snd]. discriminate.
Qed.

(* a single-rule call that reports true changed the listed rules *)
Lemma remove_first_length r l : In r l -> S (List.length (remove_first r l)) = List.length l.
Proof.
  induction l as [|x t IH]; cbn [remove_first In List.length]; [tauto|]. intros H.
  destruct (rule_eqb r x) eqn:E; [reflexivity|]. cbn [List.length]. rewrite IH; [reflexivity|].
  destruct H as [H|H]; [subst; rewrite rule_eqb_refl in E; discriminate|exact H].
Qed.

Theorem spec_true_changed prio l op : NoDup l ->
  match op with
  | OAdd _ | ORemove _ | ORemoveMany _ | ORemoveFiltered _ _ => True
  | OUpdate o n => o <> n /\ ~ In n l
  | _ => False
  end ->
  snd (spec_step prio l op) = RBool true -> fst (spec_step prio l op) <> l.
Proof.
  intros ND G. destruct op as [r|rs|rs|r|rs|o n|os ns|fi fvs|]; try contradiction; cbn [spec_step].
  - destruct (mem_rule r l); cbn [fst snd]; [discriminate|]. intros _ E.
    pose proof (Permutation_length (spec_insert_perm prio l r)) as HL. rewrite E in HL. cbn [List.length] in HL. lia.
  - cbn [fst snd]. intros H E. inversion H as [M]. apply mem_rule_In in M. apply remove_first_length in M. rewrite E in M. lia.
  - destruct (existsb (fun r => mem_rule r l) rs) eqn:Ex; cbn [fst snd]; [|discriminate]. intros _ E.
    apply existsb_exists in Ex as [r [Hr M]]. apply mem_rule_In in M.
    assert (Hgone : forall rs l, In r rs -> NoDup l -> ~ In r (fst (spec_remove_many l rs))).
    { clear. induction rs as [|x t IH]; intros l Hin ND; [contradiction|]. cbn [spec_remove_many].
      destruct (spec_remove_many (remove_first x l) t) as [l' aff] eqn:Es. cbn [fst].
      assert (NDr : forall x l, NoDup l -> NoDup (remove_first x l)).
      { clear. intros x l. induction l as [|y t IH]; cbn [remove_first]; intros H; [constructor|]. inversion H; subst.
        destruct (rule_eqb x y); [assumption|]. constructor; [|auto]. intros Hin. apply H2.
        clear - Hin. induction t as [|z t IH]; cbn [remove_first] in Hin; [contradiction|].
        destruct (rule_eqb x z); [right; exact Hin|]. destruct Hin as [->|Hin]; [left; reflexivity|right; auto]. }
      assert (Hsub : forall rs l y, In y (fst (spec_remove_many l rs)) -> In y l).
      { clear. induction rs as [|x t IH]; intros l y; cbn [spec_remove_many]; [auto|].
        destruct (spec_remove_many (remove_first x l) t) as [l' aff] eqn:Es. cbn [fst]. intros Hy.
        specialize (IH (remove_first x l) y). rewrite Es in IH. specialize (IH Hy).
        clear - IH. induction l as [|z l IHl]; cbn [remove_first] in IH; [contradiction|].
        destruct (rule_eqb x z); [right; exact IH|]. destruct IH as [->|IH]; [left; reflexivity|right; auto]. }
      destruct Hin as [->|Hin].
      - intros Hl'. specialize (Hsub t (remove_first r l) r). rewrite Es in Hsub. specialize (Hsub Hl').
        clear - Hsub ND. induction l as [|z l IHl]; cbn [remove_first] in Hsub; [contradiction|]. inversion ND; subst.
        destruct (rule_eqb r z) eqn:E; [apply rule_eqb_eq in E; subst; contradiction|].
        destruct Hsub as [->|Hs]; [rewrite rule_eqb_refl in E; discriminate|auto].
      - specialize (IH (remove_first x l) Hin (NDr x l ND)). rewrite Es in IH. exact IH. }
    apply (Hgone rs l Hr ND). rewrite E. exact M.
  - destruct G as [Hne Nn]. cbn [fst snd]. intros H E. inversion H as [M]. apply mem_rule_In in M.
    apply Nn. rewrite <- E. clear - M Hne. induction l as [|x t IH]; cbn [replace_first]; [contradiction|].
    destruct (rule_eqb o x) eqn:Eo; [left; reflexivity|]. right. apply IH.
    destruct M as [->|M]; [rewrite rule_eqb_refl in Eo; discriminate|exact M].
  - destruct fvs; cbn [fst snd]; [discriminate|]. intros H E. inversion H as [M].
    apply existsb_exists in M as [x [Hx Mx]]. rewrite <- E in Hx. apply filter_In in Hx as [_ Hx]. rewrite Mx in Hx. discriminate.
Qed.

(* the listed rules never contain a duplicate, whatever the calls *)
Theorem Inv_NoDup s : Inv s -> NoDup (pol s).
Proof. intros [[ND _] _]. apply NoDup_keys_NoDup. exact ND. Qed.

(* removal and update keep the relative order of the remaining rules *)
Lemma remove_first_filter r l : NoDup l -> remove_first r l = filter (fun x => negb (rule_eqb r x)) l.
Proof.
  induction l as [|x t IH]; intros ND; cbn [remove_first filter]; [reflexivity|]. inversion ND; subst.
  destruct (rule_eqb r x) eqn:E; cbn [negb].
  - apply rule_eqb_eq in E. subst x. symmetry. apply filter_all. apply forallb_forall. intros y Hy.
    apply negb_true_iff. apply rule_eqb_neq. intros ->. contradiction.
  - rewrite IH by assumption. reflexivity.
Qed.

Lemma replace_first_map o n l : NoDup l -> replace_first o n l = map (fun x => if rule_eqb o x then n else x) l.
Proof.
  induction l as [|x t IH]; intros ND; cbn [replace_first map]; [reflexivity|]. inversion ND; subst.
  destruct (rule_eqb o x) eqn:E.
  - apply rule_eqb_eq in E. subst x. f_equal. symmetry. rewrite <- (map_id t) at 2. apply map_ext_in.
    intros y Hy. destruct (rule_eqb o y) eqn:E2; [apply rule_eqb_eq in E2; subst; contradiction|reflexivity].
  - rewrite IH by assumption. reflexivity.
Qed.
