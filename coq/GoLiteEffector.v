(* GoLiteEffector.v — how the arguments and results of the translated MergeEffects
   (Gen/GoFuns.v, regenerated from effector/default_effector.go) are read as the arguments and
   results of the hand-written model Effect.merge.  Definitions only. *)
From Coq Require Import List String ZArith Bool.
From Casbin Require Import Effect GoLite Gen.GoFuns.
Import ListNotations.
Open Scope string_scope.

(* effector.Effect: Allow = iota, Indeterminate, Deny *)
Definition eft_code (e : eft) : Z := match e with Allow => 0 | Indet => 1 | Deny => 2 end.

(* constant/constants.go *)
Definition classify (s : string) : effect_expr :=
  if String.eqb s "some(where (p_eft == allow))" then AllowOverride
  else if String.eqb s "!some(where (p_eft == deny))" then DenyOverride
  else if String.eqb s "some(where (p_eft == allow)) && !some(where (p_eft == deny))" then AllowAndDeny
  else if String.eqb s "priority(p_eft) || deny" then Priority
  else if String.eqb s "subjectPriority(p_eft) || deny" then SubjectPriority
  else Unsupported.

(* one slot of the Go arrays: matcherResults[i] (any float; only == 0 matters), policyEffects[i] *)
Definition slot := (Z * eft)%type.
Definition entry_of (p : slot) : bool * eft := (negb (Z.eqb (fst p) 0), snd p).
Definition effects_list (zs : list slot) : list val := map (fun p => VInt (eft_code (snd p))) zs.
Definition matches_list (zs : list slot) : list val := map (fun p => VInt (fst p)) zs.
Definition effects_val (zs : list slot) : val := VSlice (effects_list zs).
Definition matches_val (zs : list slot) : val := VSlice (matches_list zs).

Definition enc_result (r : option (eft * option nat)) : list val :=
  match r with
  | None => [VInt 2; VInt (-1); VErr "unsupported effect"]
  | Some (e, x) => [VInt (eft_code e); VInt (match x with Some j => Z.of_nat j | None => (-1) end); VNil]
  end.

Definition merge_args (s : string) (zs : list slot) (i n : nat) : list val :=
  [VStr s; effects_val zs; matches_val zs; VInt (Z.of_nat i); VInt (Z.of_nat n)].

(* the translated function agrees with the model on one input (a boolean, for finite sweeps and
   for the search for a failing input when the proof no longer goes through) *)
Fixpoint vals_eqb (a b : list val) : bool :=
  match a, b with
  | [], [] => true
  | VInt x :: a', VInt y :: b' => Z.eqb x y && vals_eqb a' b'
  | VNil :: a', VNil :: b' => vals_eqb a' b'
  | VErr x :: a', VErr y :: b' => String.eqb x y && vals_eqb a' b'
  | _, _ => false
  end.

Definition agrees_on (fn : func) (s : string) (zs : list slot) (i n : nat) : bool :=
  match call fn (merge_args s zs i n) (40 + List.length zs) with
  | OReturn vs => vals_eqb vs (enc_result (merge (classify s) (map entry_of zs) i n))
  | _ => false
  end.

Definition all_slots : list slot := [(0%Z, Allow); (0%Z, Indet); (0%Z, Deny); (1%Z, Allow); (1%Z, Indet); (1%Z, Deny)].
Fixpoint slot_vecs (n : nat) : list (list slot) :=
  match n with
  | O => [[]]
  | S k => flat_map (fun v => map (fun x => x :: v) all_slots) (slot_vecs k)
  end.
Definition effect_texts : list string :=
  ["some(where (p_eft == allow))"; "!some(where (p_eft == deny))";
   "some(where (p_eft == allow)) && !some(where (p_eft == deny))";
   "priority(p_eft) || deny"; "subjectPriority(p_eft) || deny"; "some(where (p_eft == deny))"; ""].

(* every (text, vector of length n, index < n) with policyLength = n *)
Definition sweep (fn : func) (n : nat) : list (string * list slot * nat) :=
  flat_map (fun s => flat_map (fun v => flat_map (fun i =>
     if agrees_on fn s v i n then [] else [(s, v, i)]) (seq 0 n)) (slot_vecs n)) effect_texts.

(* ---------- the translated effector inside the hand-written enforce loop ---------- *)
Definition eft_of_code (c : Z) : eft := if Z.eqb c 0 then Allow else if Z.eqb c 2 then Deny else Indet.
(* Some r: a return of the expected shape; None: anything else (panic, fuel, wrong arity) *)
Definition dec_result (o : outcome) : option (option (eft * option nat)) :=
  match o with
  | OReturn [VInt c; VInt x; VNil] =>
      Some (Some (eft_of_code c, if Z.ltb x 0 then None else Some (Z.to_nat x)))
  | OReturn [VInt _; VInt _; VErr _] => Some None
  | _ => None
  end.
Definition slot_of (x : bool * eft) : slot := ((if fst x then 1 else 0)%Z, snd x).

(* MergeEffects AS TRANSLATED, run by the GoLite interpreter on the arrays of the enforce loop
   (a stuck run counts as an error) *)
Definition merge_gen (s : string) (a : list (bool * eft)) (i n : nat) : option (eft * option nat) :=
  match dec_result (call MergeEffects (merge_args s (map slot_of a) i n) (40 + List.length a)) with
  | Some r => r
  | None => None
  end.

(* Effect.loop with the effector as a parameter *)
Fixpoint loop_with (mg : list (bool * eft) -> nat -> nat -> option (eft * option nat))
         (v : list (bool * eft)) (n : nat) (fuel i : nat) : option (eft * option nat) :=
  match fuel with
  | 0 => Some (Indet, None)
  | S fuel' =>
      match mg (arr v i n) i n with
      | None => None
      | Some r =>
          match fst r with
          | Indet => if Nat.eqb (S i) n then Some r else loop_with mg v n fuel' (S i)
          | _ => Some r
          end
      end
  end.

(* the enforce loop (hand-written model of enforcer.go) around the translated effector *)
Definition stream_gen (s : string) (v : list (bool * eft)) : Effect.outcome :=
  match loop_with (merge_gen s) v (List.length v) (List.length v) 0 with
  | None => {| decision := false; explain := None; failed := true |}
  | Some (e, x) => {| decision := eft_eqb e Allow; explain := x; failed := false |}
  end.
