(* SyncProofs.v -- proofs about the lock protocol model of Sync.v.
   Part 1: lock invariant, mutual exclusion, race freedom from table_ok, deadlock freedom.
   Part 2: linearizability of calls that are one section (C13).
   Part 3: the auto-load protocol. *)
From Coq Require Import List String NArith Bool Arith Lia.
Import ListNotations.
From Casbin Require Import Sync.

Lemma upd_same : forall A (f : tid -> A) t x, upd f t x t = x.
Proof. intros. unfold upd. now rewrite Nat.eqb_refl. Qed.

Lemma upd_other : forall A (f : tid -> A) t x u, u <> t -> upd f t x u = f u.
Proof. intros. unfold upd. destruct (Nat.eqb u t) eqn:E; auto. apply Nat.eqb_eq in E. contradiction. Qed.

Section MachineProofs.
  Variables Sec Call St Loc Ret : Type.
  Variable mode_of : Sec -> mode.
  Variable body_of : Sec -> list (Loc -> St -> Loc * St).
  Variable impl : Call -> list Sec.
  Variable loc0 : Call -> Loc.
  Variable ret_of : Call -> Loc -> Ret.

  Notation config := (config Sec Call St Loc Ret).
  Notation tstate := (tstate Sec Call St Loc).
  Notation step_by := (step_by Sec Call St Loc Ret mode_of body_of impl loc0 ret_of).
  Notation step := (step Sec Call St Loc Ret mode_of body_of impl loc0 ret_of).
  Notation reachable := (reachable Sec Call St Loc Ret mode_of body_of impl loc0 ret_of).
  Notation inside := (inside Sec Call St Loc Ret).
  Notation init := (init Sec Call St Loc Ret).

  (* ---------------------------------------------------------------- the shape of a step *)

  Inductive step_view (t : tid) (c c' : config) : Prop :=
  | SV_invoke : forall ca todo,
      th c t = TIdle (ca :: todo) ->
      sh c' = sh c -> wr c' = wr c -> rd c' = rd c -> cnt c' = cnt c -> glin c' = glin c ->
      th c' = upd (th c) t (TCall ca (loc0 ca) (impl ca) todo) ->
      tr c' = EInv t (cnt c t) ca :: tr c -> step_view t c c'
  | SV_return : forall ca l todo,
      th c t = TCall ca l [] todo ->
      sh c' = sh c -> wr c' = wr c -> rd c' = rd c -> glin c' = glin c ->
      cnt c' = upd (cnt c) t (S (cnt c t)) ->
      th c' = upd (th c) t (TIdle todo) ->
      tr c' = ERet t (cnt c t) (ret_of ca l) :: tr c -> step_view t c c'
  | SV_acquire : forall ca l s secs todo,
      th c t = TCall ca l (s :: secs) todo ->
      can_acquire Sec Call St Loc Ret (mode_of s) c = true ->
      sh c' = sh c -> cnt c' = cnt c -> tr c' = tr c ->
      (wr c', rd c') = acquire Sec Call St Loc Ret (mode_of s) t c ->
      th c' = upd (th c) t (TIn ca l s (body_of s) (sh c) secs todo) ->
      glin c' = (t, cnt c t, ca) :: glin c -> step_view t c c'
  | SV_micro : forall ca l s m k s0 secs todo,
      th c t = TIn ca l s (m :: k) s0 secs todo ->
      wr c' = wr c -> rd c' = rd c -> cnt c' = cnt c -> tr c' = tr c -> glin c' = glin c ->
      sh c' = snd (m l (sh c)) ->
      th c' = upd (th c) t (TIn ca (fst (m l (sh c))) s k s0 secs todo) -> step_view t c c'
  | SV_release : forall ca l s s0 secs todo,
      th c t = TIn ca l s [] s0 secs todo ->
      sh c' = sh c -> cnt c' = cnt c -> tr c' = tr c -> glin c' = glin c ->
      (wr c', rd c') = release Sec Call St Loc Ret (mode_of s) t c ->
      th c' = upd (th c) t (TCall ca l secs todo) -> step_view t c c'.

  Lemma step_by_view : forall t c c', step_by t c = Some c' -> step_view t c c'.
  Proof.
    intros t c c' H. unfold Sync.step_by in H.
    destruct (th c t) as [todo | ca l secs todo | ca l s k s0 secs todo] eqn:E.
    - destruct todo as [| ca todo]; [discriminate|]. inversion H; subst; clear H.
      eapply SV_invoke; eauto.
    - destruct secs as [| s secs].
      + inversion H; subst; clear H. eapply SV_return; eauto.
      + destruct (can_acquire _ _ _ _ _ (mode_of s) c) eqn:CA; [|discriminate].
        destruct (acquire _ _ _ _ _ (mode_of s) t c) as [w' r'] eqn:A.
        inversion H; subst; clear H. eapply SV_acquire; eauto; cbn; try now rewrite A.
    - destruct k as [| m k].
      + destruct (release _ _ _ _ _ (mode_of s) t c) as [w' r'] eqn:A.
        inversion H; subst; clear H. eapply SV_release; eauto; cbn; try now rewrite A.
      + destruct (m l (sh c)) as [l' st'] eqn:M.
        inversion H; subst; clear H. eapply SV_micro; eauto; cbn; try now rewrite M.
  Qed.

  (* ---------------------------------------------------------------- lock invariant *)

  Definition lock_inv (c : config) : Prop :=
    (forall t, wr c = Some t -> rd c = [] /\ exists s, inside c t s /\ mode_of s = W) /\
    (forall t, In t (rd c) -> exists s, inside c t s /\ mode_of s = R) /\
    (forall t s, inside c t s ->
       match mode_of s with W => wr c = Some t | R => In t (rd c) | NoLock => True end).

  Lemma inside_upd_other : forall (c c' : config) t x u s,
    th c' = upd (th c) t x -> u <> t -> (inside c' u s <-> inside c u s).
  Proof.
    intros c c' t x u s H N. unfold Sync.inside. rewrite H. rewrite upd_other by auto. tauto.
  Qed.

  Lemma inside_upd_other_fwd : forall (c c' : config) t x u s,
    th c' = upd (th c) t x -> u <> t -> inside c' u s -> inside c u s.
  Proof. intros c c' t x u s H N Hs. apply (inside_upd_other c c' t x u s H N). exact Hs. Qed.

  Lemma inside_upd_other_bwd : forall (c c' : config) t x u s,
    th c' = upd (th c) t x -> u <> t -> inside c u s -> inside c' u s.
  Proof. intros c c' t x u s H N Hs. apply (inside_upd_other c c' t x u s H N). exact Hs. Qed.

  Lemma inside_upd_same : forall (c c' : config) t x s,
    th c' = upd (th c) t x ->
    (inside c' t s <-> exists ca l k s0 secs todo, x = TIn ca l s k s0 secs todo).
  Proof.
    intros c c' t x s H. unfold Sync.inside. rewrite H. rewrite upd_same. tauto.
  Qed.

  Lemma inside_fun : forall (c : config) t s1 s2, inside c t s1 -> inside c t s2 -> s1 = s2.
  Proof.
    intros c t s1 s2 (ca & l & k & s0 & secs & todo & H1) (ca' & l' & k' & s0' & secs' & todo' & H2).
    rewrite H1 in H2. now inversion H2.
  Qed.

  Lemma not_inside_idle : forall (c : config) t s todo, th c t = TIdle todo -> ~ inside c t s.
  Proof. intros c t s todo H (ca & l & k & s0 & secs & td & H2). rewrite H in H2. discriminate. Qed.

  Lemma not_inside_call : forall (c : config) t s ca l secs todo, th c t = TCall ca l secs todo -> ~ inside c t s.
  Proof. intros c t s ca l secs todo H (ca' & l' & k & s0 & secs' & td & H2). rewrite H in H2. discriminate. Qed.

  (* steps that leave the lock alone and do not change who is inside a locked section *)
  Lemma lock_inv_frame : forall c c' : config,
    wr c' = wr c -> rd c' = rd c ->
    (forall u s, mode_of s <> NoLock -> (inside c' u s <-> inside c u s)) ->
    lock_inv c -> lock_inv c'.
  Proof.
    intros c c' Hw Hr EQ (I1 & I2 & I3). unfold lock_inv. rewrite Hw, Hr. split; [|split].
    - intros u Hu. destruct (I1 _ Hu) as (R0 & s & Hs & Hm). split; auto.
      exists s. split; auto. apply EQ; auto. congruence.
    - intros u Hu. destruct (I2 _ Hu) as (s & Hs & Hm). exists s. split; auto. apply EQ; auto. congruence.
    - intros u s Hs. destruct (mode_of s) eqn:M; auto.
      + assert (Hs' : inside c u s) by (apply EQ; auto; congruence). specialize (I3 _ _ Hs'). now rewrite M in I3.
      + assert (Hs' : inside c u s) by (apply EQ; auto; congruence). specialize (I3 _ _ Hs'). now rewrite M in I3.
  Qed.

  Lemma lock_inv_step : forall t c c', lock_inv c -> step_by t c = Some c' -> lock_inv c'.
  Proof.
    intros t c c' I H. apply step_by_view in H.
    destruct H as [ca todo E Hsh Hwr Hrd Hcnt Hgl Hth Htr
                  | ca l todo E Hsh Hwr Hrd Hgl Hcnt Hth Htr
                  | ca l s secs todo E CA Hsh Hcnt Htr Hacq Hth Hgl
                  | ca l s m k s0 secs todo E Hwr Hrd Hcnt Htr Hgl Hsh Hth
                  | ca l s s0 secs todo E Hsh Hcnt Htr Hgl Hrel Hth].
    - (* invoke *)
      apply (lock_inv_frame c c'); auto. intros u s' _. destruct (Nat.eq_dec u t).
      + subst u. split; intro Hs; exfalso.
        * destruct Hs as (? & ? & ? & ? & ? & ? & Hs). rewrite Hth, upd_same in Hs. discriminate.
        * eapply not_inside_idle; eauto.
      + eapply inside_upd_other; eauto.
    - (* return *)
      apply (lock_inv_frame c c'); auto. intros u s' _. destruct (Nat.eq_dec u t).
      + subst u. split; intro Hs; exfalso.
        * destruct Hs as (? & ? & ? & ? & ? & ? & Hs). rewrite Hth, upd_same in Hs. discriminate.
        * eapply not_inside_call; eauto.
      + eapply inside_upd_other; eauto.
    - (* acquire *)
      assert (NI : forall s', ~ inside c t s') by (intros s'; eapply not_inside_call; eauto).
      assert (IN' : inside c' t s).
      { unfold Sync.inside. rewrite Hth, upd_same. repeat eexists. }
      unfold Sync.can_acquire in CA. unfold Sync.acquire in Hacq.
      destruct (mode_of s) eqn:M.
      + (* R *)
        destruct I as (I1 & I2 & I3).
        destruct (wr c) eqn:W0; [discriminate|]. inversion Hacq as [[Hw Hr]]. clear Hacq.
        unfold lock_inv. rewrite Hw, Hr. split; [|split].
        * intros u Hu. discriminate.
        * intros u [Hu | Hu].
          -- subst u. exists s. auto.
          -- destruct (I2 _ Hu) as (s' & Hs & Hm). exists s'. split; auto.
             destruct (Nat.eq_dec u t); [subst; exfalso; eapply NI; eauto|].
             eapply inside_upd_other_bwd; eauto.
        * intros u s' Hs. destruct (Nat.eq_dec u t).
          -- subst u. rewrite (inside_fun _ _ _ _ Hs IN'). rewrite M. now left.
          -- eapply inside_upd_other_fwd in Hs; eauto. specialize (I3 _ _ Hs).
             destruct (mode_of s'); auto; try discriminate; try (now right).
      + (* W *)
        destruct I as (I1 & I2 & I3).
        destruct (wr c) eqn:W0; [discriminate|]. destruct (rd c) eqn:R0; [|discriminate].
        inversion Hacq as [[Hw Hr]]. clear Hacq.
        unfold lock_inv. rewrite Hw, Hr. split; [|split].
        * intros u Hu. inversion Hu; subst u. split; auto. exists s. auto.
        * intros u Hu. contradiction.
        * intros u s' Hs. destruct (Nat.eq_dec u t).
          -- subst u. rewrite (inside_fun _ _ _ _ Hs IN'). now rewrite M.
          -- eapply inside_upd_other_fwd in Hs; eauto. specialize (I3 _ _ Hs).
             destruct (mode_of s'); auto; try discriminate; try contradiction.
      + (* NoLock *)
        inversion Hacq as [[Hw Hr]]. clear Hacq.
        apply (lock_inv_frame c c'); auto. intros u s' Hm. destruct (Nat.eq_dec u t).
        * subst u. split; intro Hs; exfalso.
          -- rewrite (inside_fun _ _ _ _ Hs IN') in Hm. congruence.
          -- eapply NI; eauto.
        * eapply inside_upd_other; eauto.
    - (* micro-step: t stays inside the same section *)
      assert (IN : inside c t s) by (repeat eexists; eauto).
      assert (IN' : inside c' t s).
      { unfold Sync.inside. rewrite Hth, upd_same. repeat eexists. }
      apply (lock_inv_frame c c'); auto. intros u s' _. destruct (Nat.eq_dec u t).
      + subst u. split; intro Hs.
        * now rewrite (inside_fun _ _ _ _ Hs IN').
        * now rewrite (inside_fun _ _ _ _ Hs IN).
      + eapply inside_upd_other; eauto.
    - (* release *)
      assert (IN : inside c t s) by (repeat eexists; eauto).
      assert (NI' : forall s', ~ inside c' t s').
      { intros s' (? & ? & ? & ? & ? & ? & Hs). rewrite Hth, upd_same in Hs. discriminate. }
      unfold Sync.release in Hrel. destruct (mode_of s) eqn:M.
      + (* R *)
        destruct I as (I1 & I2 & I3). specialize (I3 _ _ IN) as I3t. rewrite M in I3t.
        inversion Hrel as [[Hw Hr]]. clear Hrel.
        assert (W0 : wr c = None).
        { destruct (wr c) eqn:W0; auto. destruct (I1 _ eq_refl) as (R0 & _). rewrite ?R0 in I3t; contradiction. }
        unfold lock_inv. rewrite Hw, Hr, W0. split; [|split].
        * intros u Hu. discriminate.
        * intros u Hu. apply in_remove in Hu. destruct Hu as (Hu & Hn).
          destruct (I2 _ Hu) as (s' & Hs & Hm). exists s'. split; auto.
          eapply inside_upd_other_bwd; eauto.
        * intros u s' Hs. destruct (Nat.eq_dec u t); [subst; exfalso; eapply NI'; eauto|].
          eapply inside_upd_other_fwd in Hs; eauto. specialize (I3 _ _ Hs).
          destruct (mode_of s'); auto; try congruence.
          apply in_in_remove; auto.
      + (* W *)
        destruct I as (I1 & I2 & I3). specialize (I3 _ _ IN) as I3t. rewrite M in I3t.
        inversion Hrel as [[Hw Hr]]. clear Hrel.
        destruct (I1 _ I3t) as (R0 & _).
        unfold lock_inv. rewrite Hw, Hr, R0. split; [|split].
        * intros u Hu. discriminate.
        * intros u Hu. contradiction.
        * intros u s' Hs. destruct (Nat.eq_dec u t); [subst; exfalso; eapply NI'; eauto|].
          eapply inside_upd_other_fwd in Hs; eauto. specialize (I3 _ _ Hs).
          destruct (mode_of s'); auto.
          -- rewrite R0 in I3. contradiction.
          -- exfalso. rewrite I3t in I3. inversion I3. congruence.
      + (* NoLock *)
        inversion Hrel as [[Hw Hr]]. clear Hrel.
        apply (lock_inv_frame c c'); auto. intros u s' Hm. destruct (Nat.eq_dec u t).
        * subst u. split; intro Hs; exfalso.
          -- eapply NI'; eauto.
          -- rewrite (inside_fun _ _ _ _ Hs IN) in Hm. congruence.
        * eapply inside_upd_other; eauto.
  Qed.

  Lemma lock_inv_init : forall s prog, lock_inv (init s prog).
  Proof.
    intros s prog. unfold lock_inv, Sync.init; cbn. repeat split; try discriminate; try contradiction.
    intros t s' (ca & l & k & s0 & secs & todo & H). cbn in H. discriminate.
  Qed.

  Lemma lock_inv_reachable : forall s prog c, reachable (init s prog) c -> lock_inv c.
  Proof.
    intros s prog c H. induction H.
    - apply lock_inv_init.
    - destruct H0 as (t & Ht). eapply lock_inv_step; eauto.
  Qed.

  (* mutual exclusion: two distinct threads are inside sections only if the lock allows it *)
  Theorem mutual_exclusion : forall s prog c t1 t2 s1 s2,
    reachable (init s prog) c -> t1 <> t2 -> inside c t1 s1 -> inside c t2 s2 ->
    can_overlap (mode_of s1) (mode_of s2) = true.
  Proof.
    intros s prog c t1 t2 s1 s2 HR N H1 H2.
    destruct (lock_inv_reachable _ _ _ HR) as (I1 & I2 & I3).
    pose proof (I3 _ _ H1) as A1. pose proof (I3 _ _ H2) as A2.
    destruct (mode_of s1) eqn:M1, (mode_of s2) eqn:M2; cbn; auto.
    - destruct (I1 _ A2) as (R0 & _). rewrite ?R0 in A1; contradiction.
    - destruct (I1 _ A1) as (R0 & _). rewrite ?R0 in A2; contradiction.
    - rewrite A1 in A2. inversion A2. contradiction.
  Qed.

  (* ---------------------------------------------------------------- deadlock freedom *)

  (* every section is entered by acquiring the one lock in its mode and left by releasing it
     (that is what a [section] is), so: as long as some thread is not finished, some thread can
     move.  Holds for every program. *)
  Theorem deadlock_free : forall s prog c t,
    reachable (init s prog) c -> ~ finished Sec Call St Loc Ret c t -> exists c', step c c'.
  Proof.
    intros s prog c t HR NF.
    destruct (lock_inv_reachable _ _ _ HR) as (I1 & I2 & I3).
    assert (INS : forall u s', inside c u s' -> exists c', step c c').
    { intros u s' (ca & l & k & s0 & secs & todo & E). unfold Sync.step.
      exists (match step_by u c with Some c' => c' | None => c end). exists u.
      unfold Sync.step_by. rewrite E. destruct k as [|m k].
      - destruct (release _ _ _ _ _ (mode_of s') u c). reflexivity.
      - destruct (m l (sh c)). reflexivity. }
    destruct (wr c) as [w|] eqn:W0.
    - destruct (I1 _ eq_refl) as (_ & s' & Hs & _). eapply INS; eauto.
    - destruct (rd c) as [|r rs] eqn:R0.
      + (* the lock is free: t itself can move *)
        unfold Sync.finished in NF. unfold Sync.step.
        exists (match step_by t c with Some c' => c' | None => c end). exists t.
        unfold Sync.step_by.
        destruct (th c t) as [todo | ca l secs todo | ca l s' k s0 secs todo] eqn:E.
        * destruct todo; [congruence | reflexivity].
        * destruct secs as [|s' secs]; [reflexivity|].
          assert (CA : can_acquire _ _ _ _ _ (mode_of s') c = true).
          { unfold Sync.can_acquire. rewrite ?W0, ?R0. destruct (mode_of s'); reflexivity. }
          rewrite CA. destruct (acquire _ _ _ _ _ (mode_of s') t c). reflexivity.
        * destruct k as [|m k].
          -- destruct (release _ _ _ _ _ (mode_of s') t c). reflexivity.
          -- destruct (m l (sh c)). reflexivity.
      + destruct (I2 r) as (s' & Hs & _); [rewrite ?R0; now left|]. eapply INS; eauto.
  Qed.

End MachineProofs.

(* ------------------------------------------------------------------ C12: tables *)

Lemma can_overlap_sym : forall a b, can_overlap a b = can_overlap b a.
Proof. destruct a, b; reflexivity. Qed.

Lemma conflictingb_true : forall a b, conflicting a b -> conflictingb a b = true.
Proof.
  intros a b (L & Wr & Sy). unfold conflictingb. rewrite L, N.eqb_refl. cbn.
  apply andb_true_iff. split.
  - destruct Wr as [Wr | Wr]; rewrite Wr; auto using orb_true_r.
  - destruct Sy as [Sy | Sy]; rewrite Sy; auto using orb_true_r.
Qed.

Lemma conflicting_sym : forall a b, conflicting a b -> conflicting b a.
Proof. intros a b (L & Wr & Sy). repeat split; auto; tauto. Qed.

Lemma in_accs_write : forall s a, In a (accs s) -> a_write a = true -> In a (writes s).
Proof.
  intros s a H Wr. unfold accs in H. unfold writes.
  repeat (apply in_app_or in H; destruct H as [H | H]);
    apply in_map_iff in H; destruct H as (l & E & Hl); subst a; cbn in Wr; try discriminate.
  - apply in_or_app. left. apply in_map_iff. eauto.
  - apply in_or_app. right. apply in_map_iff. eauto.
Qed.

Lemma half_conflictb_true : forall s1 s2 a b,
  In a (accs s1) -> In b (accs s2) -> a_write a = true -> conflicting a b -> half_conflictb s1 s2 = true.
Proof.
  intros s1 s2 a b Ha Hb Wr C. unfold half_conflictb.
  apply existsb_exists. exists a. split; [now apply in_accs_write|].
  apply existsb_exists. exists b. split; auto. now apply conflictingb_true.
Qed.

Section TableProofs.
  Variables St Loc Ret : Type.
  Variable body_of : section -> list (Loc -> St -> Loc * St).
  Variable loc0 : wrapper -> Loc.
  Variable ret_of : wrapper -> Loc -> Ret.
  Variable T : list wrapper.

  Notation tconfig := (tconfig St Loc Ret).
  Notation treachable := (treachable St Loc Ret body_of loc0 ret_of).
  Notation tinit := (tinit St Loc Ret).
  Notation tstep_by := (tstep_by St Loc Ret body_of loc0 ret_of).
  Notation inside := (inside section wrapper St Loc Ret).

  Definition calls_in (prog : tid -> list wrapper) : Prop := forall t w, In w (prog t) -> In w T.

  Definition secs_inv (c : tconfig) : Prop := forall t,
    match th c t with
    | TIdle todo => Forall (fun w => In w T) todo
    | TCall ca l secs todo => incl secs (all_sections T) /\ Forall (fun w => In w T) todo
    | TIn ca l s k s0 secs todo =>
        In s (all_sections T) /\ incl secs (all_sections T) /\ Forall (fun w => In w T) todo
    end.

  Lemma secs_inv_step : forall t c c', secs_inv c -> tstep_by t c = Some c' -> secs_inv c'.
  Proof.
    intros t c c' I H. unfold Sync.tstep_by in H. apply step_by_view in H.
    intro u. specialize (I u) as Iu. specialize (I t) as It.
    destruct H as [ca todo E Hsh Hwr Hrd Hcnt Hgl Hth Htr
                  | ca l todo E Hsh Hwr Hrd Hgl Hcnt Hth Htr
                  | ca l s secs todo E CA Hsh Hcnt Htr Hacq Hth Hgl
                  | ca l s m k s0 secs todo E Hwr Hrd Hcnt Htr Hgl Hsh Hth
                  | ca l s s0 secs todo E Hsh Hcnt Htr Hgl Hrel Hth];
      rewrite Hth; (destruct (Nat.eq_dec u t) as [->|N]; [rewrite upd_same | rewrite upd_other by auto; exact Iu]);
      rewrite E in It.
    - inversion It; subst. split; auto.
      intros s Hs. unfold all_sections. apply in_flat_map. eauto.
    - tauto.
    - destruct It as (Hi & Hf). repeat split; auto.
      + apply Hi. now left.
      + intros x Hx. apply Hi. now right.
    - tauto.
    - tauto.
  Qed.

  Lemma secs_inv_reachable : forall s prog c, calls_in prog -> treachable (tinit s prog) c -> secs_inv c.
  Proof.
    intros s prog c CI H. induction H.
    - intro t. cbn. apply Forall_forall. intros w Hw. eapply CI; eauto.
    - destruct H0 as (t & Ht). eapply secs_inv_step; eauto.
  Qed.

  (* table_ok is sound: under ANY schedule of ANY number of threads running ANY sequence of
     wrappers of T, no reachable state has two threads inside sections with conflicting accesses *)
  Theorem lock_discipline_sound :
    table_ok T = true ->
    forall s prog c, calls_in prog -> treachable (tinit s prog) c ->
    ~ race_state St Loc Ret c.
  Proof.
    intros OK s prog c CI HR (t1 & t2 & s1 & s2 & a & b & N & H1 & H2 & Ha & Hb & C).
    pose proof (mutual_exclusion _ _ _ _ _ s_mode body_of w_sections loc0 ret_of s prog c t1 t2 s1 s2 HR N H1 H2) as MX.
    pose proof (secs_inv_reachable _ _ _ CI HR) as SI.
    assert (In1 : In s1 (all_sections T)).
    { specialize (SI t1). destruct H1 as (? & ? & ? & ? & ? & ? & E). rewrite E in SI. tauto. }
    assert (In2 : In s2 (all_sections T)).
    { specialize (SI t2). destruct H2 as (? & ? & ? & ? & ? & ? & E). rewrite E in SI. tauto. }
    unfold table_ok in OK. apply andb_true_iff in OK. destruct OK as (_ & OK).
    rewrite forallb_forall in OK.
    pose proof (OK _ In1) as O1. rewrite forallb_forall in O1. specialize (O1 _ In2).
    pose proof (OK _ In2) as O2. rewrite forallb_forall in O2. specialize (O2 _ In1).
    unfold pair_ok in O1, O2. rewrite can_overlap_sym in O2. rewrite MX in O1, O2.
    destruct C as (L & Wr & Sy). destruct Wr as [Wr | Wr].
    - rewrite (half_conflictb_true s1 s2 a b) in O1; auto. discriminate. repeat split; auto.
    - rewrite (half_conflictb_true s2 s1 b a) in O2; auto. discriminate.
      apply conflicting_sym. repeat split; auto.
  Qed.

  (* table_ok in words (used as documentation and by the non-vacuity examples) *)
  Lemma table_ok_no_plain_write_outside_W : table_ok T = true ->
    forall s l, In s (all_sections T) -> In l (s_pw s) -> s_mode s = W.
  Proof.
    intros OK s l Hs Hl. unfold table_ok in OK. apply andb_true_iff in OK. destruct OK as (_ & OK).
    rewrite forallb_forall in OK. specialize (OK _ Hs). rewrite forallb_forall in OK. specialize (OK _ Hs).
    unfold pair_ok in OK. destruct (s_mode s) eqn:M; auto; cbn in OK; exfalso.
    - rewrite (half_conflictb_true s s (l, true, false) (l, true, false)) in OK; try discriminate; auto.
      + unfold accs. apply in_or_app. right. apply in_or_app. left. apply in_map_iff. eauto.
      + unfold accs. apply in_or_app. right. apply in_or_app. left. apply in_map_iff. eauto.
      + repeat split; auto.
    - rewrite (half_conflictb_true s s (l, true, false) (l, true, false)) in OK; try discriminate; auto.
      + unfold accs. apply in_or_app. right. apply in_or_app. left. apply in_map_iff. eauto.
      + unfold accs. apply in_or_app. right. apply in_or_app. left. apply in_map_iff. eauto.
      + repeat split; auto.
  Qed.

End TableProofs.

(* ------------------------------------------------------------------ C13: linearizability *)

Section LinProofs.
  Variables Sec Call St Loc Ret : Type.
  Variable mode_of : Sec -> mode.
  Variable body_of : Sec -> list (Loc -> St -> Loc * St).
  Variable impl : Call -> list Sec.
  Variable loc0 : Call -> Loc.
  Variable ret_of : Call -> Loc -> Ret.
  Variable seq_step : St -> Call -> St * Ret.
  Variable s_init : St.

  Notation config := (config Sec Call St Loc Ret).
  Notation step_by := (step_by Sec Call St Loc Ret mode_of body_of impl loc0 ret_of).
  Notation reachable := (reachable Sec Call St Loc Ret mode_of body_of impl loc0 ret_of).
  Notation inside := (inside Sec Call St Loc Ret).
  Notation init := (init Sec Call St Loc Ret).
  Notation run := (run St Loc).
  Notation pure_micro := (pure_micro St Loc).
  Notation atomic := (atomic_call Sec Call St Loc Ret mode_of body_of impl loc0 ret_of seq_step).
  Notation spec_run := (spec_run Call St Ret seq_step s_init).
  Notation outs := (outs Call St Ret seq_step s_init).
  Notation ids := (ids Call).
  Notation id_of := (id_of Call).
  Notation call_of := (call_of Call).
  Notation returns_before := (returns_before Call Ret).
  Notation placed_before := (placed_before Call).
  Notation lock_inv := (lock_inv Sec Call St Loc Ret mode_of).

  Lemma run_pure : forall k l st, Forall pure_micro k -> snd (run k l st) = st.
  Proof.
    induction k as [|m k IH]; intros l st H; cbn; auto.
    inversion H; subst. destruct (m l st) as [l' st'] eqn:E.
    rewrite IH; auto. specialize (H2 l st). now rewrite E in H2.
  Qed.

  Lemma run_cons : forall m k l st, run (m :: k) l st = run k (fst (m l st)) (snd (m l st)).
  Proof. intros. cbn. now destruct (m l st). Qed.

  Lemma outs_cons : forall x y L, In x (outs L) -> In x (outs (y :: L)).
  Proof. intros. cbn. now right. Qed.

  Lemma outs_mid : forall L1 x L2,
    In (id_of x, snd (seq_step (spec_run L2) (call_of x))) (outs (L1 ++ x :: L2)).
  Proof.
    induction L1 as [|y L1 IH]; intros x L2; cbn.
    - now left.
    - right. apply IH.
  Qed.

  Lemma outs_ids : forall L i r, In (i, r) (outs L) -> In i (ids L).
  Proof.
    induction L as [|x L IH]; intros i r H; cbn in *; [contradiction|].
    destruct H as [H | H].
    - inversion H; subst. now left.
    - right. eapply IH; eauto.
  Qed.

  Lemma in_ids : forall L t n, In (t, n) (ids L) -> exists ca, In (t, n, ca) L.
  Proof.
    intros L t n H. unfold Sync.ids in H. apply in_map_iff in H.
    destruct H as (((t', n'), ca) & E & H). unfold Sync.id_of in E. cbn in E. inversion E; subst. eauto.
  Qed.

  Lemma ids_in : forall L t n ca, In (t, n, ca) L -> In (t, n) (ids L).
  Proof. intros L t n ca H. unfold Sync.ids. apply in_map_iff. exists (t, n, ca). auto. Qed.

  (* a read-only atomic call does not change the sequential state *)
  Lemma atomic_R_pure : forall ca s st, atomic ca -> impl ca = [s] -> mode_of s = R -> fst (seq_step st ca) = st.
  Proof.
    intros ca s st (s' & Hi & Hm & Hs) E M. rewrite Hi in E. inversion E; subst s'.
    destruct Hm as [Hm | (_ & Hp)]; [congruence|].
    destruct (Hs st) as (H1 & _). rewrite <- H1. now apply run_pure.
  Qed.

  Definition post (c : config) (t : tid) : Prop :=
    match th c t with
    | TIn _ _ _ _ _ _ _ => True
    | TCall _ _ [] _ => True
    | _ => False
    end.

  (* per-thread invariant *)
  Definition tinv (c : config) (t : tid) : Prop :=
    match th c t with
    | TIdle todo => Forall atomic todo
    | TCall ca l secs todo =>
        atomic ca /\ Forall atomic todo /\ In (EInv t (cnt c t) ca) (tr c) /\
        ((secs = impl ca /\ l = loc0 ca) \/
         (secs = [] /\ In ((t, cnt c t), ret_of ca l) (outs (glin c))))
    | TIn ca l s k s0 secs todo =>
        atomic ca /\ Forall atomic todo /\ In (EInv t (cnt c t) ca) (tr c) /\
        impl ca = [s] /\ secs = [] /\
        run k l (sh c) = run (body_of s) (loc0 ca) s0 /\
        match mode_of s with
        | W => exists L', glin c = (t, cnt c t, ca) :: L' /\ s0 = spec_run L'
        | R => Forall pure_micro k /\ sh c = s0 /\
               exists L1 L2, glin c = L1 ++ (t, cnt c t, ca) :: L2 /\ spec_run L2 = s0
        | NoLock => False
        end
    end.

  Record Inv (c : config) : Prop := {
    inv_lock : lock_inv c;
    inv_thr : forall t, tinv c t;
    inv_state : wr c = None -> sh c = spec_run (glin c);
    inv_ret : forall t n r, In (ERet t n r) (tr c) -> In ((t, n), r) (outs (glin c));
    inv_inv : forall t n ca, In (t, n, ca) (glin c) -> In (EInv t n ca) (tr c);
    inv_nodup : NoDup (ids (glin c));
    inv_ids : forall t n ca, In (t, n, ca) (glin c) -> n < cnt c t \/ (n = cnt c t /\ post c t);
    inv_rt : forall a b, returns_before (tr c) a b -> In b (ids (glin c)) -> placed_before (glin c) a b
  }.

  Lemma placed_before_cons : forall L x a b, placed_before L a b -> placed_before (x :: L) a b.
  Proof.
    intros L x a b (l1 & l2 & cb & E & H). exists (x :: l1), l2, cb. split; auto. cbn. now rewrite E.
  Qed.

  Lemma returns_before_cons : forall h e a b,
    returns_before (e :: h) a b ->
    returns_before h a b \/ (exists cb, e = EInv (fst b) (snd b) cb /\ exists r, In (ERet (fst a) (snd a) r) h).
  Proof.
    intros h e a b (l1 & l2 & r & cb & E & H). destruct l1 as [|e' l1]; cbn in E; inversion E; subst.
    - right. eauto.
    - left. exists l1, l2, r, cb. auto.
  Qed.

  Ltac rw_view :=
    repeat match goal with
    | H : sh ?c' = _ |- _ => rewrite H in *; clear H
    | H : wr ?c' = _ |- _ => rewrite H in *; clear H
    | H : rd ?c' = _ |- _ => rewrite H in *; clear H
    | H : cnt ?c' = _ |- _ => rewrite H in *; clear H
    | H : glin ?c' = _ |- _ => rewrite H in *; clear H
    | H : tr ?c' = _ |- _ => rewrite H in *; clear H
    end.

  Lemma post_other : forall (c c' : config) t x u,
    th c' = upd (th c) t x -> u <> t -> (post c' u <-> post c u).
  Proof. intros c c' t x u H N. unfold post. rewrite H, upd_other by auto. tauto. Qed.

  (* ---------------- invoke *)
  Lemma Inv_invoke : forall t (c c' : config) ca todo,
    Inv c ->
    th c t = TIdle (ca :: todo) ->
    sh c' = sh c -> wr c' = wr c -> rd c' = rd c -> cnt c' = cnt c -> glin c' = glin c ->
    th c' = upd (th c) t (TCall ca (loc0 ca) (impl ca) todo) ->
    tr c' = EInv t (cnt c t) ca :: tr c ->
    step_by t c = Some c' ->
    Inv c'.
  Proof.
    intros t c c' ca todo I E Hsh Hwr Hrd Hcnt Hgl Hth Htr Hstep.
    pose proof (inv_thr c I t) as Tt. unfold tinv in Tt. rewrite E in Tt.
    constructor.
    - eapply lock_inv_step; eauto. apply (inv_lock c I).
    - intro u. unfold tinv. rewrite Hth, Hsh, Hcnt, Hgl, Htr.
      destruct (Nat.eq_dec u t) as [->|N].
      + rewrite upd_same. inversion Tt; subst. repeat split; auto. now left.
      + rewrite upd_other by auto. pose proof (inv_thr c I u) as Tu. unfold tinv in Tu.
        destruct (th c u) as [td | cu lu su td | cu lu su ku s0u secu td]; auto.
        * destruct Tu as (A & B & C & D). repeat split; auto. now right.
        * destruct Tu as (A & B & C & D). repeat split; auto; try tauto. now right.
    - rewrite Hwr, Hsh, Hgl. apply (inv_state c I).
    - intros u n r H. rewrite Htr in H. rewrite Hgl. destruct H as [H | H]; [discriminate|]. eapply inv_ret; eauto.
    - intros u n cu H. rewrite Hgl in H. rewrite Htr. right. eapply inv_inv; eauto.
    - rewrite Hgl. apply (inv_nodup c I).
    - intros u n cu H. rewrite Hgl in H. rewrite Hcnt.
      destruct (inv_ids c I _ _ _ H) as [A | (A & B)]; auto.
      destruct (Nat.eq_dec u t) as [->|N].
      + unfold post in B. rewrite E in B. contradiction.
      + right. split; auto. eapply post_other; eauto.
    - intros a b H Hb. rewrite Hgl in *. rewrite Htr in H.
      apply returns_before_cons in H. destruct H as [H | (cb & Eq & r & H)].
      + eapply inv_rt; eauto.
      + exfalso. inversion Eq; subst. destruct b as (bt, bn). cbn in *. subst.
        apply in_ids in Hb. destruct Hb as (cb' & Hb).
        destruct (inv_ids c I _ _ _ Hb) as [A | (_ & B)]; [lia|].
        unfold post in B. rewrite E in B. contradiction.
  Qed.

  Lemma atomic_impl_nonempty : forall ca, atomic ca -> impl ca <> [].
  Proof. intros ca (s & Hi & _) E. rewrite Hi in E. discriminate. Qed.

  (* ---------------- return *)
  Lemma Inv_return : forall t (c c' : config) ca l todo,
    Inv c ->
    th c t = TCall ca l [] todo ->
    sh c' = sh c -> wr c' = wr c -> rd c' = rd c -> glin c' = glin c ->
    cnt c' = upd (cnt c) t (S (cnt c t)) ->
    th c' = upd (th c) t (TIdle todo) ->
    tr c' = ERet t (cnt c t) (ret_of ca l) :: tr c ->
    step_by t c = Some c' ->
    Inv c'.
  Proof.
    intros t c c' ca l todo I E Hsh Hwr Hrd Hgl Hcnt Hth Htr Hstep.
    pose proof (inv_thr c I t) as Tt. unfold tinv in Tt. rewrite E in Tt.
    destruct Tt as (At & Ft & It & Dt).
    assert (Rt : In ((t, cnt c t), ret_of ca l) (outs (glin c))).
    { destruct Dt as [(D1 & _) | (_ & D2)]; auto. exfalso. eapply atomic_impl_nonempty; eauto. }
    constructor.
    - eapply lock_inv_step; eauto. apply (inv_lock c I).
    - intro u. unfold tinv. rewrite Hth, Hsh, Hcnt, Hgl, Htr.
      destruct (Nat.eq_dec u t) as [->|N].
      + rewrite upd_same. auto.
      + rewrite !upd_other by auto. pose proof (inv_thr c I u) as Tu. unfold tinv in Tu.
        destruct (th c u) as [td | cu lu su td | cu lu su ku s0u secu td]; auto.
        * destruct Tu as (A & B & C & D). repeat split; auto. now right.
        * destruct Tu as (A & B & C & D). repeat split; auto; try tauto. now right.
    - rewrite Hwr, Hsh, Hgl. apply (inv_state c I).
    - intros u n r H. rewrite Htr in H. rewrite Hgl. destruct H as [H | H].
      + inversion H; subst. auto.
      + eapply inv_ret; eauto.
    - intros u n cu H. rewrite Hgl in H. rewrite Htr. right. eapply inv_inv; eauto.
    - rewrite Hgl. apply (inv_nodup c I).
    - intros u n cu H. rewrite Hgl in H. rewrite Hcnt.
      destruct (Nat.eq_dec u t) as [->|N].
      + rewrite upd_same. left. destruct (inv_ids c I _ _ _ H) as [A | (A & B)]; lia.
      + rewrite upd_other by auto.
        destruct (inv_ids c I _ _ _ H) as [A | (A & B)]; auto.
        right. split; auto. eapply post_other; eauto.
    - intros a b H Hb. rewrite Hgl in *. rewrite Htr in H.
      apply returns_before_cons in H. destruct H as [H | (cb & Eq & r & H)].
      + eapply inv_rt; eauto.
      + discriminate.
  Qed.

  (* ---------------- micro-step *)
  Lemma Inv_micro : forall t (c c' : config) ca l s m k s0 secs todo,
    Inv c ->
    th c t = TIn ca l s (m :: k) s0 secs todo ->
    wr c' = wr c -> rd c' = rd c -> cnt c' = cnt c -> tr c' = tr c -> glin c' = glin c ->
    sh c' = snd (m l (sh c)) ->
    th c' = upd (th c) t (TIn ca (fst (m l (sh c))) s k s0 secs todo) ->
    step_by t c = Some c' ->
    Inv c'.
  Proof.
    intros t c c' ca l s m k s0 secs todo I E Hwr Hrd Hcnt Htr Hgl Hsh Hth Hstep.
    pose proof (inv_thr c I t) as Tt. unfold tinv in Tt. rewrite E in Tt.
    destruct Tt as (At & Ft & It & Hi & Hs & Hrun & Hmode).
    destruct (inv_lock c I) as (L1 & L2 & L3).
    assert (INt : inside c t s) by (repeat eexists; eauto).
    pose proof (L3 _ _ INt) as L3t.
    assert (SHR : mode_of s = R -> sh c' = sh c).
    { intro M. rewrite M in Hmode. destruct Hmode as (Hp & _). inversion Hp; subst. rewrite Hsh. apply H1. }
    assert (POST : forall u, post c' u <-> post c u).
    { intro u. unfold post. rewrite Hth. destruct (Nat.eq_dec u t) as [->|N].
      - rewrite upd_same, E. tauto.
      - rewrite upd_other by auto. tauto. }
    constructor.
    - eapply lock_inv_step; eauto. apply (inv_lock c I).
    - intro u. unfold tinv. rewrite Hth, Hcnt, Hgl, Htr.
      destruct (Nat.eq_dec u t) as [->|N].
      + rewrite upd_same. repeat split; auto.
        * rewrite <- Hrun, run_cons, Hsh. reflexivity.
        * destruct (mode_of s) eqn:M; auto.
          destruct Hmode as (Hp & Hs0 & HL). inversion Hp; subst. repeat split; auto;
          try (rewrite SHR; auto).
      + rewrite upd_other by auto. pose proof (inv_thr c I u) as Tu. unfold tinv in Tu.
        destruct (th c u) as [td | cu lu su td | cu lu su ku s0u secu td] eqn:Eu; auto.
        assert (INu : inside c u su) by (repeat eexists; eauto).
        pose proof (L3 _ _ INu) as L3u.
        destruct (mode_of s) eqn:M.
        * rewrite SHR; auto.
        * exfalso. destruct (L1 _ L3t) as (R0 & _).
          destruct Tu as (_ & _ & _ & _ & _ & _ & Mu).
          destruct (mode_of su); auto.
          -- rewrite R0 in L3u. contradiction.
          -- rewrite L3t in L3u. inversion L3u. congruence.
        * contradiction.
    - intro W0. rewrite Hwr in W0. rewrite Hgl.
      destruct (mode_of s) eqn:M.
      + rewrite SHR; auto. apply (inv_state c I); auto.
      + rewrite L3t in W0. discriminate.
      + contradiction.
    - intros u n r H. rewrite Htr in H. rewrite Hgl. eapply inv_ret; eauto.
    - intros u n cu H. rewrite Hgl in H. rewrite Htr. eapply inv_inv; eauto.
    - rewrite Hgl. apply (inv_nodup c I).
    - intros u n cu H. rewrite Hgl in H. rewrite Hcnt.
      destruct (inv_ids c I _ _ _ H) as [A | (A & B)]; auto. right. split; auto. now apply POST.
    - intros a b H Hb. rewrite Hgl in *. rewrite Htr in H. eapply inv_rt; eauto.
  Qed.

  (* ---------------- release *)
  Lemma Inv_release : forall t (c c' : config) ca l s s0 secs todo,
    Inv c ->
    th c t = TIn ca l s [] s0 secs todo ->
    sh c' = sh c -> cnt c' = cnt c -> tr c' = tr c -> glin c' = glin c ->
    (wr c', rd c') = release Sec Call St Loc Ret (mode_of s) t c ->
    th c' = upd (th c) t (TCall ca l secs todo) ->
    step_by t c = Some c' ->
    Inv c'.
  Proof.
    intros t c c' ca l s s0 secs todo I E Hsh Hcnt Htr Hgl Hrel Hth Hstep.
    pose proof (inv_thr c I t) as Tt. unfold tinv in Tt. rewrite E in Tt.
    destruct Tt as (At & Ft & It & Hi & Hs & Hrun & Hmode). subst secs.
    cbn in Hrun.
    assert (SPEC : sh c = fst (seq_step s0 ca) /\ ret_of ca l = snd (seq_step s0 ca)).
    { destruct At as (s' & Hi' & _ & Hsp). rewrite Hi in Hi'. inversion Hi'; subst s'.
      destruct (Hsp s0) as (A & B). rewrite <- Hrun in A, B. cbn in A, B. auto. }
    destruct SPEC as (SP1 & SP2).
    assert (OUT : In ((t, cnt c t), ret_of ca l) (outs (glin c))).
    { destruct (mode_of s) eqn:M.
      - destruct Hmode as (_ & _ & L1 & L2 & HL & HS). rewrite HL, SP2, <- HS.
        apply (outs_mid L1 (t, cnt c t, ca) L2).
      - destruct Hmode as (L' & HL & HS). rewrite HL, SP2, HS. cbn. now left.
      - contradiction. }
    assert (POST : forall u, post c u -> post c' u).
    { intro u. unfold post. rewrite Hth. destruct (Nat.eq_dec u t) as [->|N].
      - rewrite upd_same, E. tauto.
      - rewrite upd_other by auto. tauto. }
    constructor.
    - eapply lock_inv_step; eauto. apply (inv_lock c I).
    - intro u. unfold tinv. rewrite Hth, Hsh, Hcnt, Hgl, Htr.
      destruct (Nat.eq_dec u t) as [->|N].
      + rewrite upd_same. repeat split; auto.
      + rewrite upd_other by auto. apply (inv_thr c I u).
    - intro W0. rewrite Hsh, Hgl. unfold Sync.release in Hrel.
      destruct (mode_of s) eqn:M.
      + inversion Hrel as [[Hw Hr]]. rewrite Hw in W0. apply (inv_state c I); auto.
      + destruct Hmode as (L' & HL & HS). rewrite HL. cbn. rewrite <- HS. unfold Sync.call_of. cbn. auto.
      + contradiction.
    - intros u n r H. rewrite Htr in H. rewrite Hgl. eapply inv_ret; eauto.
    - intros u n cu H. rewrite Hgl in H. rewrite Htr. eapply inv_inv; eauto.
    - rewrite Hgl. apply (inv_nodup c I).
    - intros u n cu H. rewrite Hgl in H. rewrite Hcnt.
      destruct (inv_ids c I _ _ _ H) as [A | (A & B)]; auto.
    - intros a b H Hb. rewrite Hgl in *. rewrite Htr in H. eapply inv_rt; eauto.
  Qed.

  Lemma returns_before_ret : forall h a b, returns_before h a b -> exists r, In (ERet (fst a) (snd a) r) h.
  Proof.
    intros h a b (l1 & l2 & r & cb & E & H). exists r. rewrite E. apply in_or_app. right. now right.
  Qed.

  (* ---------------- entering a section *)
  Lemma Inv_acquire : forall t (c c' : config) ca l s secs todo,
    Inv c ->
    th c t = TCall ca l (s :: secs) todo ->
    can_acquire Sec Call St Loc Ret (mode_of s) c = true ->
    sh c' = sh c -> cnt c' = cnt c -> tr c' = tr c ->
    (wr c', rd c') = acquire Sec Call St Loc Ret (mode_of s) t c ->
    th c' = upd (th c) t (TIn ca l s (body_of s) (sh c) secs todo) ->
    glin c' = (t, cnt c t, ca) :: glin c ->
    step_by t c = Some c' ->
    Inv c'.
  Proof.
    intros t c c' ca l s secs todo I E CA Hsh Hcnt Htr Hacq Hth Hgl Hstep.
    pose proof (inv_thr c I t) as Tt. unfold tinv in Tt. rewrite E in Tt.
    destruct Tt as (At & Ft & It & Dt).
    destruct Dt as [(D1 & D2) | (D1 & _)]; [|discriminate].
    pose proof At as At'. destruct At' as (s' & Hi & Hm & Hsp).
    rewrite Hi in D1. inversion D1; subst s' secs. subst l. clear D1.
    destruct (inv_lock c I) as (L1 & L2 & L3).
    assert (W0 : wr c = None).
    { unfold Sync.can_acquire in CA. destruct Hm as [Hm | (Hm & _)]; rewrite Hm in CA; destruct (wr c); auto; discriminate. }
    assert (SH : sh c = spec_run (glin c)) by (apply (inv_state c I); auto).
    assert (FRESH : ~ In (t, cnt c t) (ids (glin c))).
    { intro H. apply in_ids in H. destruct H as (ca' & H).
      destruct (inv_ids c I _ _ _ H) as [A | (_ & B)]; [lia|]. unfold post in B. rewrite E in B. contradiction. }
    assert (OTHER : forall u, u <> t -> tinv c' u).
    { intros u N. unfold tinv. rewrite Hth, Hsh, Hcnt, Hgl, Htr. rewrite upd_other by auto.
      pose proof (inv_thr c I u) as Tu. unfold tinv in Tu.
      destruct (th c u) as [td | cu lu su td | cu lu su ku s0u secu td] eqn:Eu; auto.
      - destruct Tu as (A & B & C & D). repeat split; auto.
        destruct D as [D | (D & D')]; auto. right. split; auto. now apply outs_cons.
      - destruct Tu as (A & B & C & D & D' & F & G). repeat split; auto.
        assert (INu : inside c u su) by (repeat eexists; eauto).
        pose proof (L3 _ _ INu) as L3u.
        destruct (mode_of su) eqn:Mu; auto.
        + destruct G as (G1 & G2 & La & Lb & G3 & G4). repeat split; auto.
          exists ((t, cnt c t, ca) :: La), Lb. split; auto. cbn. now rewrite G3.
        + rewrite W0 in L3u. discriminate. }
    constructor.
    - eapply lock_inv_step; eauto. apply (inv_lock c I).
    - intro u. destruct (Nat.eq_dec u t) as [->|N]; [|now apply OTHER].
      unfold tinv. rewrite Hth, Hsh, Hcnt, Hgl, Htr, upd_same. repeat split; auto.
      destruct Hm as [Hm | (Hm & Hp)]; rewrite Hm.
      + exists (glin c). auto.
      + repeat split; auto. exists [], (glin c). auto.
    - intro W1. rewrite Hsh, Hgl. cbn. unfold Sync.call_of. cbn.
      unfold Sync.acquire in Hacq.
      destruct Hm as [Hm | (Hm & Hp)]; rewrite Hm in Hacq; inversion Hacq as [[Hw Hr]].
      + rewrite Hw in W1. discriminate.
      + rewrite <- SH. symmetry. eapply atomic_R_pure; eauto.
    - intros u n r H. rewrite Htr in H. rewrite Hgl. apply outs_cons. eapply inv_ret; eauto.
    - intros u n cu H. rewrite Hgl in H. rewrite Htr. destruct H as [H | H].
      + inversion H; subst. auto.
      + eapply inv_inv; eauto.
    - rewrite Hgl. cbn. constructor; auto. apply (inv_nodup c I).
    - intros u n cu H. rewrite Hgl in H. rewrite Hcnt. destruct H as [H | H].
      + inversion H; subst. right. split; auto. unfold post. now rewrite Hth, upd_same.
      + destruct (inv_ids c I _ _ _ H) as [A | (A & B)]; auto.
        destruct (Nat.eq_dec u t) as [->|N].
        * unfold post in B. rewrite E in B. contradiction.
        * right. split; auto. eapply post_other; eauto.
    - intros a b H Hb. rewrite Htr in H. rewrite Hgl in *. cbn in Hb. destruct Hb as [Hb | Hb].
      + unfold Sync.id_of in Hb. cbn in Hb. subst b.
        exists [], (glin c), ca. split; auto.
        destruct (returns_before_ret _ _ _ H) as (r & Hr).
        pose proof (inv_ret c I _ _ _ Hr) as Ho. apply outs_ids in Ho. now destruct a.
      + apply placed_before_cons. eapply inv_rt; eauto.
  Qed.

  Lemma Inv_step : forall t (c c' : config), Inv c -> step_by t c = Some c' -> Inv c'.
  Proof.
    intros t c c' I H. pose proof H as H'. apply step_by_view in H.
    destruct H.
    - eapply Inv_invoke; eauto.
    - eapply Inv_return; eauto.
    - eapply Inv_acquire; eauto.
    - eapply Inv_micro; eauto.
    - eapply Inv_release; eauto.
  Qed.

  Variable prog : tid -> list Call.
  Hypothesis prog_atomic : forall t, Forall atomic (prog t).

  Lemma Inv_init : Inv (init s_init prog).
  Proof.
    constructor; cbn.
    - apply lock_inv_init.
    - intro t. unfold tinv. cbn. apply prog_atomic.
    - auto.
    - intros; contradiction.
    - intros; contradiction.
    - constructor.
    - intros; contradiction.
    - intros a b (l1 & l2 & r & cb & E & H). destruct l1; discriminate.
  Qed.

  Lemma Inv_reachable : forall c, reachable (init s_init prog) c -> Inv c.
  Proof.
    intros c H. induction H.
    - apply Inv_init.
    - destruct H0 as (t & Ht). eapply Inv_step; eauto.
  Qed.

  (* THE C13 theorem: if every call of the program is one section -- a write section, or a read
     section that never modifies the abstract state -- whose body, run alone, does what the
     sequential specification does, then every history the machine can produce (any number of
     threads, any schedule, micro-steps interleaved arbitrarily) is linearizable, and the order
     in which the calls entered their sections is a linearization. *)
  Theorem atomic_calls_linearizable : forall c,
    reachable (init s_init prog) c ->
    linearization Call St Ret seq_step s_init (tr c) (glin c).
  Proof.
    intros c H. apply Inv_reachable in H. unfold Sync.linearization. repeat split.
    - apply (inv_nodup c H).
    - apply (inv_inv c H).
    - apply (inv_ret c H).
    - apply (inv_rt c H).
  Qed.

  (* ... and while no writer is inside, the shared state IS the state after that sequential order:
     nothing completed is lost, nothing that no order could produce is visible *)
  Theorem quiescent_state_is_sequential : forall c,
    reachable (init s_init prog) c -> wr c = None -> sh c = spec_run (glin c).
  Proof. intros c H. apply Inv_reachable in H. apply (inv_state c H). Qed.

End LinProofs.

(* ------------------------------------------------------------------ schedules are reachable *)

Section Sched.
  Variables Sec Call St Loc Ret : Type.
  Variable mode_of : Sec -> mode.
  Variable body_of : Sec -> list (Loc -> St -> Loc * St).
  Variable impl : Call -> list Sec.
  Variable loc0 : Call -> Loc.
  Variable ret_of : Call -> Loc -> Ret.

  Lemma run_sched_reachable : forall sched c0 c c',
    reachable Sec Call St Loc Ret mode_of body_of impl loc0 ret_of c0 c ->
    run_sched Sec Call St Loc Ret mode_of body_of impl loc0 ret_of sched c = Some c' ->
    reachable Sec Call St Loc Ret mode_of body_of impl loc0 ret_of c0 c'.
  Proof.
    induction sched as [|t rest IH]; intros c0 c c' HR H; cbn in H.
    - inversion H; subst. exact HR.
    - destruct (step_by Sec Call St Loc Ret mode_of body_of impl loc0 ret_of t c) as [c1|] eqn:E; [|discriminate].
      eapply IH; [|exact H]. eapply reach_step; eauto. exists t. exact E.
  Qed.
End Sched.

(* ------------------------------------------------------------------ a concrete object

   The smallest store that shows everything: one rule X; the state is (X in memory, X in the
   adapter).  AddPolicy / RemovePolicy are read-modify-write in TWO micro-steps (so they are only
   atomic thanks to the lock), HasPolicy reads, LoadPolicy copies the adapter's view into memory
   -- once as one write section (CLoad) and once as SyncedEnforcer.LoadPolicy really does it:
   snapshot under the read lock, apply under the write lock (CLoad2). *)

Inductive xcall := CAdd | CRemove | CHas | CLoad | CLoad2.
Inductive xsec := SAdd | SRemove | SHas | SLoad | SLoad2a | SLoad2b.
Definition xst := (bool * bool)%type.     (* (in memory, in adapter) *)
Definition xloc := (bool * bool)%type.    (* (snapshot, result) *)

Definition x_mode (s : xsec) : mode :=
  match s with SHas => R | SLoad2a => R | _ => W end.

Definition x_body (s : xsec) : list (xloc -> xst -> xloc * xst) :=
  match s with
  | SAdd => [fun l st => ((fst st, negb (fst st)), st); fun l st => (l, (true, true))]
  | SRemove => [fun l st => ((fst st, fst st), st); fun l st => (l, (false, false))]
  | SHas => [fun l st => ((fst st, fst st), st)]
  | SLoad => [fun l st => ((snd st, true), st); fun l st => (l, (fst l, snd st))]
  | SLoad2a => [fun l st => ((snd st, true), st)]
  | SLoad2b => [fun l st => (l, (fst l, snd st))]
  end.

Definition x_impl (c : xcall) : list xsec :=
  match c with
  | CAdd => [SAdd] | CRemove => [SRemove] | CHas => [SHas] | CLoad => [SLoad]
  | CLoad2 => [SLoad2a; SLoad2b]
  end.

Definition x_loc0 (c : xcall) : xloc := (false, false).
Definition x_ret (c : xcall) (l : xloc) : bool := snd l.

(* the sequential specification *)
Definition x_seq (st : xst) (c : xcall) : xst * bool :=
  match c with
  | CAdd => ((true, true), negb (fst st))
  | CRemove => ((false, false), fst st)
  | CHas => (st, fst st)
  | CLoad | CLoad2 => ((snd st, snd st), true)
  end.

Notation x_atomic := (atomic_call xsec xcall xst xloc bool x_mode x_body x_impl x_loc0 x_ret x_seq).
Notation x_config := (config xsec xcall xst xloc bool).
Notation x_run_sched := (run_sched xsec xcall xst xloc bool x_mode x_body x_impl x_loc0 x_ret).
Notation x_init := (init xsec xcall xst xloc bool).
Notation x_reachable := (reachable xsec xcall xst xloc bool x_mode x_body x_impl x_loc0 x_ret).

Lemma x_atomic_add : x_atomic CAdd.
Proof. exists SAdd. repeat split; auto. Qed.
Lemma x_atomic_remove : x_atomic CRemove.
Proof. exists SRemove. repeat split; auto. Qed.
Lemma x_atomic_has : x_atomic CHas.
Proof.
  exists SHas. split; auto. split.
  - right. split; auto. constructor; [|constructor]. intros l st. reflexivity.
  - intros st. split; reflexivity.
Qed.
Lemma x_atomic_load : x_atomic CLoad.
Proof. exists SLoad. repeat split; auto. Qed.

(* the two-phase LoadPolicy is not an atomic call *)
Lemma x_load2_not_atomic : ~ x_atomic CLoad2.
Proof. intros (s & H & _). discriminate. Qed.

(* non-vacuity of the linearizability theorem: three threads, micro-steps really interleaved *)
Definition x_prog (t : tid) : list xcall :=
  match t with 0 => [CAdd; CHas] | 1 => [CHas; CRemove] | 2 => [CLoad] | _ => [] end.

Lemma x_prog_atomic : forall t, Forall x_atomic (x_prog t).
Proof.
  intros [|[|[|t]]]; cbn; repeat constructor;
    auto using x_atomic_add, x_atomic_remove, x_atomic_has, x_atomic_load.
Qed.

Definition x_sched : list tid :=
  [0; 1; 2; 1; 1; 1; 0; 1; 0; 1; 0; 0; 2; 0; 2; 0; 2; 2; 0; 2; 0; 0; 1; 0; 1; 1; 1; 1].

Lemma x_example_runs :
  match x_run_sched x_sched (x_init (false, false) x_prog) with
  | Some c => List.length (tr c) = 10 /\ List.length (glin c) = 5 /\ sh c = (false, false) /\
              th c 0 = TIdle [] /\ th c 1 = TIdle [] /\ th c 2 = TIdle []
  | None => False
  end.
Proof. vm_compute. repeat split. Qed.

(* F19 in the model: LoadPolicy as two sections loses a concurrent, completed AddPolicy.
   Schedule: T0 runs phase 1 of LoadPolicy (snapshot of the adapter: no X), T1 runs AddPolicy(X)
   to completion (memory and adapter have X), T0 runs phase 2 (memory := snapshot).  Everybody has
   returned; X is in the adapter and not in memory; and NO sequential order of the two calls
   produces that state: both orders end with X in memory. *)
Definition f19_prog (t : tid) : list xcall :=
  match t with 0 => [CLoad2] | 1 => [CAdd] | _ => [] end.

Definition f19_sched : list tid := [0; 0; 0; 0; 1; 1; 1; 1; 1; 1; 0; 0; 0; 0].

Lemma f19_runs :
  match x_run_sched f19_sched (x_init (false, false) f19_prog) with
  | Some c => sh c = (false, true) /\ wr c = None /\ th c 0 = TIdle [] /\ th c 1 = TIdle [] /\
              tr c = [ERet 0 0 true; ERet 1 0 true; EInv 1 0 CAdd; EInv 0 0 CLoad2]
  | None => False
  end.
Proof. vm_compute. repeat split. Qed.

Lemma f19_no_order : forall L : list (tid * nat * xcall),
  (map (call_of xcall) L = [CLoad2; CAdd] \/ map (call_of xcall) L = [CAdd; CLoad2]) ->
  spec_run xcall xst bool x_seq (false, false) L = (true, true).
Proof.
  intros L [H | H]; destruct L as [|x [|y [|z L]]]; cbn in H; try discriminate;
    inversion H as [[H1 H2]]; cbn; rewrite H1, H2; reflexivity.
Qed.

Theorem load_two_phase_refuted :
  exists c, x_reachable (x_init (false, false) f19_prog) c /\
            th c 0 = TIdle [] /\ th c 1 = TIdle [] /\ wr c = None /\
            sh c = (false, true) /\
            forall L, (map (call_of xcall) L = [CLoad2; CAdd] \/ map (call_of xcall) L = [CAdd; CLoad2]) ->
                      spec_run xcall xst bool x_seq (false, false) L <> sh c.
Proof.
  pose proof f19_runs as H.
  destruct (x_run_sched f19_sched (x_init (false, false) f19_prog)) as [c|] eqn:E; [|contradiction].
  destruct H as (H1 & H2 & H3 & H4 & H5).
  exists c. repeat split; auto.
  - eapply run_sched_reachable; [apply reach_init | exact E].
  - intros L HL. rewrite (f19_no_order L HL), H1. discriminate.
Qed.

(* ------------------------------------------------------------------ auto-load protocol *)

(* With the non-blocking send, a client that has not finished can take a step in EVERY state
   (reachable or not): StopAutoLoadPolicy and StartAutoLoadPolicy never block. *)
Theorem stop_never_blocks : forall v s t,
  v_nonblocking_send v = true -> ~ al_client_done s t -> exists s', al_client_step v t s = Some s'.
Proof.
  intros v s t NB ND. unfold al_client_done in ND. unfold al_client_step.
  destruct (clients s t) as [pc ops].
  destruct pc; try (destruct ops as [|[|] ops]; [congruence | |]); try (eexists; reflexivity).
  - destruct (v_cas v), (flag s); eexists; reflexivity.
  - destruct (flag s); eexists; reflexivity.
  - rewrite NB. destruct (chan s); eexists; reflexivity.
Qed.

(* With the blocking send of the pinned tree (F28): Start; then three Stops that all saw the flag
   set; the first token is consumed by the loader, which exits; the second token fills the
   buffer; the third sender waits for ever -- total deadlock with an unfinished client. *)
Definition f28_variant : al_variant := {| v_nonblocking_send := false; v_cas := true; v_drain := true |}.

Definition f28_prog (t : nat) : list al_op :=
  match t with 0 => [OpStart] | 1 => [OpStop] | 2 => [OpStop] | 3 => [OpStop] | _ => [] end.

Definition f28_sched : list al_actor :=
  [Client 0; Client 0; Client 0; Client 0;
   Client 1; Client 1; Client 2; Client 2; Client 3; Client 3;
   Client 1; Loader 0; Loader 0; Client 2].

Theorem blocking_send_refuted :
  exists s, al_reachable f28_variant (al_init f28_prog) s /\
            ~ al_client_done s 3 /\ forall a, al_step_by f28_variant a s = None.
Proof.
  assert (R : forall sched s0 s s', al_reachable f28_variant s0 s -> al_run f28_variant sched s = Some s' ->
                                     al_reachable f28_variant s0 s').
  { induction sched as [|a rest IH]; intros s0 s s' HR H; cbn in H.
    - inversion H; subst; auto.
    - destruct (al_step_by f28_variant a s) eqn:E; [|discriminate]. eapply IH; [|exact H]. eapply al_reach_step; eauto. }
  destruct (al_run f28_variant f28_sched (al_init f28_prog)) as [s|] eqn:E; [|vm_compute in E; discriminate].
  exists s. split; [eapply R; [apply al_reach_init | exact E]|].
  vm_compute in E. inversion E; subst s; clear E. split.
  - unfold al_client_done. cbn. discriminate.
  - intros [t | i].
    + destruct t as [|[|[|[|t]]]]; reflexivity.
    + destruct i; reflexivity.
Qed.

(* ------------------------------------------------------------------ C13: tables *)

Lemma mem_str_true : forall x l, mem_str x l = true <-> In x l.
Proof.
  intros x l. unfold mem_str. rewrite existsb_exists. split.
  - intros (y & H & E). apply String.eqb_eq in E. now subst.
  - intro H. exists x. split; auto. apply String.eqb_refl.
Qed.

Section TableLin.
  Variables St Loc Ret : Type.
  Variable body_of : section -> list (Loc -> St -> Loc * St).
  Variable loc0 : wrapper -> Loc.
  Variable ret_of : wrapper -> Loc -> Ret.
  Variable seq_step : St -> wrapper -> St * Ret.
  Variable s_init : St.
  Variable names : list (N * string).
  Variable ex : list (string * string).
  Variable T : list wrapper.

  (* [scratch_neutral = true] additionally trusts that the read sections with the F20 signature
     (temporary roles / g() memo of the default role manager) leave the abstract state alone --
     true without a role-matching function, FALSE with one (F20) *)
  Variable scratch_neutral : bool.

  Definition single_section (w : wrapper) : bool :=
    atomic_wrapper names w || (scratch_neutral && f20_sig names w).

  (* the link between table and code that is trusted (translator + may-write analysis): a wrapper
     classified as a single section does, run alone, what the single-threaded enforcer does, and
     if the section is read-locked its steps do not modify the abstract state *)
  Definition faithful : Prop :=
    forall w s, In w T -> single_section w = true -> w_sections w = [s] ->
      (s_mode s = R -> Forall (pure_micro St Loc) (body_of s)) /\
      forall st, snd (run St Loc (body_of s) (loc0 w) st) = fst (seq_step st w) /\
                 ret_of w (fst (run St Loc (body_of s) (loc0 w) st)) = snd (seq_step st w).

  Lemma single_section_shape : forall w, single_section w = true ->
    exists s, w_sections w = [s] /\ (s_mode s = W \/ s_mode s = R).
  Proof.
    intros w H. unfold single_section in H. apply orb_true_iff in H. destruct H as [H | H].
    - unfold atomic_wrapper in H. apply andb_true_iff in H. destruct H as (_ & H).
      destruct (w_sections w) as [|s [|s' r]]; try discriminate. exists s. split; auto.
      destruct (s_mode s); auto. discriminate.
    - apply andb_true_iff in H. destruct H as (_ & H). unfold f20_sig in H.
      apply andb_true_iff in H. destruct H as (_ & H).
      destruct (w_sections w) as [|s [|s' r]]; try discriminate. exists s. split; auto.
      destruct (s_mode s); auto. discriminate.
  Qed.

  Lemma single_section_atomic : forall w, faithful -> In w T -> single_section w = true ->
    atomic_call section wrapper St Loc Ret s_mode body_of w_sections loc0 ret_of seq_step w.
  Proof.
    intros w F HI HS. destruct (single_section_shape w HS) as (s & E & M).
    destruct (F w s HI HS E) as (P & Q). exists s. split; auto. split; auto.
    destruct M as [M | M]; auto.
  Qed.

  Theorem single_section_linearizable : forall prog,
    faithful ->
    (forall t w, In w (prog t) -> In w T /\ single_section w = true) ->
    forall c, treachable St Loc Ret body_of loc0 ret_of (tinit St Loc Ret s_init prog) c ->
    linearization wrapper St Ret seq_step s_init (tr c) (glin c).
  Proof.
    intros prog F SC c HR.
    eapply atomic_calls_linearizable; eauto.
    intro t. apply Forall_forall. intros w Hw. destruct (SC t w Hw) as (A & B).
    now apply single_section_atomic.
  Qed.

  (* what lin_ok gives: a wrapper of the table that is neither listed as an exception nor
     lock-free control API is a single section *)
  Lemma lin_ok_scope : forall w,
    lin_ok names ex T = true -> In w T ->
    excepted ex (w_name w) = false -> mem_str (w_name w) control_api = false ->
    atomic_wrapper names w = true.
  Proof.
    intros w OK HI NE NC. unfold lin_ok in OK. apply andb_true_iff in OK. destruct OK as (OK & _).
    rewrite forallb_forall in OK. specialize (OK _ HI).
    apply orb_true_iff in OK. destruct OK as [OK | OK].
    - apply orb_true_iff in OK. destruct OK as [OK | OK]; auto.
      unfold control_wrapper in OK. rewrite NC in OK. rewrite andb_false_r in OK. discriminate.
    - exfalso. unfold exception_ok in OK. apply existsb_exists in OK. destruct OK as (p & Hp & Q).
      apply andb_true_iff in Q. destruct Q as (Q & _). apply String.eqb_eq in Q.
      unfold excepted in NE. assert (X : mem_str (w_name w) (map fst ex) = true).
      { apply mem_str_true. rewrite <- Q. apply in_map. auto. }
      congruence.
  Qed.

End TableLin.

(* linearizable for the table MINUS the explicit exception list (and the lock-free control API) *)
Theorem linearizable_except :
  forall (St Loc Ret : Type) body_of loc0 ret_of (seq_step : St -> wrapper -> St * Ret) s_init names ex T prog,
    lin_ok names ex T = true ->
    faithful St Loc Ret body_of loc0 ret_of seq_step names T false ->
    (forall t w, In w (prog t) ->
       In w T /\ excepted ex (w_name w) = false /\ mem_str (w_name w) control_api = false) ->
    forall c, treachable St Loc Ret body_of loc0 ret_of (tinit St Loc Ret s_init prog) c ->
    linearization wrapper St Ret seq_step s_init (tr c) (glin c).
Proof.
  intros St Loc Ret body_of loc0 ret_of seq_step s_init names ex T prog OK F SC c HR.
  eapply single_section_linearizable; eauto.
  intros t w Hw. destruct (SC t w Hw) as (A & B & C). split; auto.
  unfold single_section. rewrite (lin_ok_scope names ex T w); auto.
Qed.

(* ------------------------------------------------------------------ auto-load: one loader *)

Definition al_starting (pc : al_pc) : bool :=
  match pc with PcStartDrain | PcStartSpawn => true | _ => false end.

Record al_inv (s : al_state) : Prop := {
  ali_one : List.length (loaders s) <= 1;
  ali_uniq : forall t1 t2, al_starting (fst (clients s t1)) = true -> al_starting (fst (clients s t2)) = true -> t1 = t2;
  ali_excl : forall t, al_starting (fst (clients s t)) = true -> loaders s = [];
  ali_flag : flag s = false -> loaders s = [] /\ forall t, al_starting (fst (clients s t)) = false;
  ali_noset : forall t, fst (clients s t) <> PcStartSet
}.

Lemma al_upd_same : forall f t x, al_upd f t x t = x.
Proof. intros. unfold al_upd. now rewrite Nat.eqb_refl. Qed.

Lemma al_upd_other : forall f t x u, u <> t -> al_upd f t x u = f u.
Proof. intros. unfold al_upd. destruct (Nat.eqb u t) eqn:E; auto. apply Nat.eqb_eq in E. contradiction. Qed.

(* a client step that keeps flag and loaders, and moves t between two non-starting pcs *)
Lemma al_inv_quiet : forall s t pc ops ch,
  al_inv s -> al_starting (fst (clients s t)) = false -> al_starting pc = false -> pc <> PcStartSet ->
  al_inv {| flag := flag s; chan := ch; loaders := loaders s; clients := al_upd (clients s) t (pc, ops) |}.
Proof.
  intros s t pc ops ch I B A NS. constructor; cbn.
  - apply (ali_one s I).
  - intros t1 t2 H1 H2.
    destruct (Nat.eq_dec t1 t) as [->|N1]; [rewrite al_upd_same in H1; cbn in H1; congruence|].
    destruct (Nat.eq_dec t2 t) as [->|N2]; [rewrite al_upd_same in H2; cbn in H2; congruence|].
    rewrite al_upd_other in H1, H2 by auto. eapply ali_uniq; eauto.
  - intros u H. destruct (Nat.eq_dec u t) as [->|N]; [rewrite al_upd_same in H; cbn in H; congruence|].
    rewrite al_upd_other in H by auto. eapply ali_excl; eauto.
  - intro F. destruct (ali_flag s I F) as (L & Q). split; auto. intro u.
    destruct (Nat.eq_dec u t) as [->|N]; [now rewrite al_upd_same|]. rewrite al_upd_other by auto. apply Q.
  - intro u. destruct (Nat.eq_dec u t) as [->|N]; [now rewrite al_upd_same|]. rewrite al_upd_other by auto.
    apply (ali_noset s I).
Qed.

Lemma al_inv_client : forall v t s s',
  v_cas v = true -> al_inv s -> al_client_step v t s = Some s' -> al_inv s'.
Proof.
  intros v t s s' CAS I H. unfold al_client_step in H. rewrite CAS in H.
  destruct (clients s t) as [pc ops] eqn:E.
  assert (Epc : fst (clients s t) = pc) by now rewrite E.
  destruct pc.
  - (* Idle *)
    destruct ops as [|[|] ops]; [discriminate| |]; inversion H; subst; clear H;
      apply al_inv_quiet; auto; try (rewrite Epc; reflexivity); discriminate.
  - (* StartCheck *)
    destruct (flag s) eqn:F; inversion H; subst; clear H.
    + rewrite <- F. apply al_inv_quiet; auto; try (rewrite Epc; reflexivity); discriminate.
    + destruct (ali_flag s I F) as (L0 & NS). constructor; cbn.
      * apply (ali_one s I).
      * intros t1 t2 H1 H2.
        destruct (Nat.eq_dec t1 t) as [->|N1]; destruct (Nat.eq_dec t2 t) as [->|N2]; auto.
        -- rewrite al_upd_other in H2 by auto. rewrite NS in H2. discriminate.
        -- rewrite al_upd_other in H1 by auto. rewrite NS in H1. discriminate.
        -- rewrite al_upd_other in H1 by auto. rewrite NS in H1. discriminate.
      * intros u _. exact L0.
      * discriminate.
      * intro u. destruct (Nat.eq_dec u t) as [->|N]; [rewrite al_upd_same; discriminate|].
        rewrite al_upd_other by auto. apply (ali_noset s I).
  - (* StartSet: unreachable with CAS *)
    exfalso. apply (ali_noset s I t). exact Epc.
  - (* StartDrain -> StartSpawn *)
    inversion H; subst; clear H. constructor; cbn.
    + apply (ali_one s I).
    + intros t1 t2 H1 H2.
      assert (S1 : al_starting (fst (clients s t1)) = true).
      { destruct (Nat.eq_dec t1 t) as [->|N]; [now rewrite Epc|]. now rewrite al_upd_other in H1 by auto. }
      assert (S2 : al_starting (fst (clients s t2)) = true).
      { destruct (Nat.eq_dec t2 t) as [->|N]; [now rewrite Epc|]. now rewrite al_upd_other in H2 by auto. }
      eapply ali_uniq; eauto.
    + intros u _. apply (ali_excl s I t). now rewrite Epc.
    + intro F. destruct (ali_flag s I F) as (_ & NS). specialize (NS t). rewrite Epc in NS. discriminate.
    + intro u. destruct (Nat.eq_dec u t) as [->|N]; [rewrite al_upd_same; discriminate|].
      rewrite al_upd_other by auto. apply (ali_noset s I).
  - (* StartSpawn -> Idle, one more loader *)
    inversion H; subst; clear H.
    assert (L0 : loaders s = []) by (apply (ali_excl s I t); now rewrite Epc).
    assert (ONLY : forall u, u <> t -> al_starting (fst (clients s u)) = false).
    { intros u N. destruct (al_starting (fst (clients s u))) eqn:Su; auto. exfalso. apply N.
      eapply ali_uniq; eauto. now rewrite Epc. }
    constructor; cbn.
    + rewrite L0. cbn. lia.
    + intros t1 t2 H1 H2. exfalso.
      destruct (Nat.eq_dec t1 t) as [->|N]; [rewrite al_upd_same in H1; discriminate|].
      rewrite al_upd_other in H1 by auto. rewrite ONLY in H1 by auto. discriminate.
    + intros u Hu. exfalso.
      destruct (Nat.eq_dec u t) as [->|N]; [rewrite al_upd_same in Hu; discriminate|].
      rewrite al_upd_other in Hu by auto. rewrite ONLY in Hu by auto. discriminate.
    + intro F. destruct (ali_flag s I F) as (_ & NS). specialize (NS t). rewrite Epc in NS. discriminate.
    + intro u. destruct (Nat.eq_dec u t) as [->|N]; [rewrite al_upd_same; discriminate|].
      rewrite al_upd_other by auto. apply (ali_noset s I).
  - (* StopCheck *)
    destruct (flag s) eqn:F; inversion H; subst; clear H; rewrite <- F;
      apply al_inv_quiet; auto; try (rewrite Epc; reflexivity); discriminate.
  - (* StopSend *)
    destruct (chan s) eqn:C.
    + inversion H; subst; clear H. apply al_inv_quiet; auto; try (rewrite Epc; reflexivity); discriminate.
    + destruct (v_nonblocking_send v); [|discriminate]. inversion H; subst; clear H.
      rewrite <- C. apply al_inv_quiet; auto; try (rewrite Epc; reflexivity); discriminate.
Qed.

Lemma al_inv_loader : forall i s s', al_inv s -> al_loader_step i s = Some s' -> al_inv s'.
Proof.
  intros i s s' I H. unfold al_loader_step in H.
  destruct (nth_error (loaders s) i) as [ld|] eqn:E; [|discriminate].
  pose proof (ali_one s I) as ONE.
  assert (SH : exists x, loaders s = [x] /\ i = 0).
  { destruct (loaders s) as [|x [|y r]] eqn:L; cbn in ONE.
    - destruct i; discriminate.
    - exists x. split; auto. destruct i as [|[|i]]; auto; discriminate.
    - lia. }
  destruct SH as (x & L & ->). rewrite L in E. cbn in E. inversion E; subst x. clear E.
  assert (NOSTART : forall t, al_starting (fst (clients s t)) = false).
  { intro t. destruct (al_starting (fst (clients s t))) eqn:S; auto.
    rewrite (ali_excl s I t S) in L. discriminate. }
  assert (FL : flag s = true).
  { destruct (flag s) eqn:F; auto. destruct (ali_flag s I F) as (L0 & _). rewrite L0 in L. discriminate. }
  destruct ld.
  - destruct (chan s) as [|n] eqn:C; [discriminate|]. inversion H; subst; clear H. rewrite L. cbn.
    constructor; cbn.
    + lia.
    + intros t1 t2 H1. rewrite NOSTART in H1. discriminate.
    + intros t H1. rewrite NOSTART in H1. discriminate.
    + intro F. congruence.
    + apply (ali_noset s I).
  - inversion H; subst; clear H. rewrite L. cbn. constructor; cbn.
    + lia.
    + intros t1 t2 H1. rewrite NOSTART in H1. discriminate.
    + intros t H1. rewrite NOSTART in H1. discriminate.
    + intros _. split; auto.
    + apply (ali_noset s I).
Qed.

(* With CompareAndSwap in StartAutoLoadPolicy there is never more than one loader goroutine,
   whatever mix of Start / Stop calls any number of threads make. *)
Theorem at_most_one_loader : forall v prog s,
  v_cas v = true -> al_reachable v (al_init prog) s -> List.length (loaders s) <= 1.
Proof.
  intros v prog s CAS H. apply ali_one. induction H.
  - constructor; cbn; auto; try discriminate.
  - destruct a as [t | i]; cbn in H0.
    + eapply al_inv_client; eauto.
    + eapply al_inv_loader; eauto.
Qed.
