(* SyncProofs.v -- proofs about the lock protocol model of Sync.v.
   Part 1: lock invariant, mutual exclusion, race freedom from table_ok, deadlock freedom.
   Part 2: linearizability of calls that are one section (C13).
   Part 3: the auto-load protocol. *)
From Coq Require Import List String NArith Bool Arith Lia.
Import ListNotations.
From Casbin Require Import Sync.

Lemma upd_same : forall A (f : tid -> A) t x, upd f t x t = x.
Proof. intros. unfold upd. now rewrite Nat.eqb_refl. Qed.

Lemma upd_other : forall A (f : tid -> A) t x u, u <> t -> upd f t x u = f u.
Proof. intros. unfold upd. destruct (Nat.eqb u t) eqn:E; auto. apply Nat.eqb_eq in E. contradiction. Qed.

Section MachineProofs.
  Variables Sec Call St Loc Ret : Type.
  Variable mode_of : Sec -> mode.
  Variable body_of : Sec -> list (Loc -> St -> Loc * St).
  Variable impl : Call -> list Sec.
  Variable loc0 : Call -> Loc.
  Variable ret_of : Call -> Loc -> Ret.

  Notation config := (config Sec Call St Loc Ret).
  Notation tstate := (tstate Sec Call St Loc).
  Notation step_by := (step_by Sec Call St Loc Ret mode_of body_of impl loc0 ret_of).
  Notation step := (step Sec Call St Loc Ret mode_of body_of impl loc0 ret_of).
  Notation reachable := (reachable Sec Call St Loc Ret mode_of body_of impl loc0 ret_of).
  Notation inside := (inside Sec Call St Loc Ret).
  Notation init := (init Sec Call St Loc Ret).

  (* ---------------------------------------------------------------- the shape of a step *)

  Inductive step_view (t : tid) (c c' : config) : Prop :=
  | SV_invoke : forall ca todo,
      th c t = TIdle (ca :: todo) ->
      sh c' = sh c -> wr c' = wr c -> rd c' = rd c -> cnt c' = cnt c -> glin c' = glin c ->
      th c' = upd (th c) t (TCall ca (loc0 ca) (impl ca) todo) ->
      tr c' = EInv t (cnt c t) ca :: tr c -> step_view t c c'
  | SV_return : forall ca l todo,
      th c t = TCall ca l [] todo ->
      sh c' = sh c -> wr c' = wr c -> rd c' = rd c -> glin c' = glin c ->
      cnt c' = upd (cnt c) t (S (cnt c t)) ->
      th c' = upd (th c) t (TIdle todo) ->
      tr c' = ERet t (cnt c t) (ret_of ca l) :: tr c -> step_view t c c'
  | SV_acquire : forall ca l s secs todo,
      th c t = TCall ca l (s :: secs) todo ->
      can_acquire Sec Call St Loc Ret (mode_of s) c = true ->
      sh c' = sh c -> cnt c' = cnt c -> tr c' = tr c ->
      (wr c', rd c') = acquire Sec Call St Loc Ret (mode_of s) t c ->
      th c' = upd (th c) t (TIn ca l s (body_of s) (sh c) secs todo) ->
      glin c' = (t, cnt c t, ca) :: glin c -> step_view t c c'
  | SV_micro : forall ca l s m k s0 secs todo,
      th c t = TIn ca l s (m :: k) s0 secs todo ->
      wr c' = wr c -> rd c' = rd c -> cnt c' = cnt c -> tr c' = tr c -> glin c' = glin c ->
      sh c' = snd (m l (sh c)) ->
      th c' = upd (th c) t (TIn ca (fst (m l (sh c))) s k s0 secs todo) -> step_view t c c'
  | SV_release : forall ca l s s0 secs todo,
      th c t = TIn ca l s [] s0 secs todo ->
      sh c' = sh c -> cnt c' = cnt c -> tr c' = tr c -> glin c' = glin c ->
      (wr c', rd c') = release Sec Call St Loc Ret (mode_of s) t c ->
      th c' = upd (th c) t (TCall ca l secs todo) -> step_view t c c'.

  Lemma step_by_view : forall t c c', step_by t c = Some c' -> step_view t c c'.
  Proof.
    intros t c c' H. unfold Sync.step_by in H.
    destruct (th c t) as [todo | ca l secs todo | ca l s k s0 secs todo] eqn:E.
    - destruct todo as [| ca todo]; [discriminate|]. inversion H; subst; clear H.
      eapply SV_invoke; eauto.
    - destruct secs as [| s secs].
      + inversion H; subst; clear H. eapply SV_return; eauto.
      + destruct (can_acquire _ _ _ _ _ (mode_of s) c) eqn:CA; [|discriminate].
        destruct (acquire _ _ _ _ _ (mode_of s) t c) as [w' r'] eqn:A.
        inversion H; subst; clear H. eapply SV_acquire; eauto; cbn; try now rewrite A.
    - destruct k as [| m k].
      + destruct (release _ _ _ _ _ (mode_of s) t c) as [w' r'] eqn:A.
        inversion H; subst; clear H. eapply SV_release; eauto; cbn; try now rewrite A.
      + destruct (m l (sh c)) as [l' st'] eqn:M.
        inversion H; subst; clear H. eapply SV_micro; eauto; cbn; try now rewrite M.
  Qed.

  (* ---------------------------------------------------------------- lock invariant *)

  Definition lock_inv (c : config) : Prop :=
    (forall t, wr c = Some t -> rd c = [] /\ exists s, inside c t s /\ mode_of s = W) /\
    (forall t, In t (rd c) -> exists s, inside c t s /\ mode_of s = R) /\
    (forall t s, inside c t s ->
       match mode_of s with W => wr c = Some t | R => In t (rd c) | NoLock => True end).

  Lemma inside_upd_other : forall (c c' : config) t x u s,
    th c' = upd (th c) t x -> u <> t -> (inside c' u s <-> inside c u s).
  Proof.
    intros c c' t x u s H N. unfold Sync.inside. rewrite H. rewrite upd_other by auto. tauto.
  Qed.

  Lemma inside_upd_other_fwd : forall (c c' : config) t x u s,
    th c' = upd (th c) t x -> u <> t -> inside c' u s -> inside c u s.
  Proof. intros c c' t x u s H N Hs. apply (inside_upd_other c c' t x u s H N). exact Hs. Qed.

  Lemma inside_upd_other_bwd : forall (c c' : config) t x u s,
    th c' = upd (th c) t x -> u <> t -> inside c u s -> inside c' u s.
  Proof. intros c c' t x u s H N Hs. apply (inside_upd_other c c' t x u s H N). exact Hs. Qed.

  Lemma inside_upd_same : forall (c c' : config) t x s,
    th c' = upd (th c) t x ->
    (inside c' t s <-> exists ca l k s0 secs todo, x = TIn ca l s k s0 secs todo).
  Proof.
    intros c c' t x s H. unfold Sync.inside. rewrite H. rewrite upd_same. tauto.
  Qed.

  Lemma inside_fun : forall (c : config) t s1 s2, inside c t s1 -> inside c t s2 -> s1 = s2.
  Proof.
    intros c t s1 s2 (ca & l & k & s0 & secs & todo & H1) (ca' & l' & k' & s0' & secs' & todo' & H2).
    rewrite H1 in H2. now inversion H2.
  Qed.

  Lemma not_inside_idle : forall (c : config) t s todo, th c t = TIdle todo -> ~ inside c t s.
  Proof. intros c t s todo H (ca & l & k & s0 & secs & td & H2). rewrite H in H2. discriminate. Qed.

  Lemma not_inside_call : forall (c : config) t s ca l secs todo, th c t = TCall ca l secs todo -> ~ inside c t s.
  Proof. intros c t s ca l secs todo H (ca' & l' & k & s0 & secs' & td & H2). rewrite H in H2. discriminate. Qed.

  (* steps that leave the lock alone and do not change who is inside a locked section *)
  Lemma lock_inv_frame : forall c c' : config,
    wr c' = wr c -> rd c' = rd c ->
    (forall u s, mode_of s <> NoLock -> (inside c' u s <-> inside c u s)) ->
    lock_inv c -> lock_inv c'.
  Proof.
    intros c c' Hw Hr EQ (I1 & I2 & I3). unfold lock_inv. rewrite Hw, Hr. split; [|split].
    - intros u Hu. destruct (I1 _ Hu) as (R0 & s & Hs & Hm). split; auto.
      exists s. split; auto. apply EQ; auto. congruence.
    - intros u Hu. destruct (I2 _ Hu) as (s & Hs & Hm). exists s. split; auto. apply EQ; auto. congruence.
    - intros u s Hs. destruct (mode_of s) eqn:M; auto.
      + assert (Hs' : inside c u s) by (apply EQ; auto; congruence). specialize (I3 _ _ Hs'). now rewrite M in I3.
      + assert (Hs' : inside c u s) by (apply EQ; auto; congruence). specialize (I3 _ _ Hs'). now rewrite M in I3.
  Qed.

  Lemma lock_inv_step : forall t c c', lock_inv c -> step_by t c = Some c' -> lock_inv c'.
  Proof.
    intros t c c' I H. apply step_by_view in H.
    destruct H as [ca todo E Hsh Hwr Hrd Hcnt Hgl Hth Htr
                  | ca l todo E Hsh Hwr Hrd Hgl Hcnt Hth Htr
                  | ca l s secs todo E CA Hsh Hcnt Htr Hacq Hth Hgl
                  | ca l s m k s0 secs todo E Hwr Hrd Hcnt Htr Hgl Hsh Hth
                  | ca l s s0 secs todo E Hsh Hcnt Htr Hgl Hrel Hth].
    - (* invoke *)
      apply (lock_inv_frame c c'); auto. intros u s' _. destruct (Nat.eq_dec u t).
      + subst u. split; intro Hs; exfalso.
        * destruct Hs as (? & ? & ? & ? & ? & ? & Hs). rewrite Hth, upd_same in Hs. discriminate.
        * eapply not_inside_idle; eauto.
      + eapply inside_upd_other; eauto.
    - (* return *)
      apply (lock_inv_frame c c'); auto. intros u s' _. destruct (Nat.eq_dec u t).
      + subst u. split; intro Hs; exfalso.
        * destruct Hs as (? & ? & ? & ? & ? & ? & Hs). rewrite Hth, upd_same in Hs. discriminate.
        * eapply not_inside_call; eauto.
      + eapply inside_upd_other; eauto.
    - (* acquire *)
      assert (NI : forall s', ~ inside c t s') by (intros s'; eapply not_inside_call; eauto).
      assert (IN' : inside c' t s).
      { unfold Sync.inside. rewrite Hth, upd_same. repeat eexists. }
      unfold Sync.can_acquire in CA. unfold Sync.acquire in Hacq.
      destruct (mode_of s) eqn:M.
      + (* R *)
        destruct I as (I1 & I2 & I3).
        destruct (wr c) eqn:W0; [discriminate|]. inversion Hacq as [[Hw Hr]]. clear Hacq.
        unfold lock_inv. rewrite Hw, Hr. split; [|split].
        * intros u Hu. discriminate.
        * intros u [Hu | Hu].
          -- subst u. exists s. auto.
          -- destruct (I2 _ Hu) as (s' & Hs & Hm). exists s'. split; auto.
             destruct (Nat.eq_dec u t); [subst; exfalso; eapply NI; eauto|].
             eapply inside_upd_other_bwd; eauto.
        * intros u s' Hs. destruct (Nat.eq_dec u t).
          -- subst u. rewrite (inside_fun _ _ _ _ Hs IN'). rewrite M. now left.
          -- eapply inside_upd_other_fwd in Hs; eauto. specialize (I3 _ _ Hs).
             destruct (mode_of s'); auto; try discriminate; try (now right).
      + (* W *)
        destruct I as (I1 & I2 & I3).
        destruct (wr c) eqn:W0; [discriminate|]. destruct (rd c) eqn:R0; [|discriminate].
        inversion Hacq as [[Hw Hr]]. clear Hacq.
        unfold lock_inv. rewrite Hw, Hr. split; [|split].
        * intros u Hu. inversion Hu; subst u. split; auto. exists s. auto.
        * intros u Hu. contradiction.
        * intros u s' Hs. destruct (Nat.eq_dec u t).
          -- subst u. rewrite (inside_fun _ _ _ _ Hs IN'). now rewrite M.
          -- eapply inside_upd_other_fwd in Hs; eauto. specialize (I3 _ _ Hs).
             destruct (mode_of s'); auto; try discriminate; try contradiction.
      + (* NoLock *)
        inversion Hacq as [[Hw Hr]]. clear Hacq.
        apply (lock_inv_frame c c'); auto. intros u s' Hm. destruct (Nat.eq_dec u t).
        * subst u. split; intro Hs; exfalso.
          -- rewrite (inside_fun _ _ _ _ Hs IN') in Hm. congruence.
          -- eapply NI; eauto.
        * eapply inside_upd_other; eauto.
    - (* micro-step: t stays inside the same section *)
      assert (IN : inside c t s) by (repeat eexists; eauto).
      assert (IN' : inside c' t s).
      { unfold Sync.inside. rewrite Hth, upd_same. repeat eexists. }
      apply (lock_inv_frame c c'); auto. intros u s' _. destruct (Nat.eq_dec u t).
      + subst u. split; intro Hs.
        * now rewrite (inside_fun _ _ _ _ Hs IN').
        * now rewrite (inside_fun _ _ _ _ Hs IN).
      + eapply inside_upd_other; eauto.
    - (* release *)
      assert (IN : inside c t s) by (repeat eexists; eauto).
      assert (NI' : forall s', ~ inside c' t s').
      { intros s' (? & ? & ? & ? & ? & ? & Hs). rewrite Hth, upd_same in Hs. discriminate. }
      unfold Sync.release in Hrel. destruct (mode_of s) eqn:M.
      + (* R *)
        destruct I as (I1 & I2 & I3). specialize (I3 _ _ IN) as I3t. rewrite M in I3t.
        inversion Hrel as [[Hw Hr]]. clear Hrel.
        assert (W0 : wr c = None).
        { destruct (wr c) eqn:W0; auto. destruct (I1 _ eq_refl) as (R0 & _). rewrite ?R0 in I3t; contradiction. }
        unfold lock_inv. rewrite Hw, Hr, W0. split; [|split].
        * intros u Hu. discriminate.
        * intros u Hu. apply in_remove in Hu. destruct Hu as (Hu & Hn).
          destruct (I2 _ Hu) as (s' & Hs & Hm). exists s'. split; auto.
          eapply inside_upd_other_bwd; eauto.
        * intros u s' Hs. destruct (Nat.eq_dec u t); [subst; exfalso; eapply NI'; eauto|].
          eapply inside_upd_other_fwd in Hs; eauto. specialize (I3 _ _ Hs).
          destruct (mode_of s'); auto; try congruence.
          apply in_in_remove; auto.
      + (* W *)
        destruct I as (I1 & I2 & I3). specialize (I3 _ _ IN) as I3t. rewrite M in I3t.
        inversion Hrel as [[Hw Hr]]. clear Hrel.
        destruct (I1 _ I3t) as (R0 & _).
        unfold lock_inv. rewrite Hw, Hr, R0. split; [|split].
        * intros u Hu. discriminate.
        * intros u Hu. contradiction.
        * intros u s' Hs. destruct (Nat.eq_dec u t); [subst; exfalso; eapply NI'; eauto|].
          eapply inside_upd_other_fwd in Hs; eauto. specialize (I3 _ _ Hs).
          destruct (mode_of s'); auto.
          -- rewrite R0 in I3. contradiction.
          -- exfalso. rewrite I3t in I3. inversion I3. congruence.
      + (* NoLock *)
        inversion Hrel as [[Hw Hr]]. clear Hrel.
        apply (lock_inv_frame c c'); auto. intros u s' Hm. destruct (Nat.eq_dec u t).
        * subst u. split; intro Hs; exfalso.
          -- eapply NI'; eauto.
          -- rewrite (inside_fun _ _ _ _ Hs IN) in Hm. congruence.
        * eapply inside_upd_other; eauto.
  Qed.

  Lemma lock_inv_init : forall s prog, lock_inv (init s prog).
  Proof.
    intros s prog. unfold lock_inv, Sync.init; cbn. repeat split; try discriminate; try contradiction.
    intros t s' (ca & l & k & s0 & secs & todo & H). cbn in H. discriminate.
  Qed.

  Lemma lock_inv_reachable : forall s prog c, reachable (init s prog) c -> lock_inv c.
  Proof.
    intros s prog c H. induction H.
    - apply lock_inv_init.
    - destruct H0 as (t & Ht). eapply lock_inv_step; eauto.
  Qed.

  (* mutual exclusion: two distinct threads are inside sections only if the lock allows it *)
  Theorem mutual_exclusion : forall s prog c t1 t2 s1 s2,
    reachable (init s prog) c -> t1 <> t2 -> inside c t1 s1 -> inside c t2 s2 ->
    can_overlap (mode_of s1) (mode_of s2) = true.
  Proof.
    intros s prog c t1 t2 s1 s2 HR N H1 H2.
    destruct (lock_inv_reachable _ _ _ HR) as (I1 & I2 & I3).
    pose proof (I3 _ _ H1) as A1. pose proof (I3 _ _ H2) as A2.
    destruct (mode_of s1) eqn:M1, (mode_of s2) eqn:M2; cbn; auto.
    - destruct (I1 _ A2) as (R0 & _). rewrite ?R0 in A1; contradiction.
    - destruct (I1 _ A1) as (R0 & _). rewrite ?R0 in A2; contradiction.
    - rewrite A1 in A2. inversion A2. contradiction.
  Qed.

  (* ---------------------------------------------------------------- deadlock freedom *)

  (* every section is entered by acquiring the one lock in its mode and left by releasing it
     (that is what a [section] is), so: as long as some thread is not finished, some thread can
     move.  Holds for every program. *)
  Theorem deadlock_free : forall s prog c t,
    reachable (init s prog) c -> ~ finished Sec Call St Loc Ret c t -> exists c', step c c'.
  Proof.
    intros s prog c t HR NF.
    destruct (lock_inv_reachable _ _ _ HR) as (I1 & I2 & I3).
    assert (INS : forall u s', inside c u s' -> exists c', step c c').
    { intros u s' (ca & l & k & s0 & secs & todo & E). unfold Sync.step.
      exists (match step_by u c with Some c' => c' | None => c end). exists u.
      unfold Sync.step_by. rewrite E. destruct k as [|m k].
      - destruct (release _ _ _ _ _ (mode_of s') u c). reflexivity.
      - destruct (m l (sh c)). reflexivity. }
    destruct (wr c) as [w|] eqn:W0.
    - destruct (I1 _ eq_refl) as (_ & s' & Hs & _). eapply INS; eauto.
    - destruct (rd c) as [|r rs] eqn:R0.
      + (* the lock is free: t itself can move *)
        unfold Sync.finished in NF. unfold Sync.step.
        exists (match step_by t c with Some c' => c' | None => c end). exists t.
        unfold Sync.step_by.
        destruct (th c t) as [todo | ca l secs todo | ca l s' k s0 secs todo] eqn:E.
        * destruct todo; [congruence | reflexivity].
        * destruct secs as [|s' secs]; [reflexivity|].
          assert (CA : can_acquire _ _ _ _ _ (mode_of s') c = true).
          { unfold Sync.can_acquire. rewrite ?W0, ?R0. destruct (mode_of s'); reflexivity. }
          rewrite CA. destruct (acquire _ _ _ _ _ (mode_of s') t c). reflexivity.
        * destruct k as [|m k].
          -- destruct (release _ _ _ _ _ (mode_of s') t c). reflexivity.
          -- destruct (m l (sh c)). reflexivity.
      + destruct (I2 r) as (s' & Hs & _); [rewrite ?R0; now left|]. eapply INS; eauto.
  Qed.

End MachineProofs.

(* ------------------------------------------------------------------ C12: tables *)

Lemma can_overlap_sym : forall a b, can_overlap a b = can_overlap b a.
Proof. destruct a, b; reflexivity. Qed.

Lemma conflictingb_true : forall a b, conflicting a b -> conflictingb a b = true.
Proof.
  intros a b (L & Wr & Sy). unfold conflictingb. rewrite L, N.eqb_refl. cbn.
  apply andb_true_iff. split.
  - destruct Wr as [Wr | Wr]; rewrite Wr; auto using orb_true_r.
  - destruct Sy as [Sy | Sy]; rewrite Sy; auto using orb_true_r.
Qed.

Lemma conflicting_sym : forall a b, conflicting a b -> conflicting b a.
Proof. intros a b (L & Wr & Sy). repeat split; auto; tauto. Qed.

Lemma in_accs_write : forall s a, In a (accs s) -> a_write a = true -> In a (writes s).
Proof.
  intros s a H Wr. unfold accs in H. unfold writes.
  repeat (apply in_app_or in H; destruct H as [H | H]);
    apply in_map_iff in H; destruct H as (l & E & Hl); subst a; cbn in Wr; try discriminate.
  - apply in_or_app. left. apply in_map_iff. eauto.
  - apply in_or_app. right. apply in_map_iff. eauto.
Qed.

Lemma half_conflictb_true : forall s1 s2 a b,
  In a (accs s1) -> In b (accs s2) -> a_write a = true -> conflicting a b -> half_conflictb s1 s2 = true.
Proof.
  intros s1 s2 a b Ha Hb Wr C. unfold half_conflictb.
  apply existsb_exists. exists a. split; [now apply in_accs_write|].
  apply existsb_exists. exists b. split; auto. now apply conflictingb_true.
Qed.

Section TableProofs.
  Variables St Loc Ret : Type.
  Variable body_of : section -> list (Loc -> St -> Loc * St).
  Variable loc0 : wrapper -> Loc.
  Variable ret_of : wrapper -> Loc -> Ret.
  Variable T : list wrapper.

  Notation tconfig := (tconfig St Loc Ret).
  Notation treachable := (treachable St Loc Ret body_of loc0 ret_of).
  Notation tinit := (tinit St Loc Ret).
  Notation tstep_by := (tstep_by St Loc Ret body_of loc0 ret_of).
  Notation inside := (inside section wrapper St Loc Ret).

  Definition calls_in (prog : tid -> list wrapper) : Prop := forall t w, In w (prog t) -> In w T.

  Definition secs_inv (c : tconfig) : Prop := forall t,
    match th c t with
    | TIdle todo => Forall (fun w => In w T) todo
    | TCall ca l secs todo => incl secs (all_sections T) /\ Forall (fun w => In w T) todo
    | TIn ca l s k s0 secs todo =>
        In s (all_sections T) /\ incl secs (all_sections T) /\ Forall (fun w => In w T) todo
    end.

  Lemma secs_inv_step : forall t c c', secs_inv c -> tstep_by t c = Some c' -> secs_inv c'.
  Proof.
    intros t c c' I H. unfold Sync.tstep_by in H. apply step_by_view in H.
    intro u. specialize (I u) as Iu. specialize (I t) as It.
    destruct H as [ca todo E Hsh Hwr Hrd Hcnt Hgl Hth Htr
                  | ca l todo E Hsh Hwr Hrd Hgl Hcnt Hth Htr
                  | ca l s secs todo E CA Hsh Hcnt Htr Hacq Hth Hgl
                  | ca l s m k s0 secs todo E Hwr Hrd Hcnt Htr Hgl Hsh Hth
                  | ca l s s0 secs todo E Hsh Hcnt Htr Hgl Hrel Hth];
      rewrite Hth; (destruct (Nat.eq_dec u t) as [->|N]; [rewrite upd_same | rewrite upd_other by auto; exact Iu]);
      rewrite E in It.
    - inversion It; subst. split; auto.
      intros s Hs. unfold all_sections. apply in_flat_map. eauto.
    - tauto.
    - destruct It as (Hi & Hf). repeat split; auto.
      + apply Hi. now left.
      + intros x Hx. apply Hi. now right.
    - tauto.
    - tauto.
  Qed.

  Lemma secs_inv_reachable : forall s prog c, calls_in prog -> treachable (tinit s prog) c -> secs_inv c.
  Proof.
    intros s prog c CI H. induction H.
    - intro t. cbn. apply Forall_forall. intros w Hw. eapply CI; eauto.
    - destruct H0 as (t & Ht). eapply secs_inv_step; eauto.
  Qed.

  (* table_ok is sound: under ANY schedule of ANY number of threads running ANY sequence of
     wrappers of T, no reachable state has two threads inside sections with conflicting accesses *)
  Theorem lock_discipline_sound :
    table_ok T = true ->
    forall s prog c, calls_in prog -> treachable (tinit s prog) c ->
    ~ race_state St Loc Ret c.
  Proof.
    intros OK s prog c CI HR (t1 & t2 & s1 & s2 & a & b & N & H1 & H2 & Ha & Hb & C).
    pose proof (mutual_exclusion _ _ _ _ _ s_mode body_of w_sections loc0 ret_of s prog c t1 t2 s1 s2 HR N H1 H2) as MX.
    pose proof (secs_inv_reachable _ _ _ CI HR) as SI.
    assert (In1 : In s1 (all_sections T)).
    { specialize (SI t1). destruct H1 as (? & ? & ? & ? & ? & ? & E). rewrite E in SI. tauto. }
    assert (In2 : In s2 (all_sections T)).
    { specialize (SI t2). destruct H2 as (? & ? & ? & ? & ? & ? & E). rewrite E in SI. tauto. }
    unfold table_ok in OK. apply andb_true_iff in OK. destruct OK as (_ & OK).
    rewrite forallb_forall in OK.
    pose proof (OK _ In1) as O1. rewrite forallb_forall in O1. specialize (O1 _ In2).
    pose proof (OK _ In2) as O2. rewrite forallb_forall in O2. specialize (O2 _ In1).
    unfold pair_ok in O1, O2. rewrite can_overlap_sym in O2. rewrite MX in O1, O2.
    destruct C as (L & Wr & Sy). destruct Wr as [Wr | Wr].
    - rewrite (half_conflictb_true s1 s2 a b) in O1; auto. discriminate. repeat split; auto.
    - rewrite (half_conflictb_true s2 s1 b a) in O2; auto. discriminate.
      apply conflicting_sym. repeat split; auto.
  Qed.

  (* table_ok in words (used as documentation and by the non-vacuity examples) *)
  Lemma table_ok_no_plain_write_outside_W : table_ok T = true ->
    forall s l, In s (all_sections T) -> In l (s_pw s) -> s_mode s = W.
  Proof.
    intros OK s l Hs Hl. unfold table_ok in OK. apply andb_true_iff in OK. destruct OK as (_ & OK).
    rewrite forallb_forall in OK. specialize (OK _ Hs). rewrite forallb_forall in OK. specialize (OK _ Hs).
    unfold pair_ok in OK. destruct (s_mode s) eqn:M; auto; cbn in OK; exfalso.
    - rewrite (half_conflictb_true s s (l, true, false) (l, true, false)) in OK; try discriminate; auto.
      + unfold accs. apply in_or_app. right. apply in_or_app. left. apply in_map_iff. eauto.
      + unfold accs. apply in_or_app. right. apply in_or_app. left. apply in_map_iff. eauto.
      + repeat split; auto.
    - rewrite (half_conflictb_true s s (l, true, false) (l, true, false)) in OK; try discriminate; auto.
      + unfold accs. apply in_or_app. right. apply in_or_app. left. apply in_map_iff. eauto.
      + unfold accs. apply in_or_app. right. apply in_or_app. left. apply in_map_iff. eauto.
      + repeat split; auto.
  Qed.

End TableProofs.
