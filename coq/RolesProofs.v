(* RolesProofs.v — HasLink (level-budgeted BFS) = reachability within max_level edges;
   the answers of the role manager depend only on the SET of links; add/del are set
   insertion / deletion. *)
From Coq Require Import List String Bool Arith Lia.
Import ListNotations.
From Casbin Require Import Base BaseProofs Roles.

Lemma link_eqb_eq a b : link_eqb a b = true <-> a = b.
Proof.
  destruct a as [[u1 r1] d1], b as [[u2 r2] d2]. unfold link_eqb.
  rewrite !andb_true_iff, !String.eqb_eq. split; [intros [[-> ->] ->]; reflexivity|intros H; inversion H; auto].
Qed.
Lemma link_eqb_refl a : link_eqb a a = true.
Proof. apply link_eqb_eq. reflexivity. Qed.

Lemma mem_link_In l ls : mem_link l ls = true <-> In l ls.
Proof.
  unfold mem_link. rewrite existsb_exists. split.
  - intros [y [Hy E]]. apply link_eqb_eq in E. subst. exact Hy.
  - intros H. exists l. split; [exact H|apply link_eqb_refl].
Qed.

Lemma add_link_In l ls x : In x (add_link l ls) <-> x = l \/ In x ls.
Proof.
  unfold add_link. destruct (mem_link l ls) eqn:M.
  - apply mem_link_In in M. split; [auto|intros [->|H]; auto].
  - rewrite in_app_iff. cbn [In]. split; [intros [H|[H|[]]]; auto|intros [->|H]; auto].
Qed.

Lemma del_link_In l ls x : In x (del_link l ls) <-> x <> l /\ In x ls.
Proof.
  unfold del_link. rewrite filter_In. split.
  - intros [H N]. split; [|exact H]. intros ->. rewrite link_eqb_refl in N. discriminate.
  - intros [N H]. split; [exact H|]. apply negb_true_iff. apply not_true_iff_false. intros E.
    apply link_eqb_eq in E. congruence.
Qed.

(* ---------- successors ---------- *)
Lemma succs_In ls d x y : In y (succs ls d x) <-> In (x, y, d) ls.
Proof.
  unfold succs. rewrite in_map_iff. split.
  - intros [[[a b] c] [E H]]. apply filter_In in H as [H Ha]. cbn [fst snd] in *.
    apply andb_true_iff in Ha as [Ha Hc]. apply String.eqb_eq in Ha, Hc. subst. exact H.
  - intros H. exists (x, y, d). split; [reflexivity|]. apply filter_In. split; [exact H|].
    cbn [fst snd]. rewrite !String.eqb_refl. reflexivity.
Qed.
Lemma preds_In ls d x y : In y (preds ls d x) <-> In (y, x, d) ls.
Proof.
  unfold preds. rewrite in_map_iff. split.
  - intros [[[a b] c] [E H]]. apply filter_In in H as [H Ha]. cbn [fst snd] in *.
    apply andb_true_iff in Ha as [Ha Hc]. apply String.eqb_eq in Ha, Hc. subst. exact H.
  - intros H. exists (y, x, d). split; [reflexivity|]. apply filter_In. split; [exact H|].
    cbn [fst snd]. rewrite !String.eqb_refl. reflexivity.
Qed.

(* ---------- BFS = bounded walk ---------- *)
Lemma bfs_sound ls d fuel t fr :
  bfs ls d fuel t fr = true -> exists u k, In u fr /\ k < fuel /\ walk ls d u t k.
Proof.
  revert fr. induction fuel as [|f IH]; intros fr H; cbn [bfs] in H; [discriminate|].
  destruct fr as [|a fr']; [discriminate|].
  destruct (mem_str t (a :: fr')) eqn:M.
  - apply mem_str_In in M. exists t, 0. repeat split; [exact M|lia|constructor].
  - apply IH in H as [v [k [Hv [Hk W]]]].
    apply in_flat_map in Hv as [u [Hu Hs]]. apply succs_In in Hs.
    exists u, (S k). repeat split; [exact Hu|lia|]. econstructor; eassumption.
Qed.

Lemma bfs_complete ls d fuel t fr u k :
  In u fr -> k < fuel -> walk ls d u t k -> bfs ls d fuel t fr = true.
Proof.
  revert fr u k. induction fuel as [|f IH]; intros fr u k Hu Hk W; [lia|].
  cbn [bfs]. destruct fr as [|a fr']; [contradiction|].
  destruct (mem_str t (a :: fr')) eqn:M; [reflexivity|].
  inversion W as [x|x y z k' Hl W']; subst.
  - apply mem_str_In in Hu. congruence.
  - apply (IH _ y k'); [|lia|exact W'].
    apply in_flat_map. exists u. split; [exact Hu|apply succs_In; exact Hl].
Qed.

Theorem has_link_iff_walk n ls u r d :
  has_link_n n ls u r d = true <-> exists k, k <= n /\ walk ls d u r k.
Proof.
  unfold has_link_n. destruct (String.eqb u r) eqn:E.
  - apply String.eqb_eq in E. subst. split; [intros _|reflexivity]. exists 0. split; [lia|constructor].
  - split.
    + intros H. apply bfs_sound in H as [v [k [[Hv|[]] [Hk W]]]]. subst. exists k. split; [lia|exact W].
    + intros [k [Hk W]]. apply (bfs_complete _ _ _ _ _ u k); [left; reflexivity|lia|exact W].
Qed.

(* ---------- answers depend only on the set of links ---------- *)
Definition links_equiv (a b : list link) : Prop := forall l, In l a <-> In l b.

Lemma links_equiv_refl a : links_equiv a a. Proof. intros l; tauto. Qed.
Lemma links_equiv_sym a b : links_equiv a b -> links_equiv b a. Proof. intros H l; symmetry; apply H. Qed.
Lemma links_equiv_trans a b c : links_equiv a b -> links_equiv b c -> links_equiv a c.
Proof. intros H1 H2 l. rewrite (H1 l). apply H2. Qed.

Lemma walk_equiv a b d x y k : links_equiv a b -> walk a d x y k -> walk b d x y k.
Proof. intros E W. induction W; [constructor|]. econstructor; [apply E; eassumption|assumption]. Qed.

Theorem has_link_equiv n a b u r d : links_equiv a b -> has_link_n n a u r d = has_link_n n b u r d.
Proof.
  intros E. destruct (has_link_n n a u r d) eqn:Ha; symmetry.
  - apply has_link_iff_walk in Ha as [k [Hk W]]. apply has_link_iff_walk. exists k. split; [exact Hk|].
    eapply walk_equiv; eassumption.
  - apply not_true_iff_false. intros Hb. apply has_link_iff_walk in Hb as [k [Hk W]].
    assert (has_link_n n a u r d = true); [|congruence].
    apply has_link_iff_walk. exists k. split; [exact Hk|]. eapply walk_equiv; [apply links_equiv_sym|]; eassumption.
Qed.

Lemma dedup_In x l : In x (dedup l) <-> In x l.
Proof.
  induction l as [|y t IH]; cbn [dedup In]; [tauto|].
  destruct (mem_str y t) eqn:M.
  - rewrite IH. apply mem_str_In in M. split; [auto|intros [->|H]; auto].
  - cbn [In]. rewrite IH. tauto.
Qed.
Lemma dedup_NoDup l : NoDup (dedup l).
Proof.
  induction l as [|y t IH]; cbn [dedup]; [constructor|].
  destruct (mem_str y t) eqn:M; [exact IH|]. constructor; [|exact IH].
  rewrite dedup_In. intros H. apply mem_str_In in H. congruence.
Qed.

Theorem get_roles_spec ls u d x : In x (get_roles ls u d) <-> In (u, x, d) ls.
Proof. unfold get_roles. rewrite dedup_In. apply succs_In. Qed.
Theorem get_users_spec ls r d x : In x (get_users ls r d) <-> In (x, r, d) ls.
Proof. unfold get_users. rewrite dedup_In. apply preds_In. Qed.

Theorem get_roles_equiv a b u d x : links_equiv a b -> (In x (get_roles a u d) <-> In x (get_roles b u d)).
Proof. intros E. rewrite !get_roles_spec. apply (E (u, x, d)). Qed.
Theorem get_users_equiv a b r d x : links_equiv a b -> (In x (get_users a r d) <-> In x (get_users b r d)).
Proof. intros E. rewrite !get_users_spec. apply (E (x, r, d)). Qed.

(* links of one domain never leak into another: walks only use the links of their own domain *)
Theorem domain_isolated ls d u r k :
  walk ls d u r k -> walk (filter (fun l => String.eqb (snd l) d) ls) d u r k.
Proof.
  intros W. induction W; [constructor|]. econstructor; [|eassumption].
  apply filter_In. split; [assumption|]. cbn [snd]. apply String.eqb_refl.
Qed.

Theorem has_link_other_domain n ls u r d l :
  snd l <> d -> has_link_n n (add_link l ls) u r d = has_link_n n ls u r d.
Proof.
  intros Hd.
  assert (E : forall k, walk (add_link l ls) d u r k <-> walk ls d u r k).
  { intros k. split; intros W.
    - induction W; [constructor|]. econstructor; [|eassumption].
      apply add_link_In in H as [H|H]; [subst l; cbn [snd] in Hd; congruence|exact H].
    - induction W; [constructor|]. econstructor; [|eassumption]. apply add_link_In. right. assumption. }
  destruct (has_link_n n ls u r d) eqn:Hb.
  - apply has_link_iff_walk in Hb as [k [Hk W]]. apply has_link_iff_walk. exists k. split; [exact Hk|apply E; exact W].
  - apply not_true_iff_false. intros Ha. apply has_link_iff_walk in Ha as [k [Hk W]].
    assert (has_link_n n ls u r d = true); [|congruence]. apply has_link_iff_walk. exists k. split; [exact Hk|apply E; exact W].
Qed.

(* non-vacuity: the level boundary of a chain of 11 edges *)
Example chain_boundary :
  let ls := [("n0","n1",""); ("n1","n2",""); ("n2","n3",""); ("n3","n4",""); ("n4","n5","");
             ("n5","n6",""); ("n6","n7",""); ("n7","n8",""); ("n8","n9",""); ("n9","n10","");
             ("n10","n11","")]%string in
  has_link ls "n0" "n10" "" = true /\ has_link ls "n0" "n11" "" = false.
Proof. split; reflexivity. Qed.
