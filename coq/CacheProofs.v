(* CacheProofs.v — proofs about the cache model of Cache.v. *)
From Coq Require Import List String Ascii Bool Arith ZArith Lia.
Import ListNotations.
From Casbin Require Import Cache.
Open Scope string_scope.

(* ------------------------------ strings and keys ------------------------------------ *)

Lemma append_assoc : forall a b c : string, (a ++ b) ++ c = a ++ (b ++ c).
Proof. induction a as [|x a IH]; intros b c; simpl; [reflexivity|]. now rewrite IH. Qed.

Lemma dollar_free_sep_safe : forall s, dollar_free s = true -> sep_safe s = true.
Proof.
  induction s as [|c s IH]; simpl; intro H; [reflexivity|].
  apply andb_true_iff in H. destruct H as [Hc Hs].
  apply negb_true_iff in Hc. rewrite Hc. now apply IH.
Qed.

(* the first "$$" of t ++ "$$" ++ rest is the terminator written after t *)
Lemma split_sep_key : forall t rest, sep_safe t = true ->
  split_sep (t ++ sep ++ rest) = Some (t, rest).
Proof.
  induction t as [|c t IH]; intros rest H.
  - reflexivity.
  - cbn [append split_sep]. cbn [sep_safe] in H.
    destruct (is_dollar c) eqn:Hc.
    + destruct t as [|d t']; [discriminate|].
      apply andb_true_iff in H. destruct H as [Hd Ht]. apply negb_true_iff in Hd.
      cbn [append]. rewrite Hd.
      change (String d (t' ++ sep ++ rest)) with (String d t' ++ sep ++ rest).
      now rewrite (IH rest Ht).
    + now rewrite (IH rest H).
Qed.

Lemma key_of_texts_injective : forall l1 l2,
  forallb sep_safe l1 = true -> forallb sep_safe l2 = true ->
  key_of_texts l1 = key_of_texts l2 -> l1 = l2.
Proof.
  induction l1 as [|t1 l1 IH]; intros [|t2 l2] H1 H2 E; cbn [key_of_texts forallb] in *.
  - reflexivity.
  - apply andb_true_iff in H2. destruct H2 as [S2 _].
    apply (f_equal split_sep) in E. rewrite (split_sep_key _ _ S2) in E. discriminate.
  - apply andb_true_iff in H1. destruct H1 as [S1 _].
    apply (f_equal split_sep) in E. rewrite (split_sep_key _ _ S1) in E. discriminate.
  - apply andb_true_iff in H1. destruct H1 as [S1 R1].
    apply andb_true_iff in H2. destruct H2 as [S2 R2].
    apply (f_equal split_sep) in E.
    rewrite (split_sep_key _ _ S1), (split_sep_key _ _ S2) in E.
    injection E as Et Ek. subst t2. f_equal. now apply IH.
Qed.

Lemma get_key_strs : forall l, get_key (map PStr l) = Some (key_of_texts l).
Proof. induction l as [|t l IH]; cbn [map get_key ptext key_of_texts]; [reflexivity|]. now rewrite IH. Qed.

Lemma plain_req_strs : forall r, plain_req r = true ->
  exists l, r = map PStr l /\ forallb sep_safe l = true.
Proof.
  induction r as [|p r IH]; cbn [plain_req forallb]; intro H.
  - exists []. split; reflexivity.
  - apply andb_true_iff in H. destruct H as [Hp Hr].
    destruct (IH Hr) as [l [El Sl]].
    destruct p; try discriminate. exists (s :: l). cbn [map forallb]. rewrite Hp, Sl, El. split; reflexivity.
Qed.

(* key_injective: two requests made of sep_safe strings have the same key only if they are the
   same tuple *)
Lemma key_injective : forall r1 r2, plain_req r1 = true -> plain_req r2 = true ->
  get_key r1 = get_key r2 -> r1 = r2.
Proof.
  intros r1 r2 H1 H2 E.
  destruct (plain_req_strs _ H1) as [l1 [E1 S1]]. destruct (plain_req_strs _ H2) as [l2 [E2 S2]].
  subst. rewrite !get_key_strs in E. injection E as E. f_equal. now apply key_of_texts_injective.
Qed.

(* in general the key determines the TEXTS of the parameters (a string and a CacheableParam
   with the same text are not told apart: cacheable_text_confusion_refuted) *)
Fixpoint texts (r : list param) : option (list string) :=
  match r with
  | [] => Some []
  | p :: rest => match ptext p, texts rest with
                 | Some t, Some l => Some (t :: l)
                 | _, _ => None
                 end
  end.

Lemma get_key_texts : forall r, get_key r = option_map key_of_texts (texts r).
Proof.
  induction r as [|p r IH]; cbn [get_key texts]; [reflexivity|].
  destruct (ptext p); [|reflexivity]. rewrite IH. destruct (texts r); reflexivity.
Qed.

Lemma key_injective_texts : forall r1 r2 l1 l2,
  texts r1 = Some l1 -> texts r2 = Some l2 ->
  forallb sep_safe l1 = true -> forallb sep_safe l2 = true ->
  get_key r1 = get_key r2 -> l1 = l2.
Proof.
  intros r1 r2 l1 l2 T1 T2 S1 S2 E. rewrite !get_key_texts, T1, T2 in E. cbn in E.
  injection E as E. now apply key_of_texts_injective.
Qed.

(* F21: without the guard the key is not injective *)
Lemma key_collision_refuted :
  exists r1 r2, r1 <> r2 /\ get_key (map PStr r1) = get_key (map PStr r2).
Proof. exists ["a$$"; "b"; "c"], ["a"; "$$b"; "c"]. split; [discriminate|reflexivity]. Qed.

(* the guard is needed on BOTH tuples: an unsafe tuple collides with a safe one *)
Lemma sep_safe_one_sided_refuted :
  exists r1 r2, r1 <> r2 /\ get_key (map PStr r1) = get_key (map PStr r2) /\
    forallb sep_safe r2 = true.
Proof. exists ["a$"; "b"], ["a"; "$b"]. repeat split; try reflexivity. discriminate. Qed.

Lemma cacheable_text_confusion_refuted :
  exists r1 r2, r1 <> r2 /\ get_key r1 = get_key r2 /\ texts r1 = texts r2.
Proof. exists [PStr "x"], [PKey "x"]. repeat split; try reflexivity. discriminate. Qed.

(* ------------------------------ requests with an EnforceContext --------------------- *)

Lemma strip_prefix_app : forall p s, strip_prefix p (p ++ s) = Some s.
Proof.
  induction p as [|c p IH]; intro s; cbn [append strip_prefix]; [reflexivity|].
  now rewrite Ascii.eqb_refl.
Qed.

Lemma split_dash_app : forall a rest, dash_free a = true ->
  split_dash (a ++ "-" ++ rest) = Some (a, rest).
Proof.
  induction a as [|c a IH]; intros rest H.
  - reflexivity.
  - cbn [dash_free] in H. apply andb_true_iff in H. destruct H as [Hc Ha].
    apply negb_true_iff in Hc. cbn [append split_dash]. rewrite Hc.
    change (a ++ String "-" rest) with (a ++ "-" ++ rest). now rewrite (IH rest Ha).
Qed.

Lemma strip_brace_app : forall d, strip_brace (d ++ "}") = Some d.
Proof.
  induction d as [|c d IH].
  - reflexivity.
  - cbn [append strip_brace]. now rewrite IH.
Qed.

(* a context whose first three names are dash-free is read back from its key text *)
Lemma parse_ctx_text : forall a b c d,
  dash_free a = true -> dash_free b = true -> dash_free c = true ->
  parse_ctx (ctx_text a b c d) = Some (a, b, c, d).
Proof.
  intros a b c d Ha Hb Hc. unfold parse_ctx, ctx_text.
  rewrite strip_prefix_app, (split_dash_app a _ Ha), (split_dash_app b _ Hb), (split_dash_app c _ Hc).
  now rewrite strip_brace_app.
Qed.

Lemma some_inj : forall (A : Type) (x y : A), Some x = Some y -> x = y.
Proof. intros A x y H. congruence. Qed.

Lemma ptext_injective_ok : forall p q, ctx_param_ok p = true -> ctx_param_ok q = true ->
  ptext p = ptext q -> p = q.
Proof.
  intros p q Hp Hq E.
  destruct p as [s|a b c d|t|l|n]; try discriminate Hp;
  destruct q as [s'|a' b' c' d'|t'|l'|n']; try discriminate Hq; cbn [ptext ctx_param_ok] in *.
  - now injection E as ->.
  - apply some_inj in E. apply andb_true_iff in Hp. destruct Hp as [_ Hp]. apply negb_true_iff in Hp.
    apply andb_true_iff in Hq. destruct Hq as [Hq _]. apply andb_true_iff in Hq. destruct Hq as [Hq Hc'].
    apply andb_true_iff in Hq. destruct Hq as [Ha' Hb'].
    unfold ctx_shaped in Hp. rewrite E, (parse_ctx_text _ _ _ _ Ha' Hb' Hc') in Hp. discriminate.
  - apply some_inj in E. apply andb_true_iff in Hq. destruct Hq as [_ Hq]. apply negb_true_iff in Hq.
    apply andb_true_iff in Hp. destruct Hp as [Hp _]. apply andb_true_iff in Hp. destruct Hp as [Hp Hc].
    apply andb_true_iff in Hp. destruct Hp as [Ha Hb].
    unfold ctx_shaped in Hq. rewrite <- E, (parse_ctx_text _ _ _ _ Ha Hb Hc) in Hq. discriminate.
  - apply some_inj in E.
    apply andb_true_iff in Hp. destruct Hp as [Hp _]. apply andb_true_iff in Hp. destruct Hp as [Hp Hc].
    apply andb_true_iff in Hp. destruct Hp as [Ha Hb].
    apply andb_true_iff in Hq. destruct Hq as [Hq _]. apply andb_true_iff in Hq. destruct Hq as [Hq Hc'].
    apply andb_true_iff in Hq. destruct Hq as [Ha' Hb'].
    apply (f_equal parse_ctx) in E.
    rewrite (parse_ctx_text _ _ _ _ Ha Hb Hc), (parse_ctx_text _ _ _ _ Ha' Hb' Hc') in E.
    now injection E as -> -> -> ->.
Qed.

Lemma ctx_param_ok_text : forall p, ctx_param_ok p = true ->
  exists t, ptext p = Some t /\ sep_safe t = true.
Proof.
  intros [s|a b c d|t|l|n] H; try discriminate H; cbn [ctx_param_ok ptext] in *.
  - apply andb_true_iff in H. destruct H as [H _]. eauto.
  - apply andb_true_iff in H. destruct H as [_ H]. eauto.
Qed.

Lemma ctx_req_texts : forall r, ctx_req r = true ->
  exists l, texts r = Some l /\ forallb sep_safe l = true.
Proof.
  induction r as [|p r IH]; cbn [ctx_req forallb texts]; intro H.
  - exists []. split; reflexivity.
  - apply andb_true_iff in H. destruct H as [Hp Hr].
    destruct (ctx_param_ok_text p Hp) as [t [Tp St]]. destruct (IH Hr) as [l [Tl Sl]].
    exists (t :: l). rewrite Tp, Tl. cbn [forallb]. rewrite St, Sl. split; reflexivity.
Qed.

Lemma texts_injective_ok : forall r1 r2, ctx_req r1 = true -> ctx_req r2 = true ->
  texts r1 = texts r2 -> r1 = r2.
Proof.
  induction r1 as [|p r1 IH]; intros [|q r2] H1 H2 E; cbn [ctx_req forallb texts] in *.
  - reflexivity.
  - apply andb_true_iff in H2. destruct H2 as [Hq Hr2].
    destruct (ctx_param_ok_text q Hq) as [t [Tq _]]. destruct (ctx_req_texts r2 Hr2) as [l [Tl _]].
    rewrite Tq, Tl in E. discriminate.
  - apply andb_true_iff in H1. destruct H1 as [Hp Hr1].
    destruct (ctx_param_ok_text p Hp) as [t [Tp _]]. destruct (ctx_req_texts r1 Hr1) as [l [Tl _]].
    rewrite Tp, Tl in E. discriminate.
  - apply andb_true_iff in H1. destruct H1 as [Hp Hr1]. apply andb_true_iff in H2. destruct H2 as [Hq Hr2].
    destruct (ctx_param_ok_text p Hp) as [t [Tp _]]. destruct (ctx_req_texts r1 Hr1) as [l [Tl _]].
    destruct (ctx_param_ok_text q Hq) as [t' [Tq _]]. destruct (ctx_req_texts r2 Hr2) as [l' [Tl' _]].
    rewrite Tp, Tl, Tq, Tl' in E. injection E as Et El.
    assert (p = q) as -> by (apply ptext_injective_ok; [assumption|assumption|congruence]).
    f_equal. apply IH; [assumption|assumption|congruence].
Qed.

(* key_injective_ctx: two requests made of strings and EnforceContext values (in any positions)
   inside the guards have the same key only if they are the same request: in particular two
   contexts that differ in ONE of RType / PType / EType / MType never share a decision, and a
   request with a context never shares one with the plain request made of the same strings *)
Lemma key_injective_ctx : forall r1 r2, ctx_req r1 = true -> ctx_req r2 = true ->
  get_key r1 = get_key r2 -> r1 = r2.
Proof.
  intros r1 r2 H1 H2 E.
  destruct (ctx_req_texts r1 H1) as [l1 [T1 S1]]. destruct (ctx_req_texts r2 H2) as [l2 [T2 S2]].
  apply texts_injective_ok; [assumption|assumption|].
  rewrite T1, T2. f_equal. exact (key_injective_texts r1 r2 l1 l2 T1 T2 S1 S2 E).
Qed.

(* each name of the context is part of the key: changing exactly one of them changes the key *)
Lemma ctx_key_separates : forall a b c d a' b' c' d' rest,
  ctx_req (PCtx a b c d :: rest) = true -> ctx_req (PCtx a' b' c' d' :: rest) = true ->
  (a, b, c, d) <> (a', b', c', d') ->
  get_key (PCtx a b c d :: rest) <> get_key (PCtx a' b' c' d' :: rest).
Proof.
  intros a b c d a' b' c' d' rest H1 H2 N E. apply N.
  pose proof (key_injective_ctx _ _ H1 H2 E) as X. now injection X as -> -> -> ->.
Qed.

(* plain requests of sep_safe strings that do not spell a context text are ctx_req *)
Lemma ctx_req_strs : forall l, forallb (fun s => sep_safe s && negb (ctx_shaped s)) l = true ->
  ctx_req (map PStr l) = true.
Proof. induction l as [|s l IH]; cbn; [reflexivity|]. intro H. apply andb_true_iff in H. destruct H as [-> H]. now apply IH. Qed.

(* the guards are needed (variants of F21 for the context text): *)
(* a '-' inside one of the first three names *)
Lemma ctx_dash_collision_refuted :
  exists r1 r2, r1 <> r2 /\ get_key r1 = get_key r2 /\
    ctx_req r2 = true /\ (forall p, In p r1 -> match p with PCtx _ _ _ _ | PStr _ => True | _ => False end).
Proof.
  exists [PCtx "r" "p" "e-m" "x"; PStr "a"], [PCtx "r" "p" "e" "m-x"; PStr "a"].
  split; [discriminate|]. split; [reflexivity|]. split; [reflexivity|].
  intros p [<-|[<-|[]]]; exact I.
Qed.

(* a '-' in the FOURTH name is harmless, but the other three are all needed *)
Lemma ctx_dash_each_name_refuted :
  get_key [PCtx "a-b" "c" "d" "e"] = get_key [PCtx "a" "b-c" "d" "e"] /\
  get_key [PCtx "a" "b-c" "d" "e"] = get_key [PCtx "a" "b" "c-d" "e"] /\
  get_key [PCtx "a" "b" "c-d" "e"] = get_key [PCtx "a" "b" "c" "d-e"] /\
  ctx_req [PCtx "a" "b" "c" "d-e"] = true.
Proof. repeat split; reflexivity. Qed.

(* a string that spells the key text of a context *)
Lemma ctx_string_collision_refuted :
  exists r1 r2, r1 <> r2 /\ get_key r1 = get_key r2 /\ ctx_req r2 = true /\ plain_req r1 = true.
Proof.
  exists [PStr "EnforceContext{r-p-e-m}"; PStr "a"], [PCtx "r" "p" "e" "m"; PStr "a"].
  split; [discriminate|]. repeat split; reflexivity.
Qed.

(* "}" together with the terminator inside a name: one context reads as a context and a string *)
Lemma ctx_brace_collision_refuted :
  exists r1 r2, r1 <> r2 /\ get_key r1 = get_key r2 /\ ctx_req r2 = true.
Proof.
  exists [PCtx "r" "p" "e" "m}$$a"], [PCtx "r" "p" "e" "m"; PStr "a}"].
  split; [discriminate|]. split; reflexivity.
Qed.

(* ------------------------------ the cache map --------------------------------------- *)

Lemma lookup_delete_same : forall k c, lookup k (delete k c) = None.
Proof.
  intros k c. induction c as [|[k' e] c IH]; cbn [delete filter fst lookup]; [reflexivity|].
  destruct (String.eqb k k') eqn:E; cbn [negb].
  - exact IH.
  - cbn [lookup]. rewrite E. exact IH.
Qed.

Lemma lookup_delete_other : forall k k' c, k <> k' -> lookup k (delete k' c) = lookup k c.
Proof.
  intros k k' c N. induction c as [|[k2 e] c IH]; cbn [delete filter fst lookup]; [reflexivity|].
  destruct (String.eqb k' k2) eqn:E; cbn [negb].
  - apply String.eqb_eq in E. subst k2.
    destruct (String.eqb k k') eqn:E2; [apply String.eqb_eq in E2; contradiction|]. exact IH.
  - cbn [lookup]. destruct (String.eqb k k2); [reflexivity|exact IH].
Qed.

Lemma lookup_delete_some : forall k k' c e, lookup k (delete k' c) = Some e ->
  k <> k' /\ lookup k c = Some e.
Proof.
  intros k k' c e H. destruct (String.eqb k k') eqn:E.
  - apply String.eqb_eq in E. subst. rewrite lookup_delete_same in H. discriminate.
  - apply String.eqb_neq in E. split; [exact E|]. now rewrite lookup_delete_other in H.
Qed.

Lemma lookup_delete_all_some : forall ks k c e, lookup k (delete_all ks c) = Some e ->
  mem_str k ks = false /\ lookup k c = Some e.
Proof.
  unfold delete_all. induction ks as [|k0 ks IH]; intros k c e H; cbn [fold_left mem_str existsb] in *.
  - split; [reflexivity|exact H].
  - destruct (IH _ _ _ H) as [Hm Hl]. apply lookup_delete_some in Hl. destruct Hl as [N Hl].
    apply String.eqb_neq in N. unfold mem_str in Hm. rewrite N, Hm. split; [reflexivity|exact Hl].
Qed.

Lemma lookup_delete_all_in : forall ks k c, In k ks -> lookup k (delete_all ks c) = None.
Proof.
  intros ks k c Hin. destruct (lookup k (delete_all ks c)) eqn:E; [|reflexivity].
  apply lookup_delete_all_some in E. destruct E as [Hm _].
  assert (mem_str k ks = true) as Ht.
  { unfold mem_str. apply existsb_exists. exists k. split; [exact Hin|apply String.eqb_refl]. }
  congruence.
Qed.

Lemma lookup_set_same : forall k v x now c,
  lookup k (cache_set k v x now c) =
  Some (mk_entry v (match x with Some d => d | None => (-1)%Z end)
                 (now + match x with Some d => d | None => (-1)%Z end)%Z).
Proof. intros. unfold cache_set. cbn [lookup]. now rewrite String.eqb_refl. Qed.

Lemma lookup_set_other : forall k k' v x now c, k <> k' ->
  lookup k (cache_set k' v x now c) = lookup k c.
Proof.
  intros k k' v x now c N. unfold cache_set. cbn [lookup].
  apply String.eqb_neq in N. rewrite N. apply String.eqb_neq in N. now apply lookup_delete_other.
Qed.

(* cache_get either leaves the map alone or deletes exactly the asked (expired) key *)
Lemma cache_get_cases : forall k now c,
  (exists e, lookup k c = Some e /\ ((0 <? e_ttl e)%Z && (e_exp e <? now)%Z)%bool = false /\
             cache_get k now c = (c, Some (e_val e))) \/
  (lookup k c = None /\ cache_get k now c = (c, None)) \/
  (exists e, lookup k c = Some e /\ ((0 <? e_ttl e)%Z && (e_exp e <? now)%Z)%bool = true /\
             cache_get k now c = (delete k c, None)).
Proof.
  intros k now c. unfold cache_get. destruct (lookup k c) as [e|] eqn:L.
  - destruct ((0 <? e_ttl e)%Z && (e_exp e <? now)%Z)%bool eqn:X.
    + right. right. exists e. auto.
    + left. exists e. auto.
  - right. left. auto.
Qed.

(* ------------------------------ one step of a wrapper ------------------------------- *)
Section Generic.
  Variable U : Type.
  Variable M : Type.
  Variable uenforce : U -> list param -> option bool.
  Variable ustep : U -> ucall M -> U * uret.

  Notation gstep := (step uenforce ustep).
  Notation grun := (run uenforce ustep).

  Lemma with_u_cache : forall s call c, cache_of (fst (with_u ustep s call c)) = c.
  Proof. intros. unfold with_u. destruct (ustep (ust s) call). reflexivity. Qed.

  Lemma with_u_enabled : forall s call c, enabled (fst (with_u ustep s call c)) = enabled s.
  Proof. intros. unfold with_u. destruct (ustep (ust s) call). reflexivity. Qed.

  Lemma with_u_expire : forall s call c, expire (fst (with_u ustep s call c)) = expire s.
  Proof. intros. unfold with_u. destruct (ustep (ust s) call). reflexivity. Qed.

  Lemma with_u_ust : forall s call c, ust (fst (with_u ustep s call c)) = fst (ustep (ust s) call).
  Proof. intros. unfold with_u. destruct (ustep (ust s) call). reflexivity. Qed.

  (* Enforce never touches the underlying state or the flags *)
  Lemma enforce_ust : forall s now r, ust (fst (enforce_step uenforce s now r)) = ust s.
  Proof.
    intros. unfold enforce_step. destruct (enabled s); cbn [negb]; [|reflexivity].
    destruct (get_key r); [|reflexivity].
    destruct (cache_get s0 now (cache_of s)) as [c [v|]]; [reflexivity|].
    destruct (uenforce (ust s) r); reflexivity.
  Qed.

  (* the outcome of Enforce: either a hit (the cached value, no error) or exactly what the
     underlying enforcer answers now *)
  Lemma enforce_cases : forall s now r,
    (exists b, hit s now r b /\ snd (enforce_step uenforce s now r) = ODec b false) \/
    ((forall b, ~ hit s now r b) /\
     snd (enforce_step uenforce s now r) = out_of_u (uenforce (ust s) r)).
  Proof.
    intros s now r. unfold enforce_step, hit.
    destruct (enabled s) eqn:En; cbn [negb].
    2:{ right. split; [intros b [H _]; discriminate|reflexivity]. }
    destruct (get_key r) as [k|] eqn:K.
    2:{ right. split; [intros b [_ [k [H _]]]; discriminate|reflexivity]. }
    destruct (cache_get k now (cache_of s)) as [c [v|]] eqn:G.
    - left. exists v. split; [|reflexivity]. split; [reflexivity|]. exists k. rewrite G. auto.
    - right. split.
      + intros b [_ [k' [Hk Hg]]]. injection Hk as <-. rewrite G in Hg. discriminate.
      + destruct (uenforce (ust s) r); reflexivity.
  Qed.

  (* where a cache entry of the next state comes from *)
  Lemma step_lookup : forall v s o k e,
    lookup k (cache_of (fst (gstep v s o))) = Some e ->
    (lookup k (cache_of s) = Some e /\ invalidates v o k = false) \/
    (exists now r, o = Enforce now r /\ enabled s = true /\ get_key r = Some k /\
       uenforce (ust s) r = Some (e_val e) /\ e_ttl e = expire s /\
       e_exp e = (now + expire s)%Z).
  Proof.
    intros v s o k e H. destruct o; cbn [step invalidates] in *.
    - (* Enforce *)
      unfold enforce_step in H. destruct (enabled s) eqn:En; cbn [negb] in H.
      2:{ left. auto. }
      destruct (get_key r) as [k0|] eqn:K.
      2:{ left. auto. }
      destruct (cache_get_cases k0 now (cache_of s)) as [[e0 [L [X G]]]|[[L G]|[e0 [L [X G]]]]];
        rewrite G in H.
      + left. auto.
      + destruct (uenforce (ust s) r) as [b|] eqn:Ue; cbn [fst set_cache cache_of] in H.
        * destruct (String.eqb k k0) eqn:E.
          -- apply String.eqb_eq in E. subst k0. rewrite lookup_set_same in H.
             injection H as <-. right. exists now, r. cbn. auto 10.
          -- apply String.eqb_neq in E. rewrite lookup_set_other in H by exact E. left. auto.
        * left. auto.
      + destruct (uenforce (ust s) r) as [b|] eqn:Ue; cbn [fst set_cache cache_of] in H.
        * destruct (String.eqb k k0) eqn:E.
          -- apply String.eqb_eq in E. subst k0. rewrite lookup_set_same in H.
             injection H as <-. right. exists now, r. cbn. auto 10.
          -- apply String.eqb_neq in E. rewrite lookup_set_other in H by exact E.
             rewrite lookup_delete_other in H by exact E. left. auto.
        * apply lookup_delete_some in H. left. tauto.
    - cbn in H. discriminate.
    - rewrite with_u_cache in H. discriminate.
    - rewrite with_u_cache in H. discriminate.
    - rewrite with_u_cache in H. unfold check_one in H.
      destruct (get_key (rule_params ps)) as [k0|]; cbn [key_is].
      + apply lookup_delete_some in H. destruct H as [N L]. apply String.eqb_neq in N. left. auto.
      + left. auto.
    - rewrite with_u_cache in H. unfold check_many in H.
      apply lookup_delete_all_some in H. left. tauto.
    - destruct v; rewrite with_u_cache in H.
      + left. auto.
      + unfold check_one in H. destruct (get_key (rule_params ps)) as [k0|]; cbn [key_is].
        * apply lookup_delete_some in H. destruct H as [N L]. apply String.eqb_neq in N. left. auto.
        * left. auto.
    - destruct v; rewrite with_u_cache in H.
      + left. auto.
      + unfold check_many in H. apply lookup_delete_all_some in H. left. tauto.
    - left. auto.
    - left. auto.
    - rewrite with_u_cache in H. left. auto.
  Qed.

  (* ------------------------------ histories ----------------------------------------- *)

  Lemma run_app : forall v h1 h2 s, grun v s (h1 ++ h2)%list = grun v (grun v s h1) h2.
  Proof. intros. unfold run. apply fold_left_app. Qed.

  Lemma run_snoc : forall v h o s, grun v s (h ++ [o])%list = fst (gstep v (grun v s h) o).
  Proof. intros. rewrite run_app. reflexivity. Qed.

  (* entry e under key k was produced by an Enforce call of the history whose request has key
     k, from the answer the underlying enforcer gave at that moment, and no invalidation event
     for k happened since *)
  Definition produced_by (v : variant) (u0 : U) (h : list (op M)) (k : string) (e : entry) : Prop :=
    exists h1 now r h2,
      h = (h1 ++ Enforce now r :: h2)%list /\
      get_key r = Some k /\
      enabled (grun v (init u0) h1) = true /\
      uenforce (ust (grun v (init u0) h1)) r = Some (e_val e) /\
      e_ttl e = expire (grun v (init u0) h1) /\
      e_exp e = (now + expire (grun v (init u0) h1))%Z /\
      Forall (fun o => invalidates v o k = false) h2.

  Lemma cache_entries_produced : forall v u0 h k e,
    lookup k (cache_of (grun v (init u0) h)) = Some e -> produced_by v u0 h k e.
  Proof.
    intros v u0 h. induction h as [|o h IH] using rev_ind; intros k e H.
    - cbn in H. discriminate.
    - rewrite run_snoc in H. apply step_lookup in H.
      destruct H as [[L NI]|[now [r [Eo [En [K [Ue [Et Ex]]]]]]]].
      + destruct (IH _ _ L) as [h1 [now [r [h2 [Eh [K [En [Ue [Et [Ex F]]]]]]]]]].
        exists h1, now, r, (h2 ++ [o])%list. subst h. rewrite <- app_assoc. cbn [app].
        repeat split; try assumption. apply Forall_app. split; [exact F|]. constructor; [exact NI|constructor].
      + exists h, now, r, []. subst o. repeat split; try assumption. constructor.
  Qed.

  Lemma hit_out : forall (s : state U) now r b, hit s now r b ->
    snd (enforce_step uenforce s now r) = ODec b false.
  Proof.
    intros s now r b [En [k [K G]]]. unfold enforce_step. rewrite En, K. cbn [negb].
    destruct (cache_get k now (cache_of s)) as [c o]. cbn [snd] in G. subst o. reflexivity.
  Qed.

  Lemma hit_lookup : forall (s : state U) now r b, hit s now r b ->
    exists k e, get_key r = Some k /\ lookup k (cache_of s) = Some e /\ e_val e = b /\
      ((e_ttl e <= 0)%Z \/ (now <= e_exp e)%Z).
  Proof.
    intros s now r b [En [k [K G]]]. exists k.
    destruct (cache_get_cases k now (cache_of s)) as [[e [L [X E]]]|[[L E]|[e [L [X E]]]]];
      rewrite E in G; cbn [snd] in G; try discriminate.
    injection G as G. exists e. repeat split; try assumption.
    apply andb_false_iff in X. destruct X as [X|X].
    - left. apply Z.ltb_ge in X. exact X.
    - right. apply Z.ltb_ge in X. exact X.
  Qed.

  (* served_was_given: a decision served from the cache for r at time `now` was returned by the
     underlying Enforce, for a request r' with the key of r, at an earlier point h1 of the
     history; no invalidation event for that key happened since, and the configured lifetime
     (as of that point) has not expired *)
  Lemma served_was_given : forall v u0 h now r b,
    hit (grun v (init u0) h) now r b ->
    snd (gstep v (grun v (init u0) h) (Enforce now r)) = ODec b false /\
    exists k h1 t r' h2,
      get_key r = Some k /\ get_key r' = Some k /\
      h = (h1 ++ Enforce t r' :: h2)%list /\
      uenforce (ust (grun v (init u0) h1)) r' = Some b /\
      Forall (fun o => invalidates v o k = false) h2 /\
      ((expire (grun v (init u0) h1) <= 0)%Z \/ (now <= t + expire (grun v (init u0) h1))%Z).
  Proof.
    intros v u0 h now r b H. split; [cbn [step]; now apply hit_out|].
    destruct (hit_lookup _ _ _ _ H) as [k [e [K [L [Ev Fresh]]]]].
    destruct (cache_entries_produced _ _ _ _ _ L) as [h1 [t [r' [h2 [Eh [K' [En [Ue [Et [Ex F]]]]]]]]]].
    exists k, h1, t, r', h2. rewrite Ev in Ue. rewrite Et, Ex in Fresh. auto 10.
  Qed.

  Lemma preserved_along : forall v r k b h2 s,
    get_key r = Some k ->
    Forall (respects_for uenforce ustep v r) h2 ->
    Forall (fun o => invalidates v o k = false) h2 ->
    uenforce (ust s) r = Some b -> uenforce (ust (grun v s h2)) r = Some b.
  Proof.
    intros v r k b h2. induction h2 as [|o h2 IH]; intros s K R F Hs; [exact Hs|].
    inversion R as [|? ? Ro Rt]; subst. inversion F as [|? ? Fo Ft]; subst.
    cbn [run fold_left]. apply (IH (fst (gstep v s o)) K Rt Ft). now apply (Ro s k b).
  Qed.

  (* transparent: if every operation of the history keeps the decisions for r unless it is an
     invalidation event for the key of r, and no other request of the history has the key of r,
     then Enforce(r) answers exactly what the underlying enforcer answers now *)
  Lemma transparent : forall v u0 h r now,
    Forall (respects_for uenforce ustep v r) h -> no_collision h r ->
    snd (gstep v (grun v (init u0) h) (Enforce now r)) =
    out_of_u (uenforce (ust (grun v (init u0) h)) r).
  Proof.
    intros v u0 h r now R NC. cbn [step].
    destruct (enforce_cases (grun v (init u0) h) now r) as [[b [Hh Ho]]|[_ Ho]]; [|exact Ho].
    rewrite Ho.
    destruct (served_was_given _ _ _ _ _ _ Hh) as [_ [k [h1 [t [r' [h2 [K [K' [Eh [Ue [F _]]]]]]]]]]].
    assert (r' = r) as ->.
    { apply (NC t). - rewrite Eh. apply in_elt. - now rewrite K, K'. }
    assert (uenforce (ust (grun v (init u0) h)) r = Some b) as ->; [|reflexivity].
    rewrite Eh, run_app. cbn [run fold_left]. fold (grun v).
    rewrite Eh in R. apply Forall_app in R. destruct R as [_ R]. inversion R as [|? ? _ R2]; subst.
    apply (preserved_along v r k b h2 _ K R2 F).
    cbn [step]. now rewrite enforce_ust.
  Qed.

  (* operations that do not call a mutator of the underlying enforcer respect everything *)
  Lemma respects_nonmutating : forall v r o,
    match o with
    | Enforce _ _ | InvalidateCache | EnableCache _ | SetExpireTime _ => True
    | _ => False
    end -> respects_for uenforce ustep v r o.
  Proof.
    intros v r o Ho s k b _ _ Hs. destruct o; try contradiction; cbn [step].
    - now rewrite enforce_ust.
    - exact Hs.
    - exact Hs.
    - exact Hs.
  Qed.

  (* ------------------------------ invalidation -------------------------------------- *)

  Lemma invalidation_complete : forall v s o,
    o = InvalidateCache \/ o = LoadPolicy \/ o = ClearPolicy ->
    cache_of (fst (gstep v s o)) = [].
  Proof.
    intros v s o [-> | [-> | ->]]; cbn [step]; try apply with_u_cache. reflexivity.
  Qed.

  Lemma miss_is_underlying : forall (s : state U) now r,
    (forall k, get_key r = Some k -> lookup k (cache_of s) = None) ->
    snd (enforce_step uenforce s now r) = out_of_u (uenforce (ust s) r).
  Proof.
    intros s now r H. destruct (enforce_cases s now r) as [[b [Hh _]]|[_ Ho]]; [|exact Ho].
    destruct (hit_lookup _ _ _ _ Hh) as [k [e [K [L _]]]]. rewrite (H k K) in L. discriminate.
  Qed.

  (* nothing cached before InvalidateCache / LoadPolicy / ClearPolicy is served afterwards,
     whatever the value of enableCache at the time of the call or later *)
  Lemma after_invalidation_fresh : forall v s o now r,
    o = InvalidateCache \/ o = LoadPolicy \/ o = ClearPolicy ->
    snd (gstep v (fst (gstep v s o)) (Enforce now r)) =
    out_of_u (uenforce (ust (fst (gstep v s o))) r).
  Proof.
    intros v s o now r Ho. cbn [step]. apply miss_is_underlying. intros k _.
    now rewrite (invalidation_complete v s o Ho).
  Qed.

  Lemma rule_params_strs : forall rule, rule_params (map PStr rule) = map PStr rule.
  Proof. intros [|a [|b rule]]; reflexivity. Qed.

  Lemma check_one_drops : forall rule ps c,
    ps = map PStr rule \/ ps = [PSlice rule] ->
    lookup (key_of_texts rule) (check_one ps c) = None.
  Proof.
    intros rule ps c [-> | ->]; unfold check_one.
    - rewrite rule_params_strs, get_key_strs. apply lookup_delete_same.
    - cbn [rule_params]. rewrite get_key_strs. apply lookup_delete_same.
  Qed.

  Lemma check_many_drops : forall rules rule c, In rule rules ->
    lookup (key_of_texts rule) (check_many rules c) = None.
  Proof.
    intros rules rule c Hin. unfold check_many, keys_of_batch.
    apply lookup_delete_all_in. now apply in_map.
  Qed.

  (* removal of the identical rule, both calling conventions, both wrappers, any enableCache *)
  Lemma remove_drops_rule : forall v s rule ps,
    ps = map PStr rule \/ ps = [PSlice rule] ->
    lookup (key_of_texts rule) (cache_of (fst (gstep v s (RemovePolicy ps)))) = None.
  Proof. intros. cbn [step]. rewrite with_u_cache. now apply check_one_drops. Qed.

  Lemma remove_policies_drops_rules : forall v s rules rule, In rule rules ->
    lookup (key_of_texts rule) (cache_of (fst (gstep v s (RemovePolicies rules)))) = None.
  Proof. intros. cbn [step]. rewrite with_u_cache. now apply check_many_drops. Qed.

  Lemma synced_add_drops_rule : forall s rule ps,
    ps = map PStr rule \/ ps = [PSlice rule] ->
    lookup (key_of_texts rule) (cache_of (fst (gstep Synced s (AddPolicy ps)))) = None.
  Proof. intros. cbn [step]. rewrite with_u_cache. now apply check_one_drops. Qed.

  Lemma synced_add_policies_drops_rules : forall s rules rule, In rule rules ->
    lookup (key_of_texts rule) (cache_of (fst (gstep Synced s (AddPolicies rules)))) = None.
  Proof. intros. cbn [step]. rewrite with_u_cache. now apply check_many_drops. Qed.

  (* ... hence the next Enforce of the request equal to that rule asks the underlying enforcer *)
  Lemma dropped_rule_not_served : forall v s o rule now,
    (exists ps, (ps = map PStr rule \/ ps = [PSlice rule]) /\
                (o = RemovePolicy ps \/ (v = Synced /\ o = AddPolicy ps))) \/
    (exists rules, In rule rules /\ (o = RemovePolicies rules \/ (v = Synced /\ o = AddPolicies rules))) ->
    snd (gstep v (fst (gstep v s o)) (Enforce now (map PStr rule))) =
    out_of_u (uenforce (ust (fst (gstep v s o))) (map PStr rule)).
  Proof.
    intros v s o rule now H. cbn [step]. apply miss_is_underlying. intros k K.
    rewrite get_key_strs in K. injection K as <-.
    destruct H as [[ps [Hps [-> | [-> ->]]]] | [rules [Hin [-> | [-> ->]]]]].
    - now apply remove_drops_rule.
    - now apply synced_add_drops_rule.
    - now apply remove_policies_drops_rules.
    - now apply synced_add_policies_drops_rules.
  Qed.

  (* ------------------------------ lifetime ------------------------------------------ *)

  Lemma ttl_expiry : forall v (s : state U) now r k e,
    get_key r = Some k -> lookup k (cache_of s) = Some e ->
    (0 < e_ttl e)%Z -> (e_exp e < now)%Z ->
    (forall b, ~ hit s now r b) /\
    snd (gstep v s (Enforce now r)) = out_of_u (uenforce (ust s) r).
  Proof.
    intros v s now r k e K L T X.
    assert (forall b, ~ hit s now r b) as NH.
    { intros b Hh. destruct (hit_lookup _ _ _ _ Hh) as [k' [e' [K' [L' [_ Fr]]]]].
      rewrite K in K'. injection K' as <-. rewrite L in L'. injection L' as <-. lia. }
    split; [exact NH|].
    cbn [step]. destruct (enforce_cases s now r) as [[b [Hh _]]|[_ Ho]]; [|exact Ho].
    exfalso. exact (NH b Hh).
  Qed.

  (* Get deletes the expired item; what is stored afterwards is the fresh answer, if any *)
  Lemma ttl_expired_replaced : forall v (s : state U) now r k e,
    enabled s = true -> get_key r = Some k -> lookup k (cache_of s) = Some e ->
    (0 < e_ttl e)%Z -> (e_exp e < now)%Z ->
    lookup k (cache_of (fst (gstep v s (Enforce now r)))) =
    option_map (fun b => mk_entry b (expire s) (now + expire s)%Z) (uenforce (ust s) r).
  Proof.
    intros v s now r k e En K L T X. cbn [step]. unfold enforce_step. rewrite En, K. cbn [negb].
    unfold cache_get. rewrite L.
    assert (((0 <? e_ttl e)%Z && (e_exp e <? now)%Z)%bool = true) as ->.
    { apply andb_true_iff. split; apply Z.ltb_lt; assumption. }
    destruct (uenforce (ust s) r); cbn [fst set_cache cache_of option_map].
    - now rewrite lookup_set_same.
    - apply lookup_delete_same.
  Qed.

  (* an item whose lifetime is <= 0 never expires; one with a positive lifetime is served up
     to and including its expiry instant *)
  Lemma ttl_fresh_served : forall v (s : state U) now r k e,
    enabled s = true -> get_key r = Some k -> lookup k (cache_of s) = Some e ->
    ((e_ttl e <= 0)%Z \/ (now <= e_exp e)%Z) ->
    gstep v s (Enforce now r) = (s, ODec (e_val e) false).
  Proof.
    intros v s now r k e En K L Fr. cbn [step]. unfold enforce_step. rewrite En, K. cbn [negb].
    unfold cache_get. rewrite L.
    assert (((0 <? e_ttl e)%Z && (e_exp e <? now)%Z)%bool = false) as ->.
    { apply andb_false_iff. destruct Fr as [Fr|Fr]; [left|right]; apply Z.ltb_ge; exact Fr. }
    destruct s; reflexivity.
  Qed.

  (* ------------------------------ bypass -------------------------------------------- *)

  Lemma disabled_is_passthrough : forall v (s : state U) now r,
    enabled s = false ->
    gstep v s (Enforce now r) = (s, out_of_u (uenforce (ust s) r)).
  Proof. intros v s now r En. cbn [step]. unfold enforce_step. now rewrite En. Qed.

  Lemma noncacheable_bypass : forall v (s : state U) now r,
    get_key r = None ->
    gstep v s (Enforce now r) = (s, out_of_u (uenforce (ust s) r)).
  Proof.
    intros v s now r K. cbn [step]. unfold enforce_step. rewrite K.
    destruct (enabled s); reflexivity.
  Qed.

  Lemma noncacheable_iff : forall r, get_key r = None <-> exists p, In p r /\ ptext p = None.
  Proof.
    induction r as [|p r IH]; cbn [get_key].
    - split; [discriminate|intros [p [[] _]]].
    - destruct (ptext p) as [t|] eqn:T.
      + destruct (get_key r) as [k|].
        * split; [discriminate|]. intros [q [[<-|Hin] Hq]]; [congruence|].
          destruct IH as [_ IH]. assert (Some k = None) as X by (apply IH; eauto). discriminate X.
        * split; [|reflexivity]. intros _. destruct IH as [IH _].
          destruct (IH eq_refl) as [q [Hin Hq]]. exists q. split; [now right|exact Hq].
      + split; [|reflexivity]. intros _. exists p. split; [now left|exact T].
  Qed.

  Lemma noncacheable_bypass_ex : forall v (s : state U) now r,
    (exists p, In p r /\ ptext p = None) ->
    gstep v s (Enforce now r) = (s, out_of_u (uenforce (ust s) r)).
  Proof. intros v s now r H. apply noncacheable_bypass. now apply noncacheable_iff. Qed.

  (* the flags and the lifetime setting never touch the cache content *)
  Lemma flags_keep_cache : forall v (s : state U) o,
    match o with EnableCache _ | SetExpireTime _ => True | _ => False end ->
    cache_of (fst (gstep v s o)) = cache_of s /\ ust (fst (gstep v s o)) = ust s.
  Proof. intros v s o Ho. destruct o; try contradiction; split; reflexivity. Qed.

  (* pass-through mutators (and AddPolicy/AddPolicies on the plain variant) change the
     underlying state and leave every cached decision in place *)
  Lemma passthrough_keeps_cache : forall v (s : state U) m,
    cache_of (fst (gstep v s (Passthrough m))) = cache_of s /\
    ust (fst (gstep v s (Passthrough m))) = fst (ustep (ust s) (UOther m)).
  Proof. intros. cbn [step]. now rewrite with_u_cache, with_u_ust. Qed.

  Lemma plain_add_keeps_cache : forall (s : state U) ps rules,
    cache_of (fst (gstep Plain s (AddPolicy ps))) = cache_of s /\
    cache_of (fst (gstep Plain s (AddPolicies rules))) = cache_of s.
  Proof. intros. cbn [step]. now rewrite !with_u_cache. Qed.
  (* ------------------------------ transparency from an empty cache ------------------ *)

  (* a state whose cache is empty is reached from NewCachedEnforcer by two flag calls *)
  Lemma empty_cache_reached : forall v (s : state U), cache_of s = [] ->
    s = grun v (init (ust s)) [EnableCache (enabled s); SetExpireTime (expire s)].
  Proof. intros v [u c en ex] H. cbn in H. subst c. reflexivity. Qed.

  (* transparent, started in ANY state whose cache is empty *)
  Lemma transparent_from_empty : forall v (s : state U) h r now,
    cache_of s = [] ->
    Forall (respects_for uenforce ustep v r) h -> no_collision h r ->
    snd (gstep v (grun v s h) (Enforce now r)) = out_of_u (uenforce (ust (grun v s h)) r).
  Proof.
    intros v s h r now C R NC.
    pose proof (empty_cache_reached v s C) as E.
    remember [EnableCache (M:=M) (enabled s); SetExpireTime (expire s)] as pre eqn:Hpre.
    remember (ust s) as u eqn:Hu. rewrite E, <- run_app.
    apply transparent.
    - apply Forall_app. split; [|exact R]. subst pre.
      constructor; [apply respects_nonmutating; exact I|].
      constructor; [apply respects_nonmutating; exact I|constructor].
    - intros t r' Hin K. apply in_app_or in Hin. destruct Hin as [Hin|Hin].
      + subst pre. destruct Hin as [X|[X|[]]]; discriminate X.
      + now apply (NC t).
  Qed.

  (* ... in particular after InvalidateCache / LoadPolicy / ClearPolicy, from any state: only
     the operations SINCE the last full invalidation matter *)
  Lemma transparent_since_invalidation : forall v (s0 : state U) o h r now,
    o = InvalidateCache \/ o = LoadPolicy \/ o = ClearPolicy ->
    Forall (respects_for uenforce ustep v r) h -> no_collision h r ->
    snd (gstep v (grun v (fst (gstep v s0 o)) h) (Enforce now r)) =
    out_of_u (uenforce (ust (grun v (fst (gstep v s0 o)) h)) r).
  Proof.
    intros v s0 o h r now Ho R NC. apply transparent_from_empty; [|exact R|exact NC].
    now apply invalidation_complete.
  Qed.

  Lemma quiet_respects : forall v r h, forallb quiet h = true ->
    Forall (respects_for uenforce ustep v r) h.
  Proof.
    intros v r h H. rewrite forallb_forall in H. apply Forall_forall. intros o Hin.
    specialize (H o Hin). apply respects_nonmutating. destruct o; try discriminate H; exact I.
  Qed.

  (* transparent_quiet: NO hypothesis on the underlying enforcer and none on the kind of
     request (EnforceContext, CacheableParam, ...): while no mutator is called, the wrapper
     answers what the embedded enforcer answers, provided no other request asked in that
     stretch has the same key *)
  Lemma transparent_quiet : forall v (s : state U) h r now,
    cache_of s = [] -> forallb quiet h = true -> no_collision h r ->
    snd (gstep v (grun v s h) (Enforce now r)) = out_of_u (uenforce (ust (grun v s h)) r).
  Proof.
    intros v s h r now C Q NC. apply transparent_from_empty; [exact C| |exact NC].
    now apply quiet_respects.
  Qed.

  Definition reqs_ctx (h : list (op M)) : bool :=
    forallb (fun o => match o with Enforce _ r' => ctx_req r' | _ => true end) h.

  Lemma ctx_no_collision : forall (h : list (op M)) r,
    reqs_ctx h = true -> ctx_req r = true -> no_collision h r.
  Proof.
    intros h r Hh Hr t r' Hin E. unfold reqs_ctx in Hh. rewrite forallb_forall in Hh.
    specialize (Hh _ Hin). cbn in Hh. now apply key_injective_ctx.
  Qed.

  (* transparent_ctx: requests made of strings and EnforceContext values inside the key guards;
     from NewCachedEnforcer / after a full invalidation, while no mutator is called, every
     answer of the wrapper is the answer of the embedded enforcer.  In particular a context
     never receives the decision cached for a context that differs in one name, nor the one of
     the plain request with the same strings. *)
  Lemma transparent_ctx : forall v (s : state U) h r now,
    cache_of s = [] -> forallb quiet h = true -> reqs_ctx h = true -> ctx_req r = true ->
    snd (gstep v (grun v s h) (Enforce now r)) = out_of_u (uenforce (ust (grun v s h)) r).
  Proof.
    intros v s h r now C Q Hh Hr. apply transparent_quiet; [exact C|exact Q|].
    now apply ctx_no_collision.
  Qed.
End Generic.
Arguments reqs_ctx {M}.

(* ------------------------------------------------------------------------------------ *)
(* The ACL fixture satisfies the hypothesis of `transparent`                              *)
(* ------------------------------------------------------------------------------------ *)

Lemma str_list_eqb_eq : forall a b, str_list_eqb a b = true -> a = b.
Proof.
  induction a as [|x a IH]; intros [|y b] H; cbn [str_list_eqb] in H; try discriminate; [reflexivity|].
  apply andb_true_iff in H. destruct H as [H1 H2]. apply String.eqb_eq in H1. subst. f_equal. now apply IH.
Qed.

Lemma fields_match_strs : forall ps rule, fields_match ps rule = true -> ps = map PStr rule.
Proof.
  induction ps as [|p ps IH]; intros [|f rule] H; cbn [fields_match] in H; try discriminate; [reflexivity|].
  apply andb_true_iff in H. destruct H as [H1 H2]. destruct p; cbn [param_is] in H1; try discriminate.
  apply String.eqb_eq in H1. subst. cbn [map]. f_equal. now apply IH.
Qed.

Lemma all_strs_map : forall ps l, all_strs ps = Some l -> ps = map PStr l.
Proof.
  induction ps as [|p ps IH]; intros l H; cbn [all_strs] in H.
  - injection H as <-. reflexivity.
  - destruct p; try discriminate. destruct (all_strs ps) as [l'|]; [|discriminate].
    injection H as <-. cbn [map]. f_equal. now apply IH.
Qed.

Lemma rule_of_params_key : forall ps rule, rule_of_params ps = Some rule ->
  get_key (rule_params ps) = Some (key_of_texts rule).
Proof.
  intros ps rule H. unfold rule_of_params in H.
  destruct ps as [|p ps]; [discriminate|].
  destruct p.
  - apply all_strs_map in H. rewrite H, (rule_params_strs rule). apply get_key_strs.
  - cbn in H. discriminate.
  - cbn in H. discriminate.
  - destruct ps as [|q ps].
    + injection H as <-. cbn [rule_params]. apply get_key_strs.
    + cbn in H. discriminate.
  - cbn in H. discriminate.
Qed.

Lemma scan_remove : forall rv rule b pol, fields_match rv rule = false ->
  acl_scan pol rv = Some b -> acl_scan (remove_first rule pol) rv = Some b.
Proof.
  intros rv rule b pol NM. induction pol as [|r rest IH]; intro H; [exact H|].
  cbn [acl_scan] in H. cbn [remove_first].
  destruct (negb (Nat.eqb (List.length r) 3)) eqn:A; [discriminate|].
  destruct (str_list_eqb rule r) eqn:E.
  - apply str_list_eqb_eq in E. subst r. rewrite NM in H. exact H.
  - cbn [acl_scan]. rewrite A. destruct (fields_match rv r); [exact H|]. now apply IH.
Qed.

Lemma scan_nonempty_false : forall rv r rest b,
  acl_scan (r :: rest) rv = Some b -> fields_match rv r = false -> acl_scan rest rv = Some b.
Proof.
  intros rv r rest b H NM. cbn [acl_scan] in H.
  destruct (negb (Nat.eqb (List.length r) 3)); [discriminate|]. now rewrite NM in H.
Qed.

Lemma dec_remove : forall rv rule b pol, all_empty rv = false -> fields_match rv rule = false ->
  acl_dec pol rv = Some b -> acl_dec (remove_first rule pol) rv = Some b.
Proof.
  intros rv rule b pol AE NM H. destruct pol as [|r rest]; [exact H|].
  cbn [acl_dec] in H. pose proof (scan_remove rv rule b (r :: rest) NM H) as S.
  destruct (remove_first rule (r :: rest)) as [|r' rest'] eqn:R.
  - cbn [acl_scan] in S. cbn [acl_dec]. now rewrite AE.
  - exact S.
Qed.

Lemma dec_remove_many : forall rv b rules pol, all_empty rv = false ->
  (forall rule, In rule rules -> fields_match rv rule = false) ->
  acl_dec pol rv = Some b ->
  acl_dec (fold_left (fun p r => remove_first r p) rules pol) rv = Some b.
Proof.
  intros rv b rules. induction rules as [|rule rules IH]; intros pol AE NM H; [exact H|].
  cbn [fold_left]. apply IH; [exact AE| |].
  - intros r Hin. apply NM. now right.
  - apply dec_remove; [exact AE| |exact H]. apply NM. now left.
Qed.

Lemma scan_add : forall rv rule b pol, List.length rule = 3 -> fields_match rv rule = false ->
  acl_scan pol rv = Some b -> acl_scan (pol ++ [rule])%list rv = Some b.
Proof.
  intros rv rule b pol L NM. induction pol as [|r rest IH]; intro H.
  - cbn [app acl_scan] in *. rewrite L, NM. exact H.
  - cbn [app acl_scan] in *. destruct (negb (Nat.eqb (List.length r) 3)); [discriminate|].
    destruct (fields_match rv r); [exact H|]. now apply IH.
Qed.

Lemma dec_add : forall rv rule b pol, all_empty rv = false -> List.length rule = 3 ->
  fields_match rv rule = false ->
  acl_dec pol rv = Some b -> acl_dec (add_absent pol rule) rv = Some b.
Proof.
  intros rv rule b pol AE L NM H. unfold add_absent. destruct (has_rule rule pol); [exact H|].
  destruct pol as [|r rest].
  - cbn [acl_dec] in H. rewrite AE in H. injection H as <-.
    cbn [app acl_dec acl_scan]. now rewrite L, NM.
  - cbn [acl_dec] in H. pose proof (scan_add rv rule b (r :: rest) L NM H) as S.
    cbn [app] in *. exact S.
Qed.

Lemma dec_add_many : forall rv b rules pol, all_empty rv = false ->
  (forall rule, In rule rules -> List.length rule = 3 /\ fields_match rv rule = false) ->
  acl_dec pol rv = Some b -> acl_dec (fold_left add_absent rules pol) rv = Some b.
Proof.
  intros rv b rules. induction rules as [|rule rules IH]; intros pol AE NM H; [exact H|].
  cbn [fold_left]. apply IH; [exact AE| |].
  - intros r Hin. apply NM. now right.
  - destruct (NM rule (or_introl eq_refl)) as [L N]. now apply dec_add.
Qed.

Lemma acl_req_ok_spec : forall r, acl_req_ok r = true ->
  all_empty r = false /\
  forall st, acl_enforce st r =
    if negb (Nat.eqb (List.length r) 3) then None else acl_dec (policy st) r.
Proof.
  intros r H. unfold acl_req_ok in H. split.
  - destruct r as [|p r]; [discriminate H|]. destruct p; try discriminate H; now apply negb_true_iff in H.
  - intro st. unfold acl_enforce. destruct r as [|p r]; [reflexivity|].
    destruct p; try reflexivity. discriminate H.
Qed.

(* a request that matches a rule field by field has that rule's key *)
Lemma match_key : forall r rule, fields_match r rule = true -> get_key r = Some (key_of_texts rule).
Proof. intros r rule H. apply fields_match_strs in H. subst. apply get_key_strs. Qed.

Lemma acl_pres : forall r b st st', acl_req_ok r = true ->
  (acl_dec (policy st) r = Some b -> acl_dec (policy st') r = Some b) ->
  acl_enforce st r = Some b -> acl_enforce st' r = Some b.
Proof.
  intros r b st st' Ok P H. destruct (acl_req_ok_spec r Ok) as [_ E]. rewrite E in *.
  destruct (negb (Nat.eqb (List.length r) 3)); [discriminate|]. now apply P.
Qed.

Lemma nomatch_of_key : forall r k rule, get_key r = Some k ->
  String.eqb k (key_of_texts rule) = false -> fields_match r rule = false.
Proof.
  intros r k rule K N. destruct (fields_match r rule) eqn:F; [|reflexivity].
  apply match_key in F. rewrite K in F. injection F as F. subst k. now rewrite String.eqb_refl in N.
Qed.

Lemma mem_str_false : forall k l x, mem_str k l = false -> In x l -> String.eqb k x = false.
Proof.
  intros k l x H Hin. destruct (String.eqb k x) eqn:E; [|reflexivity].
  assert (mem_str k l = true) as T; [|congruence].
  unfold mem_str. apply existsb_exists. exists x. auto.
Qed.

Lemma acl_respects : forall v r o, acl_req_ok r = true -> acl_op_ok v o = true ->
  respects_for acl_enforce acl_step v r o.
Proof.
  intros v r o Ok Oo.
  destruct (acl_req_ok_spec r Ok) as [AE _].
  destruct o; try (apply respects_nonmutating; exact I);
    intros s k b K NI Hs; cbn [invalidates] in NI; try discriminate NI; cbn [step].
  - (* RemovePolicy *)
    rewrite with_u_ust. cbn [acl_step].
    destruct (rule_of_params ps) as [rule|] eqn:R; [|exact Hs].
    rewrite (rule_of_params_key _ _ R) in NI. cbn [key_is] in NI.
    unfold acl_remove. destruct (has_rule rule (policy (ust s))); [|exact Hs].
    cbn [fst]. apply (acl_pres r b (ust s)); [exact Ok| |exact Hs].
    cbn [set_policy policy]. apply dec_remove; [exact AE|]. now apply (nomatch_of_key r k).
  - (* RemovePolicies *)
    rewrite with_u_ust. cbn [acl_step].
    destruct (existsb (fun r0 => has_rule r0 (policy (ust s))) rules); [|exact Hs].
    cbn [fst]. apply (acl_pres r b (ust s)); [exact Ok| |exact Hs].
    cbn [set_policy policy]. apply dec_remove_many; [exact AE|].
    intros rule Hin. apply (nomatch_of_key r k); [exact K|].
    apply (mem_str_false k (keys_of_batch rules)); [exact NI|]. unfold keys_of_batch. now apply in_map.
  - (* AddPolicy *)
    destruct v; [discriminate Oo|]. cbn [acl_op_ok] in Oo.
    rewrite with_u_ust. cbn [acl_step].
    destruct (rule_of_params ps) as [rule|] eqn:R; [|exact Hs].
    rewrite (rule_of_params_key _ _ R) in NI. cbn [key_is] in NI.
    apply Nat.eqb_eq in Oo.
    unfold acl_add. destruct (has_rule rule (policy (ust s))) eqn:Has; [exact Hs|].
    cbn [fst]. apply (acl_pres r b (ust s)); [exact Ok| |exact Hs].
    cbn [set_policy policy]. intro D.
    pose proof (dec_add r rule b (policy (ust s)) AE Oo (nomatch_of_key r k rule K NI) D) as X.
    unfold add_absent in X. now rewrite Has in X.
  - (* AddPolicies *)
    destruct v; [discriminate Oo|]. cbn [acl_op_ok] in Oo.
    rewrite with_u_ust. cbn [acl_step].
    destruct (existsb (fun r0 => has_rule r0 (policy (ust s))) rules); [exact Hs|].
    cbn [fst]. apply (acl_pres r b (ust s)); [exact Ok| |exact Hs].
    cbn [set_policy policy]. apply dec_add_many; [exact AE|].
    intros rule Hin. split.
    + rewrite forallb_forall in Oo. apply Nat.eqb_eq. now apply Oo.
    + apply (nomatch_of_key r k); [exact K|].
      apply (mem_str_false k (keys_of_batch rules)); [exact NI|]. unfold keys_of_batch. now apply in_map.
  - (* Passthrough *) discriminate Oo.
Qed.

Definition reqs_plain (h : list acl_op) : bool :=
  forallb (fun o => match o with Enforce _ r' => plain_req r' | _ => true end) h.

Lemma plain_no_collision : forall (h : list acl_op) r,
  reqs_plain h = true -> plain_req r = true -> no_collision h r.
Proof.
  intros h r Hh Hr t r' Hin E. unfold reqs_plain in Hh. rewrite forallb_forall in Hh.
  specialize (Hh _ Hin). cbn in Hh. now apply key_injective.
Qed.

(* transparent, ACL instance: with the basic ACL model underneath, a history made of Enforce
   calls and LISTED invalidating mutators only, and no other request with the key of r, the
   wrapper answers exactly what the embedded enforcer answers at that moment *)
Lemma acl_transparent : forall v rules (h : list acl_op) r now,
  forallb (acl_op_ok v) h = true -> acl_req_ok r = true -> no_collision h r ->
  snd (acl_run_step v (run acl_enforce acl_step v (acl_init rules) h) (Enforce now r)) =
  out_of_u (acl_enforce (ust (run acl_enforce acl_step v (acl_init rules) h)) r).
Proof.
  intros v rules h r now Hh Ok NC. unfold acl_run_step, acl_init. apply transparent; [|exact NC].
  rewrite forallb_forall in Hh. apply Forall_forall. intros o Hin. apply acl_respects; auto.
Qed.

(* ... in particular when all requests are tuples of sep_safe strings *)
Lemma acl_transparent_plain : forall v rules (h : list acl_op) r now,
  forallb (acl_op_ok v) h = true -> reqs_plain h = true ->
  plain_req r = true -> all_empty r = false ->
  snd (acl_run_step v (run acl_enforce acl_step v (acl_init rules) h) (Enforce now r)) =
  out_of_u (acl_enforce (ust (run acl_enforce acl_step v (acl_init rules) h)) r).
Proof.
  intros v rules h r now Hh Hp Pr AE. apply acl_transparent; [exact Hh| |now apply plain_no_collision].
  unfold acl_req_ok. destruct r as [|p r]; [discriminate AE|].
  destruct p; try (now rewrite AE). cbn in Pr. discriminate Pr.
Qed.

(* ------------------------------------------------------------------------------------ *)
(* Outside the guards the statement is false of the faithful model (witnesses)            *)
(* ------------------------------------------------------------------------------------ *)

Definition w_pol : list (list string) := [["alice"; "data1"; "read"]; ["bob"; "data2"; "write"]].
Definition w_req (a b c : string) : list param := [PStr a; PStr b; PStr c].

(* (what the wrapper answers after history h, what the embedded enforcer answers then) *)
Definition answers (v : variant) (rules : list (list string)) (h : list acl_op) (r : list param)
  : out * out :=
  let s := run acl_enforce acl_step v (acl_init rules) h in
  (snd (acl_run_step v s (Enforce 0%Z r)), out_of_u (acl_enforce (ust s) r)).

(* F31: removal of the identical rule through an entry point the wrappers do not override *)
Lemma passthrough_remove_stale_refuted : forall v,
  answers v w_pol [Enforce 0%Z (w_req "alice" "data1" "read");
                   Passthrough (MRemoveNamed ["alice"; "data1"; "read"])]
          (w_req "alice" "data1" "read") = (ODec true false, ODec false false) /\
  answers v w_pol [Enforce 0%Z (w_req "alice" "data1" "read");
                   Passthrough (MRemoveFiltered 0 ["alice"])]
          (w_req "alice" "data1" "read") = (ODec true false, ODec false false) /\
  answers v w_pol [Enforce 0%Z (w_req "alice" "data1" "read");
                   Passthrough (MUpdate ["alice"; "data1"; "read"] ["alice"; "data1"; "write"])]
          (w_req "alice" "data1" "read") = (ODec true false, ODec false false).
Proof. intros []; vm_compute; auto. Qed.

Lemma passthrough_add_stale_refuted :
  answers Synced w_pol [Enforce 0%Z (w_req "carol" "data1" "read");
                        Passthrough (MAddNamed ["carol"; "data1"; "read"])]
          (w_req "carol" "data1" "read") = (ODec false false, ODec true false).
Proof. vm_compute. reflexivity. Qed.

(* F21: two tuples with one key share a cached decision, all operations listed *)
Lemma collision_stale_refuted : forall v,
  let h := [Enforce 0%Z (w_req "a$$" "b" "c")] in
  forallb (acl_op_ok v) h = true /\ acl_req_ok (w_req "a" "$$b" "c") = true /\
  answers v [["a"; "$$b"; "c"]] h (w_req "a" "$$b" "c") = (ODec false false, ODec true false).
Proof. intros []; vm_compute; auto. Qed.

(* a string and a CacheableParam with the same text share a decision as well *)
Lemma text_confusion_stale_refuted : forall v,
  answers v w_pol [Enforce 0%Z [PKey "alice"; PStr "data1"; PStr "read"]]
          (w_req "alice" "data1" "read") = (ODec false false, ODec true false).
Proof. intros []; vm_compute; auto. Qed.

(* the guards of acl_transparent are needed: *)
(* a request with a leading EnforceContext is never "the identical rule" *)
Lemma ctx_request_stale_refuted : forall v,
  let r := PCtx "r" "p" "e" "m" :: w_req "alice" "data1" "read" in
  let h := [Enforce 0%Z r; RemovePolicy (w_req "alice" "data1" "read")] in
  forallb (acl_op_ok v) h = true /\
  answers v w_pol h r = (ODec true false, ODec false false).
Proof. intros []; vm_compute; auto. Qed.

(* the all-empty request depends on whether any rule exists (empty-policy convention) *)
Lemma all_empty_stale_refuted : forall v,
  let h := [Enforce 0%Z (w_req "" "" ""); RemovePolicy (w_req "alice" "data1" "read")] in
  forallb (acl_op_ok v) h = true /\
  answers v [["alice"; "data1"; "read"]] h (w_req "" "" "") = (ODec false false, ODec true false).
Proof. intros []; vm_compute; auto. Qed.

(* AddPolicy is not an invalidation event on the plain variant (the statement lists additions
   for the synced variant only) *)
Lemma plain_add_stale_refuted :
  answers Plain w_pol [Enforce 0%Z (w_req "carol" "data1" "read");
                       AddPolicy (w_req "carol" "data1" "read")]
          (w_req "carol" "data1" "read") = (ODec false false, ODec true false) /\
  answers Synced w_pol [Enforce 0%Z (w_req "carol" "data1" "read");
                        AddPolicy (w_req "carol" "data1" "read")]
          (w_req "carol" "data1" "read") = (ODec true false, ODec true false).
Proof. vm_compute. auto. Qed.

(* a rule of the wrong arity added on the synced variant turns other decisions into errors *)
Lemma synced_add_bad_arity_refuted :
  answers Synced w_pol [Enforce 0%Z (w_req "carol" "data1" "read"); AddPolicy [PStr "x"; PStr "y"]]
          (w_req "carol" "data1" "read") = (ODec false false, ODec false true).
Proof. vm_compute. reflexivity. Qed.

(* non-vacuity material: a history that exercises hits, every listed invalidation event, both
   calling conventions, a disabled phase and a lifetime, inside all guards *)
Definition w_history : list acl_op :=
  [ Enforce 0%Z (w_req "alice" "data1" "read");
    Enforce 1%Z (w_req "alice" "data1" "read");
    RemovePolicy [PSlice ["alice"; "data1"; "read"]];
    Enforce 2%Z (w_req "alice" "data1" "read");
    EnableCache false; ClearPolicy; EnableCache true;
    Enforce 3%Z (w_req "bob" "data2" "write");
    LoadPolicy; SetExpireTime 30%Z;
    Enforce 4%Z (w_req "bob" "data2" "write");
    RemovePolicies [["bob"; "data2"; "write"; "x"]; ["bob"; "data2"; "write"]];
    Enforce 100%Z (w_req "bob" "data2" "write");
    InvalidateCache ].

Lemma w_history_ok : forall v,
  forallb (acl_op_ok v) w_history = true /\ reqs_plain w_history = true /\
  map (fun n => snd (acl_run_step v (run acl_enforce acl_step v (acl_init w_pol) (firstn n w_history))
                                  (nth n w_history InvalidateCache))) [0; 1; 3; 7; 10; 12]
  = [ODec true false; ODec true false; ODec false false; ODec false false; ODec true false; ODec false false].
Proof. intros []; vm_compute; auto. Qed.

(* ------------------------------------------------------------------------------------ *)
(* The fixture with several sections: cx_...                                               *)
(* ------------------------------------------------------------------------------------ *)

Lemma prefix3_fields : forall rv rule, List.length rv = 3 -> List.length rule = 3 ->
  prefix_match 3 rv rule = fields_match rv rule.
Proof.
  intros [|a [|b [|c [|d rv]]]] [|x [|y [|z [|w rule]]]] H1 H2; try discriminate H1; try discriminate H2.
  cbn [prefix_match fields_match]. now rewrite andb_true_r.
Qed.

Lemma prefix3_empty : forall rv, List.length rv = 3 -> prefix_match 3 rv [""; ""; ""] = all_empty rv.
Proof.
  intros [|a [|b [|c [|d rv]]]] H; try discriminate H. cbn [prefix_match all_empty forallb].
  reflexivity.
Qed.

Lemma cx_scan_acl : forall pol rv, List.length rv = 3 ->
  cx_scan AllowOverride 3 pol rv = acl_scan pol rv.
Proof.
  intros pol rv L. induction pol as [|rule rest IH]; cbn [cx_scan acl_scan]; [reflexivity|].
  destruct (Nat.eqb (List.length rule) 3) eqn:A; cbn [negb]; [|reflexivity].
  apply Nat.eqb_eq in A. rewrite (prefix3_fields rv rule L A), IH. reflexivity.
Qed.

Lemma cx_default_is_acl : forall st rv,
  cx_eval st "r" "p" "e" "m" rv =
  if negb (Nat.eqb (List.length rv) 3) then None else acl_dec (policy (cx_p st)) rv.
Proof.
  intros st rv. unfold cx_eval. cbn [cx_matchers cx_matcher String.eqb Ascii.eqb Bool.eqb cx_policy cx_effect cx_known_r orb andb negb].
  destruct (Nat.eqb (List.length rv) 3) eqn:L; cbn [negb]; [|reflexivity].
  apply Nat.eqb_eq in L. unfold acl_dec. destruct (policy (cx_p st)) as [|rule rest].
  - now rewrite prefix3_empty.
  - now apply cx_scan_acl.
Qed.

(* a request without a leading context, or with the default one, is decided exactly as by the
   basic ACL model on the rules of "p": the rules of "p2" do not matter *)
Lemma cx_plain_is_acl : forall st r,
  match r with PCtx _ _ _ _ :: _ => False | _ => True end ->
  cx_enforce st r = acl_enforce (cx_p st) r.
Proof.
  intros st r H. unfold cx_enforce, acl_enforce.
  destruct r as [|p r]; [cbn [strip_ctx]; apply cx_default_is_acl|].
  destruct p; try contradiction; cbn [strip_ctx]; apply cx_default_is_acl.
Qed.

Lemma acl_req_ok_noctx : forall r, acl_req_ok r = true ->
  match r with PCtx _ _ _ _ :: _ => False | _ => True end.
Proof. intros [|p r] H; [exact I|]. destruct p; try exact I. discriminate H. Qed.

Definition cx_to_acl_op (o : cx_op) : acl_op :=
  match o with
  | Enforce now r => Enforce now r
  | InvalidateCache => InvalidateCache
  | LoadPolicy => LoadPolicy
  | ClearPolicy => ClearPolicy
  | RemovePolicy ps => RemovePolicy ps
  | RemovePolicies rules => RemovePolicies rules
  | AddPolicy ps => AddPolicy ps
  | AddPolicies rules => AddPolicies rules
  | EnableCache b => EnableCache b
  | SetExpireTime d => SetExpireTime d
  | Passthrough _ => InvalidateCache
  end.

(* the listed mutators act on the "p" part exactly as on the ACL fixture *)
Lemma cx_step_p : forall v (s : state cx_state) (o : cx_op), cx_op_ok v o = true -> quiet o = false ->
  o <> LoadPolicy -> o <> ClearPolicy ->
  cx_p (ust (fst (step cx_enforce cx_step v s o))) =
  ust (fst (step acl_enforce acl_step v
             (mk_state (cx_p (ust s)) (cache_of s) (enabled s) (expire s)) (cx_to_acl_op o))).
Proof.
  intros v s o Ok Q NL NC.
  destruct o; try discriminate Q; try contradiction; cbn [step cx_to_acl_op];
    try (destruct v; try discriminate Ok); rewrite !with_u_ust; cbn [cx_step ust];
    unfold cx_lift;
    match goal with |- context [acl_step ?a ?b] => destruct (acl_step a b) end; reflexivity.
Qed.

Lemma cx_respects : forall v r (o : cx_op), acl_req_ok r = true -> cx_op_ok v o = true ->
  respects_for cx_enforce cx_step v r o.
Proof.
  intros v r o Ok Oo.
  destruct (quiet o) eqn:Q.
  { apply respects_nonmutating. destruct o; try discriminate Q; exact I. }
  intros s k b K NI Hs.
  destruct o; try discriminate Q; try discriminate NI; try discriminate Oo.
  all: pose proof (acl_req_ok_noctx r Ok) as NCx.
  all: rewrite (cx_plain_is_acl (ust s) r NCx) in Hs.
  all: rewrite (cx_plain_is_acl _ r NCx).
  all: rewrite cx_step_p by (try assumption; try reflexivity; discriminate).
  all: apply (acl_respects v r _ Ok) with (k := k); try assumption.
Qed.

(* transparent, instance for the fixture with several sections: plain requests (no leading
   context) and listed mutators, as for the ACL fixture *)
Lemma cx_transparent : forall v rules1 rules2 (h : list cx_op) r now,
  forallb (cx_op_ok v) h = true -> acl_req_ok r = true -> no_collision h r ->
  snd (cx_run_step v (run cx_enforce cx_step v (cx_init rules1 rules2) h) (Enforce now r)) =
  out_of_u (cx_enforce (ust (run cx_enforce cx_step v (cx_init rules1 rules2) h)) r).
Proof.
  intros v rules1 rules2 h r now Hh Ok NC. unfold cx_run_step, cx_init. apply transparent; [|exact NC].
  rewrite forallb_forall in Hh. apply Forall_forall. intros o Hin. apply cx_respects; auto.
Qed.

(* witnesses on the fixture with several sections *)
Definition x_pol1 : list (list string) := [["alice"; "data1"; "read"]; ["bob"; "data2"; "write"]].
Definition x_pol2 : list (list string) := [["alice"; "data1"; "write"]; ["carol"; "data2"; "read"]].
Definition x_req (rt pt et mt a b c : string) : list param := [PCtx rt pt et mt; PStr a; PStr b; PStr c].
Definition x_st : cx_state := mk_cx (mk_acl x_pol1 x_pol1) x_pol2 x_pol2.

Definition cx_answers (v : variant) (h : list cx_op) (r : list param) : out * out :=
  let s := run cx_enforce cx_step v (cx_init x_pol1 x_pol2) h in
  (snd (cx_run_step v s (Enforce 0%Z r)), out_of_u (cx_enforce (ust s) r)).

(* every one of the four names of the context influences what the embedded enforcer answers:
   two contexts that differ in exactly that name answer differently for the same strings
   (for RType and PType the other answer is necessarily an error: a matcher reads the tokens of
   one request section and one policy section) *)
Lemma cx_names_matter :
  (cx_enforce x_st (x_req "r" "p" "e" "m" "alice" "data1" "write") = Some false /\
   cx_enforce x_st (x_req "r" "p" "e" "m3" "alice" "data1" "write") = Some true) /\
  (cx_enforce x_st (x_req "r" "p" "e" "m" "zed" "data1" "write") = Some false /\
   cx_enforce x_st (x_req "r" "p" "e2" "m" "zed" "data1" "write") = Some true) /\
  (cx_enforce x_st (x_req "r" "p" "e" "m" "alice" "data1" "read") = Some true /\
   cx_enforce x_st (x_req "r" "p2" "e" "m" "alice" "data1" "read") = None /\
   cx_enforce x_st (x_req "r" "p2" "e" "m5" "alice" "data1" "read") = Some false) /\
  (cx_enforce x_st (x_req "r" "p" "e" "m" "alice" "data1" "read") = Some true /\
   cx_enforce x_st (x_req "r2" "p" "e" "m" "alice" "data1" "read") = None /\
   cx_enforce x_st (x_req "r2" "p" "e" "m6" "alice" "data1" "read") = Some true /\
   cx_enforce x_st (x_req "r2" "p2" "e" "m4" "alice" "data1" "read") = Some false).
Proof. vm_compute. repeat split; reflexivity. Qed.

(* non-vacuity of transparent_ctx: contexts that differ in exactly one name each, the plain
   request with the same strings, hits on the second round; inside every guard *)
Definition x_history : list cx_op :=
  [ Enforce 0%Z (x_req "r" "p" "e" "m" "alice" "data1" "write");
    Enforce 1%Z (x_req "r" "p" "e" "m3" "alice" "data1" "write");
    Enforce 2%Z (x_req "r" "p" "e2" "m" "alice" "data1" "write");
    Enforce 3%Z (x_req "r" "p2" "e" "m" "alice" "data1" "write");
    Enforce 4%Z (x_req "r2" "p" "e" "m" "alice" "data1" "write");
    Enforce 5%Z [PStr "alice"; PStr "data1"; PStr "write"];
    Enforce 6%Z (x_req "r" "p2" "e" "m5" "alice" "data1" "write");
    Enforce 7%Z (x_req "r2" "p2" "e2" "m2" "zed" "data1" "write");
    Enforce 8%Z (x_req "r" "p" "e" "m" "alice" "data1" "write");
    Enforce 9%Z (x_req "r" "p" "e" "m3" "alice" "data1" "write");
    Enforce 10%Z (x_req "r" "p" "e2" "m" "alice" "data1" "write");
    Enforce 11%Z (x_req "r" "p2" "e" "m" "alice" "data1" "write") ].

Lemma x_history_ok : forall v,
  forallb quiet x_history = true /\ reqs_ctx x_history = true /\
  map (fun n => snd (cx_run_step v (run cx_enforce cx_step v (cx_init x_pol1 x_pol2) (firstn n x_history))
                                 (nth n x_history InvalidateCache))) (seq 0 12)
  = [ODec false false; ODec true false; ODec true false; ODec false true; ODec false true;
     ODec false false; ODec true false; ODec true false;
     ODec false false; ODec true false; ODec true false; ODec false true].
Proof. intros []; vm_compute; auto. Qed.

(* outside the key guards (variant of F21): a request whose first STRING spells the key text of
   a context is served the decision cached for that context instead of "invalid request size" *)
Lemma ctx_string_stale_refuted : forall v,
  let h := [Enforce 0%Z (x_req "r" "p" "e" "m" "alice" "data1" "read")] in
  forallb quiet h = true /\
  cx_answers v h [PStr "EnforceContext{r-p-e-m}"; PStr "alice"; PStr "data1"; PStr "read"]
  = (ODec true false, ODec false true).
Proof. intros []; vm_compute; auto. Qed.

(* ... and so is a context one of whose names contains '-' (no section can have such a name,
   so the underlying answer is an error) *)
Lemma ctx_dash_stale_refuted : forall v,
  let h := [Enforce 0%Z (x_req "r" "p" "e" "m-x" "alice" "data1" "read")] in
  cx_answers v h (x_req "r" "p" "e-m" "x" "alice" "data1" "read") = (ODec false true, ODec false true) /\
  get_key (x_req "r" "p" "e" "m-x" "alice" "data1" "read") = get_key (x_req "r" "p" "e-m" "x" "alice" "data1" "read").
Proof. intros []; vm_compute; auto. Qed.

(* a request with a context is outside cx_transparent: RemovePolicy of the rule with the same
   strings is not an invalidation event for its key *)
Lemma cx_ctx_request_stale_refuted : forall v,
  let r := x_req "r" "p" "e" "m" "alice" "data1" "read" in
  let h := [Enforce 0%Z r; RemovePolicy [PStr "alice"; PStr "data1"; PStr "read"]] in
  forallb (cx_op_ok v) h = true /\ cx_answers v h r = (ODec true false, ODec false false).
Proof. intros []; vm_compute; auto. Qed.

(* a change of "p2" is no listed invalidation event: decisions of contexts that read "p2" go stale *)
Lemma cx_p2_change_stale_refuted : forall v,
  let r := x_req "r2" "p2" "e" "m4" "alice" "data1" "write" in
  cx_answers v [Enforce 0%Z r; Passthrough (CxRemove2 ["alice"; "data1"; "write"])] r
  = (ODec true false, ODec false false).
Proof. intros []; vm_compute; auto. Qed.
