(* CacheProofs.v — proofs about the cache model of Cache.v. *)
From Coq Require Import List String Ascii Bool Arith ZArith Lia.
Import ListNotations.
From Casbin Require Import Cache.
Open Scope string_scope.

(* ------------------------------ strings and keys ------------------------------------ *)

Lemma append_assoc : forall a b c : string, (a ++ b) ++ c = a ++ (b ++ c).
Proof. induction a as [|x a IH]; intros b c; simpl; [reflexivity|]. now rewrite IH. Qed.

Lemma dollar_free_sep_safe : forall s, dollar_free s = true -> sep_safe s = true.
Proof.
  induction s as [|c s IH]; simpl; intro H; [reflexivity|].
  apply andb_true_iff in H. destruct H as [Hc Hs].
  apply negb_true_iff in Hc. rewrite Hc. now apply IH.
Qed.

(* the first "$$" of t ++ "$$" ++ rest is the terminator written after t *)
Lemma split_sep_key : forall t rest, sep_safe t = true ->
  split_sep (t ++ sep ++ rest) = Some (t, rest).
Proof.
  induction t as [|c t IH]; intros rest H.
  - reflexivity.
  - cbn [append split_sep]. cbn [sep_safe] in H.
    destruct (is_dollar c) eqn:Hc.
    + destruct t as [|d t']; [discriminate|].
      apply andb_true_iff in H. destruct H as [Hd Ht]. apply negb_true_iff in Hd.
      cbn [append]. rewrite Hd.
      change (String d (t' ++ sep ++ rest)) with (String d t' ++ sep ++ rest).
      now rewrite (IH rest Ht).
    + now rewrite (IH rest H).
Qed.

Lemma key_of_texts_injective : forall l1 l2,
  forallb sep_safe l1 = true -> forallb sep_safe l2 = true ->
  key_of_texts l1 = key_of_texts l2 -> l1 = l2.
Proof.
  induction l1 as [|t1 l1 IH]; intros [|t2 l2] H1 H2 E; cbn [key_of_texts forallb] in *.
  - reflexivity.
  - apply andb_true_iff in H2. destruct H2 as [S2 _].
    apply (f_equal split_sep) in E. rewrite (split_sep_key _ _ S2) in E. discriminate.
  - apply andb_true_iff in H1. destruct H1 as [S1 _].
    apply (f_equal split_sep) in E. rewrite (split_sep_key _ _ S1) in E. discriminate.
  - apply andb_true_iff in H1. destruct H1 as [S1 R1].
    apply andb_true_iff in H2. destruct H2 as [S2 R2].
    apply (f_equal split_sep) in E.
    rewrite (split_sep_key _ _ S1), (split_sep_key _ _ S2) in E.
    injection E as Et Ek. subst t2. f_equal. now apply IH.
Qed.

Lemma get_key_strs : forall l, get_key (map PStr l) = Some (key_of_texts l).
Proof. induction l as [|t l IH]; cbn [map get_key ptext key_of_texts]; [reflexivity|]. now rewrite IH. Qed.

Lemma plain_req_strs : forall r, plain_req r = true ->
  exists l, r = map PStr l /\ forallb sep_safe l = true.
Proof.
  induction r as [|p r IH]; cbn [plain_req forallb]; intro H.
  - exists []. split; reflexivity.
  - apply andb_true_iff in H. destruct H as [Hp Hr].
    destruct (IH Hr) as [l [El Sl]].
    destruct p; try discriminate. exists (s :: l). cbn [map forallb]. rewrite Hp, Sl, El. split; reflexivity.
Qed.

(* key_injective: two requests made of sep_safe strings have the same key only if they are the
   same tuple *)
Lemma key_injective : forall r1 r2, plain_req r1 = true -> plain_req r2 = true ->
  get_key r1 = get_key r2 -> r1 = r2.
Proof.
  intros r1 r2 H1 H2 E.
  destruct (plain_req_strs _ H1) as [l1 [E1 S1]]. destruct (plain_req_strs _ H2) as [l2 [E2 S2]].
  subst. rewrite !get_key_strs in E. injection E as E. f_equal. now apply key_of_texts_injective.
Qed.

(* in general the key determines the TEXTS of the parameters (a string and a CacheableParam
   with the same text are not told apart: cacheable_text_confusion_refuted) *)
Fixpoint texts (r : list param) : option (list string) :=
  match r with
  | [] => Some []
  | p :: rest => match ptext p, texts rest with
                 | Some t, Some l => Some (t :: l)
                 | _, _ => None
                 end
  end.

Lemma get_key_texts : forall r, get_key r = option_map key_of_texts (texts r).
Proof.
  induction r as [|p r IH]; cbn [get_key texts]; [reflexivity|].
  destruct (ptext p); [|reflexivity]. rewrite IH. destruct (texts r); reflexivity.
Qed.

Lemma key_injective_texts : forall r1 r2 l1 l2,
  texts r1 = Some l1 -> texts r2 = Some l2 ->
  forallb sep_safe l1 = true -> forallb sep_safe l2 = true ->
  get_key r1 = get_key r2 -> l1 = l2.
Proof.
  intros r1 r2 l1 l2 T1 T2 S1 S2 E. rewrite !get_key_texts, T1, T2 in E. cbn in E.
  injection E as E. now apply key_of_texts_injective.
Qed.

(* F21: without the guard the key is not injective *)
Lemma key_collision_refuted :
  exists r1 r2, r1 <> r2 /\ get_key (map PStr r1) = get_key (map PStr r2).
Proof. exists ["a$$"; "b"; "c"], ["a"; "$$b"; "c"]. split; [discriminate|reflexivity]. Qed.

(* the guard is needed on BOTH tuples: an unsafe tuple collides with a safe one *)
Lemma sep_safe_one_sided_refuted :
  exists r1 r2, r1 <> r2 /\ get_key (map PStr r1) = get_key (map PStr r2) /\
    forallb sep_safe r2 = true.
Proof. exists ["a$"; "b"], ["a"; "$b"]. repeat split; try reflexivity. discriminate. Qed.

Lemma cacheable_text_confusion_refuted :
  exists r1 r2, r1 <> r2 /\ get_key r1 = get_key r2 /\ texts r1 = texts r2.
Proof. exists [PStr "x"], [PKey "x"]. repeat split; try reflexivity. discriminate. Qed.

(* ------------------------------ the cache map --------------------------------------- *)

Lemma lookup_delete_same : forall k c, lookup k (delete k c) = None.
Proof.
  intros k c. induction c as [|[k' e] c IH]; cbn [delete filter fst lookup]; [reflexivity|].
  destruct (String.eqb k k') eqn:E; cbn [negb].
  - exact IH.
  - cbn [lookup]. rewrite E. exact IH.
Qed.

Lemma lookup_delete_other : forall k k' c, k <> k' -> lookup k (delete k' c) = lookup k c.
Proof.
  intros k k' c N. induction c as [|[k2 e] c IH]; cbn [delete filter fst lookup]; [reflexivity|].
  destruct (String.eqb k' k2) eqn:E; cbn [negb].
  - apply String.eqb_eq in E. subst k2.
    destruct (String.eqb k k') eqn:E2; [apply String.eqb_eq in E2; contradiction|]. exact IH.
  - cbn [lookup]. destruct (String.eqb k k2); [reflexivity|exact IH].
Qed.

Lemma lookup_delete_some : forall k k' c e, lookup k (delete k' c) = Some e ->
  k <> k' /\ lookup k c = Some e.
Proof.
  intros k k' c e H. destruct (String.eqb k k') eqn:E.
  - apply String.eqb_eq in E. subst. rewrite lookup_delete_same in H. discriminate.
  - apply String.eqb_neq in E. split; [exact E|]. now rewrite lookup_delete_other in H.
Qed.

Lemma lookup_delete_all_some : forall ks k c e, lookup k (delete_all ks c) = Some e ->
  mem_str k ks = false /\ lookup k c = Some e.
Proof.
  unfold delete_all. induction ks as [|k0 ks IH]; intros k c e H; cbn [fold_left mem_str existsb] in *.
  - split; [reflexivity|exact H].
  - destruct (IH _ _ _ H) as [Hm Hl]. apply lookup_delete_some in Hl. destruct Hl as [N Hl].
    apply String.eqb_neq in N. unfold mem_str in Hm. rewrite N, Hm. split; [reflexivity|exact Hl].
Qed.

Lemma lookup_delete_all_in : forall ks k c, In k ks -> lookup k (delete_all ks c) = None.
Proof.
  intros ks k c Hin. destruct (lookup k (delete_all ks c)) eqn:E; [|reflexivity].
  apply lookup_delete_all_some in E. destruct E as [Hm _].
  assert (mem_str k ks = true) as Ht.
  { unfold mem_str. apply existsb_exists. exists k. split; [exact Hin|apply String.eqb_refl]. }
  congruence.
Qed.

Lemma lookup_set_same : forall k v x now c,
  lookup k (cache_set k v x now c) =
  Some (mk_entry v (match x with Some d => d | None => (-1)%Z end)
                 (now + match x with Some d => d | None => (-1)%Z end)%Z).
Proof. intros. unfold cache_set. cbn [lookup]. now rewrite String.eqb_refl. Qed.

Lemma lookup_set_other : forall k k' v x now c, k <> k' ->
  lookup k (cache_set k' v x now c) = lookup k c.
Proof.
  intros k k' v x now c N. unfold cache_set. cbn [lookup].
  apply String.eqb_neq in N. rewrite N. apply String.eqb_neq in N. now apply lookup_delete_other.
Qed.

(* cache_get either leaves the map alone or deletes exactly the asked (expired) key *)
Lemma cache_get_cases : forall k now c,
  (exists e, lookup k c = Some e /\ ((0 <? e_ttl e)%Z && (e_exp e <? now)%Z)%bool = false /\
             cache_get k now c = (c, Some (e_val e))) \/
  (lookup k c = None /\ cache_get k now c = (c, None)) \/
  (exists e, lookup k c = Some e /\ ((0 <? e_ttl e)%Z && (e_exp e <? now)%Z)%bool = true /\
             cache_get k now c = (delete k c, None)).
Proof.
  intros k now c. unfold cache_get. destruct (lookup k c) as [e|] eqn:L.
  - destruct ((0 <? e_ttl e)%Z && (e_exp e <? now)%Z)%bool eqn:X.
    + right. right. exists e. auto.
    + left. exists e. auto.
  - right. left. auto.
Qed.

(* ------------------------------ one step of a wrapper ------------------------------- *)
Section Generic.
  Variable U : Type.
  Variable M : Type.
  Variable uenforce : U -> list param -> option bool.
  Variable ustep : U -> ucall M -> U * uret.

  Notation gstep := (step uenforce ustep).
  Notation grun := (run uenforce ustep).

  Lemma with_u_cache : forall s call c, cache_of (fst (with_u ustep s call c)) = c.
  Proof. intros. unfold with_u. destruct (ustep (ust s) call). reflexivity. Qed.

  Lemma with_u_enabled : forall s call c, enabled (fst (with_u ustep s call c)) = enabled s.
  Proof. intros. unfold with_u. destruct (ustep (ust s) call). reflexivity. Qed.

  Lemma with_u_expire : forall s call c, expire (fst (with_u ustep s call c)) = expire s.
  Proof. intros. unfold with_u. destruct (ustep (ust s) call). reflexivity. Qed.

  Lemma with_u_ust : forall s call c, ust (fst (with_u ustep s call c)) = fst (ustep (ust s) call).
  Proof. intros. unfold with_u. destruct (ustep (ust s) call). reflexivity. Qed.

  (* Enforce never touches the underlying state or the flags *)
  Lemma enforce_ust : forall s now r, ust (fst (enforce_step uenforce s now r)) = ust s.
  Proof.
    intros. unfold enforce_step. destruct (enabled s); cbn [negb]; [|reflexivity].
    destruct (get_key r); [|reflexivity].
    destruct (cache_get s0 now (cache_of s)) as [c [v|]]; [reflexivity|].
    destruct (uenforce (ust s) r); reflexivity.
  Qed.

  (* the outcome of Enforce: either a hit (the cached value, no error) or exactly what the
     underlying enforcer answers now *)
  Lemma enforce_cases : forall s now r,
    (exists b, hit s now r b /\ snd (enforce_step uenforce s now r) = ODec b false) \/
    ((forall b, ~ hit s now r b) /\
     snd (enforce_step uenforce s now r) = out_of_u (uenforce (ust s) r)).
  Proof.
    intros s now r. unfold enforce_step, hit.
    destruct (enabled s) eqn:En; cbn [negb].
    2:{ right. split; [intros b [H _]; discriminate|reflexivity]. }
    destruct (get_key r) as [k|] eqn:K.
    2:{ right. split; [intros b [_ [k [H _]]]; discriminate|reflexivity]. }
    destruct (cache_get k now (cache_of s)) as [c [v|]] eqn:G.
    - left. exists v. split; [|reflexivity]. split; [reflexivity|]. exists k. rewrite G. auto.
    - right. split.
      + intros b [_ [k' [Hk Hg]]]. injection Hk as <-. rewrite G in Hg. discriminate.
      + destruct (uenforce (ust s) r); reflexivity.
  Qed.

  (* where a cache entry of the next state comes from *)
  Lemma step_lookup : forall v s o k e,
    lookup k (cache_of (fst (gstep v s o))) = Some e ->
    (lookup k (cache_of s) = Some e /\ invalidates v o k = false) \/
    (exists now r, o = Enforce now r /\ enabled s = true /\ get_key r = Some k /\
       uenforce (ust s) r = Some (e_val e) /\ e_ttl e = expire s /\
       e_exp e = (now + expire s)%Z).
  Proof.
    intros v s o k e H. destruct o; cbn [step invalidates] in *.
    - (* Enforce *)
      unfold enforce_step in H. destruct (enabled s) eqn:En; cbn [negb] in H.
      2:{ left. auto. }
      destruct (get_key r) as [k0|] eqn:K.
      2:{ left. auto. }
      destruct (cache_get_cases k0 now (cache_of s)) as [[e0 [L [X G]]]|[[L G]|[e0 [L [X G]]]]];
        rewrite G in H.
      + left. auto.
      + destruct (uenforce (ust s) r) as [b|] eqn:Ue; cbn [fst set_cache cache_of] in H.
        * destruct (String.eqb k k0) eqn:E.
          -- apply String.eqb_eq in E. subst k0. rewrite lookup_set_same in H.
             injection H as <-. right. exists now, r. cbn. auto 10.
          -- apply String.eqb_neq in E. rewrite lookup_set_other in H by exact E. left. auto.
        * left. auto.
      + destruct (uenforce (ust s) r) as [b|] eqn:Ue; cbn [fst set_cache cache_of] in H.
        * destruct (String.eqb k k0) eqn:E.
          -- apply String.eqb_eq in E. subst k0. rewrite lookup_set_same in H.
             injection H as <-. right. exists now, r. cbn. auto 10.
          -- apply String.eqb_neq in E. rewrite lookup_set_other in H by exact E.
             rewrite lookup_delete_other in H by exact E. left. auto.
        * apply lookup_delete_some in H. left. tauto.
    - cbn in H. discriminate.
    - rewrite with_u_cache in H. discriminate.
    - rewrite with_u_cache in H. discriminate.
    - rewrite with_u_cache in H. unfold check_one in H.
      destruct (get_key (rule_params ps)) as [k0|]; cbn [key_is].
      + apply lookup_delete_some in H. destruct H as [N L]. apply String.eqb_neq in N. left. auto.
      + left. auto.
    - rewrite with_u_cache in H. unfold check_many in H.
      apply lookup_delete_all_some in H. left. tauto.
    - destruct v; rewrite with_u_cache in H.
      + left. auto.
      + unfold check_one in H. destruct (get_key (rule_params ps)) as [k0|]; cbn [key_is].
        * apply lookup_delete_some in H. destruct H as [N L]. apply String.eqb_neq in N. left. auto.
        * left. auto.
    - destruct v; rewrite with_u_cache in H.
      + left. auto.
      + unfold check_many in H. apply lookup_delete_all_some in H. left. tauto.
    - left. auto.
    - left. auto.
    - rewrite with_u_cache in H. left. auto.
  Qed.

  (* ------------------------------ histories ----------------------------------------- *)

  Lemma run_app : forall v h1 h2 s, grun v s (h1 ++ h2)%list = grun v (grun v s h1) h2.
  Proof. intros. unfold run. apply fold_left_app. Qed.

  Lemma run_snoc : forall v h o s, grun v s (h ++ [o])%list = fst (gstep v (grun v s h) o).
  Proof. intros. rewrite run_app. reflexivity. Qed.

  (* entry e under key k was produced by an Enforce call of the history whose request has key
     k, from the answer the underlying enforcer gave at that moment, and no invalidation event
     for k happened since *)
  Definition produced_by (v : variant) (u0 : U) (h : list (op M)) (k : string) (e : entry) : Prop :=
    exists h1 now r h2,
      h = (h1 ++ Enforce now r :: h2)%list /\
      get_key r = Some k /\
      enabled (grun v (init u0) h1) = true /\
      uenforce (ust (grun v (init u0) h1)) r = Some (e_val e) /\
      e_ttl e = expire (grun v (init u0) h1) /\
      e_exp e = (now + expire (grun v (init u0) h1))%Z /\
      Forall (fun o => invalidates v o k = false) h2.

  Lemma cache_entries_produced : forall v u0 h k e,
    lookup k (cache_of (grun v (init u0) h)) = Some e -> produced_by v u0 h k e.
  Proof.
    intros v u0 h. induction h as [|o h IH] using rev_ind; intros k e H.
    - cbn in H. discriminate.
    - rewrite run_snoc in H. apply step_lookup in H.
      destruct H as [[L NI]|[now [r [Eo [En [K [Ue [Et Ex]]]]]]]].
      + destruct (IH _ _ L) as [h1 [now [r [h2 [Eh [K [En [Ue [Et [Ex F]]]]]]]]]].
        exists h1, now, r, (h2 ++ [o])%list. subst h. rewrite <- app_assoc. cbn [app].
        repeat split; try assumption. apply Forall_app. split; [exact F|]. constructor; [exact NI|constructor].
      + exists h, now, r, []. subst o. repeat split; try assumption. constructor.
  Qed.
