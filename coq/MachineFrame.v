(* MachineFrame.v — a generic frame principle for the *WithoutNotify functions: any relation on
   states that is reflexive, transitive and respected by the three primitives they are built
   from (store the new assertion of the addressed type, update its links, make the adapter call)
   is respected by every one of them.  Instantiated for the control fields (flags, watcher,
   watcher log) and for "the adapter is untouched while auto-save is off". *)
From Coq Require Import List String Bool Arith.
Import ListNotations.
From Casbin Require Import Base Store Roles Priority Machine.

Section Frame.
Variable pt : string.
Variable R : mstate -> mstate -> Prop.
Hypothesis R_refl : forall s, R s s.
Hypothesis R_trans : forall a b c, R a b -> R b c -> R a c.
Hypothesis R_store : forall s st, R s (with_store s pt st).
Hypothesis R_links : forall d s a rs, R s (fst (links_update d s pt a rs)).
Hypothesis R_persist : forall s c, R s (fst (fst (persist s c))).

Ltac r_step :=
  cbn [fst];
  match goal with
  | |- R ?s ?s => apply R_refl
  | |- R ?s (fst (links_update ?d ?s1 pt ?a ?rs)) => apply (R_trans s s1); [|apply R_links]
  | |- R ?s (with_store ?s1 pt ?st) => apply (R_trans s s1); [|apply R_store]
  end.

Lemma add_wo_R d s r : R s (fst (add_wo d s pt r)).
Proof.
  unfold add_wo. destruct (has _ r); [r_step|].
  pose proof (R_persist s (AAdd pt r)) as P. destruct (persist s (AAdd pt r)) as [[s1 ok] old]. cbn [fst] in P.
  destruct ok; cbn [negb]; [|exact P]. destruct (a_is_g d).
  - destruct (links_update d _ pt true [r]) as [s3 lok] eqn:E. cbn [fst].
    replace s3 with (fst (links_update d (with_store s1 pt (add (a_prio d) (get_store s pt) r)) pt true [r])) by (rewrite E; reflexivity).
    repeat r_step. exact P.
  - cbn [fst]. r_step. exact P.
Qed.

Lemma add_many_wo_R d s rs arr : R s (fst (add_many_wo d s pt rs arr)).
Proof.
  unfold add_many_wo. destruct (negb arr && has_any _ rs); [r_step|].
  pose proof (R_persist s (AAddMany pt rs)) as P. destruct (persist s (AAddMany pt rs)) as [[s1 ok] old]. cbn [fst] in P.
  destruct ok; cbn [negb]; [|exact P]. destruct (a_is_g d).
  - destruct (links_update d _ pt true rs) as [s3 lok] eqn:E. cbn [fst].
    replace s3 with (fst (links_update d (with_store s1 pt (fst (add_many (a_prio d) (get_store s pt) rs))) pt true rs)) by (rewrite E; reflexivity).
    repeat r_step. exact P.
  - cbn [fst]. r_step. exact P.
Qed.

Lemma remove_wo_R d s r : R s (fst (remove_wo d s pt r)).
Proof.
  unfold remove_wo.
  pose proof (R_persist s (ARemove pt r)) as P. destruct (persist s (ARemove pt r)) as [[s1 ok] old]. cbn [fst] in P.
  destruct ok; cbn [negb]; [|exact P]. destruct (remove (get_store s1 pt) r) as [st' removed].
  destruct removed; cbn [negb]; [|exact P]. destruct (a_is_g d).
  - destruct (links_update d _ pt false [r]) as [s3 lok] eqn:E. cbn [fst].
    replace s3 with (fst (links_update d (with_store s1 pt st') pt false [r])) by (rewrite E; reflexivity).
    repeat r_step. exact P.
  - cbn [fst]. r_step. exact P.
Qed.

Lemma remove_many_wo_R d s rs : R s (fst (remove_many_wo d s pt rs)).
Proof.
  unfold remove_many_wo. destruct (negb (has_any _ rs)); [r_step|].
  pose proof (R_persist s (ARemoveMany pt rs)) as P. destruct (persist s (ARemoveMany pt rs)) as [[s1 ok] old]. cbn [fst] in P.
  destruct ok; cbn [negb]; [|exact P]. destruct (remove_many (get_store s pt) rs) as [st' aff].
  destruct aff; [exact P|]. destruct (a_is_g d).
  - destruct (links_update d _ pt false rs) as [s3 lok] eqn:E. cbn [fst].
    replace s3 with (fst (links_update d (with_store s1 pt st') pt false rs)) by (rewrite E; reflexivity).
    repeat r_step. exact P.
  - cbn [fst]. r_step. exact P.
Qed.

Lemma update_wo_R d s o n : R s (fst (update_wo d s pt o n)).
Proof.
  unfold update_wo.
  pose proof (R_persist s (AUpdate pt o n)) as P. destruct (persist s (AUpdate pt o n)) as [[s1 ok] old]. cbn [fst] in P.
  destruct ok; cbn [negb]; [|exact P]. destruct (update (get_store s1 pt) o n) as [st' updated].
  destruct updated; cbn [negb]; [|exact P]. destruct (a_is_g d).
  - destruct (links_update d (with_store s1 pt st') pt false [o]) as [s3 lok1] eqn:E1.
    assert (T3 : R s s3).
    { replace s3 with (fst (links_update d (with_store s1 pt st') pt false [o])) by (rewrite E1; reflexivity). repeat r_step. exact P. }
    destruct lok1; cbn [negb fst]; [|exact T3].
    destruct (links_update d s3 pt true [n]) as [s4 lok2] eqn:E2. cbn [fst].
    replace s4 with (fst (links_update d s3 pt true [n])) by (rewrite E2; reflexivity). r_step. exact T3.
  - cbn [fst]. r_step. exact P.
Qed.

Lemma update_many_wo_R d s os ns : R s (fst (update_many_wo d s pt os ns)).
Proof.
  unfold update_many_wo. destruct (negb (Nat.eqb _ _)); [r_step|].
  pose proof (R_persist s (AUpdateMany pt os ns)) as P. destruct (persist s (AUpdateMany pt os ns)) as [[s1 ok] old]. cbn [fst] in P.
  destruct ok; cbn [negb]; [|exact P]. destruct (update_many (get_store s1 pt) os ns) as [st' updated].
  destruct updated; cbn [negb fst]; [|r_step; exact P]. destruct (a_is_g d).
  - destruct (links_update d (with_store s1 pt st') pt false os) as [s3 lok1] eqn:E1.
    assert (T3 : R s s3).
    { replace s3 with (fst (links_update d (with_store s1 pt st') pt false os)) by (rewrite E1; reflexivity). repeat r_step. exact P. }
    destruct lok1; cbn [negb fst]; [|exact T3].
    destruct (links_update d s3 pt true ns) as [s4 lok2] eqn:E2. cbn [fst].
    replace s4 with (fst (links_update d s3 pt true ns)) by (rewrite E2; reflexivity). r_step. exact T3.
  - cbn [fst]. r_step. exact P.
Qed.

Lemma remove_filtered_wo_R d s fi fvs : R s (fst (remove_filtered_wo d s pt fi fvs)).
Proof.
  unfold remove_filtered_wo. destruct fvs as [|fv t]; [r_step|].
  pose proof (R_persist s (ARemoveFiltered pt fi (fv :: t))) as P.
  destruct (persist s (ARemoveFiltered pt fi (fv :: t))) as [[s1 ok] old]. cbn [fst] in P.
  destruct ok; cbn [negb]; [|exact P].
  destruct (remove_filtered (get_store s1 pt) fi (fv :: t)) as [[[st' removed] eff]|]; [|exact P].
  destruct removed; cbn [negb fst]; [|r_step; exact P]. destruct (a_is_g d).
  - destruct (links_update d _ pt false eff) as [s3 lok] eqn:E. cbn [fst].
    replace s3 with (fst (links_update d (with_store s1 pt st') pt false eff)) by (rewrite E; reflexivity).
    repeat r_step. exact P.
  - cbn [fst]. r_step. exact P.
Qed.

Lemma update_filtered_wo_R d s ns fi fvs : R s (fst (fst (update_filtered_wo d s pt ns fi fvs))).
Proof.
  unfold update_filtered_wo.
  pose proof (R_persist s (AUpdateFiltered pt ns fi fvs)) as P.
  destruct (persist s (AUpdateFiltered pt ns fi fvs)) as [[s1 ok] old]. cbn [fst] in P.
  destruct ok; cbn [negb fst]; [|exact P].
  destruct (remove_many (get_store s1 pt) old) as [st1 aff].
  set (st2 := fst (add_many (a_prio d) st1 ns)).
  destruct (negb _); cbn [fst]; [r_step; exact P|]. destruct (a_is_g d).
  - destruct (links_update d (with_store s1 pt st2) pt false old) as [s3 lok1] eqn:E1.
    assert (T3 : R s s3).
    { replace s3 with (fst (links_update d (with_store s1 pt st2) pt false old)) by (rewrite E1; reflexivity). repeat r_step. exact P. }
    destruct lok1; cbn [negb fst]; [|exact T3].
    destruct (links_update d s3 pt true ns) as [s4 lok2] eqn:E2. cbn [fst].
    replace s4 with (fst (links_update d s3 pt true ns)) by (rewrite E2; reflexivity). r_step. exact T3.
  - cbn [fst]. r_step. exact P.
Qed.
End Frame.

(* ---------- instance: flags, watcher and watcher log ---------- *)
Definition same_ctl (s s' : mstate) : Prop :=
  autosave s' = autosave s /\ autonotify s' = autonotify s /\ watcher s' = watcher s /\ wlog s' = wlog s.

Lemma same_ctl_refl s : same_ctl s s. Proof. repeat split. Qed.
Lemma same_ctl_trans a b c : same_ctl a b -> same_ctl b c -> same_ctl a c.
Proof. intros (A1 & A2 & A3 & A4) (B1 & B2 & B3 & B4). repeat split; congruence. Qed.
Lemma same_ctl_store pt s st : same_ctl s (with_store s pt st). Proof. repeat split. Qed.
Lemma same_ctl_links pt d s a rs : same_ctl s (fst (links_update d s pt a rs)).
Proof. unfold links_update. destruct (build_incremental _ _ _ _) as [l ok]. repeat split. Qed.
Lemma same_ctl_persist s c : same_ctl s (fst (fst (persist s c))).
Proof.
  unfold persist. destruct (autosave s) eqn:E; [|cbn [fst]; apply same_ctl_refl].
  destruct (adapter_call (ad s) c) as [[a ok] old]. cbn [fst]. repeat split.
Qed.

(* ---------- instance: with auto-save off the adapter is not touched ---------- *)
Definition ad_untouched (s s' : mstate) : Prop := autosave s = false -> ad s' = ad s /\ autosave s' = false.

Lemma ad_untouched_refl s : ad_untouched s s. Proof. intros H. auto. Qed.
Lemma ad_untouched_trans a b c : ad_untouched a b -> ad_untouched b c -> ad_untouched a c.
Proof. intros H1 H2 H. destruct (H1 H) as [A1 A2]. destruct (H2 A2) as [B1 B2]. split; congruence. Qed.
Lemma ad_untouched_store pt s st : ad_untouched s (with_store s pt st). Proof. intros H. auto. Qed.
Lemma ad_untouched_links pt d s a rs : ad_untouched s (fst (links_update d s pt a rs)).
Proof. unfold links_update. destruct (build_incremental _ _ _ _) as [l ok]. intros H. auto. Qed.
Lemma ad_untouched_persist s c : ad_untouched s (fst (fst (persist s c))).
Proof. intros H. unfold persist. rewrite H. cbn [fst]. auto. Qed.
