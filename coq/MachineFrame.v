(* MachineFrame.v — a generic frame principle for the *WithoutNotify functions: any relation on
   states that is reflexive, transitive and respected by the three primitives they are built
   from (store the new assertion of the addressed type, update its links, make the adapter call)
   is respected by every one of them.  Instantiated for the control fields (flags, watcher,
   watcher log) and for "the adapter is untouched while auto-save is off". *)
From Coq Require Import List String Bool Arith.
Import ListNotations.
From Casbin Require Import Base Store Roles Priority Machine.

Section Frame.
Variable pt : string.
Variable R : mstate -> mstate -> Prop.
Hypothesis R_refl : forall s, R s s.
Hypothesis R_store : forall a s st, R a s -> R a (with_store s pt st).
Hypothesis R_links : forall a d s x rs, R a s -> R a (fst (links_update d s pt x rs)).
Variable P : acall -> Prop.
Hypothesis R_persist : forall s c, P c -> R s (fst (fst (persist s c))).

Ltac r_step :=
  cbn [fst];
  match goal with
  | |- R ?s ?s => apply R_refl
  | |- R ?s (fst (links_update ?d ?s1 pt ?a ?rs)) => apply R_links
  | |- R ?s (with_store ?s1 pt ?st) => apply R_store
  end.

Lemma add_wo_R d s r : P (AAdd pt r) -> R s (fst (add_wo d s pt r)).
Proof.
  intros HP.
  unfold add_wo. destruct (has _ r); [r_step|].
  pose proof (R_persist s (AAdd pt r) HP) as Pp. destruct (persist s (AAdd pt r)) as [[s1 ok] old]. cbn [fst] in Pp.
  destruct ok; cbn [negb]; [|exact Pp]. destruct (a_is_g d).
  - destruct (links_update d _ pt true [r]) as [s3 lok] eqn:E. cbn [fst].
    replace s3 with (fst (links_update d (with_store s1 pt (add (a_prio d) (get_store s pt) r)) pt true [r])) by (rewrite E; reflexivity).
    repeat r_step. exact Pp.
  - cbn [fst]. r_step. exact Pp.
Qed.

Lemma add_many_wo_R d s rs arr : P (AAddMany pt rs) -> R s (fst (add_many_wo d s pt rs arr)).
Proof.
  intros HP.
  unfold add_many_wo. destruct (negb arr && has_any _ rs); [r_step|].
  pose proof (R_persist s (AAddMany pt rs) HP) as Pp. destruct (persist s (AAddMany pt rs)) as [[s1 ok] old]. cbn [fst] in Pp.
  destruct ok; cbn [negb]; [|exact Pp]. destruct (a_is_g d).
  - destruct (links_update d _ pt true rs) as [s3 lok] eqn:E. cbn [fst].
    replace s3 with (fst (links_update d (with_store s1 pt (fst (add_many (a_prio d) (get_store s pt) rs))) pt true rs)) by (rewrite E; reflexivity).
    repeat r_step. exact Pp.
  - cbn [fst]. r_step. exact Pp.
Qed.

Lemma remove_wo_R d s r : P (ARemove pt r) -> R s (fst (remove_wo d s pt r)).
Proof.
  intros HP.
  unfold remove_wo.
  pose proof (R_persist s (ARemove pt r) HP) as Pp. destruct (persist s (ARemove pt r)) as [[s1 ok] old]. cbn [fst] in Pp.
  destruct ok; cbn [negb]; [|exact Pp]. destruct (remove (get_store s1 pt) r) as [st' removed].
  destruct removed; cbn [negb]; [|exact Pp]. destruct (a_is_g d).
  - destruct (links_update d _ pt false [r]) as [s3 lok] eqn:E. cbn [fst].
    replace s3 with (fst (links_update d (with_store s1 pt st') pt false [r])) by (rewrite E; reflexivity).
    repeat r_step. exact Pp.
  - cbn [fst]. r_step. exact Pp.
Qed.

Lemma remove_many_wo_R d s rs : P (ARemoveMany pt rs) -> R s (fst (remove_many_wo d s pt rs)).
Proof.
  intros HP.
  unfold remove_many_wo. destruct (negb (has_any _ rs)); [r_step|].
  pose proof (R_persist s (ARemoveMany pt rs) HP) as Pp. destruct (persist s (ARemoveMany pt rs)) as [[s1 ok] old]. cbn [fst] in Pp.
  destruct ok; cbn [negb]; [|exact Pp]. destruct (remove_many (get_store s pt) rs) as [st' aff].
  destruct aff; [exact Pp|]. destruct (a_is_g d).
  - destruct (links_update d _ pt false rs) as [s3 lok] eqn:E. cbn [fst].
    replace s3 with (fst (links_update d (with_store s1 pt st') pt false rs)) by (rewrite E; reflexivity).
    repeat r_step. exact Pp.
  - cbn [fst]. r_step. exact Pp.
Qed.

Lemma update_wo_R d s o n : P (AUpdate pt o n) -> R s (fst (update_wo d s pt o n)).
Proof.
  intros HP.
  unfold update_wo.
  pose proof (R_persist s (AUpdate pt o n) HP) as Pp. destruct (persist s (AUpdate pt o n)) as [[s1 ok] old]. cbn [fst] in Pp.
  destruct ok; cbn [negb]; [|exact Pp]. destruct (update (get_store s1 pt) o n) as [st' updated].
  destruct updated; cbn [negb]; [|exact Pp]. destruct (a_is_g d).
  - destruct (links_update d (with_store s1 pt st') pt false [o]) as [s3 lok1] eqn:E1.
    assert (T3 : R s s3).
    { replace s3 with (fst (links_update d (with_store s1 pt st') pt false [o])) by (rewrite E1; reflexivity). repeat r_step. exact Pp. }
    destruct lok1; cbn [negb fst]; [|exact T3].
    destruct (links_update d s3 pt true [n]) as [s4 lok2] eqn:E2. cbn [fst].
    replace s4 with (fst (links_update d s3 pt true [n])) by (rewrite E2; reflexivity). r_step. exact T3.
  - cbn [fst]. r_step. exact Pp.
Qed.

Lemma update_many_wo_R d s os ns : P (AUpdateMany pt os ns) -> R s (fst (update_many_wo d s pt os ns)).
Proof.
  intros HP.
  unfold update_many_wo. destruct (negb (Nat.eqb _ _)); [r_step|].
  pose proof (R_persist s (AUpdateMany pt os ns) HP) as Pp. destruct (persist s (AUpdateMany pt os ns)) as [[s1 ok] old]. cbn [fst] in Pp.
  destruct ok; cbn [negb]; [|exact Pp]. destruct (update_many (get_store s1 pt) os ns) as [st' updated].
  destruct updated; cbn [negb fst]; [|r_step; exact Pp]. destruct (a_is_g d).
  - destruct (links_update d (with_store s1 pt st') pt false os) as [s3 lok1] eqn:E1.
    assert (T3 : R s s3).
    { replace s3 with (fst (links_update d (with_store s1 pt st') pt false os)) by (rewrite E1; reflexivity). repeat r_step. exact Pp. }
    destruct lok1; cbn [negb fst]; [|exact T3].
    destruct (links_update d s3 pt true ns) as [s4 lok2] eqn:E2. cbn [fst].
    replace s4 with (fst (links_update d s3 pt true ns)) by (rewrite E2; reflexivity). r_step. exact T3.
  - cbn [fst]. r_step. exact Pp.
Qed.

Lemma remove_filtered_wo_R d s fi fvs : P (ARemoveFiltered pt fi fvs) -> R s (fst (remove_filtered_wo d s pt fi fvs)).
Proof.
  intros HP.
  unfold remove_filtered_wo. destruct fvs as [|fv t]; [r_step|].
  pose proof (R_persist s (ARemoveFiltered pt fi (fv :: t)) HP) as Pp.
  destruct (persist s (ARemoveFiltered pt fi (fv :: t))) as [[s1 ok] old]. cbn [fst] in Pp.
  destruct ok; cbn [negb]; [|exact Pp].
  destruct (remove_filtered (get_store s1 pt) fi (fv :: t)) as [[[st' removed] eff]|]; [|exact Pp].
  destruct removed; cbn [negb fst]; [|r_step; exact Pp]. destruct (a_is_g d).
  - destruct (links_update d _ pt false eff) as [s3 lok] eqn:E. cbn [fst].
    replace s3 with (fst (links_update d (with_store s1 pt st') pt false eff)) by (rewrite E; reflexivity).
    repeat r_step. exact Pp.
  - cbn [fst]. r_step. exact Pp.
Qed.

Lemma update_filtered_wo_R d s ns fi fvs : P (AUpdateFiltered pt ns fi fvs) -> R s (fst (fst (update_filtered_wo d s pt ns fi fvs))).
Proof.
  intros HP.
  unfold update_filtered_wo.
  pose proof (R_persist s (AUpdateFiltered pt ns fi fvs) HP) as Pp.
  destruct (persist s (AUpdateFiltered pt ns fi fvs)) as [[s1 ok] old]. cbn [fst] in Pp.
  destruct ok; cbn [negb fst]; [|exact Pp].
  destruct (remove_many (get_store s1 pt) old) as [st1 aff].
  set (st2 := fst (add_many (a_prio d) st1 ns)).
  destruct (negb _); cbn [fst]; [r_step; exact Pp|]. destruct (a_is_g d).
  - destruct (links_update d (with_store s1 pt st2) pt false old) as [s3 lok1] eqn:E1.
    assert (T3 : R s s3).
    { replace s3 with (fst (links_update d (with_store s1 pt st2) pt false old)) by (rewrite E1; reflexivity). repeat r_step. exact Pp. }
    destruct lok1; cbn [negb fst]; [|exact T3].
    destruct (links_update d s3 pt true ns) as [s4 lok2] eqn:E2. cbn [fst].
    replace s4 with (fst (links_update d s3 pt true ns)) by (rewrite E2; reflexivity). r_step. exact T3.
  - cbn [fst]. r_step. exact Pp.
Qed.
End Frame.

(* ---------- instance: flags, watcher and watcher log ---------- *)
Definition same_ctl (s s' : mstate) : Prop :=
  autosave s' = autosave s /\ autonotify s' = autonotify s /\ watcher s' = watcher s /\ wlog s' = wlog s.

Lemma same_ctl_refl s : same_ctl s s. Proof. repeat split. Qed.
Lemma same_ctl_trans a b c : same_ctl a b -> same_ctl b c -> same_ctl a c.
Proof. intros (A1 & A2 & A3 & A4) (B1 & B2 & B3 & B4). repeat split; congruence. Qed.
Lemma same_ctl_store pt a s st : same_ctl a s -> same_ctl a (with_store s pt st).
Proof. intros H. eapply same_ctl_trans; [exact H|]. repeat split. Qed.
Lemma same_ctl_links pt a d s x rs : same_ctl a s -> same_ctl a (fst (links_update d s pt x rs)).
Proof. intros H. eapply same_ctl_trans; [exact H|]. unfold links_update. destruct (build_incremental _ _ _ _) as [l ok]. repeat split. Qed.
Lemma same_ctl_persist s c : True -> same_ctl s (fst (fst (persist s c))).
Proof.
  intros _. unfold persist. destruct (autosave s) eqn:E; [|cbn [fst]; apply same_ctl_refl].
  destruct (adapter_call (ad s) c) as [[a ok] old]. cbn [fst]. repeat split.
Qed.

(* ---------- instance: with auto-save off the adapter is not touched ---------- *)
Definition ad_untouched (s s' : mstate) : Prop := autosave s = false -> ad s' = ad s /\ autosave s' = false.

Lemma ad_untouched_refl s : ad_untouched s s. Proof. intros H. auto. Qed.
Lemma ad_untouched_trans a b c : ad_untouched a b -> ad_untouched b c -> ad_untouched a c.
Proof. intros H1 H2 H. destruct (H1 H) as [A1 A2]. destruct (H2 A2) as [B1 B2]. split; congruence. Qed.
Lemma ad_untouched_store pt a s st : ad_untouched a s -> ad_untouched a (with_store s pt st).
Proof. intros H. eapply ad_untouched_trans; [exact H|]. intros K. auto. Qed.
Lemma ad_untouched_links pt a d s x rs : ad_untouched a s -> ad_untouched a (fst (links_update d s pt x rs)).
Proof. intros H. eapply ad_untouched_trans; [exact H|]. unfold links_update. destruct (build_incremental _ _ _ _) as [l ok]. intros K. auto. Qed.
Lemma ad_untouched_persist s c : True -> ad_untouched s (fst (fst (persist s c))).
Proof. intros _ H. unfold persist. rewrite H. cbn [fst]. auto. Qed.

(* ---------- instance: which adapter state results (the single call an operation makes) ---------- *)
Definition ad_by (call : acall) (s s' : mstate) : Prop :=
  ad s' = ad s \/ (autosave s = true /\ ad s' = fst (fst (adapter_call (ad s) call))).

Lemma ad_by_refl call s : ad_by call s s. Proof. left. reflexivity. Qed.
Lemma ad_by_store call pt a s st : ad_by call a s -> ad_by call a (with_store s pt st).
Proof. intros H. exact H. Qed.
Lemma ad_by_links call pt a d s x rs : ad_by call a s -> ad_by call a (fst (links_update d s pt x rs)).
Proof. unfold links_update. destruct (build_incremental _ _ _ _) as [l ok]. intros H. exact H. Qed.
Lemma ad_by_persist call s c : c = call -> ad_by call s (fst (fst (persist s c))).
Proof.
  intros ->. unfold ad_by, persist. destruct (autosave s) eqn:E; [|left; reflexivity].
  destruct (adapter_call (ad s) call) as [[a ok] old]. right. split; reflexivity.
Qed.
