(* Priority.v — model.SortPoliciesByPriority (sort.SliceStable with the `err => true`
   comparator) and the subject-hierarchy ordering.  Go's SliceStable sorts blocks of up to 20
   elements by plain insertion sort and merges larger inputs with symMerge; for a comparator
   that is a strict weak order every stable sort gives the same result, so the model is the
   insertion sort (exactly Go's for <= 20 rules, and equal to it on numeric priorities for any
   length).  Definitions only. *)
From Coq Require Import List String Bool Arith ZArith.
Import ListNotations.
From Casbin Require Import Base Store.

(* less(i, j) of SortPoliciesByPriority on two rules *)
Definition prio_less (c : nat) (a b : rule) : bool :=
  match atoi (nth c a ""%string) with
  | None => true
  | Some p1 => match atoi (nth c b ""%string) with
               | None => true
               | Some p2 => (p1 <? p2)%Z
               end
  end.

(* insertionSort inner loop: `for j := i; j > a && less(data[j], data[j-1]); j-- { swap }`
   on the already processed prefix kept in reverse (nearest neighbour first) *)
Fixpoint sink (less : rule -> rule -> bool) (x : rule) (rev_prefix : list rule) : list rule :=
  match rev_prefix with
  | [] => [x]
  | y :: t => if less x y then y :: sink less x t else x :: rev_prefix
  end.

Definition insertion_sort (less : rule -> rule -> bool) (l : list rule) : list rule :=
  rev (fold_left (fun acc x => sink less x acc) l []).

Definition sort_by_priority (c : nat) (l : list rule) : list rule := insertion_sort (prio_less c) l.

(* ---------- specification ---------- *)
(* numeric priorities in column c *)
Definition numeric (c : nat) (l : list rule) : Prop :=
  forall r, In r l -> exists v, prio_of c r = Some v.

(* sorted by priority (non-decreasing) *)
Inductive sorted_prio (c : nat) : list rule -> Prop :=
| sp_nil : sorted_prio c []
| sp_one r : sorted_prio c [r]
| sp_cons a b t va vb : prio_of c a = Some va -> prio_of c b = Some vb -> (va <= vb)%Z ->
    sorted_prio c (b :: t) -> sorted_prio c (a :: b :: t).
