(* Priority.v — model.SortPoliciesByPriority (sort.SliceStable with the `err => true`
   comparator) and the subject-hierarchy ordering.  Go's SliceStable sorts blocks of up to 20
   elements by plain insertion sort and merges larger inputs with symMerge; for a comparator
   that is a strict weak order every stable sort gives the same result, so the model is the
   insertion sort (exactly Go's for <= 20 rules, and equal to it on numeric priorities for any
   length).  Definitions only. *)
From Coq Require Import List String Bool Arith ZArith.
Import ListNotations.
From Casbin Require Import Base Store.

(* less(i, j) of SortPoliciesByPriority on two rules *)
Definition prio_less (c : nat) (a b : rule) : bool :=
  match atoi (nth c a ""%string) with
  | None => true
  | Some p1 => match atoi (nth c b ""%string) with
               | None => true
               | Some p2 => (p1 <? p2)%Z
               end
  end.

(* insertionSort inner loop: `for j := i; j > a && less(data[j], data[j-1]); j-- { swap }`
   on the already processed prefix kept in reverse (nearest neighbour first) *)
Fixpoint sink (less : rule -> rule -> bool) (x : rule) (rev_prefix : list rule) : list rule :=
  match rev_prefix with
  | [] => [x]
  | y :: t => if less x y then y :: sink less x t else x :: rev_prefix
  end.

Definition insertion_sort (less : rule -> rule -> bool) (l : list rule) : list rule :=
  rev (fold_left (fun acc x => sink less x acc) l []).

Definition sort_by_priority (c : nat) (l : list rule) : list rule := insertion_sort (prio_less c) l.

(* ---------- specification ---------- *)
(* numeric priorities in column c *)
Definition numeric (c : nat) (l : list rule) : Prop :=
  forall r, In r l -> exists v, prio_of c r = Some v.

(* sorted by priority (non-decreasing) *)
Inductive sorted_prio (c : nat) : list rule -> Prop :=
| sp_nil : sorted_prio c []
| sp_one r : sorted_prio c [r]
| sp_cons a b t va vb : prio_of c a = Some va -> prio_of c b = Some vb -> (va <= vb)%Z ->
    sorted_prio c (b :: t) -> sorted_prio c (a :: b :: t).

(* ---------- subject hierarchy (model.SortPoliciesBySubjectHierarchy) ---------- *)
Local Open Scope string_scope.

(* getNameWithDomain(domain, name) = domain + "::" + name; defaultDomain = "" *)
Definition hname (d n : string) : string := d ++ "::" ++ n.

Definition set_val (k : string) (v : nat) (m : smap nat) : smap nat :=
  (fix go (m : smap nat) : smap nat :=
     match m with
     | [] => [(k, v)]
     | (k', v') :: t => if String.eqb k k' then (k', v) :: t else (k', v') :: go t
     end) m.

Fixpoint set_val_list (k : string) (x : string) (pm : smap (list string)) : smap (list string) :=
  match pm with
  | [] => [(k, [x])]
  | (k', l) :: t => if String.eqb k k' then (k', (l ++ [x])%list) :: t else (k', l) :: set_val_list k x t
  end.

(* first loop of getSubjectHierarchyMap: None = "policy g expect 2 more params" *)
Fixpoint hier_init (gs : list rule) (m : smap nat) (pm : smap (list string))
  : option (smap nat * smap (list string)) :=
  match gs with
  | [] => Some (m, pm)
  | r :: t =>
      match r with
      | c :: p :: rest =>
          let d := match rest with [] => "" | d :: _ => d end in
          let child := hname d c in
          let parent := hname d p in
          let pm1 := set_val_list parent child pm in
          let m1 := match lookup child m with Some _ => m | None => set_val child 0 m end in
          let m2 := match lookup parent m1 with Some _ => m1 | None => set_val parent 0 m1 end in
          hier_init t (set_val child 1 m2) pm1
      | _ => None
      end
  end.

Definition children (pm : smap (list string)) (x : string) : list string :=
  match lookup x pm with Some l => l | None => [] end.

Fixpoint dedup_first (seen : list string) (l : list string) : list string :=
  match l with
  | [] => []
  | x :: t => if mem_str x seen then dedup_first seen t else x :: dedup_first (x :: seen) t
  end.

Inductive hres := HOk (m : smap nat) | HErr | HOutOfFuel.

(* the level-order traversal from one root: `for lv := 0; len(level) != 0; lv++` with the
   cycle test `lv > len(subjectHierarchyMap)`; n = number of names *)
Fixpoint levels (pm : smap (list string)) (n : nat) (fuel : nat) (lv : nat) (level : list string) (m : smap nat) : hres :=
  match level with
  | [] => HOk m
  | _ =>
      if Nat.ltb n lv then HErr
      else match fuel with
           | 0 => HOutOfFuel
           | S f =>
               let m' := fold_left (fun m x => set_val x lv m) level m in
               let next := dedup_first [] (flat_map (children pm) level) in
               levels pm n f (S lv) next m'
           end
  end.

(* `for k, v := range subjectHierarchyMap { if v != 0 continue; ... }`; the Go map order is
   modelled as insertion order (irrelevant when every name has at most one root above it) *)
Fixpoint all_roots (pm : smap (list string)) (n : nat) (roots : list string) (m : smap nat) : hres :=
  match roots with
  | [] => HOk m
  | k :: t =>
      match lookup k m with
      | Some 0 =>
          match levels pm n (S n) 0 [k] m with
          | HOk m' => all_roots pm n t m'
          | other => other
          end
      | _ => all_roots pm n t m
      end
  end.

Definition hierarchy_map (gs : list rule) : hres :=
  match hier_init gs [] [] with
  | None => HErr
  | Some (m, pm) => all_roots pm (List.length m) (map fst m) m
  end.

Definition level_of (m : smap nat) (dom_idx : option nat) (r : rule) : nat :=
  let d := match dom_idx with Some i => nth i r "" | None => "" end in
  match lookup (hname d (nth 0 r "")) m with Some v => v | None => 0 end.

(* sort.SliceStable(policies, p1 > p2) *)
Definition sort_by_hierarchy (gs : list rule) (dom_idx : option nat) (ps : list rule) : option (list rule) :=
  match hierarchy_map gs with
  | HOk m => Some (insertion_sort (fun a b => Nat.ltb (level_of m dom_idx b) (level_of m dom_idx a)) ps)
  | _ => None
  end.
