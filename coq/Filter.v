(* Filter.v — persist/file-adapter/adapter_filtered.go (filterLine, filterWords, the `filtered`
   flag of FilteredAdapter) and the enforcer side of filtered loading (enforcer.go: LoadPolicy,
   LoadFilteredPolicy, LoadIncrementalFilteredPolicy, loadFilteredPolicy, SavePolicy, IsFiltered).
   Definitions only; proofs in FilterProofs.v.

   The state of the model: the enforcer's rule lists per policy type (Csv.store, ordered, loading
   follows LoadPolicyArray: arity checks, duplicates skipped, appended in file order), the g rules
   the role manager was last built from ([links]; a failed filtered load returns before the
   rebuild), the text of the policy file, and the adapter's flag.

   Not modelled (assumptions of the correspondence): no `priority` token and no subjectPriority
   effect in the model text (so AddPolicy appends and the two Sort… calls are no-ops); lines
   shorter than bufio.Scanner's 64 KiB token limit; one p and one g type when the bytes written
   by SavePolicy are compared (Go iterates model["p"] / model["g"] in map order). *)
From Coq Require Import List String Ascii Bool Arith.
From Casbin Require Import Csv.
Import ListNotations.
Open Scope string_scope.

(* ---------- fileadapter.Filter ---------- *)
Record filt : Type := mkFilter {
  f_p : list string; f_g : list string; f_g1 : list string; f_g2 : list string;
  f_g3 : list string; f_g4 : list string; f_g5 : list string }.

(* the switch of filterLine; any other type: the nil slice *)
Definition filter_for (F : filt) (key : string) : list string :=
  if String.eqb key "p" then f_p F
  else if String.eqb key "g" then f_g F
  else if String.eqb key "g1" then f_g1 F
  else if String.eqb key "g2" then f_g2 F
  else if String.eqb key "g3" then f_g3 F
  else if String.eqb key "g4" then f_g4 F
  else if String.eqb key "g5" then f_g5 F
  else [].

(* the loop of filterWords over line[1:] : true = some non-empty filter value differs *)
Fixpoint mismatch (ws : list string) (fs : list string) {struct fs} : bool :=
  match fs with
  | [] => false
  | v :: fs' =>
    match ws with
    | [] => true       (* not reachable after the length test *)
    | w :: ws' =>
      (negb (String.eqb v "") && negb (String.eqb (trim v) (trim w))) || mismatch ws' fs'
    end
  end.

(* filterWords(line, filter): true = skip the line *)
Definition filter_words (line : list string) (fs : list string) : bool :=
  if Nat.ltb (List.length line) (List.length fs + 1) then true
  else mismatch (tl line) fs.

(* filterLine(line, filter): true = skip the line.  None = the nil *Filter *)
Definition filter_line (line : string) (F : option filt) : bool :=
  match F with
  | None => false
  | Some F =>
    let p := split_comma line in
    filter_words p (filter_for F (trim (hd "" p)))
  end.

(* ---------- the file ---------- *)
(* bufio.Scanner (ScanLines) + strings.TrimSpace(scanner.Text()).  ScanLines also drops one CR
   at the end of a line and a final empty line; both are invisible after TrimSpace / for the
   empty line that LoadPolicyLine skips. *)
Definition lines_of (text : string) : list string := map trim (split_on c_lf text).

(* the loop of loadPolicyFile: stops at the first line that fails, keeping what was loaded *)
Fixpoint load_lines (ls : list string) (st : store) : store * bool :=
  match ls with
  | [] => (st, true)
  | l :: t =>
    match load_policy_line l st with
    | Err => (st, false)
    | Ok st' => load_lines t st'
    end
  end.

Definition kept (F : option filt) (ls : list string) : list string :=
  filter (fun l => negb (filter_line l F)) ls.

(* strings.TrimRight(text, LF) *)
Fixpoint strip_trailing_lf (s : string) : string :=
  match s with
  | EmptyString => EmptyString
  | String a r =>
    let r' := strip_trailing_lf r in
    if Ascii.eqb a c_lf && String.eqb r' "" then EmptyString else String a r'
  end.

Definition is_sec (sec : string) (e : entry) : bool := String.eqb (sec_of (e_key e)) sec.

(* file-adapter SavePolicy: the p section, then the g section *)
Definition save_lines (st : store) : list string :=
  flat_map (fun e => map (print_line (e_key e)) (e_rules e)) (filter (is_sec "p") st)
  ++ flat_map (fun e => map (print_line (e_key e)) (e_rules e)) (filter (is_sec "g") st).
Definition save_text (st : store) : string :=
  strip_trailing_lf (String.concat "" (map (fun l => l ++ String c_lf EmptyString) (save_lines st))).

(* model.ClearPolicy: the p and g sections only *)
Definition clear_policy (st : store) : store :=
  map (fun e => if is_sec "p" e || is_sec "g" e then set_rules e [] else e) st.

(* ---------- the adapter ---------- *)
(* the three flag machines: the code as it is, and the two earlier ones (for the refuted lemmas) *)
Inductive variant : Type :=
| Current
| PreF32      (* LoadFilteredPolicy set the flag only after a successful filtered load *)
| PreF24.     (* …and LoadPolicy reset the flag before loading *)

(* FilteredAdapter.LoadPolicy(model) on the live model st; io = the file cannot be opened.
   Result: the model afterwards, ok?, the flag afterwards *)
Definition adapter_load_policy (v : variant) (io : bool) (text : string) (st : store) (fl : bool)
  : store * bool * bool :=
  let fl0 := match v with PreF24 => false | _ => fl end in
  if io then (st, false, fl0)
  else let (st', ok) := load_lines (lines_of text) st in
       (st', ok, if ok then false else fl0).

(* the filter argument (an interface value) *)
Inductive farg : Type :=
| FNil                          (* untyped nil: a full load *)
| FBad                          (* any dynamic type but *Filter, e.g. a Filter passed by value *)
| FPtr (F : option filt).     (* a *Filter; None = the nil pointer *)

(* FilteredAdapter.LoadFilteredPolicy(model, filter) *)
Definition adapter_load_filtered (v : variant) (io : bool) (text : string) (a : farg)
           (st : store) (fl : bool) : store * bool * bool :=
  let fl1 := match v with Current => true | _ => fl end in
  match a with
  | FNil => adapter_load_policy v io text st fl1
  | FBad => (st, false, fl1)
  | FPtr F =>
    if io then (st, false, fl1)
    else let (st', ok) := load_lines (kept F (lines_of text)) st in
         (st', ok, if ok then true else fl1)
  end.

(* ---------- the enforcer ---------- *)
Record state : Type := mkState {
  mem : store;            (* e.model: the rule lists *)
  links : list rule;      (* the g rules the role manager reflects *)
  file : string;          (* the policy file *)
  flag : bool }.          (* FilteredAdapter.filtered *)

Inductive op : Type :=
| OLoad (io : bool)                                   (* e.LoadPolicy(); io: file moved away *)
| OLoadFiltered (incr : bool) (io : bool) (a : farg)  (* e.LoadFilteredPolicy / e.LoadIncrementalFilteredPolicy *)
| OSave                                               (* e.SavePolicy() *)
| OAdd (key : string) (r : rule).                     (* e.AddPolicy / e.AddGroupingPolicy (key p / g) *)

(* NewFilteredAdapter sets filtered = true and NewEnforcer then loads nothing *)
Definition init (defs : store) (text : string) : state :=
  mkState (clear_policy defs) [] text true.

(* the result flag: no error (for OAdd: the rule was added) *)
Definition step (v : variant) (s : state) (o : op) : state * bool :=
  match o with
  | OLoad io =>
    (* newModel := copy, clear; adapter.LoadPolicy(newModel); swap and rebuild links on success *)
    let '(m', ok, fl') := adapter_load_policy v io (file s) (clear_policy (mem s)) (flag s) in
    if ok then (mkState m' (rules_of "g" m') (file s) fl', true)
    else (mkState (mem s) (links s) (file s) fl', false)
  | OLoadFiltered incr io a =>
    (* e.model.ClearPolicy() (not for the incremental call), then straight into e.model;
       on error return before initRmMap / BuildRoleLinks *)
    let m0 := if incr then mem s else clear_policy (mem s) in
    let '(m', ok, fl') := adapter_load_filtered v io (file s) a m0 (flag s) in
    if ok then (mkState m' (rules_of "g" m') (file s) fl', true)
    else (mkState m' (links s) (file s) fl', false)
  | OSave =>
    if flag s then (s, false)
    else (mkState (mem s) (links s) (save_text (mem s)) (flag s), true)
  | OAdd key r =>
    match find_entry key (mem s) with
    | None => (s, false)
    | Some e =>
      if key_in r (e_rules e) then (s, false)
      else (mkState (add_rule key r (mem s))
                    (if String.eqb (sec_of key) "g" then links s ++ [r] else links s)
                    (file s) (flag s), true)
    end
  end.

Fixpoint run (v : variant) (s : state) (ops : list op) : state :=
  match ops with
  | [] => s
  | o :: t => run v (fst (step v s o)) t
  end.

(* ---------- specification side ---------- *)
(* a filter value against a rule field: empty = wildcard; the code compares TrimSpace(value) *)
Definition field_match (v w : string) : bool := String.eqb v "" || String.eqb (trim v) w.

(* the filter's values against the leading fields of a rule *)
Fixpoint matchb (fs : list string) (r : rule) : bool :=
  match fs with
  | [] => true
  | v :: fs' =>
    match r with
    | [] => false
    | w :: r' => field_match v w && matchb fs' r'
    end
  end.

(* the same without TrimSpace: a non-empty value must equal the field *)
Fixpoint match_plain (fs : list string) (r : rule) : bool :=
  match fs with
  | [] => true
  | v :: fs' =>
    match r with
    | [] => false
    | w :: r' => (String.eqb v "" || String.eqb v w) && match_plain fs' r'
    end
  end.

(* no filter value has outer blanks *)
Definition trimmed_values (fs : list string) : bool := forallb (fun v => String.eqb (trim v) v) fs.
Definition filter_trimmed (F : filt) : bool :=
  trimmed_values (f_p F) && trimmed_values (f_g F) && trimmed_values (f_g1 F)
  && trimmed_values (f_g2 F) && trimmed_values (f_g3 F) && trimmed_values (f_g4 F)
  && trimmed_values (f_g5 F).

(* "the filter is not longer than the arity", per definition of the model (F25 outside) *)
Definition within_arity (F : filt) (st : store) : Prop :=
  forall key e, find_entry key st = Some e -> List.length (filter_for F key) <= e_ntok e.

(* the filter argument as a predicate on the rules of type key *)
Definition spec_match (F : option filt) (key : string) (r : rule) : bool :=
  match F with
  | None => true
  | Some F => matchb (filter_for F key) r
  end.

(* "the filter is not longer than the rule" for the line's rule (F25 outside) *)
Definition fits_line (F : option filt) (line : string) : bool :=
  match F with
  | None => true
  | Some F =>
    let p := split_comma line in
    Nat.leb (List.length (filter_for F (trim (hd "" p)))) (List.length (tl p))
  end.
Definition fits (F : option filt) (text : string) : bool :=
  forallb (fun l => skip_line l || fits_line F l) (lines_of text).
Definition safe_file (text : string) : bool := forallb line_ok (lines_of text).

(* the rules of type key that the lines of a file denote, in order, duplicates included *)
Definition items_for (st : store) (key : string) (ls : list string) : list rule :=
  flat_map (fun l => match classify st l with
                     | Ok (Some (k, r)) => if String.eqb k key then [r] else []
                     | _ => []
                     end) ls.

(* every rule stored in the file is listed in memory (by PolicyMap key) *)
Definition covers (m : store) (text : string) : Prop :=
  forall key r, In r (items_for m key (lines_of text)) -> key_in r (rules_of key m) = true.
(* m is m0 after some AddPolicy calls *)
Definition grown (m0 m : store) : Prop :=
  exists adds : list (string * rule),
    m = fold_left (fun x kr => add_rule (fst kr) (snd kr) x) adds m0.
(* "the in-memory view is the complete stored policy": memory lists every rule stored in the
   file, or the file is exactly what SavePolicy wrote from this memory as it was before the
   latest AddPolicy calls (so writing it again loses nothing either) *)
Definition complete (m : store) (text : string) : Prop :=
  covers m text \/ exists m0, text = save_text m0 /\ grown m0 m.

(* the policy types the filter or ClearPolicy can touch *)
Definition is_pg (key : string) : bool :=
  String.eqb (sec_of key) "p" || String.eqb (sec_of key) "g".

(* ---------- decisions of the two harness models ---------- *)
(* rbac/default-role-manager HasLink: level-synchronous search, maxHierarchyLevel = 10 *)
Fixpoint nodup_str (l : list string) : list string :=
  match l with
  | [] => []
  | x :: t => if existsb (String.eqb x) t then nodup_str t else x :: nodup_str t
  end.

Fixpoint has_link (level : nat) (edges : list (string * string)) (front : list string)
         (target : string) : bool :=
  if existsb (String.eqb target) front then true
  else match level with
       | O => false
       | S n =>
         let next := nodup_str (flat_map (fun u =>
                       flat_map (fun e => if String.eqb (fst e) u then [snd e] else []) edges) front) in
         match next with
         | [] => false
         | _ => has_link n edges next target
         end
       end.

(* assertion.buildRoleLinks: rule[:count]; with domains the link lives in domain rule[2] *)
Definition edges_of (dom : option string) (ls : list rule) : list (string * string) :=
  flat_map (fun r =>
    match dom, r with
    | None, a :: b :: _ => [(a, b)]
    | Some d, a :: b :: c :: _ => if String.eqb c d then [(a, b)] else []
    | _, _ => []
    end) ls.

(* dom = false: r = sub, obj, act; p = sub, obj, act; g = _, _;
               m = g(r.sub, p.sub) && r.obj == p.obj && r.act == p.act
   dom = true : r = sub, dom, obj, act; p = sub, dom, obj, act; g = _, _, _;
               m = g(r.sub, p.sub, r.dom) && r.dom == p.dom && r.obj == p.obj && r.act == p.act
   e = some(where (p.eft == allow)) *)
Definition decide_rules (dom : bool) (ps : list rule) (ls : list rule) (req : rule) : bool :=
  match dom, req with
  | false, [sub; obj; act] =>
    existsb (fun r => match r with
                      | [s; o; a] => has_link 10 (edges_of None ls) [sub] s
                                     && String.eqb obj o && String.eqb act a
                      | _ => false
                      end) ps
  | true, [sub; d; obj; act] =>
    existsb (fun r => match r with
                      | [s; d'; o; a] => has_link 10 (edges_of (Some d) ls) [sub] s
                                         && String.eqb d d' && String.eqb obj o && String.eqb act a
                      | _ => false
                      end) ps
  | _, _ => false
  end.

Definition decide (dom : bool) (s : state) (req : rule) : bool :=
  decide_rules dom (rules_of "p" (mem s)) (links s) req.
