(* Total.v — the definitions that only the C03 statements need (everything else C03 talks
   about is Expr.v / Enforce.v / Csv.v / Filter.v / Priority.v / Roles.v as they are).
   Definitions only; the proofs are in TotalProofs.v.

   1. `fields_i` / `read_record_i`: the parseField loop of Csv.v with the fuel-exhaustion branch
      made visible as a third result `FFuel` (Csv.fields answers `Err` there).  TotalProofs
      shows that `Csv.fields` is `fields_i` with FFuel erased and that FFuel never comes out of
      `read_record`: the fuel is a device of the termination checker, not a behaviour.
   2. `string_load`: persist/string-adapter LoadPolicy as it is NOW in /repo:
        if a.Line == "" { return error }
        for _, str := range strings.Split(a.Line, LF) { if str == "" { continue }
                                                        _ = persist.LoadPolicyLine(str, model) }
        return nil
      i.e. no TrimSpace, the error of a rejected line is DROPPED and the loop goes on.
   3. `file_load`: persist/file-adapter loadPolicyFile as it is NOW:
        scanner := bufio.NewScanner(f)
        for scanner.Scan() { line := strings.TrimSpace(scanner.Text())
                             if err = LoadPolicyLine(line, model); err != nil { return err } }
        return scanner.Err()
      bufio.Scanner with ScanLines and the default buffer: a line of 65536 bytes or more (the
      terminating LF not counted, a CR before it counted) ends the scan with bufio.ErrTooLong;
      everything loaded before stays in the model.  Without such a line this is
      Filter.load_lines (Filter.lines_of text) (TotalProofs.file_load_short).
   4. `enforcer_load`: what Enforcer.LoadPolicy / NewEnforcer(model, adapter) add on top of the
      adapter: the adapter's error is returned; under the subjectPriority effect
      SortPoliciesBySubjectHierarchy runs getSubjectHierarchyMap over the loaded g rules and
      its error (a cycle below a root, F12 repaired) is returned.  The ORDER it gives the p
      rules is C07's subject (Priority.sort_by_hierarchy) and is abstracted here: the C03
      harness compares the loaded rules as a multiset under that effect. *)
From Coq Require Import List String Ascii Bool Arith.
Import ListNotations.
From Casbin Require Import Csv Filter Priority.
Local Open Scope string_scope.
Local Open Scope list_scope.

(* ---------- 1. the field loop with the fuel made visible ---------- *)
Inductive fres : Type := FOk (fs : list string) | FErr | FFuel.

Fixpoint fields_i (fuel : nat) (line : string) : fres :=
  match fuel with
  | O => FFuel
  | S n =>
    let l := Csv.trim_left line in
    if starts_with c_quote l then
      match l with
      | EmptyString => FErr
      | String _ rest =>
        match quoted rest with
        | QErr => FErr
        | QEnd f => FOk [f]
        | QMore f r =>
          match fields_i n r with
          | FOk fs => FOk (f :: fs)
          | other => other
          end
        end
      end
    else
      let (f, m) := break_comma l in
      if has_char c_quote f then FErr
      else match m with
           | None => FOk [f]
           | Some r =>
             match fields_i n r with
             | FOk fs => FOk (f :: fs)
             | other => other
             end
           end
  end.

Definition erase (r : fres) : result (list string) :=
  match r with FOk fs => Ok fs | _ => Err end.

(* Csv.read_record with an arbitrary fuel *)
Definition read_record_i (fuel : nat) (s : string) : fres :=
  match s with
  | EmptyString => FErr
  | _ =>
    let line := if ends_with c_cr s then drop_last s else s in
    if starts_with c_hash line then FErr
    else match line with
         | EmptyString => FErr
         | _ => fields_i fuel line
         end
  end.

(* ---------- 2. the string adapter ---------- *)
Definition try_line (st : store) (l : string) : store :=
  match load_policy_line l st with
  | Ok st' => st'
  | Err => st                                  (* `_ = persist.LoadPolicyLine(str, model)` *)
  end.

(* (the `if str == "" { continue }` is load_policy_line's own first test) *)
Definition string_load (text : string) (st : store) : store * bool :=
  if String.eqb text "" then (st, false)       (* invalid line, line cannot be empty *)
  else (fold_left try_line (split_on c_lf text) st, true).

(* ---------- 3. the file adapter ---------- *)
Definition max_token : nat := 256 * 256.       (* bufio.MaxScanTokenSize = 64 * 1024 *)

Fixpoint scan_load (raws : list string) (st : store) : store * bool :=
  match raws with
  | [] => (st, true)
  | raw :: t =>
    if Nat.leb max_token (String.length raw) then (st, false)      (* bufio.ErrTooLong *)
    else match load_policy_line (trim raw) st with
         | Err => (st, false)
         | Ok st' => scan_load t st'
         end
  end.

Definition file_load (text : string) (st : store) : store * bool :=
  scan_load (split_on c_lf text) st.

(* ---------- 4. Enforcer.LoadPolicy on top of the adapter ---------- *)
Definition enforcer_load (subject_priority : bool) (loaded : store * bool) : option store :=
  let (st, ok) := loaded in
  if negb ok then None
  else if subject_priority then
         match hierarchy_map (rules_of "g" st) with
         | HOk _ => Some st
         | _ => None
         end
       else Some st.
