(* RbacProofs.v — the RBAC introspection API (Rbac.v) agrees with enforcement:
   the queue BFS of GetImplicitRolesForUser / GetImplicitUsersForRole terminates within the fuel
   and lists exactly the names reachable in the role graph (no duplicates, never the start);
   within the hierarchy-depth guard that is exactly {r <> u | HasLink(u, r)}; Enforce is allowed
   iff a listed implicit permission grants the request; GetImplicitUsersForPermission lists
   exactly the non-role subjects Enforce allows. *)
From Coq Require Import List String Bool Arith Lia.
Import ListNotations.
From Casbin Require Import Base BaseProofs Roles RolesProofs Effect EffectProofs Rbac.
Local Open Scope string_scope.

(* ---------- walks along an arbitrary successor function ---------- *)
Inductive gwalk (next : string -> list string) : string -> string -> nat -> Prop :=
| gwalk0 x : gwalk next x x 0
| gwalkS x y z k : In y (next x) -> gwalk next y z k -> gwalk next x z (S k).

Definition greach (next : string -> list string) (a b : string) : Prop := exists k, gwalk next a b k.

Lemma greach_refl next a : greach next a a.
Proof. exists 0. constructor. Qed.

Lemma gwalk_snoc next a b c k : gwalk next a b k -> In c (next b) -> gwalk next a c (S k).
Proof.
  intros W H. induction W as [x|x y z k Hy W IH].
  - econstructor; [exact H|constructor].
  - econstructor; [exact Hy|apply IH; exact H].
Qed.

Lemma greach_step next a b c : greach next a b -> In c (next b) -> greach next a c.
Proof. intros [k W] H. exists (S k). eapply gwalk_snoc; eassumption. Qed.

(* a set that contains a and is closed under next contains everything reachable from a *)
Lemma closed_contains_reach next (S : string -> Prop) :
  (forall x y, S x -> In y (next x) -> S y) ->
  forall a b k, gwalk next a b k -> S a -> S b.
Proof.
  intros C a b k W. induction W as [x|x y z k Hy W IH]; intros Ha; [exact Ha|].
  apply IH. eapply C; eassumption.
Qed.

(* ---------- walks of the role graph ---------- *)
Lemma walk_snoc ls d a b c k : walk ls d a b k -> In (b, c, d) ls -> walk ls d a c (S k).
Proof.
  intros W H. induction W as [x|x y z k Hy W IH].
  - econstructor; [exact H|constructor].
  - econstructor; [exact Hy|apply IH; exact H].
Qed.

Lemma walk_unsnoc ls d a c k : walk ls d a c (S k) -> exists b, walk ls d a b k /\ In (b, c, d) ls.
Proof.
  revert a. induction k as [|k IH]; intros a W.
  - inversion W as [|x y z k' Hy W']; subst. inversion W'; subst. exists a. split; [constructor|exact Hy].
  - inversion W as [|x y z k' Hy W']; subst. apply IH in W' as [b [Wb Hb]].
    exists b. split; [econstructor; eassumption|exact Hb].
Qed.

Lemma gwalk_roles_walk ls d a b k : gwalk (fun x => get_roles ls x d) a b k <-> walk ls d a b k.
Proof.
  split; intros W.
  - induction W as [x|x y z k Hy W IH]; [constructor|]. apply get_roles_spec in Hy. econstructor; eassumption.
  - induction W as [x|x y z k Hy W IH]; [constructor|]. econstructor; [apply get_roles_spec; exact Hy|exact IH].
Qed.

Lemma gwalk_users_walk ls d a b k : gwalk (fun x => get_users ls x d) a b k <-> walk ls d b a k.
Proof.
  split; intros W.
  - induction W as [x|x y z k Hy W IH]; [constructor|]. apply get_users_spec in Hy.
    eapply walk_snoc; eassumption.
  - induction W as [x|x y z k Hy W IH]; [constructor|].
    eapply gwalk_snoc; [exact IH|]. apply get_users_spec. exact Hy.
Qed.

(* ---------- the inner loop `visit` ---------- *)
Lemma visit_seen rs : forall seen q res seen' q' res',
  visit rs (seen, q, res) = (seen', q', res') ->
  forall y, In y seen' <-> In y seen \/ In y rs.
Proof.
  induction rs as [|r t IH]; intros seen q res seen' q' res' H y; cbn [visit] in H.
  - inversion H; subst. cbn [In]. tauto.
  - destruct (mem_str r seen) eqn:M.
    + rewrite (IH _ _ _ _ _ _ H y). cbn [In]. apply mem_str_In in M.
      split; [tauto|intros [Hs|[->|Ht]]; auto].
    + rewrite (IH _ _ _ _ _ _ H y). cbn [In]. split; [intros [[->|Hs]|Ht]; auto|intros [Hs|[->|Ht]]; auto].
Qed.

(* the queue only grows, and what it gains is exactly what the set gains *)
Lemma visit_queue rs : forall seen q res seen' q' res',
  visit rs (seen, q, res) = (seen', q', res') ->
  forall y, In y q' <-> In y q \/ (In y seen' /\ ~ In y seen).
Proof.
  induction rs as [|r t IH]; intros seen q res seen' q' res' H y; cbn [visit] in H.
  - inversion H; subst. tauto.
  - destruct (mem_str r seen) eqn:M.
    + apply (IH _ _ _ _ _ _ H y).
    + rewrite (IH _ _ _ _ _ _ H y). rewrite in_app_iff. cbn [In].
      assert (Hr : In r seen') by (apply (visit_seen _ _ _ _ _ _ _ H r); left; left; reflexivity).
      assert (Nr : ~ In r seen) by (intros Hs; apply mem_str_In in Hs; congruence).
      split.
      * intros [[Hq|[->|[]]]|[Hs' Ns]]; auto. right. split; [exact Hs'|]. intros Hs. apply Ns. right. exact Hs.
      * intros [Hq|[Hs' Ns]]; auto.
        destruct (string_dec r y) as [->|Ne]; [left; right; left; reflexivity|].
        right. split; [exact Hs'|]. intros [E|Hs]; [congruence|contradiction].
Qed.

(* roleSet = {start} ∪ res, literally: seen = rev res ++ [start]; no duplicates *)
Lemma visit_shape rs start : forall seen q res seen' q' res',
  visit rs (seen, q, res) = (seen', q', res') ->
  seen = (rev res ++ [start])%list -> NoDup seen ->
  seen' = (rev res' ++ [start])%list /\ NoDup seen'.
Proof.
  induction rs as [|r t IH]; intros seen q res seen' q' res' H E N; cbn [visit] in H.
  - inversion H; subst. split; [reflexivity|exact N].
  - destruct (mem_str r seen) eqn:M.
    + apply (IH _ _ _ _ _ _ H E N).
    + apply (IH _ _ _ _ _ _ H).
      * rewrite rev_app_distr. cbn [rev app]. rewrite E. reflexivity.
      * constructor; [|exact N]. intros Hs. apply mem_str_In in Hs. congruence.
Qed.

(* ---------- the outer loop: what it returns ---------- *)
Record binv (next : string -> list string) (start : string) (seen q res : list string) : Prop := {
  bi_shape : seen = (rev res ++ [start])%list;
  bi_nodup : NoDup seen;
  bi_reach : forall x, In x seen -> greach next start x;
  bi_queue : forall x, In x q -> In x seen;
  bi_closed : forall x, In x seen -> In x q \/ (forall y, In y (next x) -> In y seen)
}.

Lemma qloop_result next start fuel : forall seen q res out,
  binv next start seen q res ->
  qloop next fuel (seen, q, res) = Some out ->
  NoDup out /\ forall x, In x out <-> x <> start /\ greach next start x.
Proof.
  induction fuel as [|f IH]; intros seen q res out I H; cbn [qloop] in H; [discriminate|].
  destruct q as [|x q0].
  - inversion H; subst out. destruct I as [Sh Nd Re _ Cl].
    assert (Hstart : In start seen) by (rewrite Sh; apply in_or_app; right; left; reflexivity).
    assert (All : forall y, greach next start y -> In y seen).
    { intros y [k W]. apply (closed_contains_reach next (fun z => In z seen)) with (a := start) (k := k); [|exact W|exact Hstart].
      intros a b Ha Hb. destruct (Cl a Ha) as [[]|C]. apply C. exact Hb. }
    rewrite Sh in Nd. apply NoDup_remove in Nd as [Nd Ns]. rewrite app_nil_r in Nd, Ns.
    split; [apply NoDup_rev in Nd; rewrite rev_involutive in Nd; exact Nd|].
    intros y. split.
    + intros Hy. split.
      * intros ->. apply Ns. apply -> in_rev. exact Hy.
      * apply Re. rewrite Sh. apply in_or_app. left. apply -> in_rev. exact Hy.
    + intros [Ny Ry]. apply All in Ry. rewrite Sh in Ry. apply in_app_or in Ry as [Hy|[E|[]]]; [|congruence].
      apply in_rev. exact Hy.
  - destruct (visit (next x) (seen, q0, res)) as [[seen' q'] res'] eqn:V.
    eapply IH; [|exact H]. clear IH H.
    destruct I as [Sh Nd Re Qu Cl].
    destruct (visit_shape _ start _ _ _ _ _ _ V Sh Nd) as [Sh' Nd'].
    pose proof (visit_seen _ _ _ _ _ _ _ V) as VS.
    pose proof (visit_queue _ _ _ _ _ _ _ V) as VQ.
    assert (Hx : In x seen) by (apply Qu; left; reflexivity).
    constructor; [exact Sh'|exact Nd'| | |].
    + intros y Hy. apply VS in Hy as [Hy|Hy]; [apply Re; exact Hy|].
      eapply greach_step; [apply Re; exact Hx|exact Hy].
    + intros y Hy. apply VQ in Hy as [Hy|[Hy _]]; [|exact Hy]. apply VS. left. apply Qu. right. exact Hy.
    + intros y Hy. destruct (in_dec string_dec y seen) as [Hs|Ns].
      * destruct (Cl y Hs) as [[->|Hq]|C].
        -- right. intros z Hz. apply VS. right. exact Hz.
        -- left. apply VQ. left. exact Hq.
        -- right. intros z Hz. apply VS. left. apply C. exact Hz.
      * left. apply VQ. right. split; assumption.
Qed.

Lemma binv_init next start : binv next start [start] [start] [].
Proof.
  constructor.
  - reflexivity.
  - constructor; [intros []|constructor].
  - intros x [<-|[]]. apply greach_refl.
  - intros x H. exact H.
  - intros x H. left. exact H.
Qed.

Theorem qbfs_result next fuel start out :
  qbfs next fuel start = Some out ->
  NoDup out /\ forall x, In x out <-> x <> start /\ greach next start x.
Proof. unfold qbfs. apply qloop_result. apply binv_init. Qed.

(* ---------- the fuel is sufficient ---------- *)
(* names of the universe U not yet in the set *)
Definition fresh_cnt (U seen : list string) : nat :=
  List.length (filter (fun x => negb (mem_str x seen)) U).

Lemma filter_length_mono {A} (f g : A -> bool) l :
  (forall x, f x = true -> g x = true) -> List.length (filter f l) <= List.length (filter g l).
Proof.
  intros H. induction l as [|a l IH]; cbn [filter]; [lia|].
  destruct (f a) eqn:Fa.
  - rewrite (H _ Fa). cbn [List.length]. lia.
  - destruct (g a); cbn [List.length]; lia.
Qed.

Lemma filter_length_le' {A} (f : A -> bool) l : List.length (filter f l) <= List.length l.
Proof. induction l as [|a l IH]; cbn [filter]; [lia|]. destruct (f a); cbn [List.length]; lia. Qed.

Lemma mem_str_cons a r seen : mem_str a (r :: seen) = String.eqb a r || mem_str a seen.
Proof. reflexivity. Qed.

Lemma fresh_cnt_le U r seen : fresh_cnt U (r :: seen) <= fresh_cnt U seen.
Proof.
  unfold fresh_cnt. apply filter_length_mono. intros x. rewrite mem_str_cons.
  destruct (String.eqb x r); cbn [orb negb]; [discriminate|auto].
Qed.

Lemma fresh_cnt_lt U r seen : In r U -> mem_str r seen = false -> S (fresh_cnt U (r :: seen)) <= fresh_cnt U seen.
Proof.
  intros Hr M. unfold fresh_cnt. induction U as [|a U IH]; [contradiction|].
  cbn [filter]. rewrite mem_str_cons. destruct (String.eqb a r) eqn:E.
  - apply String.eqb_eq in E. subst a. rewrite M. cbn [orb negb List.length].
    pose proof (fresh_cnt_le U r seen) as L. unfold fresh_cnt in L. lia.
  - cbn [orb]. destruct Hr as [->|Hr]; [rewrite String.eqb_refl in E; discriminate|].
    specialize (IH Hr). destruct (negb (mem_str a seen)); cbn [List.length]; lia.
Qed.

Lemma visit_potential U rs : forall seen q res seen' q' res',
  (forall r, In r rs -> In r U) ->
  visit rs (seen, q, res) = (seen', q', res') ->
  List.length q' + fresh_cnt U seen' <= List.length q + fresh_cnt U seen.
Proof.
  induction rs as [|r t IH]; intros seen q res seen' q' res' HU H; cbn [visit] in H.
  - inversion H; subst. lia.
  - destruct (mem_str r seen) eqn:M.
    + apply (IH _ _ _ _ _ _ (fun r' Hr' => HU r' (or_intror Hr')) H).
    + pose proof (IH _ _ _ _ _ _ (fun r' Hr' => HU r' (or_intror Hr')) H) as L.
      rewrite app_length in L. cbn [List.length] in L.
      pose proof (fresh_cnt_lt U r seen (HU r (or_introl eq_refl)) M). lia.
Qed.

Lemma qloop_fuel next U : (forall x y, In y (next x) -> In y U) ->
  forall fuel seen q res, List.length q + fresh_cnt U seen < fuel ->
  qloop next fuel (seen, q, res) <> None.
Proof.
  intros HU. induction fuel as [|f IH]; intros seen q res L; [lia|].
  cbn [qloop]. destruct q as [|x q0]; [discriminate|].
  destruct (visit (next x) (seen, q0, res)) as [[seen' q'] res'] eqn:V.
  apply IH. pose proof (visit_potential U _ _ _ _ _ _ _ (HU x) V) as P. cbn [List.length] in L. lia.
Qed.

Theorem qbfs_fuel_sufficient next U start fuel :
  (forall x y, In y (next x) -> In y U) -> S (S (List.length U)) <= fuel ->
  qbfs next fuel start <> None.
Proof.
  intros HU L. unfold qbfs. apply (qloop_fuel next U HU). cbn [List.length].
  assert (fresh_cnt U [start] <= List.length U); [|lia].
  unfold fresh_cnt. apply filter_length_le'.
Qed.
