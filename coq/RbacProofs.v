(* RbacProofs.v — the RBAC introspection API (Rbac.v) agrees with enforcement:
   the queue BFS of GetImplicitRolesForUser / GetImplicitUsersForRole terminates within the fuel
   and lists exactly the names reachable in the role graph (no duplicates, never the start);
   within the hierarchy-depth guard that is exactly {r <> u | HasLink(u, r)}; Enforce is allowed
   iff a listed implicit permission grants the request; GetImplicitUsersForPermission lists
   exactly the non-role subjects Enforce allows. *)
From Coq Require Import List String Bool Arith Lia.
Import ListNotations.
From Casbin Require Import Base BaseProofs Roles RolesProofs Effect EffectProofs Rbac.
Local Open Scope string_scope.

(* ---------- walks along an arbitrary successor function ---------- *)
Inductive gwalk (next : string -> list string) : string -> string -> nat -> Prop :=
| gwalk0 x : gwalk next x x 0
| gwalkS x y z k : In y (next x) -> gwalk next y z k -> gwalk next x z (S k).

Definition greach (next : string -> list string) (a b : string) : Prop := exists k, gwalk next a b k.

Lemma greach_refl next a : greach next a a.
Proof. exists 0. constructor. Qed.

Lemma gwalk_snoc next a b c k : gwalk next a b k -> In c (next b) -> gwalk next a c (S k).
Proof.
  intros W H. induction W as [x|x y z k Hy W IH].
  - econstructor; [exact H|constructor].
  - econstructor; [exact Hy|apply IH; exact H].
Qed.

Lemma greach_step next a b c : greach next a b -> In c (next b) -> greach next a c.
Proof. intros [k W] H. exists (S k). eapply gwalk_snoc; eassumption. Qed.

(* a set that contains a and is closed under next contains everything reachable from a *)
Lemma closed_contains_reach next (S : string -> Prop) :
  (forall x y, S x -> In y (next x) -> S y) ->
  forall a b k, gwalk next a b k -> S a -> S b.
Proof.
  intros C a b k W. induction W as [x|x y z k Hy W IH]; intros Ha; [exact Ha|].
  apply IH. eapply C; eassumption.
Qed.

(* ---------- walks of the role graph ---------- *)
Lemma walk_snoc ls d a b c k : walk ls d a b k -> In (b, c, d) ls -> walk ls d a c (S k).
Proof.
  intros W H. induction W as [x|x y z k Hy W IH].
  - econstructor; [exact H|constructor].
  - econstructor; [exact Hy|apply IH; exact H].
Qed.

Lemma walk_unsnoc ls d a c k : walk ls d a c (S k) -> exists b, walk ls d a b k /\ In (b, c, d) ls.
Proof.
  revert a. induction k as [|k IH]; intros a W.
  - inversion W as [|x y z k' Hy W']; subst. inversion W'; subst. exists a. split; [constructor|exact Hy].
  - inversion W as [|x y z k' Hy W']; subst. apply IH in W' as [b [Wb Hb]].
    exists b. split; [econstructor; eassumption|exact Hb].
Qed.

Lemma gwalk_roles_walk ls d a b k : gwalk (fun x => get_roles ls x d) a b k <-> walk ls d a b k.
Proof.
  split; intros W.
  - induction W as [x|x y z k Hy W IH]; [constructor|]. apply get_roles_spec in Hy. econstructor; eassumption.
  - induction W as [x|x y z k Hy W IH]; [constructor|]. econstructor; [apply get_roles_spec; exact Hy|exact IH].
Qed.

Lemma gwalk_users_walk ls d a b k : gwalk (fun x => get_users ls x d) a b k <-> walk ls d b a k.
Proof.
  split; intros W.
  - induction W as [x|x y z k Hy W IH]; [constructor|]. apply get_users_spec in Hy.
    eapply walk_snoc; eassumption.
  - induction W as [x|x y z k Hy W IH]; [constructor|].
    eapply gwalk_snoc; [exact IH|]. apply get_users_spec. exact Hy.
Qed.

(* ---------- the inner loop `visit` ---------- *)
Lemma visit_seen rs : forall seen q res seen' q' res',
  visit rs (seen, q, res) = (seen', q', res') ->
  forall y, In y seen' <-> In y seen \/ In y rs.
Proof.
  induction rs as [|r t IH]; intros seen q res seen' q' res' H y; cbn [visit] in H.
  - inversion H; subst. cbn [In]. tauto.
  - destruct (mem_str r seen) eqn:M.
    + rewrite (IH _ _ _ _ _ _ H y). cbn [In]. apply mem_str_In in M.
      split; [tauto|intros [Hs|[->|Ht]]; auto].
    + rewrite (IH _ _ _ _ _ _ H y). cbn [In]. split; [intros [[->|Hs]|Ht]; auto|intros [Hs|[->|Ht]]; auto].
Qed.

(* the queue only grows, and what it gains is exactly what the set gains *)
Lemma visit_queue rs : forall seen q res seen' q' res',
  visit rs (seen, q, res) = (seen', q', res') ->
  forall y, In y q' <-> In y q \/ (In y seen' /\ ~ In y seen).
Proof.
  induction rs as [|r t IH]; intros seen q res seen' q' res' H y; cbn [visit] in H.
  - inversion H; subst. tauto.
  - destruct (mem_str r seen) eqn:M.
    + apply (IH _ _ _ _ _ _ H y).
    + rewrite (IH _ _ _ _ _ _ H y). rewrite in_app_iff. cbn [In].
      assert (Hr : In r seen') by (apply (visit_seen _ _ _ _ _ _ _ H r); left; left; reflexivity).
      assert (Nr : ~ In r seen) by (intros Hs; apply mem_str_In in Hs; congruence).
      split.
      * intros [[Hq|[->|[]]]|[Hs' Ns]]; auto. right. split; [exact Hs'|]. intros Hs. apply Ns. right. exact Hs.
      * intros [Hq|[Hs' Ns]]; auto.
        destruct (string_dec r y) as [->|Ne]; [left; right; left; reflexivity|].
        right. split; [exact Hs'|]. intros [E|Hs]; [congruence|contradiction].
Qed.

(* roleSet = {start} ∪ res, literally: seen = rev res ++ [start]; no duplicates *)
Lemma visit_shape rs start : forall seen q res seen' q' res',
  visit rs (seen, q, res) = (seen', q', res') ->
  seen = (rev res ++ [start])%list -> NoDup seen ->
  seen' = (rev res' ++ [start])%list /\ NoDup seen'.
Proof.
  induction rs as [|r t IH]; intros seen q res seen' q' res' H E N; cbn [visit] in H.
  - inversion H; subst. split; [reflexivity|exact N].
  - destruct (mem_str r seen) eqn:M.
    + apply (IH _ _ _ _ _ _ H E N).
    + apply (IH _ _ _ _ _ _ H).
      * rewrite rev_app_distr. cbn [rev app]. rewrite E. reflexivity.
      * constructor; [|exact N]. intros Hs. apply mem_str_In in Hs. congruence.
Qed.

(* ---------- the outer loop: what it returns ---------- *)
Record binv (next : string -> list string) (start : string) (seen q res : list string) : Prop := {
  bi_shape : seen = (rev res ++ [start])%list;
  bi_nodup : NoDup seen;
  bi_reach : forall x, In x seen -> greach next start x;
  bi_queue : forall x, In x q -> In x seen;
  bi_closed : forall x, In x seen -> In x q \/ (forall y, In y (next x) -> In y seen)
}.

Lemma qloop_result next start fuel : forall seen q res out,
  binv next start seen q res ->
  qloop next fuel (seen, q, res) = Some out ->
  NoDup out /\ forall x, In x out <-> x <> start /\ greach next start x.
Proof.
  induction fuel as [|f IH]; intros seen q res out I H; cbn [qloop] in H; [discriminate|].
  destruct q as [|x q0].
  - inversion H; subst out. destruct I as [Sh Nd Re _ Cl].
    assert (Hstart : In start seen) by (rewrite Sh; apply in_or_app; right; left; reflexivity).
    assert (All : forall y, greach next start y -> In y seen).
    { intros y [k W]. apply (closed_contains_reach next (fun z => In z seen)) with (a := start) (k := k); [|exact W|exact Hstart].
      intros a b Ha Hb. destruct (Cl a Ha) as [[]|C]. apply C. exact Hb. }
    rewrite Sh in Nd. apply NoDup_remove in Nd as [Nd Ns]. rewrite app_nil_r in Nd, Ns.
    split; [apply NoDup_rev in Nd; rewrite rev_involutive in Nd; exact Nd|].
    intros y. split.
    + intros Hy. split.
      * intros ->. apply Ns. apply -> in_rev. exact Hy.
      * apply Re. rewrite Sh. apply in_or_app. left. apply -> in_rev. exact Hy.
    + intros [Ny Ry]. apply All in Ry. rewrite Sh in Ry. apply in_app_or in Ry as [Hy|[E|[]]]; [|congruence].
      apply in_rev. exact Hy.
  - destruct (visit (next x) (seen, q0, res)) as [[seen' q'] res'] eqn:V.
    eapply IH; [|exact H]. clear IH H.
    destruct I as [Sh Nd Re Qu Cl].
    destruct (visit_shape _ start _ _ _ _ _ _ V Sh Nd) as [Sh' Nd'].
    pose proof (visit_seen _ _ _ _ _ _ _ V) as VS.
    pose proof (visit_queue _ _ _ _ _ _ _ V) as VQ.
    assert (Hx : In x seen) by (apply Qu; left; reflexivity).
    constructor; [exact Sh'|exact Nd'| | |].
    + intros y Hy. apply VS in Hy as [Hy|Hy]; [apply Re; exact Hy|].
      eapply greach_step; [apply Re; exact Hx|exact Hy].
    + intros y Hy. apply VQ in Hy as [Hy|[Hy _]]; [|exact Hy]. apply VS. left. apply Qu. right. exact Hy.
    + intros y Hy. destruct (in_dec string_dec y seen) as [Hs|Ns].
      * destruct (Cl y Hs) as [[->|Hq]|C].
        -- right. intros z Hz. apply VS. right. exact Hz.
        -- left. apply VQ. left. exact Hq.
        -- right. intros z Hz. apply VS. left. apply C. exact Hz.
      * left. apply VQ. right. split; assumption.
Qed.

Lemma binv_init next start : binv next start [start] [start] [].
Proof.
  constructor.
  - reflexivity.
  - constructor; [intros []|constructor].
  - intros x [<-|[]]. apply greach_refl.
  - intros x H. exact H.
  - intros x H. left. exact H.
Qed.

Theorem qbfs_result next fuel start out :
  qbfs next fuel start = Some out ->
  NoDup out /\ forall x, In x out <-> x <> start /\ greach next start x.
Proof. unfold qbfs. apply qloop_result. apply binv_init. Qed.

(* ---------- the fuel is sufficient ---------- *)
(* names of the universe U not yet in the set *)
Definition fresh_cnt (U seen : list string) : nat :=
  List.length (filter (fun x => negb (mem_str x seen)) U).

Lemma filter_length_mono {A} (f g : A -> bool) l :
  (forall x, f x = true -> g x = true) -> List.length (filter f l) <= List.length (filter g l).
Proof.
  intros H. induction l as [|a l IH]; cbn [filter]; [lia|].
  destruct (f a) eqn:Fa.
  - rewrite (H _ Fa). cbn [List.length]. lia.
  - destruct (g a); cbn [List.length]; lia.
Qed.

Lemma filter_length_le' {A} (f : A -> bool) l : List.length (filter f l) <= List.length l.
Proof. induction l as [|a l IH]; cbn [filter]; [lia|]. destruct (f a); cbn [List.length]; lia. Qed.

Lemma mem_str_cons a r seen : mem_str a (r :: seen) = String.eqb a r || mem_str a seen.
Proof. reflexivity. Qed.

Lemma fresh_cnt_le U r seen : fresh_cnt U (r :: seen) <= fresh_cnt U seen.
Proof.
  unfold fresh_cnt. apply filter_length_mono. intros x. rewrite mem_str_cons.
  destruct (String.eqb x r); cbn [orb negb]; [discriminate|auto].
Qed.

Lemma fresh_cnt_lt U r seen : In r U -> mem_str r seen = false -> S (fresh_cnt U (r :: seen)) <= fresh_cnt U seen.
Proof.
  intros Hr M. unfold fresh_cnt. induction U as [|a U IH]; [contradiction|].
  cbn [filter]. rewrite mem_str_cons. destruct (String.eqb a r) eqn:E.
  - apply String.eqb_eq in E. subst a. rewrite M. cbn [orb negb List.length].
    pose proof (fresh_cnt_le U r seen) as L. unfold fresh_cnt in L. lia.
  - cbn [orb]. destruct Hr as [->|Hr]; [rewrite String.eqb_refl in E; discriminate|].
    specialize (IH Hr). destruct (negb (mem_str a seen)); cbn [List.length]; lia.
Qed.

Lemma visit_potential U rs : forall seen q res seen' q' res',
  (forall r, In r rs -> In r U) ->
  visit rs (seen, q, res) = (seen', q', res') ->
  List.length q' + fresh_cnt U seen' <= List.length q + fresh_cnt U seen.
Proof.
  induction rs as [|r t IH]; intros seen q res seen' q' res' HU H; cbn [visit] in H.
  - inversion H; subst. lia.
  - destruct (mem_str r seen) eqn:M.
    + apply (IH _ _ _ _ _ _ (fun r' Hr' => HU r' (or_intror Hr')) H).
    + pose proof (IH _ _ _ _ _ _ (fun r' Hr' => HU r' (or_intror Hr')) H) as L.
      rewrite app_length in L. cbn [List.length] in L.
      pose proof (fresh_cnt_lt U r seen (HU r (or_introl eq_refl)) M). lia.
Qed.

Lemma qloop_fuel next U : (forall x y, In y (next x) -> In y U) ->
  forall fuel seen q res, List.length q + fresh_cnt U seen < fuel ->
  qloop next fuel (seen, q, res) <> None.
Proof.
  intros HU. induction fuel as [|f IH]; intros seen q res L; [lia|].
  cbn [qloop]. destruct q as [|x q0]; [discriminate|].
  destruct (visit (next x) (seen, q0, res)) as [[seen' q'] res'] eqn:V.
  apply IH. pose proof (visit_potential U _ _ _ _ _ _ _ (HU x) V) as P. cbn [List.length] in L. lia.
Qed.

Theorem qbfs_fuel_sufficient next U start fuel :
  (forall x y, In y (next x) -> In y U) -> S (S (List.length U)) <= fuel ->
  qbfs next fuel start <> None.
Proof.
  intros HU L. unfold qbfs. apply (qloop_fuel next U HU). cbn [List.length].
  assert (fresh_cnt U [start] <= List.length U); [|lia].
  unfold fresh_cnt. apply filter_length_le'.
Qed.

(* ---------- GetImplicitRolesForUser / GetImplicitUsersForRole ---------- *)
Lemma nodes_In ls u r d : In (u, r, d) ls -> In u (nodes ls) /\ In r (nodes ls).
Proof.
  unfold nodes. intros H. split; apply in_flat_map; exists (u, r, d); (split; [exact H|cbn; auto]).
Qed.

(* termination: the fuelled traversal never runs out of fuel, for ANY link set *)
Theorem implicit_roles_fuel_ok ls u d : implicit_roles_opt ls u d <> None.
Proof.
  unfold implicit_roles_opt, closure_fuel. apply (qbfs_fuel_sufficient _ (nodes ls)); [|lia].
  intros x y H. apply get_roles_spec in H. apply (nodes_In _ _ _ _ H).
Qed.

Theorem implicit_users_for_role_fuel_ok ls r d : implicit_users_for_role_opt ls r d <> None.
Proof.
  unfold implicit_users_for_role_opt, closure_fuel. apply (qbfs_fuel_sufficient _ (nodes ls)); [|lia].
  intros x y H. apply get_users_spec in H. apply (nodes_In _ _ _ _ H).
Qed.

(* the listing = everything reachable in the role graph of the domain (any depth), minus the start *)
Theorem implicit_roles_reach ls u d r :
  In r (implicit_roles ls u d) <-> r <> u /\ exists k, walk ls d u r k.
Proof.
  unfold implicit_roles. destruct (implicit_roles_opt ls u d) as [out|] eqn:E.
  - cbn [or_nil]. apply qbfs_result in E as [_ S]. rewrite S. unfold greach.
    split; intros [N [k W]]; (split; [exact N|exists k; apply gwalk_roles_walk; exact W]).
  - exfalso. apply (implicit_roles_fuel_ok ls u d E).
Qed.

Theorem implicit_roles_NoDup ls u d : NoDup (implicit_roles ls u d).
Proof.
  unfold implicit_roles. destruct (implicit_roles_opt ls u d) as [out|] eqn:E; [|constructor].
  cbn [or_nil]. apply qbfs_result in E as [N _]. exact N.
Qed.

Theorem implicit_users_for_role_reach ls r d u :
  In u (implicit_users_for_role ls r d) <-> u <> r /\ exists k, walk ls d u r k.
Proof.
  unfold implicit_users_for_role. destruct (implicit_users_for_role_opt ls r d) as [out|] eqn:E.
  - cbn [or_nil]. apply qbfs_result in E as [_ S]. rewrite S. unfold greach.
    split; intros [N [k W]]; (split; [exact N|exists k; apply gwalk_users_walk; exact W]).
  - exfalso. apply (implicit_users_for_role_fuel_ok ls r d E).
Qed.

Theorem implicit_users_for_role_NoDup ls r d : NoDup (implicit_users_for_role ls r d).
Proof.
  unfold implicit_users_for_role. destruct (implicit_users_for_role_opt ls r d) as [out|] eqn:E; [|constructor].
  cbn [or_nil]. apply qbfs_result in E as [N _]. exact N.
Qed.

(* ---------- the depth guard ---------- *)
Lemma ball_spec ls d n u x : In x (ball ls d n u) <-> exists k, k <= n /\ walk ls d u x k.
Proof.
  revert x. induction n as [|n IH]; intros x; cbn [ball].
  - cbn [In]. split.
    + intros [<-|[]]. exists 0. split; [lia|constructor].
    + intros [k [Hk W]]. assert (k = 0) by lia. subst k. inversion W; subst. left. reflexivity.
  - rewrite dedup_In, in_app_iff, in_flat_map. split.
    + intros [H|[y [Hy Hs]]].
      * apply IH in H as [k [Hk W]]. exists k. split; [lia|exact W].
      * apply IH in Hy as [k [Hk W]]. apply succs_In in Hs. exists (S k). split; [lia|].
        eapply walk_snoc; eassumption.
    + intros [k [Hk W]]. destruct (Nat.eq_dec k (S n)) as [->|Ne].
      * apply walk_unsnoc in W as [b [Wb Hb]]. right. exists b. split.
        -- apply IH. exists n. split; [lia|exact Wb].
        -- apply succs_In. exact Hb.
      * left. apply IH. exists k. split; [lia|exact W].
Qed.

(* depth_ok says exactly: whatever u reaches in the role graph, it reaches within max_level edges *)
Theorem depth_ok_iff ls d u :
  depth_ok ls d u = true <->
  (forall r k, walk ls d u r k -> exists k', k' <= max_level /\ walk ls d u r k').
Proof.
  unfold depth_ok. rewrite forallb_forall. split.
  - intros C r k W. apply ball_spec.
    assert (Cl : forall a b j, walk ls d a b j -> In a (ball ls d max_level u) -> In b (ball ls d max_level u)).
    { intros a b j Wj. induction Wj as [x|x y z j Hy Wj IHj]; intros Ha; [exact Ha|].
      apply IHj. specialize (C x Ha). rewrite forallb_forall in C. apply mem_str_In. apply C.
      apply succs_In. exact Hy. }
    apply (Cl u r k W). apply ball_spec. exists 0. split; [lia|constructor].
  - intros H x Hx. apply forallb_forall. intros y Hy. apply mem_str_In. apply ball_spec.
    apply ball_spec in Hx as [k [Hk W]]. apply succs_In in Hy. apply (H y (S k)).
    eapply walk_snoc; eassumption.
Qed.

(* no guard: everything HasLink accepts (other than u itself) is listed *)
Theorem implicit_roles_superset ls u d r :
  r <> u -> has_link ls u r d = true -> In r (implicit_roles ls u d).
Proof.
  intros N H. apply implicit_roles_reach. split; [exact N|].
  apply has_link_iff_walk in H as [k [_ W]]. exists k. exact W.
Qed.

(* within the guard: listed = exactly the other names for which g() holds *)
Theorem implicit_roles_exact ls u d r : depth_ok ls d u = true ->
  (In r (implicit_roles ls u d) <-> r <> u /\ has_link ls u r d = true).
Proof.
  intros D. split.
  - intros H. apply implicit_roles_reach in H as [N [k W]]. split; [exact N|].
    apply has_link_iff_walk. apply (proj1 (depth_ok_iff ls d u) D r k W).
  - intros [N H]. apply implicit_roles_superset; assumption.
Qed.

Theorem implicit_users_for_role_exact ls r d u : depth_ok ls d u = true ->
  (In u (implicit_users_for_role ls r d) <-> u <> r /\ has_link ls u r d = true).
Proof.
  intros D. rewrite implicit_users_for_role_reach. split; intros [N H]; (split; [exact N|]).
  - destruct H as [k W]. apply has_link_iff_walk. apply (proj1 (depth_ok_iff ls d u) D r k W).
  - apply has_link_iff_walk in H as [k [_ W]]. exists k. exact W.
Qed.

(* direct roles are implicit roles *)
Theorem direct_roles_in_implicit ls u d r :
  In r (get_roles_for_user ls u d) -> r <> u -> In r (implicit_roles ls u d).
Proof.
  intros H N. apply implicit_roles_reach. split; [exact N|]. apply get_roles_spec in H.
  exists 1. econstructor; [exact H|constructor].
Qed.

(* ---------- Enforce ---------- *)
(* the set-frontier search of the executable model = Roles.bfs (HasLink of C05) *)
Lemma bfs_frontier_set ls d fuel t : forall f1 f2, (forall x, In x f1 <-> In x f2) ->
  bfs ls d fuel t f1 = bfs ls d fuel t f2.
Proof.
  induction fuel as [|f IH]; intros f1 f2 E; cbn [bfs]; [reflexivity|].
  assert (M : mem_str t f1 = mem_str t f2).
  { destruct (mem_str t f1) eqn:M1; symmetry.
    - apply mem_str_In. apply E. apply mem_str_In. exact M1.
    - apply not_true_iff_false. intros M2. apply mem_str_In in M2. apply E in M2. apply mem_str_In in M2. congruence. }
  assert (N : forall a b : list string, (forall x, In x a <-> In x b) -> a = [] -> b = []).
  { intros a b Eab ->. destruct b as [|y b]; [reflexivity|]. exfalso. apply (proj2 (Eab y)). left. reflexivity. }
  destruct f1 as [|a1 f1'] eqn:F1.
  - rewrite (N [] f2 E eq_refl). reflexivity.
  - destruct f2 as [|a2 f2'] eqn:F2.
    + exfalso. apply (proj1 (E a1)). left. reflexivity.
    + rewrite M. destruct (mem_str t (a2 :: f2')); [reflexivity|]. apply IH.
      intros x. rewrite !in_flat_map. split; intros [y [Hy Hs]]; exists y; (split; [apply E; exact Hy|exact Hs]).
Qed.

Lemma bfs_set_eq ls d fuel t : forall fr, bfs_set ls d fuel t fr = bfs ls d fuel t fr.
Proof.
  induction fuel as [|f IH]; intros fr; cbn [bfs_set bfs]; [reflexivity|].
  destruct fr as [|a fr']; [reflexivity|]. destruct (mem_str t (a :: fr')); [reflexivity|].
  rewrite IH. apply bfs_frontier_set. intros x. apply dedup_In.
Qed.

Theorem g_link_eq ls u r d : g_link ls u r d = has_link ls u r d.
Proof. unfold g_link, has_link, has_link_n. rewrite bfs_set_eq. reflexivity. Qed.

Lemma existsb_allow_map (f : rule -> bool) policy :
  existsb (matched_with Allow) (map (fun rule => (f rule, Allow)) policy) = existsb f policy.
Proof.
  induction policy as [|p t IH]; cbn [map existsb]; [reflexivity|].
  rewrite IH. unfold matched_with. cbn [fst snd eft_eqb]. rewrite andb_true_r. reflexivity.
Qed.

(* the streaming enforce loop + MergeEffects of the two RBAC families = "some rule matches"
   (resp. the policy-free branch) *)
Theorem enforce_rbac_spec k ls policy req : enforce_rbac k ls policy req = enforce_spec k ls policy req.
Proof.
  unfold enforce_rbac, enforce_spec. destruct policy as [|p0 t].
  - rewrite nopolicy_decision by reflexivity. reflexivity.
  - destruct (stream_correct AllowOverride (map (fun rule => (match_rbac k ls req rule, Allow)) (p0 :: t)) eq_refl) as [_ D];
      [cbn [map]; discriminate|].
    rewrite D. cbn [combine]. unfold some_allow. apply existsb_allow_map.
Qed.

(* ---------- GetImplicitPermissionsForUser ---------- *)
Lemma policy_roles_superset ls u d s : has_link ls u s d = true -> In s (policy_roles ls u d).
Proof.
  intros H. unfold policy_roles. destruct (string_dec s u) as [->|N]; [left; reflexivity|right].
  apply implicit_roles_superset; assumption.
Qed.

Lemma has_link_refl ls u d : has_link ls u u d = true.
Proof. unfold has_link, has_link_n. rewrite String.eqb_refl. reflexivity. Qed.

Lemma policy_roles_sound ls u d s : depth_ok ls d u = true -> In s (policy_roles ls u d) -> has_link ls u s d = true.
Proof.
  intros D [<-|H]; [apply has_link_refl|]. apply (implicit_roles_exact _ _ _ _ D) in H. tauto.
Qed.

Lemma str_list_eqb_eq (a b : list string) : list_eqb String.eqb a b = true <-> a = b.
Proof. apply list_eqb_spec. apply String.eqb_eq. Qed.

Lemma grants_inv p perm : grants p perm = true <-> exists s, p = s :: perm.
Proof.
  unfold grants. destruct p as [|s t].
  - split; [discriminate|intros [s E]; discriminate].
  - rewrite str_list_eqb_eq. split; [intros ->; exists s; reflexivity|intros [s' E]; inversion E; reflexivity].
Qed.

Lemma implicit_permissions_In ls policy u p :
  In p (implicit_permissions ls policy u) <-> In p policy /\ In (rule_sub p) (policy_roles ls u "").
Proof. unfold implicit_permissions. rewrite filter_In, mem_str_In. tauto. Qed.

Lemma set_nth1_id (d : string) (r : rule) : nth 1 r "" = d -> set_nth 1 d r = r.
Proof.
  destruct r as [|a [|b t]]; cbn [nth set_nth]; intros E; [reflexivity|reflexivity|subst; reflexivity].
Qed.

Lemma implicit_permissions_dom_In ls policy u d p :
  In p (implicit_permissions_dom ls policy u d) <->
  In p policy /\ nth 1 p "" = d /\ In (rule_sub p) (policy_roles ls u d).
Proof.
  unfold implicit_permissions_dom. rewrite in_flat_map. split.
  - intros [r [Hr Hp]]. destruct (String.eqb d (nth 1 r "")) eqn:E; [|contradiction].
    apply String.eqb_eq in E. destruct (mem_str (rule_sub r) (policy_roles ls u d)) eqn:M; [|contradiction].
    destruct Hp as [<-|[]]. rewrite (set_nth1_id d r (eq_sym E)). apply mem_str_In in M. auto.
  - intros [Hp [E M]]. exists p. split; [exact Hp|]. rewrite E, String.eqb_refl.
    apply mem_str_In in M. rewrite M. left. apply set_nth1_id. exact E.
Qed.

(* a request is allowed iff a permission listed by GetImplicitPermissionsForUser grants it *)
Theorem permissions_decide ls policy u o a :
  depth_ok ls "" u = true -> vacuous_grant Plain ls policy [u; o; a] = false ->
  (enforce_rbac Plain ls policy [u; o; a] = true <->
   exists p, In p (implicit_permissions ls policy u) /\ grants p [o; a] = true).
Proof.
  intros D V. rewrite enforce_rbac_spec. destruct policy as [|p0 t].
  - cbn [enforce_spec vacuous_grant] in *. rewrite V. split; [discriminate|].
    intros [p [H _]]. apply implicit_permissions_In in H as [[] _].
  - cbn [enforce_spec]. rewrite existsb_exists. split.
    + intros [x [Hx M]]. cbn [match_rbac] in M.
      destruct x as [|ps [|po [|pa [|? ?]]]]; try discriminate.
      apply andb_true_iff in M as [M Ea]. apply andb_true_iff in M as [G Eo]. rewrite g_link_eq in G.
      apply String.eqb_eq in Ea, Eo. subst po pa.
      exists [ps; o; a]. split.
      * apply implicit_permissions_In. split; [exact Hx|]. apply policy_roles_superset. exact G.
      * apply grants_inv. exists ps. reflexivity.
    + intros [p [Hp G]]. apply grants_inv in G as [ps ->]. apply implicit_permissions_In in Hp as [Hp R].
      exists [ps; o; a]. split; [exact Hp|]. cbn [match_rbac]. cbn [rule_sub hd] in R.
      rewrite g_link_eq, (policy_roles_sound _ _ _ _ D R), !String.eqb_refl. reflexivity.
Qed.

Theorem permissions_decide_dom ls policy u d o a :
  depth_ok ls d u = true -> vacuous_grant WithDomains ls policy [u; d; o; a] = false ->
  (enforce_rbac WithDomains ls policy [u; d; o; a] = true <->
   exists p, In p (implicit_permissions_dom ls policy u d) /\ grants p [d; o; a] = true).
Proof.
  intros D V. rewrite enforce_rbac_spec. destruct policy as [|p0 t].
  - cbn [enforce_spec vacuous_grant] in *. rewrite V. split; [discriminate|].
    intros [p [H _]]. apply implicit_permissions_dom_In in H as [[] _].
  - cbn [enforce_spec]. rewrite existsb_exists. split.
    + intros [x [Hx M]]. cbn [match_rbac] in M.
      destruct x as [|ps [|pd [|po [|pa [|? ?]]]]]; try discriminate.
      apply andb_true_iff in M as [M Ea]. apply andb_true_iff in M as [M Eo]. apply andb_true_iff in M as [G Ed]. rewrite g_link_eq in G.
      apply String.eqb_eq in Ea, Eo, Ed. subst pd po pa.
      exists [ps; d; o; a]. split.
      * apply implicit_permissions_dom_In. split; [exact Hx|]. split; [reflexivity|].
        apply policy_roles_superset. exact G.
      * apply grants_inv. exists ps. reflexivity.
    + intros [p [Hp G]]. apply grants_inv in G as [ps ->]. apply implicit_permissions_dom_In in Hp as [Hp [_ R]].
      exists [ps; d; o; a]. split; [exact Hp|]. cbn [match_rbac]. cbn [rule_sub hd] in R.
      rewrite g_link_eq, (policy_roles_sound _ _ _ _ D R), !String.eqb_refl. reflexivity.
Qed.

(* without the depth guard: the listing is never too small (every allowed request is granted by
   a listed permission) *)
Theorem permissions_complete ls policy u o a :
  vacuous_grant Plain ls policy [u; o; a] = false ->
  enforce_rbac Plain ls policy [u; o; a] = true ->
  exists p, In p (implicit_permissions ls policy u) /\ grants p [o; a] = true.
Proof.
  intros V. rewrite enforce_rbac_spec. destruct policy as [|p0 t].
  - cbn [enforce_spec vacuous_grant] in *. rewrite V. discriminate.
  - cbn [enforce_spec]. rewrite existsb_exists. intros [x [Hx M]]. cbn [match_rbac] in M.
    destruct x as [|ps [|po [|pa [|? ?]]]]; try discriminate.
    apply andb_true_iff in M as [M Ea]. apply andb_true_iff in M as [G Eo]. rewrite g_link_eq in G.
    apply String.eqb_eq in Ea, Eo. subst po pa.
    exists [ps; o; a]. split.
    + apply implicit_permissions_In. split; [exact Hx|]. apply policy_roles_superset. exact G.
    + apply grants_inv. exists ps. reflexivity.
Qed.

(* ---------- GetImplicitUsersForPermission ---------- *)
Lemma uniq_In x l : In x (uniq l) <-> In x l.
Proof.
  induction l as [|y t IH]; cbn [uniq In]; [tauto|].
  rewrite filter_In, IH. split.
  - intros [E|[H _]]; auto.
  - intros [E|H]; [left; exact E|]. destruct (string_dec y x) as [E|N]; [left; exact E|right].
    split; [exact H|]. apply negb_true_iff. apply String.eqb_neq. exact N.
Qed.

Lemma NoDup_filter' {A} (f : A -> bool) l : NoDup l -> NoDup (filter f l).
Proof.
  induction 1 as [|x l Hx N IH]; cbn [filter]; [constructor|].
  destruct (f x); [|exact IH]. constructor; [|exact IH]. rewrite filter_In. tauto.
Qed.

Lemma uniq_NoDup l : NoDup (uniq l).
Proof.
  induction l as [|y t IH]; cbn [uniq]; [constructor|].
  constructor; [|apply NoDup_filter'; exact IH].
  rewrite filter_In. intros [_ H]. rewrite String.eqb_refl in H. discriminate.
Qed.

Theorem candidate_subjects_spec ls policy u :
  In u (candidate_subjects ls policy) <-> non_role_subject ls policy u.
Proof.
  unfold candidate_subjects, non_role_subject.
  rewrite filter_In, uniq_In, in_app_iff, !uniq_In, negb_true_iff.
  split; intros [H N]; (split; [exact H|]).
  - intros R. apply (proj2 (uniq_In _ _)) in R. apply (proj2 (mem_str_In _ _)) in R. congruence.
  - apply not_true_iff_false. intros R. apply (proj1 (mem_str_In _ _)) in R. apply (proj1 (uniq_In _ _)) in R. contradiction.
Qed.

(* listed = exactly the non-role subjects for which Enforce returns true; no guard at all *)
Theorem users_for_permission_exact k ls policy perm u :
  In u (implicit_users_for_permission k ls policy perm) <->
  non_role_subject ls policy u /\ enforce_rbac k ls policy (u :: perm) = true.
Proof. unfold implicit_users_for_permission. rewrite filter_In, candidate_subjects_spec. tauto. Qed.

Theorem users_for_permission_NoDup k ls policy perm : NoDup (implicit_users_for_permission k ls policy perm).
Proof.
  unfold implicit_users_for_permission, candidate_subjects. apply NoDup_filter', NoDup_filter', uniq_NoDup.
Qed.

(* ---------- GetPermissionsForUser ---------- *)
Theorem get_permissions_for_user_spec k policy u p : wf_policy k policy = true ->
  (In p (get_permissions_for_user k policy u None) <-> In p policy /\ (u = "" \/ rule_sub p = u)).
Proof.
  intros W. unfold get_permissions_for_user. rewrite filter_In.
  split; intros [Hp H]; (split; [exact Hp|]);
    (unfold wf_policy in W; rewrite forallb_forall in W; specialize (W p Hp); apply Nat.eqb_eq in W);
    destruct k; cbn [arity] in W;
    (destruct p as [|s [|f1 [|f2 [|f3 [|? ?]]]]]; try discriminate W);
    cbn [perm_args arity Nat.sub repeat fields_match rule_sub hd] in *;
    rewrite ?String.eqb_refl in *; cbn [orb andb] in *.
  - rewrite andb_true_r in H. apply orb_true_iff in H as [E|E]; apply String.eqb_eq in E; auto.
  - rewrite andb_true_r in H. apply orb_true_iff in H as [E|E]; apply String.eqb_eq in E; auto.
  - rewrite andb_true_r. apply orb_true_iff. destruct H as [-> | ->]; [left|right]; apply String.eqb_refl.
  - rewrite andb_true_r. apply orb_true_iff. destruct H as [-> | ->]; [left|right]; apply String.eqb_refl.
Qed.

Theorem get_permissions_for_user_dom_spec policy u d p : wf_policy WithDomains policy = true ->
  (In p (get_permissions_for_user WithDomains policy u (Some d)) <->
   In p policy /\ (u = "" \/ rule_sub p = u) /\ (d = "" \/ nth 1 p "" = d)).
Proof.
  intros W. unfold get_permissions_for_user. rewrite filter_In.
  split; intros [Hp H]; (split; [exact Hp|]);
    (unfold wf_policy in W; rewrite forallb_forall in W; specialize (W p Hp); apply Nat.eqb_eq in W);
    cbn [arity] in W;
    (destruct p as [|s [|f1 [|f2 [|f3 [|? ?]]]]]; try discriminate W);
    cbn [perm_args arity Nat.sub repeat fields_match rule_sub hd nth] in *;
    rewrite ?String.eqb_refl in *; cbn [orb andb] in *.
  - rewrite andb_true_r in H. apply andb_true_iff in H as [H1 H2].
    apply orb_true_iff in H1, H2. split.
    + destruct H1 as [E|E]; apply String.eqb_eq in E; auto.
    + destruct H2 as [E|E]; apply String.eqb_eq in E; auto.
  - destruct H as [H1 H2]. rewrite andb_true_r. apply andb_true_iff. split; apply orb_true_iff.
    + destruct H1 as [-> | ->]; [left|right]; apply String.eqb_refl.
    + destruct H2 as [-> | ->]; [left|right]; apply String.eqb_refl.
Qed.

(* the direct permissions of a (named) user are among its implicit permissions *)
Theorem direct_permissions_in_implicit ls policy u p : wf_policy Plain policy = true -> u <> "" ->
  In p (get_permissions_for_user Plain policy u None) -> In p (implicit_permissions ls policy u).
Proof.
  intros W N H. apply (get_permissions_for_user_spec _ _ _ _ W) in H as [Hp [E|E]]; [contradiction|].
  apply implicit_permissions_In. split; [exact Hp|]. left. symmetry. exact E.
Qed.

(* ---------- outside the guards the statements are false of the faithful model ---------- *)
Definition chain12 : list link :=
  [("n0","n1",""); ("n1","n2",""); ("n2","n3",""); ("n3","n4",""); ("n4","n5",""); ("n5","n6","");
   ("n6","n7",""); ("n7","n8",""); ("n8","n9",""); ("n9","n10",""); ("n10","n11",""); ("n11","n12","")].

(* a chain of 12 edges: GetImplicitRolesForUser lists n11 and n12, g(n0, n11) is false *)
Lemma depth_superset_refuted : exists ls u d r,
  depth_ok ls d u = false /\ In r (implicit_roles ls u d) /\ r <> u /\ has_link ls u r d = false.
Proof.
  exists chain12, "n0", "", "n11". split; [vm_compute; reflexivity|]. split; [vm_compute; tauto|].
  split; [discriminate|vm_compute; reflexivity].
Qed.

(* hence a listed implicit permission that Enforce does not honour *)
Lemma permissions_depth_refuted : exists ls policy u o a,
  depth_ok ls "" u = false /\ enforce_rbac Plain ls policy [u; o; a] = false /\
  exists p, In p (implicit_permissions ls policy u) /\ grants p [o; a] = true.
Proof.
  exists chain12, [["n11"; "data1"; "read"]], "n0", "data1", "read".
  split; [vm_compute; reflexivity|]. split; [vm_compute; reflexivity|].
  exists ["n11"; "data1"; "read"]. split; [vm_compute; tauto|reflexivity].
Qed.

(* the policy-free branch (F37): with no rule at all the request ("", "", "") is allowed, and so is
   (u, "", "") when g(u, "") holds, although no permission is listed *)
Lemma nopolicy_refuted : exists ls u,
  depth_ok ls "" u = true /\ enforce_rbac Plain ls [] [u; ""; ""] = true /\
  implicit_permissions ls [] u = [] /\ implicit_users_for_permission Plain ls [] [""; ""] = [u].
Proof. exists [("alice", "", "")], "alice". repeat split; vm_compute; reflexivity. Qed.

(* the guard is met by every non-empty policy and by every request with a non-empty object *)
Lemma vacuous_grant_nonempty k ls p t req : vacuous_grant k ls (p :: t) req = false.
Proof. reflexivity. Qed.
Lemma vacuous_grant_plain_obj ls policy u o a : o <> "" -> vacuous_grant Plain ls policy [u; o; a] = false.
Proof.
  intros N. destruct policy; [|reflexivity]. cbn [vacuous_grant empty_rule arity repeat match_rbac].
  apply String.eqb_neq in N. rewrite N, andb_false_r. reflexivity.
Qed.
Lemma vacuous_grant_dom_obj ls policy u d o a : o <> "" -> vacuous_grant WithDomains ls policy [u; d; o; a] = false.
Proof.
  intros N. destruct policy; [|reflexivity]. cbn [vacuous_grant empty_rule arity repeat match_rbac].
  apply String.eqb_neq in N. rewrite N, andb_false_r. reflexivity.
Qed.

(* ---------- a simple sufficient condition for the depth guard: at most max_level + 1 names ---------- *)
Definition closedb (ls : list link) (d : string) (n : nat) (u : string) : bool :=
  let b := ball ls d n u in
  forallb (fun x => forallb (fun y => mem_str y b) (succs ls d x)) b.

Lemma depth_ok_closedb ls d u : depth_ok ls d u = closedb ls d max_level u.
Proof. reflexivity. Qed.

Lemma closedb_true ls d n u :
  closedb ls d n u = true <->
  (forall x y, In x (ball ls d n u) -> In (x, y, d) ls -> In y (ball ls d n u)).
Proof.
  unfold closedb. rewrite forallb_forall. split.
  - intros C x y Hx Hy. specialize (C x Hx). rewrite forallb_forall in C. apply mem_str_In. apply C.
    apply succs_In. exact Hy.
  - intros C x Hx. apply forallb_forall. intros y Hy. apply mem_str_In. apply (C x y Hx).
    apply succs_In. exact Hy.
Qed.

Lemma forallb_false_exists {A} (f : A -> bool) l : forallb f l = false -> exists x, In x l /\ f x = false.
Proof.
  induction l as [|a l IH]; cbn [forallb]; [discriminate|].
  destruct (f a) eqn:Fa; cbn [andb].
  - intros H. destruct (IH H) as [x [Hx Fx]]. exists x. split; [right; exact Hx|exact Fx].
  - intros _. exists a. split; [left; reflexivity|exact Fa].
Qed.

Lemma ball_mono ls d n u x : In x (ball ls d n u) -> In x (ball ls d (S n) u).
Proof. rewrite !ball_spec. intros [k [Hk W]]. exists k. split; [lia|exact W]. Qed.

Lemma ball_NoDup ls d n u : NoDup (ball ls d n u).
Proof. destruct n; cbn [ball]; [constructor; [intros []|constructor]|apply dedup_NoDup]. Qed.

Lemma walk_end_in_nodes ls d a b k : walk ls d a b k -> b = a \/ In b (nodes ls).
Proof.
  induction 1 as [x|x y z k Hy W IH]; [left; reflexivity|]. right.
  destruct IH as [->|H]; [apply (nodes_In _ _ _ _ Hy)|exact H].
Qed.

Lemma closedb_step ls d n u : closedb ls d n u = true -> closedb ls d (S n) u = true.
Proof.
  intros C. pose proof (proj1 (closedb_true ls d n u) C) as Cl.
  assert (Same : forall x, In x (ball ls d (S n) u) -> In x (ball ls d n u)).
  { intros x. cbn [ball]. rewrite dedup_In, in_app_iff, in_flat_map. intros [H|[y [Hy Hs]]]; [exact H|].
    apply succs_In in Hs. apply (Cl y x Hy Hs). }
  apply closedb_true. intros x y Hx Hy. apply ball_mono. apply (Cl x y (Same x Hx) Hy).
Qed.

Lemma ball_grows ls d u n : closedb ls d n u = true \/ S n <= List.length (ball ls d n u).
Proof.
  induction n as [|n IH]; [right; cbn; lia|].
  destruct IH as [C|L]; [left; apply closedb_step; exact C|].
  destruct (closedb ls d n u) eqn:C; [left; apply closedb_step; exact C|]. right.
  unfold closedb in C. apply forallb_false_exists in C as [x [Hx C]].
  apply forallb_false_exists in C as [y [Hy C]].
  assert (Ny : ~ In y (ball ls d n u)) by (intros H; apply mem_str_In in H; congruence).
  assert (Hy' : In y (ball ls d (S n) u)).
  { cbn [ball]. rewrite dedup_In, in_app_iff, in_flat_map. right. exists x. split; assumption. }
  assert (I : incl (y :: ball ls d n u) (ball ls d (S n) u)).
  { intros z [<-|Hz]; [exact Hy'|apply ball_mono; exact Hz]. }
  apply NoDup_incl_length in I; [cbn [List.length] in I; lia|].
  constructor; [exact Ny|apply ball_NoDup].
Qed.

Theorem small_graph_closed ls d u n :
  List.length (dedup (u :: nodes ls)) <= S n -> closedb ls d n u = true.
Proof.
  intros Small. destruct (ball_grows ls d u n) as [C|L]; [exact C|].
  assert (Sub : incl (ball ls d n u) (dedup (u :: nodes ls))).
  { intros x Hx. apply dedup_In. apply ball_spec in Hx as [k [_ W]].
    destruct (walk_end_in_nodes _ _ _ _ _ W) as [->|H]; [left; reflexivity|right; exact H]. }
  assert (Sup : incl (dedup (u :: nodes ls)) (ball ls d n u)).
  { apply NoDup_length_incl; [apply ball_NoDup|lia|exact Sub]. }
  apply closedb_true. intros x y _ Hy. apply Sup. apply dedup_In. right. apply (nodes_In _ _ _ _ Hy).
Qed.

(* every role graph with at most max_level + 1 = 11 distinct names (u included) is inside the guard,
   whatever its shape *)
Theorem small_graph_depth_ok ls d u :
  List.length (dedup (u :: nodes ls)) <= S max_level -> depth_ok ls d u = true.
Proof. rewrite depth_ok_closedb. apply small_graph_closed. Qed.
