(* KeyMatch.v — executable model of the path matchers of util/builtin_operators.go
   (KeyMatch, KeyGet, KeyMatch2, KeyGet2, KeyMatch3, KeyGet3, KeyMatch4, KeyMatch5, the *Func
   wrappers and the regexp cache) and their segment-level specification.
   Definitions only; the proofs are in KeyMatchProofs.v.

   The Go code turns the pattern (key2) into the TEXT of a regular expression by textual
   rewriting and hands it to Go's regexp package.  The model does the same:
     replace_slash_star   = strings.Replace(key2, "/*", "/.*", -1)
     rw_colon             = keyMatch2Re / keyGet2Re1  `:[^/]+`    .ReplaceAllString / .FindAllString
     rw_brace true        = keyMatch3Re / keyMatch4Re / keyMatch5Re  `\{[^/]+\}`   (greedy)
     rw_brace false       = keyGet3Re1  `\{[^/]+?\}`              (lazy)
     compile              = regexp.MustCompile on the fragment of the syntax those rewrites
                            produce (None = MustCompile panics / syntax outside the fragment)
     rmatch (Regex.v)     = Regexp.MatchString for an anchored expression
     bt                   = Regexp.FindStringSubmatch (leftmost-first backtracking priorities:
                            greedy tries the longest repetition first, lazy the shortest)
   Strings are byte lists. *)
From Coq Require Import List Bool Ascii Arith.
From Casbin Require Import Regex.
Import ListNotations.
Local Open Scope char_scope.

(* ------------------------------------------------------------------ *)
(* byte strings *)

Fixpoint str_eqb (a b : str) : bool :=
  match a, b with
  | [], [] => true
  | x :: a', y :: b' => Ascii.eqb x y && str_eqb a' b'
  | _, _ => false
  end.

Definition nonempty (s : str) : bool := match s with [] => false | _ => true end.

Fixpoint assoc {A : Type} (k : str) (m : list (str * A)) : option A :=
  match m with
  | [] => None
  | (k', v) :: t => if str_eqb k k' then Some v else assoc k t
  end.

(* ------------------------------------------------------------------ *)
(* the textual rewrites *)

(* strings.Replace(s, "/*", "/.*", -1) *)
Fixpoint replace_slash_star (s : str) : str :=
  match s with
  | [] => []
  | c1 :: s1 =>
      match s1 with
      | c2 :: s2 =>
          if Ascii.eqb c1 "/" && Ascii.eqb c2 "*"
          then "/" :: "." :: "*" :: replace_slash_star s2
          else c1 :: replace_slash_star s1
      | [] => [c1]
      end
  end.

(* `:[^/]+` : every leftmost-longest non-overlapping match is replaced by `repl`; the matched
   texts are returned as well (FindAllString).  cur = Some k : inside a match whose text so far
   is rev k. *)
Fixpoint rw_colon (repl : str) (s : str) (cur : option str) : str * list str :=
  match s with
  | [] => match cur with Some k => ([], [rev k]) | None => ([], []) end
  | c :: s' =>
      match cur with
      | Some k =>
          if Ascii.eqb c "/"
          then let '(o, ks) := rw_colon repl s' None in (c :: o, rev k :: ks)
          else rw_colon repl s' (Some (c :: k))
      | None =>
          if Ascii.eqb c ":" then
            match s' with
            | d :: _ =>
                if Ascii.eqb d "/"
                then let '(o, ks) := rw_colon repl s' None in (c :: o, ks)
                else let '(o, ks) := rw_colon repl s' (Some [c]) in (repl ++ o, ks)
            | [] => ([c], [])
            end
          else let '(o, ks) := rw_colon repl s' None in (c :: o, ks)
      end
  end.

(* `\{[^/]+\}` (greedy = true) and `\{[^/]+?\}` (greedy = false).
   st = None: outside a candidate.  st = Some (k, cl): a '{' was seen in the current '/'-free run,
   rev k = the bytes after it; greedy only: cl = Some (inner, after) remembers the last '}' that
   can close the match (rev inner = contents, rev after = bytes of the run after that '}').
   A candidate that reaches the end of its run without a usable '}' is copied verbatim: no later
   '{' of the same run could be closed either. *)
Definition brace_flush (repl : str) (k : str) (cl : option (str * str)) (o : str) (ks : list str)
  : str * list str :=
  match cl with
  | Some (inner, after) => (repl ++ rev after ++ o, ("{" :: rev inner ++ ["}"]) :: ks)
  | None => ("{" :: rev k ++ o, ks)
  end.

Fixpoint rw_brace (greedy : bool) (repl : str) (s : str) (st : option (str * option (str * str)))
  : str * list str :=
  match s with
  | [] => match st with
          | None => ([], [])
          | Some (k, cl) => brace_flush repl k cl [] []
          end
  | c :: s' =>
      match st with
      | None =>
          if Ascii.eqb c "{" then rw_brace greedy repl s' (Some ([], None))
          else let '(o, ks) := rw_brace greedy repl s' None in (c :: o, ks)
      | Some (k, cl) =>
          if Ascii.eqb c "/" then
            let '(o, ks) := rw_brace greedy repl s' None in brace_flush repl k cl (c :: o) ks
          else if Ascii.eqb c "}" && nonempty k then
            if greedy then rw_brace greedy repl s' (Some (c :: k, Some (k, [])))
            else let '(o, ks) := rw_brace greedy repl s' None in
                 (repl ++ o, ("{" :: rev k ++ ["}"]) :: ks)
          else rw_brace greedy repl s'
                 (Some (c :: k, match cl with Some (i, a) => Some (i, c :: a) | None => None end))
      end
  end.

(* the three replacement texts *)
Definition seg_re : str := ["["; "^"; "/"; "]"; "+"].                       (* [^/]+    *)
Definition cap_re : str := ["("; "["; "^"; "/"; "]"; "+"; ")"].             (* ([^/]+)  *)
Definition cap_lazy_re : str := ["("; "["; "^"; "/"; "]"; "+"; "?"; ")"].   (* ([^/]+?) *)

(* ------------------------------------------------------------------ *)
(* regexp.MustCompile on the fragment:  ^ item* $  where
     item ::= atom | '(' atom ')'      atom ::= class quant?
     class ::= '.' | '[^' c ']' | literal byte       quant ::= '*' | '+' | '*?' | '+?'  *)

Inductive quant := QOne | QStar (greedy : bool) | QPlus (greedy : bool).
Inductive atom := Atom (k : cls) (q : quant).
Inductive item := Plain (a : atom) | Cap (a : atom).

Definition is_meta (c : ascii) : bool :=
  existsb (Ascii.eqb c)
    ["\"; "."; "+"; "*"; "?"; "("; ")"; "|"; "["; "]"; "{"; "}"; "^"; "$"].

Definition quantify (q : ascii) (a : atom) : option atom :=
  match a with
  | Atom k QOne =>
      if Ascii.eqb q "*" then Some (Atom k (QStar true))
      else if Ascii.eqb q "+" then Some (Atom k (QPlus true)) else None
  | Atom k (QStar true) => if Ascii.eqb q "?" then Some (Atom k (QStar false)) else None
  | Atom k (QPlus true) => if Ascii.eqb q "?" then Some (Atom k (QPlus false)) else None
  | _ => None
  end.

(* parser state: acc = items so far, reversed; grp = None outside a group, Some None just after
   '(', Some (Some a) inside a group that holds the atom a *)
Notation pstate := (list item * option (option atom))%type (only parsing).

Definition push (a : atom) (st : pstate) : option pstate :=
  match st with
  | (acc, None) => Some (Plain a :: acc, None)
  | (acc, Some None) => Some (acc, Some (Some a))
  | (_, Some (Some _)) => None
  end.

(* one byte that is neither '$' nor '[' *)
Definition pstep (c : ascii) (st : pstate) : option pstate :=
  let '(acc, grp) := st in
  if Ascii.eqb c "(" then
    match grp with None => Some (acc, Some None) | Some _ => None end
  else if Ascii.eqb c ")" then
    match grp with Some (Some a) => Some (Cap a :: acc, None) | _ => None end
  else if Ascii.eqb c "*" || Ascii.eqb c "+" || Ascii.eqb c "?" then
    match grp with
    | None =>
        match acc with
        | Plain a :: r =>
            match quantify c a with Some a' => Some (Plain a' :: r, None) | None => None end
        | _ => None
        end
    | Some (Some a) =>
        match quantify c a with Some a' => Some (acc, Some (Some a')) | None => None end
    | Some None => None
    end
  else if Ascii.eqb c "." then push (Atom CAny QOne) st
  else if is_meta c then None
  else push (Atom (CChr c) QOne) st.

Fixpoint parse_go (s : str) (st : pstate) : option (list item) :=
  match s with
  | [] => None                      (* the closing `$` is missing *)
  | c :: s' =>
      if Ascii.eqb c "$" then
        match s', st with
        | [], (acc, None) => Some (rev acc)
        | _, _ => None
        end
      else if Ascii.eqb c "[" then
        match s' with
        | h :: d :: b :: s4 =>
            if Ascii.eqb h "^" && Ascii.eqb b "]" && negb (is_meta d) then
              match push (Atom (CNot d) QOne) st with
              | Some st' => parse_go s4 st'
              | None => None
              end
            else None
        | _ => None
        end
      else
        match pstep c st with
        | Some st' => parse_go s' st'
        | None => None
        end
  end.

Definition compile (rx : str) : option (list item) :=
  match rx with
  | c :: body => if Ascii.eqb c "^" then parse_go body ([], None) else None
  | [] => None
  end.

Definition anchored (body : str) : str := "^" :: body ++ ["$"].

Definition atom_of (i : item) : atom := match i with Plain a => a | Cap a => a end.

Definition re_of_atom (a : atom) : re :=
  match a with
  | Atom k QOne => Cls k
  | Atom k (QStar _) => Star (Cls k)
  | Atom k (QPlus _) => Cat (Cls k) (Star (Cls k))
  end.

Definition re_of_items (l : list item) : re :=
  fold_right (fun i r => Cat (re_of_atom (atom_of i)) r) Eps l.

(* ------------------------------------------------------------------ *)
(* submatch extraction: backtracking in Go's leftmost-first priority order *)

Fixpoint rep (k : cls) (greedy : bool) (cont : str -> str -> option (list str))
             (acc : str) (s : str) : option (list str) :=
  match s with
  | x :: s' =>
      if cls_ok k x then
        if greedy then
          match rep k greedy cont (x :: acc) s' with
          | Some r => Some r
          | None => cont (rev acc) s
          end
        else
          match cont (rev acc) s with
          | Some r => Some r
          | None => rep k greedy cont (x :: acc) s'
          end
      else cont (rev acc) s
  | [] => cont (rev acc) []
  end.

Definition match_atom (a : atom) (cont : str -> str -> option (list str)) (s : str)
  : option (list str) :=
  match a with
  | Atom k QOne =>
      match s with
      | x :: s' => if cls_ok k x then cont [x] s' else None
      | [] => None
      end
  | Atom k (QStar g) => rep k g cont [] s
  | Atom k (QPlus g) =>
      match s with
      | x :: s' => if cls_ok k x then rep k g cont [x] s' else None
      | [] => None
      end
  end.

(* Some captures = the texts of the capture groups of the (anchored) match; None = no match *)
Fixpoint bt (its : list item) (s : str) : option (list str) :=
  match its with
  | [] => match s with [] => Some [] | _ => None end
  | it :: r =>
      match_atom (atom_of it)
        (fun pre rest =>
           match bt r rest with
           | Some cs => Some (match it with Cap _ => pre :: cs | Plain _ => cs end)
           | None => None
           end) s
  end.

(* ------------------------------------------------------------------ *)
(* reCache / mustCompileOrGet *)

Notation cache := (list (str * list item)) (only parsing).

Definition must_compile_or_get (c : cache) (key : str) : option (list item) * cache :=
  match assoc key c with
  | Some its => (Some its, c)
  | None =>
      match compile key with
      | Some its => (Some its, (key, its) :: c)
      | None => (None, c)           (* MustCompile panics, nothing is stored *)
      end
  end.

(* ------------------------------------------------------------------ *)
(* the Go functions.  Result None = the Go function panics (regexp does not compile /
   index out of range); for well-formed patterns that never happens (KeyMatchProofs.v). *)

(* RegexMatch(key1, key2): regexp.MatchString *)
Definition regex_match (key1 rx : str) : option bool :=
  match compile rx with
  | Some its => Some (rmatch (re_of_items its) key1)
  | None => None
  end.

Fixpoint index_star (s : str) : option nat :=
  match s with
  | [] => None
  | c :: t => if Ascii.eqb c "*" then Some 0 else option_map S (index_star t)
  end.

Definition keyMatch (key1 key2 : str) : bool :=
  match index_star key2 with
  | None => str_eqb key1 key2
  | Some i =>
      if Nat.ltb i (List.length key1) then str_eqb (firstn i key1) (firstn i key2)
      else str_eqb key1 (firstn i key2)
  end.

Definition keyGet (key1 key2 : str) : str :=
  match index_star key2 with
  | None => []
  | Some i =>
      if Nat.ltb i (List.length key1) then
        if str_eqb (firstn i key1) (firstn i key2) then skipn i key1 else []
      else []
  end.

Definition keyMatch2 (key1 key2 : str) : option bool :=
  let key2 := replace_slash_star key2 in
  let key2 := fst (rw_colon seg_re key2 None) in
  regex_match key1 (anchored key2).

(* `for i, key := range keys { if test key { return values[0][i+1] } }; return ""` *)
Fixpoint pick (test : str -> bool) (keys values : list str) : option str :=
  match keys with
  | [] => Some []
  | key :: ks =>
      match values with
      | v :: vs => if test key then Some v else pick test ks vs
      | [] => if test key then None else pick test ks []
      end
  end.

Definition keyGet2_c (c : cache) (key1 key2 pathVar : str) : option str * cache :=
  let key2 := replace_slash_star key2 in
  let '(key2', keys) := rw_colon cap_re key2 None in
  let '(r, c') := must_compile_or_get c (anchored key2') in
  (match r with
   | None => None
   | Some its =>
       match bt its key1 with
       | None => Some []
       | Some values => pick (fun key => str_eqb pathVar (tl key)) keys values
       end
   end, c').

Definition keyGet2 (key1 key2 pathVar : str) : option str := fst (keyGet2_c [] key1 key2 pathVar).

Definition keyMatch3 (key1 key2 : str) : option bool :=
  let key2 := replace_slash_star key2 in
  let key2 := fst (rw_brace true seg_re key2 None) in
  regex_match key1 (anchored key2).

Definition unbrace (key : str) : str := removelast (tl key).   (* key[1:len(key)-1] *)

Definition keyGet3_c (c : cache) (key1 key2 pathVar : str) : option str * cache :=
  let key2 := replace_slash_star key2 in
  let '(key2', keys) := rw_brace false cap_lazy_re key2 None in
  let '(r, c') := must_compile_or_get c (anchored key2') in
  (match r with
   | None => None
   | Some its =>
       match bt its key1 with
       | None => Some []
       | Some values => pick (fun key => str_eqb pathVar (unbrace key)) keys values
       end
   end, c').

Definition keyGet3 (key1 key2 pathVar : str) : option str := fst (keyGet3_c [] key1 key2 pathVar).

(* the loop of KeyMatch4 over tokens / matches with the map `values` *)
Fixpoint km4_loop (tokens ms : list str) (values : list (str * str)) : bool :=
  match tokens, ms with
  | t :: ts, m :: ms' =>
      let values' := match assoc t values with Some _ => values | None => (t, m) :: values end in
      match assoc t values' with
      | Some v => if str_eqb v m then km4_loop ts ms' values' else false
      | None => false
      end
  | _, _ => true
  end.

Definition keyMatch4_c (c : cache) (key1 key2 : str) : option bool * cache :=
  let key2 := replace_slash_star key2 in
  let '(key2', toks) := rw_brace true cap_re key2 None in
  let tokens := map unbrace toks in
  let '(r, c') := must_compile_or_get c (anchored key2') in
  (match r with
   | None => None
   | Some its =>
       match bt its key1 with
       | None => Some false
       | Some ms =>
           if Nat.eqb (List.length tokens) (List.length ms) then Some (km4_loop tokens ms [])
           else None                 (* panic("KeyMatch4: number of tokens ...") *)
       end
   end, c').

Definition keyMatch4 (key1 key2 : str) : option bool := fst (keyMatch4_c [] key1 key2).

Fixpoint strip_query (s : str) : str :=
  match s with
  | [] => []
  | c :: t => if Ascii.eqb c "?" then [] else c :: strip_query t
  end.

Definition keyMatch5 (key1 key2 : str) : option bool :=
  let key1 := strip_query key1 in
  let key2 := replace_slash_star key2 in
  let key2 := fst (rw_brace true seg_re key2 None) in
  regex_match key1 (anchored key2).

(* --- the govaluate wrappers: validateVariadicArgs, then the function --- *)
Inductive arg := AStr (s : str) | AOther.
Inductive fres (A : Type) := FErr | FPanic | FOk (a : A).
Arguments FErr {A}. Arguments FPanic {A}. Arguments FOk {A} a.

Definition of_opt {A : Type} (o : option A) : fres A :=
  match o with Some a => FOk a | None => FPanic end.

Definition func2 {A : Type} (f : str -> str -> fres A) (args : list arg) : fres A :=
  match args with
  | [AStr a; AStr b] => f a b
  | _ => FErr
  end.

Definition func3 {A : Type} (f : str -> str -> str -> fres A) (args : list arg) : fres A :=
  match args with
  | [AStr a; AStr b; AStr c] => f a b c
  | _ => FErr
  end.

Definition keyMatchFunc := func2 (fun a b => FOk (keyMatch a b)).
Definition keyGetFunc := func2 (fun a b => FOk (keyGet a b)).
Definition keyMatch2Func := func2 (fun a b => of_opt (keyMatch2 a b)).
Definition keyGet2Func := func3 (fun a b c => of_opt (keyGet2 a b c)).
Definition keyMatch3Func := func2 (fun a b => of_opt (keyMatch3 a b)).
Definition keyGet3Func := func3 (fun a b c => of_opt (keyGet3 a b c)).
Definition keyMatch4Func := func2 (fun a b => of_opt (keyMatch4 a b)).
Definition keyMatch5Func := func2 (fun a b => of_opt (keyMatch5 a b)).

(* --- a history of calls through the shared cache (for the purity theorem) --- *)
Inductive call :=
| CallGet2 (key1 key2 pathVar : str)
| CallGet3 (key1 key2 pathVar : str)
| CallMatch4 (key1 key2 : str).

Inductive cres := RStr (r : option str) | RBool (r : option bool).

Definition run_call (c : cache) (cl : call) : cres * cache :=
  match cl with
  | CallGet2 a b v => let '(r, c') := keyGet2_c c a b v in (RStr r, c')
  | CallGet3 a b v => let '(r, c') := keyGet3_c c a b v in (RStr r, c')
  | CallMatch4 a b => let '(r, c') := keyMatch4_c c a b in (RBool r, c')
  end.

Definition pure_call (cl : call) : cres :=
  match cl with
  | CallGet2 a b v => RStr (keyGet2 a b v)
  | CallGet3 a b v => RStr (keyGet3 a b v)
  | CallMatch4 a b => RBool (keyMatch4 a b)
  end.

Fixpoint run_calls (c : cache) (cls : list call) : list cres :=
  match cls with
  | [] => []
  | cl :: t => let '(r, c') := run_call c cl in r :: run_calls c' t
  end.

(* ------------------------------------------------------------------ *)
(* patterns of the segment grammar and the segment-level specification *)

Inductive seg := Lit (l : str) | Par (name : str).
Record pattern := { segs : list seg; star : bool }.

(* which placeholder syntax the function at hand understands *)
Inductive syntax := SPlain (* KeyMatch, KeyGet: none *)
                  | SColon (* KeyMatch2, KeyGet2: ":name" *)
                  | SBrace (* KeyMatch3/4/5, KeyGet3: "{name}" *).

Definition print_seg (sy : syntax) (s : seg) : str :=
  match s with
  | Lit l => l
  | Par n => match sy with
             | SColon => ":" :: n
             | SBrace => "{" :: n ++ ["}"]
             | SPlain => n
             end
  end.

Definition print_segs (sy : syntax) (l : list seg) : str :=
  flat_map (fun s => "/" :: print_seg sy s) l.

Definition print (sy : syntax) (p : pattern) : str :=
  print_segs sy (segs p) ++ (if star p then ["/"; "*"] else []).

Definition is_ascii7 (c : ascii) : bool :=
  match c with Ascii _ _ _ _ _ _ _ b7 => negb b7 end.

(* bytes allowed in a literal segment *)
Definition lit_char (sy : syntax) (c : ascii) : bool :=
  match sy with
  | SPlain => negb (Ascii.eqb c "/") && negb (Ascii.eqb c "*")
  | SColon => is_ascii7 c && negb (is_meta c) && negb (Ascii.eqb c "/") && negb (Ascii.eqb c ":")
  | SBrace => is_ascii7 c && negb (is_meta c) && negb (Ascii.eqb c "/")
  end.

(* bytes allowed in a placeholder name *)
Definition name_char (sy : syntax) (c : ascii) : bool :=
  match sy with
  | SPlain => false
  | SColon => negb (Ascii.eqb c "/")
  | SBrace => negb (Ascii.eqb c "/") && negb (Ascii.eqb c "}")
  end.

Definition wf_seg (sy : syntax) (s : seg) : bool :=
  match s with
  | Lit l => forallb (lit_char sy) l
  | Par n => nonempty n && forallb (name_char sy) n
  end.

Definition wf_pattern (sy : syntax) (p : pattern) : bool := forallb (wf_seg sy) (segs p).

(* --- specification --- *)

(* "a/b//c" -> ["a"; "b"; ""; "c"] ; always at least one segment *)
Fixpoint split_slash (s : str) : list str :=
  match s with
  | [] => [[]]
  | c :: r =>
      if Ascii.eqb c "/" then [] :: split_slash r
      else match split_slash r with
           | h :: t => (c :: h) :: t
           | [] => [[c]]
           end
  end.

(* the segments of a path: "" has none, "/a/b" has a and b, "/" has one empty segment, a path
   that does not start with '/' is not segmented *)
Definition path_segments (path : str) : option (list str) :=
  match path with
  | [] => Some []
  | c :: r => if Ascii.eqb c "/" then Some (split_slash r) else None
  end.

(* Some values: the path segments fit the pattern segments one by one — a literal equals its
   segment, a placeholder takes one non-empty segment (its value) —, and what is left is nothing
   (no wildcard) or at least one further segment (trailing wildcard). *)
Fixpoint fill_segs (sgs : list seg) (st : bool) (ss : list str) : option (list str) :=
  match sgs, ss with
  | [], [] => if st then None else Some []
  | [], _ :: _ => if st then Some [] else None
  | _ :: _, [] => None
  | Lit l :: r, s :: ss' => if str_eqb l s then fill_segs r st ss' else None
  | Par _ :: r, s :: ss' =>
      if nonempty s then
        match fill_segs r st ss' with Some vs => Some (s :: vs) | None => None end
      else None
  end.

Definition seg_fill (p : pattern) (path : str) : option (list str) :=
  match path_segments path with
  | Some ss => fill_segs (segs p) (star p) ss
  | None => None
  end.

Definition seg_match (p : pattern) (path : str) : bool :=
  match seg_fill p path with Some _ => true | None => false end.

Fixpoint names_of (l : list seg) : list str :=
  match l with
  | [] => []
  | Lit _ :: r => names_of r
  | Par n :: r => n :: names_of r
  end.

(* the value of the first placeholder called `name` ("" if there is none) *)
Fixpoint first_binding (name : str) (ns vs : list str) : str :=
  match ns, vs with
  | n :: ns', v :: vs' => if str_eqb name n then v else first_binding name ns' vs'
  | _, _ => []
  end.

(* placeholders with equal names carry equal values *)
Fixpoint agree_with (n v : str) (ns vs : list str) : bool :=
  match ns, vs with
  | n' :: ns', v' :: vs' => (if str_eqb n n' then str_eqb v v' else true) && agree_with n v ns' vs'
  | _, _ => true
  end.

Fixpoint consistent (ns vs : list str) : bool :=
  match ns, vs with
  | n :: ns', v :: vs' => agree_with n v ns' vs' && consistent ns' vs'
  | _, _ => true
  end.

Definition nl_free (s : str) : bool := forallb (fun c => negb (Ascii.eqb c nl)) s.

(* the text a matching path must have: the pattern with its placeholders filled in *)
Fixpoint inst (sgs : list seg) (vs : list str) : str :=
  match sgs with
  | [] => []
  | Lit l :: r => "/" :: l ++ inst r vs
  | Par _ :: r => match vs with
                  | v :: vs' => "/" :: v ++ inst r vs'
                  | [] => "/" :: inst r []
                  end
  end.
