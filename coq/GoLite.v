(* GoLite.v — a small deep embedding of the fragment of Go in which casbin's pure helper
   functions are written (effector/default_effector.go MergeEffects and friends), with an
   executable big-step semantics.  The translator (translator/golite.go) prints the Go AST of
   such a function, after type checking, into a term of type [func] (coq/Gen/GoFuns.v is
   REGENERATED from /repo on every run); the theorems of Properties/C02Gen.v are then statements
   about what the code says now, for every input.

   What the semantics fixes (trusted reading of the Go specification for this fragment):
   - values: int (unbounded Z: the translated functions do no arithmetic beyond +-1 on
     lengths and indices), float64 restricted to comparison with constants (carried as Z; the
     translator refuses every other float operation), string, bool, slices (immutable here:
     the translator refuses element assignment), nil, error values made by errors.New;
   - expressions are evaluated left to right, && and || short-circuit, an index or slice
     expression out of range panics (None);
   - statements: assignment (declaration and assignment are the same thing: the translator
     gives every declared variable of a function its own name), if/else, switch without
     fallthrough as a chain of tests inside a breakable block, the three-clause for loop, range
     over a slice (evaluated once, index and element variables), break/continue (innermost
     breakable construct), return of a tuple;
   - non-termination is impossible for range loops; three-clause loops consume fuel.
   Definitions only; proofs are in GoLiteProofs.v. *)
From Coq Require Import List String ZArith Bool.
Import ListNotations.
Open Scope string_scope.

Inductive val :=
| VInt (z : Z) | VStr (s : string) | VBool (b : bool) | VSlice (l : list val) | VNil | VErr (s : string).

Inductive binop := OAdd | OSub | OEq | ONe | OLt | OLe | OGt | OGe | OAnd | OOr.

Inductive expr :=
| EConst (v : val)
| EVar (x : string)
| EIndex (a i : expr)
| ELen (a : expr)
| EBin (o : binop) (a b : expr)
| ENot (a : expr)
| ESlice (a : expr) (lo hi : option expr)
| ECall1 (f : string) (a : expr)
| ECall2 (f : string) (a b : expr).

Inductive stmt :=
| SSkip
| SAssign (x : string) (e : expr)
| SSeq (a b : stmt)
| SIf (c : expr) (a b : stmt)
| SBlock (a : stmt)                       (* breakable block: `switch` after desugaring *)
| SFor (c : expr) (post body : stmt)      (* init is sequenced in front by the translator *)
| SRange (i x : string) (e : expr) (body : stmt)
| SBreak | SContinue
| SReturn (es : list expr).

(* f_locals: every variable the body declares (each under its own name) *)
Record func := { f_params : list string; f_locals : list string; f_body : stmt }.

Definition env := list (string * val).

Fixpoint lookup (x : string) (r : env) : option val :=
  match r with
  | [] => None
  | (y, v) :: t => if String.eqb x y then Some v else lookup x t
  end.

(* update in place (or append): the environment of a function has one slot per variable *)
Fixpoint set (x : string) (v : val) (r : env) : env :=
  match r with
  | [] => [(x, v)]
  | (y, w) :: t => if String.eqb x y then (y, v) :: t else (y, w) :: set x v t
  end.

Definition val_eq (a b : val) : option bool :=
  match a, b with
  | VInt x, VInt y => Some (Z.eqb x y)
  | VStr x, VStr y => Some (String.eqb x y)
  | VBool x, VBool y => Some (Bool.eqb x y)
  | VNil, VNil => Some true
  | VErr _, VNil | VNil, VErr _ => Some false
  | VSlice [], VNil | VNil, VSlice [] => None      (* slice == nil: not needed, refused *)
  | _, _ => None
  end.

Fixpoint str_index_from (s pat : string) (k : nat) : option nat :=
  if String.prefix pat s then Some k
  else match s with
       | EmptyString => None
       | String _ t => str_index_from t pat (S k)
       end.

Definition builtin1 (f : string) (a : val) : option val :=
  match f, a with
  | "errors.New", VStr s => Some (VErr s)
  | _, _ => None
  end.

Definition builtin2 (f : string) (a b : val) : option val :=
  match f, a, b with
  | "strings.Index", VStr s, VStr p =>
      Some (VInt (match str_index_from s p 0 with Some k => Z.of_nat k | None => (-1)%Z end))
  | "strings.HasPrefix", VStr s, VStr p => Some (VBool (String.prefix p s))
  | _, _, _ => None
  end.

Definition arith (o : binop) (x y : Z) : option val :=
  match o with
  | OAdd => Some (VInt (x + y)) | OSub => Some (VInt (x - y))
  | OEq => Some (VBool (Z.eqb x y)) | ONe => Some (VBool (negb (Z.eqb x y)))
  | OLt => Some (VBool (Z.ltb x y)) | OLe => Some (VBool (Z.leb x y))
  | OGt => Some (VBool (Z.ltb y x)) | OGe => Some (VBool (Z.leb y x))
  | OAnd | OOr => None
  end.

Definition substr (s : string) (lo hi : Z) : option val :=
  if ((0 <=? lo) && (lo <=? hi) && (hi <=? Z.of_nat (String.length s)))%Z
  then Some (VStr (String.substring (Z.to_nat lo) (Z.to_nat (hi - lo)) s)) else None.

Definition subslice (l : list val) (lo hi : Z) : option val :=
  if ((0 <=? lo) && (lo <=? hi) && (hi <=? Z.of_nat (List.length l)))%Z
  then Some (VSlice (firstn (Z.to_nat (hi - lo)) (skipn (Z.to_nat lo) l))) else None.

Definition vlen (v : val) : option Z :=
  match v with
  | VSlice l => Some (Z.of_nat (List.length l))
  | VStr s => Some (Z.of_nat (String.length s))
  | VNil => Some 0%Z
  | _ => None
  end.

Definition index_val (a i : val) : option val :=
  match a, i with
  | VSlice l, VInt k =>
      if ((0 <=? k) && (k <? Z.of_nat (List.length l)))%Z then nth_error l (Z.to_nat k) else None
  | _, _ => None
  end.

(* None = run-time panic (index out of range) or an ill-typed operation *)
Fixpoint eval (r : env) (e : expr) : option val :=
  match e with
  | EConst v => Some v
  | EVar x => lookup x r
  | EIndex a i =>
      match eval r a, eval r i with
      | Some x, Some y => index_val x y
      | _, _ => None
      end
  | ELen a => match eval r a with Some v => option_map VInt (vlen v) | None => None end
  | EBin OAnd a b =>
      match eval r a with
      | Some (VBool false) => Some (VBool false)
      | Some (VBool true) => match eval r b with Some (VBool y) => Some (VBool y) | _ => None end
      | _ => None
      end
  | EBin OOr a b =>
      match eval r a with
      | Some (VBool true) => Some (VBool true)
      | Some (VBool false) => match eval r b with Some (VBool y) => Some (VBool y) | _ => None end
      | _ => None
      end
  | EBin o a b =>
      match eval r a, eval r b with
      | Some (VInt x), Some (VInt y) => arith o x y
      | Some x, Some y =>
          match o with
          | OEq => option_map VBool (val_eq x y)
          | ONe => option_map (fun t => VBool (negb t)) (val_eq x y)
          | OAdd => match x, y with VStr s, VStr t => Some (VStr (s ++ t)) | _, _ => None end
          | _ => None
          end
      | _, _ => None
      end
  | ENot a => match eval r a with Some (VBool x) => Some (VBool (negb x)) | _ => None end
  | ESlice a lo hi =>
      match eval r a with
      | Some v =>
          match vlen v with
          | Some n =>
              let olo := match lo with None => Some (VInt 0) | Some e' => eval r e' end in
              let ohi := match hi with None => Some (VInt n) | Some e' => eval r e' end in
              match v, olo, ohi with
              | VStr s, Some (VInt l), Some (VInt h) => substr s l h
              | VSlice xs, Some (VInt l), Some (VInt h) => subslice xs l h
              | _, _, _ => None
              end
          | None => None
          end
      | None => None
      end
  | ECall1 f a => match eval r a with Some x => builtin1 f x | None => None end
  | ECall2 f a b => match eval r a, eval r b with Some x, Some y => builtin2 f x y | _, _ => None end
  end.

Fixpoint eval_list (r : env) (es : list expr) : option (list val) :=
  match es with
  | [] => Some []
  | e :: t => match eval r e, eval_list r t with Some v, Some vs => Some (v :: vs) | _, _ => None end
  end.

Inductive outcome :=
| ONormal (r : env) | OBreak (r : env) | OContinue (r : env)
| OReturn (vs : list val) | OPanic | OFuel.

(* `for i, x := range l`: the body is run once per element, index and element assigned first *)
Fixpoint range_loop (body : env -> outcome) (i x : string) (k : Z) (l : list val) (r : env) : outcome :=
  match l with
  | [] => ONormal r
  | v :: t =>
      match body (set x v (set i (VInt k) r)) with
      | ONormal r' | OContinue r' => range_loop body i x (k + 1)%Z t r'
      | OBreak r' => ONormal r'
      | o => o
      end
  end.

Fixpoint exec (fuel : nat) (s : stmt) (r : env) : outcome :=
  match fuel with
  | O => OFuel
  | S f =>
      match s with
      | SSkip => ONormal r
      | SAssign x e => match eval r e with Some v => ONormal (set x v r) | None => OPanic end
      | SSeq a b => match exec f a r with ONormal r' => exec f b r' | o => o end
      | SIf c a b =>
          match eval r c with
          | Some (VBool true) => exec f a r
          | Some (VBool false) => exec f b r
          | _ => OPanic
          end
      | SBlock a => match exec f a r with OBreak r' => ONormal r' | o => o end
      | SFor c post body =>
          match eval r c with
          | Some (VBool true) =>
              match exec f body r with
              | ONormal r' | OContinue r' =>
                  match exec f post r' with
                  | ONormal r'' => exec f (SFor c post body) r''
                  | o => o
                  end
              | OBreak r' => ONormal r'
              | o => o
              end
          | Some (VBool false) => ONormal r
          | _ => OPanic
          end
      | SRange i x e body =>
          match eval r e with
          | Some (VSlice l) => range_loop (exec f body) i x 0%Z l r
          | Some VNil => ONormal r
          | _ => OPanic
          end
      | SBreak => OBreak r
      | SContinue => OContinue r
      | SReturn es => match eval_list r es with Some vs => OReturn vs | None => OPanic end
      end
  end.

Fixpoint bind (ps : list string) (vs : list val) : env :=
  match ps, vs with
  | p :: ps', v :: vs' => (p, v) :: bind ps' vs'
  | _, _ => []
  end.

(* The frame of a call has one slot per parameter and per declared variable, so that [set]
   always updates in place and the frame keeps its shape.  A local variable's slot holds VNil
   until its declaration is executed; Go's compiler guarantees that it is not read before
   (declaration precedes use in every block), so the initial content is immaterial. *)
Definition frame (fn : func) (args : list val) : env :=
  (bind (f_params fn) args ++ map (fun x => (x, VNil)) (f_locals fn))%list.

(* calling a function: OReturn results | OPanic | OFuel | falling off the end (ONormal) *)
Definition call (fn : func) (args : list val) (fuel : nat) : outcome :=
  exec fuel (f_body fn) (frame fn args).
