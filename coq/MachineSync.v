(* MachineSync.v — failure atomicity (C11), adapter synchronisation (C10) and notification
   discipline (C15) of the management-API state machine, for every operation. *)
From Coq Require Import List String Bool Arith ZArith Lia Permutation.
Import ListNotations.
From Casbin Require Import Base BaseProofs Store StoreProofs Roles RolesProofs Priority PriorityProofs
  Machine MachineProofs MachineFrame.

(* ---------- C11: a failing call leaves memory untouched ---------- *)
Ltac crunch :=
  repeat match goal with
  | |- context [let '(_, _) := ?x in _] => destruct x eqn:?
  | |- context [if ?b then _ else _] => destruct b eqn:?
  | |- context [match ?x with _ => _ end] => destruct x eqn:?
  end; cbn [fst snd negb] in *.

Ltac by_persist :=
  match goal with
  | E : persist ?s ?c = (?s1, _, _) |- same_mem ?s ?s1 =>
      let P := fresh in pose proof (persist_mem s c) as P; rewrite E in P; exact P
  end.

Ltac fail_mem := intros; crunch; try discriminate; try apply same_mem_refl; try by_persist.

Lemma add_wo_fail d s pt r : snd (add_wo d s pt r) = RFalseErr -> same_mem s (fst (add_wo d s pt r)).
Proof. unfold add_wo. fail_mem. Qed.
Lemma add_many_wo_fail d s pt rs arr : snd (add_many_wo d s pt rs arr) = RFalseErr -> same_mem s (fst (add_many_wo d s pt rs arr)).
Proof. unfold add_many_wo. fail_mem. Qed.
Lemma remove_wo_fail d s pt r : snd (remove_wo d s pt r) = RFalseErr -> same_mem s (fst (remove_wo d s pt r)).
Proof. unfold remove_wo. fail_mem. Qed.
Lemma remove_many_wo_fail d s pt rs : snd (remove_many_wo d s pt rs) = RFalseErr -> same_mem s (fst (remove_many_wo d s pt rs)).
Proof. unfold remove_many_wo. fail_mem. Qed.
Lemma update_wo_fail d s pt o n : snd (update_wo d s pt o n) = RFalseErr -> same_mem s (fst (update_wo d s pt o n)).
Proof. unfold update_wo. fail_mem. Qed.
Lemma update_many_wo_fail d s pt os ns : snd (update_many_wo d s pt os ns) = RFalseErr -> same_mem s (fst (update_many_wo d s pt os ns)).
Proof. unfold update_many_wo. fail_mem. Qed.
Lemma remove_filtered_wo_fail d s pt fi fvs : snd (remove_filtered_wo d s pt fi fvs) = RFalseErr -> same_mem s (fst (remove_filtered_wo d s pt fi fvs)).
Proof. unfold remove_filtered_wo. fail_mem. Qed.

Lemma load_policy_fail cfg s : snd (load_policy cfg s) = RFalseErr -> same_mem s (fst (load_policy cfg s)).
Proof. unfold load_policy. intros; crunch; try discriminate; split; reflexivity. Qed.

Lemma load_policy_res cfg s : snd (load_policy cfg s) = RFalseErr \/ snd (load_policy cfg s) = ROk true.
Proof. unfold load_policy. crunch; auto. Qed.

Fixpoint no_update_filtered (op : mop) : Prop :=
  match op with MUpdateFiltered _ _ _ _ => False | MSelf op' => no_update_filtered op' | _ => True end.

Lemma notify_not_ok cfg s r ex upd : r <> ROk true -> notify cfg s r ex upd = s.
Proof. intros H. unfold notify. destruct r as [[|]| | |]; try reflexivity. congruence. Qed.

(* every failing call — at whichever adapter call the failure is injected, a LoadPolicy failing at
   any stored line, a rejected argument — returns with the rules and links of every type unchanged *)
Theorem step_wo_fail_unchanged cfg op : forall s nt, no_update_filtered op ->
  snd (step_wo cfg s op nt) = RFalseErr -> same_mem s (fst (step_wo cfg s op nt)).
Proof.
  induction op; intros s nt NU H; cbn [step_wo no_update_filtered] in *;
    try (destruct (def_of cfg pt) as [d|]; [|apply same_mem_refl]);
    try (destruct nt; cbn [fst snd] in *; [rewrite notify_not_ok by (rewrite H; discriminate)|]).
  all: try (apply add_wo_fail; exact H); try (apply add_many_wo_fail; exact H);
       try (apply remove_wo_fail; exact H); try (apply remove_many_wo_fail; exact H);
       try (apply update_wo_fail; exact H); try (apply update_many_wo_fail; exact H);
       try (apply remove_filtered_wo_fail; exact H).
  - contradiction.
  - apply IHop; assumption.
  - discriminate.
  - apply load_policy_fail. exact H.
  - apply save_policy_mem.
  - discriminate.
  - discriminate.
  - discriminate.
Qed.

(* under the guards the only error outcome is the clean one *)
Lemma links_update_ok d s pt a rs : good_g d -> exact_arity (a_arity d) rs -> snd (links_update d s pt a rs) = true.
Proof.
  intros Hg Ha. rewrite (proj2 (links_update_mem d s pt a rs)). destruct a.
  - destruct (build_incremental_add (a_arity d) rs (get_links s pt) Hg Ha) as [ls' [B _]]. rewrite B. reflexivity.
  - destruct (build_incremental_del (a_arity d) rs (get_links s pt) Hg Ha) as [ls' [B _]]. rewrite B. reflexivity.
Qed.

Ltac links_contra Hg Ha :=
  match goal with
  | H : links_update ?d ?x ?pt ?a ?rs = (_, ?b) |- _ =>
      let K := fresh in pose proof (links_update_ok d x pt a rs Hg Ha) as K; rewrite H in K; cbn [snd] in K;
      first [discriminate K | subst b; cbn [negb] in *; discriminate]
  end.

Lemma exact_sub count l rs : exact_arity count l -> (forall x, In x rs -> In x l) -> exact_arity count rs.
Proof. intros H S r Hr. apply H, S, Hr. Qed.

Section NoTrueErr.
Variables (cfg : mconf) (s : mstate) (pt : string) (d : adef).
Hypothesis M : MInv cfg s.
Hypothesis Hd : def_of cfg pt = Some d.

Lemma add_wo_nte r : rules_ok d [r] -> snd (add_wo d s pt r) <> RTrueErr.
Proof.
  intros [_ Ha]. unfold add_wo. crunch; try discriminate.
  links_contra (gdef_good cfg s pt d M Hd ltac:(assumption)) (Ha eq_refl).
Qed.
Lemma add_many_wo_nte rs arr : rules_ok d rs -> snd (add_many_wo d s pt rs arr) <> RTrueErr.
Proof.
  intros [_ Ha]. unfold add_many_wo. crunch; try discriminate.
  links_contra (gdef_good cfg s pt d M Hd ltac:(assumption)) (Ha eq_refl).
Qed.
Lemma remove_wo_nte r : rules_ok d [r] -> snd (remove_wo d s pt r) <> RTrueErr.
Proof.
  intros [_ Ha]. unfold remove_wo. crunch; try discriminate.
  links_contra (gdef_good cfg s pt d M Hd ltac:(assumption)) (Ha eq_refl).
Qed.
Lemma remove_many_wo_nte rs : rules_ok d rs -> snd (remove_many_wo d s pt rs) <> RTrueErr.
Proof.
  intros [_ Ha]. unfold remove_many_wo. crunch; try discriminate.
  links_contra (gdef_good cfg s pt d M Hd ltac:(assumption)) (Ha eq_refl).
Qed.
Lemma update_wo_nte o n : rules_ok d [o; n] -> snd (update_wo d s pt o n) <> RTrueErr.
Proof.
  intros [_ Ha]. unfold update_wo. crunch; try discriminate.
  all: assert (Hn : exact_arity (a_arity d) [n]) by (intros x [<-|[]]; apply (Ha eq_refl); right; left; reflexivity).
  all: assert (Ho : exact_arity (a_arity d) [o]) by (intros x [<-|[]]; apply (Ha eq_refl); left; reflexivity).
  all: first [links_contra (gdef_good cfg s pt d M Hd ltac:(assumption)) Hn
             |links_contra (gdef_good cfg s pt d M Hd ltac:(assumption)) Ho].
Qed.
Lemma update_many_wo_nte os ns : rules_ok d os -> rules_ok d ns -> snd (update_many_wo d s pt os ns) <> RTrueErr.
Proof.
  intros [_ Hao] [_ Han]. unfold update_many_wo. crunch; try discriminate.
  all: first [links_contra (gdef_good cfg s pt d M Hd ltac:(assumption)) (Han eq_refl)
             |links_contra (gdef_good cfg s pt d M Hd ltac:(assumption)) (Hao eq_refl)].
Qed.
Lemma remove_filtered_wo_nte fi fvs : in_range fi fvs (pol (get_store s pt)) -> snd (remove_filtered_wo d s pt fi fvs) <> RTrueErr.
Proof.
  intros G. unfold remove_filtered_wo. destruct fvs as [|fv fvs']; [discriminate|].
  pose proof (persist_mem s (ARemoveFiltered pt fi (fv :: fvs'))) as Pm.
  destruct (persist s (ARemoveFiltered pt fi (fv :: fvs'))) as [[s1 ok] old]. cbn [fst] in Pm.
  destruct ok; cbn [negb]; [|discriminate].
  assert (Es : get_store s1 pt = get_store s pt) by apply Pm. rewrite Es.
  destruct (remove_filtered_spec (get_store s pt) fi (fv :: fvs') (proj1 M pt) G) as (st' & res & eff & Er & _ & _ & Pe & _).
  rewrite Er. destruct res; cbn [negb]; [|discriminate].
  destruct (a_is_g d) eqn:Hg; [|discriminate].
  destruct (proj2 M pt d Hd Hg) as [Gg [Ex _]].
  assert (He : exact_arity (a_arity d) eff) by (intros x Hx; rewrite Pe in Hx; apply filter_In in Hx as [Hx _]; apply Ex; exact Hx).
  pose proof (links_update_ok d (with_store s1 pt st') pt false eff Gg He) as K.
  destruct (links_update d (with_store s1 pt st') pt false eff) as [s3 lok]. cbn [snd] in *. subst lok. discriminate.
Qed.
End NoTrueErr.

Theorem step_wo_no_true_err cfg op : forall s nt, MInv cfg s -> mop_ok cfg s op ->
  snd (step_wo cfg s op nt) <> RTrueErr.
Proof.
  induction op; intros s nt M G; cbn [step_wo mop_ok] in *;
    try (destruct (def_of cfg pt) as [d|] eqn:Hd; [|discriminate]);
    try (destruct nt; cbn [fst snd]).
  all: try (specialize (G d eq_refl)).
  all: try (apply (add_wo_nte cfg s pt d M Hd); exact G).
  all: try (apply (add_many_wo_nte cfg s pt d M Hd); exact G).
  all: try (apply (remove_wo_nte cfg s pt d M Hd); exact G).
  all: try (apply (remove_many_wo_nte cfg s pt d M Hd); exact G).
  all: try (apply (update_wo_nte cfg s pt d M Hd); apply G).
  all: try (apply (update_many_wo_nte cfg s pt d M Hd); apply G).
  all: try (apply (remove_filtered_wo_nte cfg s pt d M Hd); exact G).
  all: try contradiction.
  all: try (apply IHop; assumption).
  all: try (unfold clear_policy; cbn [snd]; discriminate).
  all: try (destruct (load_policy_res cfg s) as [E|E]; rewrite E; discriminate).
  all: try (unfold save_policy; crunch; discriminate).
  all: discriminate.
Qed.

(* ---------- C10: what is persisted is what is listed ---------- *)
Definition Sync (cfg : mconf) (s : mstate) : Prop :=
  (forall pt r, In (pt, r) (content (ad s)) -> def_of cfg pt <> None) /\
  (forall pt d r, def_of cfg pt = Some d -> (In (pt, r) (content (ad s)) <-> In r (pol (get_store s pt)))).

Lemma prule_eqb_eq a b : prule_eqb a b = true <-> a = b.
Proof.
  destruct a as [p1 r1], b as [p2 r2]. unfold prule_eqb. cbn [fst snd].
  rewrite andb_true_iff, String.eqb_eq, rule_eqb_eq. split; [intros [-> ->]; reflexivity|intros H; inversion H; auto].
Qed.
Lemma mem_prule_In x l : mem_prule x l = true <-> In x l.
Proof.
  unfold mem_prule. rewrite existsb_exists. split.
  - intros [y [Hy E]]. apply prule_eqb_eq in E. subst. exact Hy.
  - intros H. exists x. split; [exact H|apply prule_eqb_eq; reflexivity].
Qed.
Lemma c_add_In x c y : In y (c_add x c) <-> y = x \/ In y c.
Proof.
  unfold c_add. destruct (mem_prule x c) eqn:M.
  - apply mem_prule_In in M. split; [auto|intros [->|H]; auto].
  - rewrite in_app_iff. cbn [In]. split; [intros [H|[H|[]]]; auto|intros [->|H]; auto].
Qed.
Lemma c_remove_In x c y : In y (c_remove x c) <-> In y c /\ y <> x.
Proof.
  unfold c_remove. rewrite filter_In, negb_true_iff. split.
  - intros [H N]. split; [exact H|]. intros ->. assert (prule_eqb x x = true) by (apply prule_eqb_eq; reflexivity). congruence.
  - intros [H N]. split; [exact H|]. apply not_true_iff_false. intros E. apply prule_eqb_eq in E. congruence.
Qed.
Lemma fold_c_add_In pt rs : forall c y, In y (fold_left (fun c r => c_add (pt, r) c) rs c) <-> In y c \/ exists r, In r rs /\ y = (pt, r).
Proof.
  induction rs as [|r t IH]; intros c y; cbn [fold_left In].
  - split; [auto|intros [H|[r [[] _]]]; exact H].
  - rewrite IH, c_add_In. split.
    + intros [[->|H]|[r' [Hr E]]]; [right; exists r; auto|left; exact H|right; exists r'; auto].
    + intros [H|[r' [[<-|Hr] E]]]; [left; right; exact H|left; left; exact E|right; exists r'; auto].
Qed.
Lemma fold_c_remove_In pt rs : forall c y, In y (fold_left (fun c r => c_remove (pt, r) c) rs c) <-> In y c /\ ~ exists r, In r rs /\ y = (pt, r).
Proof.
  induction rs as [|r t IH]; intros c y; cbn [fold_left In].
  - split; [intros H; split; [exact H|intros [r [[] _]]]|tauto].
  - rewrite IH, c_remove_In. split.
    + intros [[H N] N2]. split; [exact H|]. intros [r' [[<-|Hr] E]]; [contradiction|]. apply N2. exists r'. auto.
    + intros [H N]. split; [split; [exact H|]|].
      * intros E. apply N. exists r. auto.
      * intros [r' [Hr E]]. apply N. exists r'. auto.
Qed.

Lemma adapter_call_content a call a' ok old : adapter_call a call = (a', ok, old) ->
  (ok = true -> content a' = fst (content_after call (content a))) /\ (ok = false -> content a' = content a).
Proof.
  unfold adapter_call. intros H. destruct (fail_in a) as [[|k]|].
  - inversion H; subst. cbn [content]. split; [discriminate|reflexivity].
  - destruct (content_after call (content a)) as [c o]. inversion H; subst. cbn [content fst]. split; [reflexivity|discriminate].
  - destruct (content_after call (content a)) as [c o]. inversion H; subst. cbn [content fst]. split; [reflexivity|discriminate].
Qed.

Lemma ad_links_update d s pt a rs : ad (fst (links_update d s pt a rs)) = ad s.
Proof. unfold links_update. destruct (build_incremental _ _ _ _) as [l ok]. reflexivity. Qed.

Lemma Sync_same cfg s s' : same_mem s s' -> content (ad s') = content (ad s) -> Sync cfg s -> Sync cfg s'.
Proof.
  intros [S _] E [K1 K2]. split; [intros pt r; rewrite E; apply K1|].
  intros pt d r Hd. rewrite E, S. apply K2; assumption.
Qed.

(* the generic step: in memory and in the adapter the rules R of type pt go and the rules A come *)
Lemma Sync_change cfg s s' pt d R A : Sync cfg s -> def_of cfg pt = Some d ->
  (forall x, In x (pol (get_store s' pt)) <-> (In x (pol (get_store s pt)) /\ ~ In x R) \/ In x A) ->
  (forall pt', pt' <> pt -> get_store s' pt' = get_store s pt') ->
  (forall pt' r, In (pt', r) (content (ad s')) <->
      (In (pt', r) (content (ad s)) /\ ~ (pt' = pt /\ In r R)) \/ (pt' = pt /\ In r A)) ->
  Sync cfg s'.
Proof.
  intros [K1 K2] Hd Hm Ho Hc. split.
  - intros pt' r H. apply Hc in H as [[H _]|[-> _]]; [apply (K1 _ _ H)|congruence].
  - intros pt' d' r Hd'. rewrite Hc. destruct (string_dec pt' pt) as [->|Hne].
    + rewrite Hm, (K2 pt d r Hd). intuition.
    + rewrite (Ho pt' Hne), (K2 pt' d' r Hd'). intuition.
Qed.
