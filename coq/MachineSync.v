(* MachineSync.v — failure atomicity (C11), adapter synchronisation (C10) and notification
   discipline (C15) of the management-API state machine, for every operation. *)
From Coq Require Import List String Bool Arith ZArith Lia Permutation.
Import ListNotations.
From Casbin Require Import Base BaseProofs Store StoreProofs Roles RolesProofs Priority PriorityProofs
  Machine MachineProofs MachineFrame.

(* ---------- C11: a failing call leaves memory untouched ---------- *)
Ltac crunch :=
  repeat match goal with
  | |- context [let '(_, _) := ?x in _] => destruct x eqn:?
  | |- context [if ?b then _ else _] => destruct b eqn:?
  | |- context [match ?x with _ => _ end] => destruct x eqn:?
  end; cbn [fst snd negb] in *.

Ltac by_persist :=
  match goal with
  | E : persist ?s ?c = (?s1, _, _) |- same_mem ?s ?s1 =>
      let P := fresh in pose proof (persist_mem s c) as P; rewrite E in P; exact P
  end.

Ltac fail_mem := intros; crunch; try discriminate; try apply same_mem_refl; try by_persist.

Lemma add_wo_fail d s pt r : snd (add_wo d s pt r) = RFalseErr -> same_mem s (fst (add_wo d s pt r)).
Proof. unfold add_wo. fail_mem. Qed.
Lemma add_many_wo_fail d s pt rs arr : snd (add_many_wo d s pt rs arr) = RFalseErr -> same_mem s (fst (add_many_wo d s pt rs arr)).
Proof. unfold add_many_wo. fail_mem. Qed.
Lemma remove_wo_fail d s pt r : snd (remove_wo d s pt r) = RFalseErr -> same_mem s (fst (remove_wo d s pt r)).
Proof. unfold remove_wo. fail_mem. Qed.
Lemma remove_many_wo_fail d s pt rs : snd (remove_many_wo d s pt rs) = RFalseErr -> same_mem s (fst (remove_many_wo d s pt rs)).
Proof. unfold remove_many_wo. fail_mem. Qed.
Lemma update_wo_fail d s pt o n : snd (update_wo d s pt o n) = RFalseErr -> same_mem s (fst (update_wo d s pt o n)).
Proof. unfold update_wo. fail_mem. Qed.
Lemma update_many_wo_fail d s pt os ns : snd (update_many_wo d s pt os ns) = RFalseErr -> same_mem s (fst (update_many_wo d s pt os ns)).
Proof. unfold update_many_wo. fail_mem. Qed.
Lemma remove_filtered_wo_fail d s pt fi fvs : snd (remove_filtered_wo d s pt fi fvs) = RFalseErr -> same_mem s (fst (remove_filtered_wo d s pt fi fvs)).
Proof. unfold remove_filtered_wo. fail_mem. Qed.

Lemma load_policy_fail cfg s : snd (load_policy cfg s) = RFalseErr -> same_mem s (fst (load_policy cfg s)).
Proof. unfold load_policy. intros; crunch; try discriminate; split; reflexivity. Qed.

Lemma load_policy_res cfg s : snd (load_policy cfg s) = RFalseErr \/ snd (load_policy cfg s) = ROk true.
Proof. unfold load_policy. crunch; auto. Qed.

Fixpoint no_update_filtered (op : mop) : Prop :=
  match op with MUpdateFiltered _ _ _ _ => False | MSelf op' => no_update_filtered op' | _ => True end.

Lemma notify_not_ok cfg s r ex upd : r <> ROk true -> notify cfg s r ex upd = s.
Proof. intros H. unfold notify. destruct r as [[|]| | |]; try reflexivity. congruence. Qed.

(* every failing call — at whichever adapter call the failure is injected, a LoadPolicy failing at
   any stored line, a rejected argument — returns with the rules and links of every type unchanged *)
Theorem step_wo_fail_unchanged cfg op : forall s nt, no_update_filtered op ->
  snd (step_wo cfg s op nt) = RFalseErr -> same_mem s (fst (step_wo cfg s op nt)).
Proof.
  induction op; intros s nt NU H; cbn [step_wo no_update_filtered] in *;
    try (destruct (def_of cfg pt) as [d|]; [|apply same_mem_refl]);
    try (destruct nt; cbn [fst snd] in *; [rewrite notify_not_ok by (rewrite H; discriminate)|]).
  all: try (apply add_wo_fail; exact H); try (apply add_many_wo_fail; exact H);
       try (apply remove_wo_fail; exact H); try (apply remove_many_wo_fail; exact H);
       try (apply update_wo_fail; exact H); try (apply update_many_wo_fail; exact H);
       try (apply remove_filtered_wo_fail; exact H).
  - contradiction.
  - apply IHop; assumption.
  - discriminate.
  - apply load_policy_fail. exact H.
  - apply save_policy_mem.
  - discriminate.
  - discriminate.
  - discriminate.
Qed.

(* under the guards the only error outcome is the clean one *)
Lemma links_update_ok d s pt a rs : good_g d -> exact_arity (a_arity d) rs -> snd (links_update d s pt a rs) = true.
Proof.
  intros Hg Ha. rewrite (proj2 (links_update_mem d s pt a rs)). destruct a.
  - destruct (build_incremental_add (a_arity d) rs (get_links s pt) Hg Ha) as [ls' [B _]]. rewrite B. reflexivity.
  - destruct (build_incremental_del (a_arity d) rs (get_links s pt) Hg Ha) as [ls' [B _]]. rewrite B. reflexivity.
Qed.

Ltac links_contra Hg Ha :=
  match goal with
  | H : links_update ?d ?x ?pt ?a ?rs = (_, ?b) |- _ =>
      let K := fresh in pose proof (links_update_ok d x pt a rs Hg Ha) as K; rewrite H in K; cbn [snd] in K;
      first [discriminate K | subst b; cbn [negb] in *; discriminate]
  end.

Lemma exact_sub count l rs : exact_arity count l -> (forall x, In x rs -> In x l) -> exact_arity count rs.
Proof. intros H S r Hr. apply H, S, Hr. Qed.

Section NoTrueErr.
Variables (cfg : mconf) (s : mstate) (pt : string) (d : adef).
Hypothesis M : MInv cfg s.
Hypothesis Hd : def_of cfg pt = Some d.

Lemma add_wo_nte r : rules_ok d [r] -> snd (add_wo d s pt r) <> RTrueErr.
Proof.
  intros [_ Ha]. unfold add_wo. crunch; try discriminate.
  links_contra (gdef_good cfg s pt d M Hd ltac:(assumption)) (Ha eq_refl).
Qed.
Lemma add_many_wo_nte rs arr : rules_ok d rs -> snd (add_many_wo d s pt rs arr) <> RTrueErr.
Proof.
  intros [_ Ha]. unfold add_many_wo. crunch; try discriminate.
  links_contra (gdef_good cfg s pt d M Hd ltac:(assumption)) (Ha eq_refl).
Qed.
Lemma remove_wo_nte r : rules_ok d [r] -> snd (remove_wo d s pt r) <> RTrueErr.
Proof.
  intros [_ Ha]. unfold remove_wo. crunch; try discriminate.
  links_contra (gdef_good cfg s pt d M Hd ltac:(assumption)) (Ha eq_refl).
Qed.
Lemma remove_many_wo_nte rs : rules_ok d rs -> snd (remove_many_wo d s pt rs) <> RTrueErr.
Proof.
  intros [_ Ha]. unfold remove_many_wo. crunch; try discriminate.
  links_contra (gdef_good cfg s pt d M Hd ltac:(assumption)) (Ha eq_refl).
Qed.
Lemma update_wo_nte o n : rules_ok d [o; n] -> snd (update_wo d s pt o n) <> RTrueErr.
Proof.
  intros [_ Ha]. unfold update_wo. crunch; try discriminate.
  all: assert (Hn : exact_arity (a_arity d) [n]) by (intros x [<-|[]]; apply (Ha eq_refl); right; left; reflexivity).
  all: assert (Ho : exact_arity (a_arity d) [o]) by (intros x [<-|[]]; apply (Ha eq_refl); left; reflexivity).
  all: first [links_contra (gdef_good cfg s pt d M Hd ltac:(assumption)) Hn
             |links_contra (gdef_good cfg s pt d M Hd ltac:(assumption)) Ho].
Qed.
Lemma update_many_wo_nte os ns : rules_ok d os -> rules_ok d ns -> snd (update_many_wo d s pt os ns) <> RTrueErr.
Proof.
  intros [_ Hao] [_ Han]. unfold update_many_wo. crunch; try discriminate.
  all: first [links_contra (gdef_good cfg s pt d M Hd ltac:(assumption)) (Han eq_refl)
             |links_contra (gdef_good cfg s pt d M Hd ltac:(assumption)) (Hao eq_refl)].
Qed.
Lemma remove_filtered_wo_nte fi fvs : in_range fi fvs (pol (get_store s pt)) -> snd (remove_filtered_wo d s pt fi fvs) <> RTrueErr.
Proof.
  intros G. unfold remove_filtered_wo. destruct fvs as [|fv fvs']; [discriminate|].
  pose proof (persist_mem s (ARemoveFiltered pt fi (fv :: fvs'))) as Pm.
  destruct (persist s (ARemoveFiltered pt fi (fv :: fvs'))) as [[s1 ok] old]. cbn [fst] in Pm.
  destruct ok; cbn [negb]; [|discriminate].
  assert (Es : get_store s1 pt = get_store s pt) by apply Pm. rewrite Es.
  destruct (remove_filtered_spec (get_store s pt) fi (fv :: fvs') (proj1 M pt) G) as (st' & res & eff & Er & _ & _ & Pe & _).
  rewrite Er. destruct res; cbn [negb]; [|discriminate].
  destruct (a_is_g d) eqn:Hg; [|discriminate].
  destruct (proj2 M pt d Hd Hg) as [Gg [Ex _]].
  assert (He : exact_arity (a_arity d) eff) by (intros x Hx; rewrite Pe in Hx; apply filter_In in Hx as [Hx _]; apply Ex; exact Hx).
  pose proof (links_update_ok d (with_store s1 pt st') pt false eff Gg He) as K.
  destruct (links_update d (with_store s1 pt st') pt false eff) as [s3 lok]. cbn [snd] in *. subst lok. discriminate.
Qed.
End NoTrueErr.

Theorem step_wo_no_true_err cfg op : forall s nt, MInv cfg s -> mop_ok cfg s op ->
  snd (step_wo cfg s op nt) <> RTrueErr.
Proof.
  induction op; intros s nt M G; cbn [step_wo mop_ok] in *;
    try (destruct (def_of cfg pt) as [d|] eqn:Hd; [|discriminate]);
    try (destruct nt; cbn [fst snd]).
  all: try (specialize (G d eq_refl)).
  all: try (apply (add_wo_nte cfg s pt d M Hd); exact G).
  all: try (apply (add_many_wo_nte cfg s pt d M Hd); exact G).
  all: try (apply (remove_wo_nte cfg s pt d M Hd); exact G).
  all: try (apply (remove_many_wo_nte cfg s pt d M Hd); exact G).
  all: try (apply (update_wo_nte cfg s pt d M Hd); apply G).
  all: try (apply (update_many_wo_nte cfg s pt d M Hd); apply G).
  all: try (apply (remove_filtered_wo_nte cfg s pt d M Hd); exact G).
  all: try contradiction.
  all: try (apply IHop; assumption).
  all: try (unfold clear_policy; cbn [snd]; discriminate).
  all: try (destruct (load_policy_res cfg s) as [E|E]; rewrite E; discriminate).
  all: try (unfold save_policy; crunch; discriminate).
  all: discriminate.
Qed.

(* ---------- C10: what is persisted is what is listed ---------- *)
Definition Sync (cfg : mconf) (s : mstate) : Prop :=
  (forall pt r, In (pt, r) (content (ad s)) -> def_of cfg pt <> None) /\
  (forall pt d r, def_of cfg pt = Some d -> (In (pt, r) (content (ad s)) <-> In r (pol (get_store s pt)))).

Lemma prule_eqb_eq a b : prule_eqb a b = true <-> a = b.
Proof.
  destruct a as [p1 r1], b as [p2 r2]. unfold prule_eqb. cbn [fst snd].
  rewrite andb_true_iff, String.eqb_eq, rule_eqb_eq. split; [intros [-> ->]; reflexivity|intros H; inversion H; auto].
Qed.
Lemma mem_prule_In x l : mem_prule x l = true <-> In x l.
Proof.
  unfold mem_prule. rewrite existsb_exists. split.
  - intros [y [Hy E]]. apply prule_eqb_eq in E. subst. exact Hy.
  - intros H. exists x. split; [exact H|apply prule_eqb_eq; reflexivity].
Qed.
Lemma c_add_In x c y : In y (c_add x c) <-> y = x \/ In y c.
Proof.
  unfold c_add. destruct (mem_prule x c) eqn:M.
  - apply mem_prule_In in M. split; [auto|intros [->|H]; auto].
  - rewrite in_app_iff. cbn [In]. split; [intros [H|[H|[]]]; auto|intros [->|H]; auto].
Qed.
Lemma c_remove_In x c y : In y (c_remove x c) <-> In y c /\ y <> x.
Proof.
  unfold c_remove. rewrite filter_In, negb_true_iff. split.
  - intros [H N]. split; [exact H|]. intros ->. assert (prule_eqb x x = true) by (apply prule_eqb_eq; reflexivity). congruence.
  - intros [H N]. split; [exact H|]. apply not_true_iff_false. intros E. apply prule_eqb_eq in E. congruence.
Qed.
Lemma fold_c_add_In pt rs : forall c y, In y (fold_left (fun c r => c_add (pt, r) c) rs c) <-> In y c \/ exists r, In r rs /\ y = (pt, r).
Proof.
  induction rs as [|r t IH]; intros c y; cbn [fold_left In].
  - split; [auto|intros [H|[r [[] _]]]; exact H].
  - rewrite IH, c_add_In. split.
    + intros [[->|H]|[r' [Hr E]]]; [right; exists r; auto|left; exact H|right; exists r'; auto].
    + intros [H|[r' [[<-|Hr] E]]]; [left; right; exact H|left; left; exact E|right; exists r'; auto].
Qed.
Lemma fold_c_remove_In pt rs : forall c y, In y (fold_left (fun c r => c_remove (pt, r) c) rs c) <-> In y c /\ ~ exists r, In r rs /\ y = (pt, r).
Proof.
  induction rs as [|r t IH]; intros c y; cbn [fold_left In].
  - split; [intros H; split; [exact H|intros [r [[] _]]]|tauto].
  - rewrite IH, c_remove_In. split.
    + intros [[H N] N2]. split; [exact H|]. intros [r' [[<-|Hr] E]]; [contradiction|]. apply N2. exists r'. auto.
    + intros [H N]. split; [split; [exact H|]|].
      * intros E. apply N. exists r. auto.
      * intros [r' [Hr E]]. apply N. exists r'. auto.
Qed.

Lemma adapter_call_content a call a' ok old : adapter_call a call = (a', ok, old) ->
  (ok = true -> content a' = fst (content_after call (content a))) /\ (ok = false -> content a' = content a).
Proof.
  unfold adapter_call. intros H. destruct (fail_in a) as [[|k]|].
  - inversion H; subst. cbn [content]. split; [discriminate|reflexivity].
  - destruct (content_after call (content a)) as [c o]. inversion H; subst. cbn [content fst]. split; [reflexivity|discriminate].
  - destruct (content_after call (content a)) as [c o]. inversion H; subst. cbn [content fst]. split; [reflexivity|discriminate].
Qed.

Lemma ad_links_update d s pt a rs : ad (fst (links_update d s pt a rs)) = ad s.
Proof. unfold links_update. destruct (build_incremental _ _ _ _) as [l ok]. reflexivity. Qed.

Lemma Sync_same cfg s s' : same_mem s s' -> content (ad s') = content (ad s) -> Sync cfg s -> Sync cfg s'.
Proof.
  intros [S _] E [K1 K2]. split; [intros pt r; rewrite E; apply K1|].
  intros pt d r Hd. rewrite E, S. apply (K2 pt d r Hd).
Qed.

(* the generic step: in memory and in the adapter the rules R of type pt go and the rules A come *)
Lemma Sync_change cfg s s' pt d R A : Sync cfg s -> def_of cfg pt = Some d ->
  (forall x, In x (pol (get_store s' pt)) <-> (In x (pol (get_store s pt)) /\ ~ In x R) \/ In x A) ->
  (forall pt', pt' <> pt -> get_store s' pt' = get_store s pt') ->
  (forall pt' r, In (pt', r) (content (ad s')) <->
      (In (pt', r) (content (ad s)) /\ ~ (pt' = pt /\ In r R)) \/ (pt' = pt /\ In r A)) ->
  Sync cfg s'.
Proof.
  intros [K1 K2] Hd Hm Ho Hc. split.
  - intros pt' r H. apply Hc in H as [[H _]|[-> _]]; [apply (K1 _ _ H)|congruence].
  - intros pt' d' r Hd'. rewrite Hc. destruct (string_dec pt' pt) as [->|Hne].
    + rewrite (Hm r), (K2 pt d r Hd). intuition.
    + rewrite (Ho pt' Hne), (K2 pt' d' r Hd'). intuition.
Qed.

Lemma Sync_finish cfg s s' pt d st' ls' R A :
  Sync cfg s -> def_of cfg pt = Some d -> mem_change s s' pt st' ls' ->
  (forall x, In x (pol st') <-> (In x (pol (get_store s pt)) /\ ~ In x R) \/ In x A) ->
  (forall pt' r, In (pt', r) (content (ad s')) <->
      (In (pt', r) (content (ad s)) /\ ~ (pt' = pt /\ In r R)) \/ (pt' = pt /\ In r A)) ->
  Sync cfg s'.
Proof.
  intros K Hd [S L] Hset Hc. apply (Sync_change cfg s s' pt d R A K Hd).
  - intros x. rewrite (S pt), String.eqb_refl. apply Hset.
  - intros pt' Hne. rewrite (S pt'). apply String.eqb_neq in Hne. rewrite Hne. reflexivity.
  - exact Hc.
Qed.

(* the final state of "persist, store, update links" and its adapter *)
Lemma ad_store_links d s a pt st' adding rs :
  ad (fst (links_update d (with_store (with_ad s a) pt st') pt adding rs)) = a.
Proof. rewrite ad_links_update. reflexivity. Qed.
Lemma ad_store_two_links d s a pt st' R A :
  ad (fst (links_update d (fst (links_update d (with_store (with_ad s a) pt st') pt false R)) pt true A)) = a.
Proof. rewrite !ad_links_update. reflexivity. Qed.

Ltac open_persist s call Hs a ok old Ea Cok Cfail Sm :=
  unfold persist; rewrite Hs;
  destruct (adapter_call (ad s) call) as [[a ok] old] eqn:Ea;
  destruct (adapter_call_content _ _ _ _ _ Ea) as [Cok Cfail];
  assert (Sm : same_mem s (with_ad s a)) by (split; reflexivity).

Section SyncOps.
Variables (cfg : mconf) (s : mstate) (pt : string) (d : adef).
Hypothesis M : MInv cfg s.
Hypothesis K : Sync cfg s.
Hypothesis Hd : def_of cfg pt = Some d.
Hypothesis Hs : autosave s = true.

Lemma add_wo_Sync r : rules_ok d [r] -> Sync cfg (fst (add_wo d s pt r)).
Proof.
  intros [W Ha]. unfold add_wo. destruct (has (get_store s pt) r) eqn:H; [exact K|].
  open_persist s (AAdd pt r) Hs a ok old Ea Cok Cfail Sm.
  destruct ok; cbn [negb].
  2:{ apply (Sync_same cfg s (with_ad s a) Sm); [apply Cfail; reflexivity|exact K]. }
  set (st' := add (a_prio d) (get_store s pt) r).
  assert (Hset : forall x, In x (pol st') <-> (In x (pol (get_store s pt)) /\ ~ In x []) \/ In x [r]).
  { intros x. unfold st'. rewrite add_pol, spec_insert_In. cbn [In]. intuition. }
  assert (Hc : forall pt' r0, In (pt', r0) (content a) <->
     (In (pt', r0) (content (ad s)) /\ ~ (pt' = pt /\ In r0 [])) \/ (pt' = pt /\ In r0 [r])).
  { intros pt' r0. rewrite (Cok eq_refl). cbn [content_after fst]. rewrite c_add_In. cbn [In]. split.
    - intros [E|H0]; [inversion E; subst; right; auto|left; split; [exact H0|tauto]].
    - intros [[H0 _]|[-> [<-|[]]]]; auto. }
  destruct (a_is_g d) eqn:Hg.
  - pose proof (store_then_links d s (with_ad s a) pt st' true [r] Sm) as Mc.
    pose proof (ad_store_links d s a pt st' true [r]) as Ead.
    destruct (links_update d _ pt true [r]) as [s3 lok]. cbn [fst] in *.
    apply (Sync_finish cfg s s3 pt d st' _ [] [r] K Hd Mc Hset). rewrite Ead. exact Hc.
  - cbn [fst]. apply (Sync_finish cfg s _ pt d st' _ [] [r] K Hd (store_only s (with_ad s a) pt st' Sm) Hset). exact Hc.
Qed.

Lemma add_many_wo_Sync rs arr : rules_ok d rs -> Sync cfg (fst (add_many_wo d s pt rs arr)).
Proof.
  intros [W Ha]. unfold add_many_wo. destruct (negb arr && has_any (get_store s pt) rs); [exact K|].
  open_persist s (AAddMany pt rs) Hs a ok old Ea Cok Cfail Sm.
  destruct ok; cbn [negb].
  2:{ apply (Sync_same cfg s (with_ad s a) Sm); [apply Cfail; reflexivity|exact K]. }
  pose proof (proj1 M pt) as Ist.
  destruct (add_many_spec (a_prio d) rs (get_store s pt) Ist W) as [_ [Pp _]].
  set (st' := fst (add_many (a_prio d) (get_store s pt) rs)) in *.
  assert (Hset : forall x, In x (pol st') <-> (In x (pol (get_store s pt)) /\ ~ In x []) \/ In x rs).
  { intros x. rewrite Pp, spec_add_many_In. cbn [In]. tauto. }
  assert (Hc : forall pt' r0, In (pt', r0) (content a) <->
     (In (pt', r0) (content (ad s)) /\ ~ (pt' = pt /\ In r0 [])) \/ (pt' = pt /\ In r0 rs)).
  { intros pt' r0. rewrite (Cok eq_refl). cbn [content_after fst]. rewrite fold_c_add_In. cbn [In]. split.
    - intros [H0|[r' [Hr E]]]; [left; split; [exact H0|tauto]|inversion E; subst; right; auto].
    - intros [[H0 _]|[-> Hr]]; [left; exact H0|right; exists r0; auto]. }
  destruct (a_is_g d) eqn:Hg.
  - pose proof (store_then_links d s (with_ad s a) pt st' true rs Sm) as Mc.
    pose proof (ad_store_links d s a pt st' true rs) as Ead.
    destruct (links_update d _ pt true rs) as [s3 lok]. cbn [fst] in *.
    apply (Sync_finish cfg s s3 pt d st' _ [] rs K Hd Mc Hset). rewrite Ead. exact Hc.
  - cbn [fst]. apply (Sync_finish cfg s _ pt d st' _ [] rs K Hd (store_only s (with_ad s a) pt st' Sm) Hset). exact Hc.
Qed.

Lemma remove_wo_Sync r : rules_ok d [r] -> Sync cfg (fst (remove_wo d s pt r)).
Proof.
  intros [W Ha]. unfold remove_wo.
  open_persist s (ARemove pt r) Hs a ok old Ea Cok Cfail Sm.
  destruct ok; cbn [negb].
  2:{ apply (Sync_same cfg s (with_ad s a) Sm); [apply Cfail; reflexivity|exact K]. }
  inversion W as [|? ? Wr _]; subst.
  rewrite get_store_with_ad. pose proof (proj1 M pt) as Ist.
  destruct (remove_spec (get_store s pt) r Ist Wr) as [_ [Pp Pb]].
  destruct (remove (get_store s pt) r) as [st' removed]. cbn [fst snd] in *.
  assert (Hset : forall x, In x (pol st') <-> (In x (pol (get_store s pt)) /\ ~ In x [r]) \/ In x []).
  { intros x. rewrite Pp, (remove_first_In r _ x (Inv_NoDup _ Ist)). cbn [In]. intuition. }
  assert (Hc : forall pt' r0, In (pt', r0) (content a) <->
     (In (pt', r0) (content (ad s)) /\ ~ (pt' = pt /\ In r0 [r])) \/ (pt' = pt /\ In r0 [])).
  { intros pt' r0. rewrite (Cok eq_refl). cbn [content_after fst]. rewrite c_remove_In. cbn [In]. split.
    - intros [H0 N]. left. split; [exact H0|]. intros [-> [<-|[]]]. apply N. reflexivity.
    - intros [[H0 N]|[_ []]]. split; [exact H0|]. intros E. inversion E; subst. apply N. auto. }
  destruct removed; cbn [negb].
  - destruct (a_is_g d) eqn:Hg.
    + pose proof (store_then_links d s (with_ad s a) pt st' false [r] Sm) as Mc.
      pose proof (ad_store_links d s a pt st' false [r]) as Ead.
      destruct (links_update d _ pt false [r]) as [s3 lok]. cbn [fst] in *.
      apply (Sync_finish cfg s s3 pt d st' _ [r] [] K Hd Mc Hset). rewrite Ead. exact Hc.
    + cbn [fst]. apply (Sync_finish cfg s _ pt d st' _ [r] [] K Hd (store_only s (with_ad s a) pt st' Sm) Hset). exact Hc.
  - (* the rule was not listed: nothing to remove on either side *)
    cbn [fst]. symmetry in Pb. apply not_true_iff_false in Pb.
    apply (Sync_change cfg s (with_ad s a) pt d [r] [] K Hd).
    + intros x. rewrite get_store_with_ad. cbn [In]. split.
      * intros H. left. split; [exact H|]. intros [<-|[]]. apply Pb, mem_rule_In, H.
      * intros [[H _]|[]]. exact H.
    + intros pt' _. reflexivity.
    + exact Hc.
Qed.

Lemma remove_many_wo_Sync rs : rules_ok d rs -> Sync cfg (fst (remove_many_wo d s pt rs)).
Proof.
  intros [W Ha]. unfold remove_many_wo. destruct (has_any (get_store s pt) rs) eqn:Hh; cbn [negb]; [|exact K].
  open_persist s (ARemoveMany pt rs) Hs a ok old Ea Cok Cfail Sm.
  destruct ok; cbn [negb].
  2:{ apply (Sync_same cfg s (with_ad s a) Sm); [apply Cfail; reflexivity|exact K]. }
  pose proof (proj1 M pt) as Ist.
  destruct (remove_many_spec rs (get_store s pt) Ist W) as [_ [Pp Pa]].
  destruct (remove_many (get_store s pt) rs) as [st' aff]. cbn [fst snd] in *.
  assert (Hset : forall x, In x (pol st') <-> (In x (pol (get_store s pt)) /\ ~ In x rs) \/ In x []).
  { intros x. rewrite Pp, (spec_remove_many_In rs _ x (Inv_NoDup _ Ist)). cbn [In]. tauto. }
  assert (Hc : forall pt' r0, In (pt', r0) (content a) <->
     (In (pt', r0) (content (ad s)) /\ ~ (pt' = pt /\ In r0 rs)) \/ (pt' = pt /\ In r0 [])).
  { intros pt' r0. rewrite (Cok eq_refl). cbn [content_after fst]. rewrite fold_c_remove_In. cbn [In]. split.
    - intros [H0 N]. left. split; [exact H0|]. intros [-> Hr]. apply N. exists r0. auto.
    - intros [[H0 N]|[_ []]]. split; [exact H0|]. intros [r' [Hr E]]. inversion E; subst. apply N. auto. }
  destruct aff as [|a0 aff'].
  - (* impossible after the HasPolicies check *)
    exfalso. rewrite (has_any_mem _ rs Ist W) in Hh.
    apply (spec_remove_many_aff rs _ Hh W (Inv_NoDup _ Ist)). symmetry. exact Pa.
  - destruct (a_is_g d) eqn:Hg.
    + pose proof (store_then_links d s (with_ad s a) pt st' false rs Sm) as Mc.
      pose proof (ad_store_links d s a pt st' false rs) as Ead.
      destruct (links_update d _ pt false rs) as [s3 lok]. cbn [fst] in *.
      apply (Sync_finish cfg s s3 pt d st' _ rs [] K Hd Mc Hset). rewrite Ead. exact Hc.
    + cbn [fst]. apply (Sync_finish cfg s _ pt d st' _ rs [] K Hd (store_only s (with_ad s a) pt st' Sm) Hset). exact Hc.
Qed.
Lemma c_replace_In o n c y : In y (c_replace o n c) <-> (In y c /\ y <> o) \/ (y = n /\ In o c).
Proof.
  unfold c_replace. rewrite in_map_iff. split.
  - intros [x [E Hx]]. destruct (prule_eqb o x) eqn:Eo.
    + apply prule_eqb_eq in Eo. subst x. right. auto.
    + left. subst y. split; [exact Hx|]. intros ->. assert (prule_eqb o o = true) by (apply prule_eqb_eq; reflexivity). congruence.
  - intros [[Hy N]|[-> Ho]].
    + exists y. split; [|exact Hy]. destruct (prule_eqb o y) eqn:Eo; [apply prule_eqb_eq in Eo; congruence|reflexivity].
    + exists o. split; [|exact Ho]. assert (E : prule_eqb o o = true) by (apply prule_eqb_eq; reflexivity). rewrite E. reflexivity.
Qed.

(* UpdatePolicy on the stored content when the new rule is not stored *)
Lemma c_update_In pt0 o n c y : ~ In (pt0, n) c ->
  (In y (c_update pt0 o n c) <-> (In y c /\ ~ (In (pt0, o) c /\ y = (pt0, o))) \/ (In (pt0, o) c /\ y = (pt0, n))).
Proof.
  intros Nn. unfold c_update. destruct (mem_prule (pt0, o) c) eqn:Mo.
  - apply mem_prule_In in Mo. destruct (mem_prule (pt0, n) c) eqn:Mn; [apply mem_prule_In in Mn; contradiction|].
    rewrite c_replace_In. split.
    + intros [[Hy N]|[-> _]]; [left; split; [exact Hy|intros [_ E]; contradiction]|right; auto].
    + intros [[Hy N]|[_ ->]]; [left; split; [exact Hy|intros E; apply N; auto]|right; auto].
  - assert (No : ~ In (pt0, o) c) by (intros H; apply mem_prule_In in H; congruence).
    split; [intros H; left; split; [exact H|tauto]|intros [[H _]|[H _]]; [exact H|contradiction]].
Qed.

Lemma update_wo_Sync o n : rules_ok d [o; n] -> ~ In n (pol (get_store s pt)) -> Sync cfg (fst (update_wo d s pt o n)).
Proof.
  intros [W Ha] Nn. unfold update_wo.
  open_persist s (AUpdate pt o n) Hs a ok old Ea Cok Cfail Sm.
  destruct ok; cbn [negb].
  2:{ apply (Sync_same cfg s (with_ad s a) Sm); [apply Cfail; reflexivity|exact K]. }
  inversion W as [|? ? Wo W']; subst. inversion W' as [|? ? Wn _]; subst.
  rewrite get_store_with_ad. pose proof (proj1 M pt) as Ist.
  destruct (update_spec (get_store s pt) o n Ist Wo Wn Nn) as [_ [Pp Pb]].
  destruct (update (get_store s pt) o n) as [st' updated]. cbn [fst snd] in *.
  assert (Ncn : ~ In (pt, n) (content (ad s))) by (intros H; apply Nn; apply (proj2 K pt d n Hd); exact H).
  assert (Hco : In (pt, o) (content (ad s)) <-> In o (pol (get_store s pt))) by (apply (proj2 K pt d o Hd)).
  destruct updated; cbn [negb].
  - symmetry in Pb. apply mem_rule_In in Pb.
    assert (Hset : forall x, In x (pol st') <-> (In x (pol (get_store s pt)) /\ ~ In x [o]) \/ In x [n]).
    { intros x. rewrite Pp, (replace_first_In_iff o n _ x (Inv_NoDup _ Ist) Pb Nn). cbn [In]. intuition. }
    assert (Hc : forall pt' r0, In (pt', r0) (content a) <->
       (In (pt', r0) (content (ad s)) /\ ~ (pt' = pt /\ In r0 [o])) \/ (pt' = pt /\ In r0 [n])).
    { intros pt' r0. rewrite (Cok eq_refl). cbn [content_after fst]. rewrite (c_update_In pt o n _ _ Ncn). cbn [In]. split.
      - intros [[H0 N]|[Ho E]]; [|inversion E; subst; right; auto].
        left. split; [exact H0|]. intros [-> [<-|[]]]. apply N. split; [apply Hco; exact Pb|reflexivity].
      - intros [[H0 N]|[-> [<-|[]]]]; [|right; split; [apply Hco; exact Pb|reflexivity]].
        left. split; [exact H0|]. intros [_ E]. inversion E; subst. apply N. auto. }
    destruct (a_is_g d) eqn:Hg.
    + pose proof (store_then_two_links d s (with_ad s a) pt st' [o] [n] Sm) as Mc.
      pose proof (ad_store_two_links d s a pt st' [o] [n]) as Ead.
      pose proof (ad_store_links d s a pt st' false [o]) as Ead1.
      pose proof (store_then_links d s (with_ad s a) pt st' false [o] Sm) as Mc1.
      destruct (links_update d (with_store (with_ad s a) pt st') pt false [o]) as [s3 lok1]. cbn [fst] in *.
      destruct lok1; cbn [negb].
      * destruct (links_update d s3 pt true [n]) as [s4 lok2]. cbn [fst] in *.
        apply (Sync_finish cfg s s4 pt d st' _ [o] [n] K Hd Mc Hset). rewrite Ead. exact Hc.
      * cbn [fst]. apply (Sync_finish cfg s s3 pt d st' _ [o] [n] K Hd Mc1 Hset). rewrite Ead1. exact Hc.
    + cbn [fst]. apply (Sync_finish cfg s _ pt d st' _ [o] [n] K Hd (store_only s (with_ad s a) pt st' Sm) Hset). exact Hc.
  - (* the old rule is not listed: nothing happens on either side *)
    cbn [fst]. symmetry in Pb. apply not_true_iff_false in Pb.
    assert (No : ~ In (pt, o) (content (ad s))) by (intros H; apply Pb, mem_rule_In, Hco, H).
    apply (Sync_change cfg s (with_ad s a) pt d [] [] K Hd).
    + intros x. rewrite get_store_with_ad. cbn [In]. tauto.
    + intros pt' _. reflexivity.
    + intros pt' r0. cbn [with_ad ad]. rewrite (Cok eq_refl). cbn [content_after fst]. rewrite (c_update_In pt o n _ _ Ncn). cbn [In]. tauto.
Qed.

Lemma remove_filtered_wo_Sync fi fvs : in_range fi fvs (pol (get_store s pt)) -> Sync cfg (fst (remove_filtered_wo d s pt fi fvs)).
Proof.
  intros G. unfold remove_filtered_wo. destruct fvs as [|fv fvs']; [exact K|].
  open_persist s (ARemoveFiltered pt fi (fv :: fvs')) Hs a ok old Ea Cok Cfail Sm.
  destruct ok; cbn [negb].
  2:{ apply (Sync_same cfg s (with_ad s a) Sm); [apply Cfail; reflexivity|exact K]. }
  rewrite get_store_with_ad. pose proof (proj1 M pt) as Ist.
  destruct (remove_filtered_spec (get_store s pt) fi (fv :: fvs') Ist G) as (st' & res & eff & Er & _ & Pp & Pe & Pr).
  rewrite Er.
  set (R := filter (matches_spec fi (fv :: fvs')) (pol (get_store s pt))).
  assert (Hset : forall x, In x (pol st') <-> (In x (pol (get_store s pt)) /\ ~ In x R) \/ In x []).
  { intros x. rewrite Pp. unfold R. rewrite !filter_In. cbn [In]. split.
    - intros [Hx Hm]. left. split; [exact Hx|]. intros [_ Hm2]. rewrite Hm2 in Hm. discriminate.
    - intros [[Hx Hn]|[]]. split; [exact Hx|]. destruct (matches_spec fi (fv :: fvs') x) eqn:Em; [exfalso; apply Hn; auto|reflexivity]. }
  assert (Hc : forall pt' r0, In (pt', r0) (content a) <->
     (In (pt', r0) (content (ad s)) /\ ~ (pt' = pt /\ In r0 R)) \/ (pt' = pt /\ In r0 [])).
  { intros pt' r0. rewrite (Cok eq_refl). cbn [content_after fst]. rewrite filter_In. unfold c_matches. cbn [fst snd In].
    unfold R. rewrite filter_In. split.
    - intros [H0 N]. left. split; [exact H0|]. intros [-> [_ Hm]]. rewrite String.eqb_refl, Hm in N. discriminate.
    - intros [[H0 N]|[_ []]]. split; [exact H0|]. apply negb_true_iff. apply not_true_iff_false. intros E.
      apply andb_true_iff in E as [E1 E2]. apply String.eqb_eq in E1. subst pt'. apply N. split; [reflexivity|].
      split; [apply (proj2 K pt d r0 Hd); exact H0|exact E2]. }
  destruct res; cbn [negb].
  - destruct (a_is_g d) eqn:Hg.
    + pose proof (store_then_links d s (with_ad s a) pt st' false eff Sm) as Mc.
      pose proof (ad_store_links d s a pt st' false eff) as Ead.
      destruct (links_update d _ pt false eff) as [s3 lok]. cbn [fst] in *.
      apply (Sync_finish cfg s s3 pt d st' _ R [] K Hd Mc Hset). rewrite Ead. exact Hc.
    + cbn [fst]. apply (Sync_finish cfg s _ pt d st' _ R [] K Hd (store_only s (with_ad s a) pt st' Sm) Hset). exact Hc.
  - cbn [fst]. apply (Sync_finish cfg s _ pt d st' _ R [] K Hd (store_only s (with_ad s a) pt st' Sm) Hset). exact Hc.
Qed.
Lemma spec_update_many_Some os : forall ns l, NoDup l -> NoDup os -> NoDup ns ->
  (forall n, In n ns -> ~ In n l) -> (forall n, In n ns -> ~ In n os) -> List.length os = List.length ns ->
  ((exists l', spec_update_many l os ns = Some l') <-> (forall o, In o os -> In o l)).
Proof.
  induction os as [|o os' IH]; intros ns l ND NDo NDn Hf Hdj0 Hlen; destruct ns as [|n ns']; cbn [List.length] in Hlen; try discriminate.
  - cbn [spec_update_many]. split; [intros _ o []|intros _; eauto].
  - cbn [spec_update_many]. inversion NDo as [|? ? No NDo']; subst. inversion NDn as [|? ? Nn NDn']; subst.
    assert (Nl : ~ In n l) by (apply Hf; left; reflexivity).
    destruct (mem_rule o l) eqn:Mo.
    + apply mem_rule_In in Mo.
      assert (ND1 : NoDup (replace_first o n l)) by (apply replace_first_NoDup; assumption).
      rewrite (IH ns' (replace_first o n l) ND1 NDo' NDn').
      * split.
        -- intros H x [<-|Hx]; [exact Mo|]. specialize (H x Hx).
           apply (replace_first_In_iff o n l x ND Mo Nl) in H as [[H _]| ->]; [exact H|].
           exfalso. apply (Hdj0 n (or_introl eq_refl)). right. exact Hx.
        -- intros H x Hx. apply (replace_first_In_iff o n l x ND Mo Nl). left. split; [apply H; right; exact Hx|].
           intros ->. contradiction.
      * intros y Hy Hin. apply (replace_first_In_iff o n l y ND Mo Nl) in Hin as [[Hin _]| ->]; [apply (Hf y (or_intror Hy)); exact Hin|contradiction].
      * intros y Hy Hin. apply (Hdj0 y (or_intror Hy)). right. exact Hin.
      * lia.
    + split; [intros [l' E]; discriminate|]. intros H. exfalso.
      assert (In o l) by (apply H; left; reflexivity). apply mem_rule_In in H0. congruence.
Qed.

Lemma fold_c_update_In pt0 os : forall ns c y, NoDup os -> NoDup ns ->
  (forall o, In o os -> In (pt0, o) c) -> (forall n, In n ns -> ~ In (pt0, n) c) ->
  (forall n, In n ns -> ~ In n os) -> List.length os = List.length ns ->
  (In y (fold_left (fun c on => c_update pt0 (fst on) (snd on) c) (combine os ns) c) <->
   (In y c /\ ~ (fst y = pt0 /\ In (snd y) os)) \/ (fst y = pt0 /\ In (snd y) ns)).
Proof.
  induction os as [|o os' IH]; intros ns c y NDo NDn Ho Hn Hdj0 Hlen; destruct ns as [|n ns']; cbn [List.length] in Hlen; try discriminate.
  - cbn [combine fold_left In]. tauto.
  - cbn [combine fold_left fst snd]. inversion NDo as [|? ? No NDo']; subst. inversion NDn as [|? ? Nn NDn']; subst.
    assert (Nc : ~ In (pt0, n) c) by (apply Hn; left; reflexivity).
    assert (Oc : In (pt0, o) c) by (apply Ho; left; reflexivity).
    rewrite (IH ns' (c_update pt0 o n c) y NDo' NDn').
    + rewrite (c_update_In pt0 o n c y Nc). cbn [In]. destruct y as [py ry]. cbn [fst snd]. split.
      * intros [[[[Hy N]|[_ E]] N2]|[E Hr]].
        -- left. split; [exact Hy|]. intros [-> [<-|Hr]]; [apply N; auto|apply N2; auto].
        -- inversion E; subst. right. auto.
        -- right. auto.
      * intros [[Hy N]|[-> [<-|Hr]]].
        -- left. split; [left; split; [exact Hy|]|].
           ++ intros [_ E]. inversion E; subst. apply N. auto.
           ++ intros [-> Hr]. apply N. auto.
        -- left. split; [right; auto|]. intros [_ Hr]. apply (Hdj0 n (or_introl eq_refl)). right. exact Hr.
        -- right. auto.
    + intros x Hx. apply (c_update_In pt0 o n c (pt0, x) Nc). left. split; [apply Ho; right; exact Hx|].
      intros [_ E]. inversion E; subst. contradiction.
    + intros x Hx Hin. apply (c_update_In pt0 o n c (pt0, x) Nc) in Hin as [[Hin _]|[_ E]].
      * apply (Hn x (or_intror Hx)). exact Hin.
      * inversion E; subst. contradiction.
    + intros x Hx Hin. apply (Hdj0 x (or_intror Hx)). right. exact Hin.
    + lia.
Qed.

Lemma update_many_wo_Sync os ns : rules_ok d os -> rules_ok d ns -> NoDup os -> NoDup ns ->
  (forall n, In n ns -> ~ In n (pol (get_store s pt))) -> (forall n, In n ns -> ~ In n os) ->
  Sync cfg (fst (update_many_wo d s pt os ns)).
Proof.
  intros [Wo Hao] [Wn Han] NDo NDn Hf Hdj. unfold update_many_wo.
  destruct (Nat.eqb (List.length os) (List.length ns)) eqn:El; cbn [negb]; [|exact K]. apply Nat.eqb_eq in El.
  open_persist s (AUpdateMany pt os ns) Hs a ok old Ea Cok Cfail Sm.
  destruct ok; cbn [negb].
  2:{ apply (Sync_same cfg s (with_ad s a) Sm); [apply Cfail; reflexivity|exact K]. }
  rewrite get_store_with_ad. pose proof (proj1 M pt) as Ist.
  destruct (update_many_spec (get_store s pt) os ns Ist Wo Wn NDn Hf Hdj) as [_ Hs'].
  destruct (update_many (get_store s pt) os ns) as [st' updated]. cbn [fst snd] in *.
  pose proof (spec_update_many_Some os ns _ (Inv_NoDup _ Ist) NDo NDn Hf Hdj El) as Hsome.
  assert (Hfc : forall n, In n ns -> ~ In (pt, n) (content (ad s))) by (intros n Hn H; apply (Hf n Hn); apply (proj2 K pt d n Hd); exact H).
  destruct (spec_update_many (pol (get_store s pt)) os ns) as [l'|] eqn:Esp; destruct Hs' as [Hb Hp]; subst updated; cbn [negb].
  - assert (Hall : forall o, In o os -> In o (pol (get_store s pt))) by (apply Hsome; eauto).
    assert (Hallc : forall o, In o os -> In (pt, o) (content (ad s))) by (intros o Ho; apply (proj2 K pt d o Hd); apply Hall; exact Ho).
    assert (Hset : forall x, In x (pol st') <-> (In x (pol (get_store s pt)) /\ ~ In x os) \/ In x ns).
    { intros x. rewrite Hp. apply (spec_update_many_In os ns _ l' x (Inv_NoDup _ Ist) NDn Hf Hdj Esp El). }
    assert (Hc : forall pt' r0, In (pt', r0) (content a) <->
       (In (pt', r0) (content (ad s)) /\ ~ (pt' = pt /\ In r0 os)) \/ (pt' = pt /\ In r0 ns)).
    { intros pt' r0. rewrite (Cok eq_refl). cbn [content_after].
      assert (Efa : forallb (fun o => mem_prule (pt, o) (content (ad s))) os = true).
      { apply forallb_forall. intros o Ho. apply mem_prule_In. apply Hallc. exact Ho. }
      rewrite Efa. cbn [fst].
      rewrite (fold_c_update_In pt os ns _ (pt', r0) NDo NDn Hallc Hfc Hdj El). cbn [fst snd]. reflexivity. }
    destruct (a_is_g d) eqn:Hg.
    + pose proof (store_then_two_links d s (with_ad s a) pt st' os ns Sm) as Mc.
      pose proof (ad_store_two_links d s a pt st' os ns) as Ead.
      pose proof (ad_store_links d s a pt st' false os) as Ead1.
      pose proof (store_then_links d s (with_ad s a) pt st' false os Sm) as Mc1.
      destruct (links_update d (with_store (with_ad s a) pt st') pt false os) as [s3 lok1]. cbn [fst] in *.
      destruct lok1; cbn [negb].
      * destruct (links_update d s3 pt true ns) as [s4 lok2]. cbn [fst] in *.
        apply (Sync_finish cfg s s4 pt d st' _ os ns K Hd Mc Hset). rewrite Ead. exact Hc.
      * cbn [fst]. apply (Sync_finish cfg s s3 pt d st' _ os ns K Hd Mc1 Hset). rewrite Ead1. exact Hc.
    + cbn [fst]. apply (Sync_finish cfg s _ pt d st' _ os ns K Hd (store_only s (with_ad s a) pt st' Sm) Hset). exact Hc.
  - (* some old rule is not listed: the store rolled back, the (atomic) adapter refused too *)
    cbn [fst].
    assert (Hnot : ~ forall o, In o os -> In o (pol (get_store s pt))) by (intros H; apply Hsome in H as [l' E]; discriminate).
    assert (Efa : forallb (fun o => mem_prule (pt, o) (content (ad s))) os = false).
    { apply not_true_iff_false. intros E. apply Hnot. intros o Ho. rewrite forallb_forall in E.
      apply (proj2 K pt d o Hd). apply mem_prule_In. apply E. exact Ho. }
    apply (Sync_finish cfg s _ pt d st' _ [] [] K Hd (store_only s (with_ad s a) pt st' Sm)).
    + intros x. rewrite Hp. cbn [In]. tauto.
    + intros pt' r0. cbn [with_store with_ad ad]. rewrite (Cok eq_refl). cbn [content_after]. rewrite Efa. cbn [fst In]. tauto.
Qed.
End SyncOps.

(* ---------- SavePolicy establishes, LoadPolicy preserves the synchronisation ---------- *)
Lemma lookup_not_None {A} k (m : smap A) : lookup k m <> None <-> In k (map fst m).
Proof.
  induction m as [|[k' v] t IH]; cbn [lookup map fst In]; [tauto|].
  destruct (String.eqb k k') eqn:E.
  - apply String.eqb_eq in E. subst. split; [auto|discriminate].
  - rewrite IH. apply String.eqb_neq in E. split; [auto|intros [H|H]; [congruence|exact H]].
Qed.

Lemma all_prules_In cfg s pt r : In (pt, r) (all_prules cfg s) <-> def_of cfg pt <> None /\ In r (pol (get_store s pt)).
Proof.
  unfold all_prules, def_of. rewrite in_flat_map, lookup_not_None. split.
  - intros [[k d] [Hin H]]. cbn [fst] in H. apply in_map_iff in H as [r' [E Hr]]. inversion E; subst.
    split; [apply in_map_iff; exists (pt, d); auto|exact Hr].
  - intros [Hk Hr]. apply in_map_iff in Hk as [[k d] [E Hin]]. cbn [fst] in E. subst k.
    exists (pt, d). split; [exact Hin|]. cbn [fst]. apply in_map. exact Hr.
Qed.

Theorem save_establishes_Sync cfg s : snd (save_policy cfg s) = ROk true -> Sync cfg (fst (save_policy cfg s)).
Proof.
  unfold save_policy. destruct (adapter_call (ad s) (ASave (all_prules cfg s))) as [[a ok] old] eqn:Ea.
  destruct (adapter_call_content _ _ _ _ _ Ea) as [Cok _].
  destruct ok; cbn [negb]; [|discriminate]. intros _.
  assert (S0 : Sync cfg (with_ad s a)).
  { split.
    - intros pt r H. cbn [with_ad ad] in H. rewrite (Cok eq_refl) in H. cbn [content_after fst] in H.
      apply all_prules_In in H. tauto.
    - intros pt d r Hd. cbn [with_ad ad]. rewrite (Cok eq_refl). cbn [content_after fst]. rewrite get_store_with_ad, all_prules_In.
      split; [tauto|]. intros H. split; [congruence|exact H]. }
  cbn [with_ad watcher]. destruct (watcher s); cbn [fst]; exact S0.
Qed.

Lemma load_one_In cfg m x m' : LInv cfg m -> content_ok cfg [x] -> load_one cfg m x = Some m' ->
  def_of cfg (fst x) <> None /\
  forall pt r, In r (pol (mget m' pt)) <-> In r (pol (mget m pt)) \/ (pt, r) = x.
Proof.
  intros [I A] Hc H. destruct x as [pt0 r0]. cbn [load_one fst] in *.
  destruct (Hc pt0 r0 (or_introl eq_refl)) as [Wr _].
  destruct (def_of cfg pt0) as [d|] eqn:Hd; [|discriminate]. split; [discriminate|].
  destruct (if a_is_g d then _ else _); [discriminate|].
  fold (mget m pt0) in H. destruct (has (mget m pt0) r0) eqn:Hh; inversion H; subst.
  - intros pt r. split; [auto|]. intros [H0|E]; [exact H0|]. inversion E; subst.
    apply (has_iff_In _ _ (I pt0) Wr). exact Hh.
  - intros pt r. rewrite mget_set_del. destruct (String.eqb pt pt0) eqn:E.
    + apply String.eqb_eq in E. subst pt. rewrite add_pol, spec_insert_In. split.
      * intros [->|H0]; auto.
      * intros [H0|E]; [auto|inversion E; auto].
    + apply String.eqb_neq in E. split; [auto|]. intros [H0|E2]; [exact H0|inversion E2; congruence].
Qed.

Lemma load_all_In cfg c : forall m m', LInv cfg m -> content_ok cfg c -> load_all cfg m c = Some m' ->
  (forall x, In x c -> def_of cfg (fst x) <> None) /\
  forall pt r, In r (pol (mget m' pt)) <-> In r (pol (mget m pt)) \/ In (pt, r) c.
Proof.
  induction c as [|x t IH]; intros m m' L Hc H; cbn [load_all] in H.
  - inversion H; subst. split; [intros x []|]. intros pt r. cbn [In]. tauto.
  - destruct (load_one cfg m x) as [m1|] eqn:E; [|discriminate].
    assert (Hcx : content_ok cfg [x]) by (intros pt r [Hx|[]]; apply Hc; left; exact Hx).
    destruct (load_one_In cfg m x m1 L Hcx E) as [Kx Hx].
    assert (L1 : LInv cfg m1) by (apply (load_one_LInv cfg m x m1 L Hcx E)).
    destruct (IH m1 m' L1 (fun pt r Hin => Hc pt r (or_intror Hin)) H) as [Kt Ht].
    split; [intros y [<-|Hy]; [exact Kx|apply Kt; exact Hy]|].
    intros pt r. rewrite Ht, Hx. cbn [In]. intuition.
Qed.

Theorem load_policy_Sync cfg s : NoDup (map fst cfg) -> content_ok cfg (content (ad s)) ->
  snd (load_policy cfg s) = ROk true -> Sync cfg (fst (load_policy cfg s)).
Proof.
  intros NDc Hc. unfold load_policy.
  destruct (adapter_call (ad s) ALoad) as [[a ok] old] eqn:Ea.
  destruct (adapter_call_content _ _ _ _ _ Ea) as [Cok _].
  destruct ok; cbn [negb]; [|discriminate].
  assert (Eca : content a = content (ad s)) by (rewrite (Cok eq_refl); reflexivity). rewrite Eca.
  destruct (load_all cfg [] (content (ad s))) as [m|] eqn:El; [|discriminate].
  destruct (load_all_In cfg _ [] m (LInv_nil cfg) Hc El) as [Kc Hin].
  destruct (rebuild_links cfg (sort_stores cfg m) cfg) as [ls lok]. destruct lok; cbn [negb]; [|discriminate]. intros _.
  cbn [fst]. split.
  - intros pt r H. cbn [ad] in H. rewrite Eca in H. apply (Kc (pt, r) H).
  - intros pt d r Hd. cbn [ad]. rewrite Eca. unfold get_store. cbn [stores]. fold (mget (sort_stores cfg m) pt).
    assert (Hperm : forall x, In x (pol (mget (sort_stores cfg m) pt)) <-> In x (pol (mget m pt))).
    { intros x. destruct (mget_sort_stores cfg m pt) as [E|[c [P _]]]; [rewrite E; tauto|].
      split; intros H; [apply (Permutation_in _ P H)|apply (Permutation_in _ (Permutation_sym P) H)]. }
    rewrite Hperm, Hin. unfold mget. cbn [lookup pol empty_store In]. tauto.
Qed.

Lemma load_policy_content cfg s : content (ad (fst (load_policy cfg s))) = content (ad s).
Proof.
  unfold load_policy. destruct (adapter_call (ad s) ALoad) as [[a ok] old] eqn:Ea.
  destruct (adapter_call_content _ _ _ _ _ Ea) as [C1 C2].
  assert (E : content a = content (ad s)) by (destruct ok; [rewrite (C1 eq_refl); reflexivity|apply C2; reflexivity]).
  destruct ok; cbn [negb]; [|exact E].
  destruct (load_all cfg [] (content a)); [|exact E].
  destruct (rebuild_links cfg _ cfg) as [ls lok]. destruct lok; exact E.
Qed.

(* ---------- the synchronisation holds after every history (auto-save on) ---------- *)
Fixpoint sync_ok (cfg : mconf) (s : mstate) (op : mop) : Prop :=
  match op with
  | MAdd _ _ | MAddMany _ _ | MAddManyEx _ _ | MRemove _ _ | MRemoveMany _ _ | MUpdate _ _ _
  | MRemoveFiltered _ _ _ => autosave s = true
  | MUpdateMany _ os _ => autosave s = true /\ NoDup os
  | MUpdateFiltered _ _ _ _ => False
  | MSelf op' => sync_ok cfg s op'
  | MClear => False            (* ClearPolicy is memory-only by design: it ends the synchronisation *)
  | MLoad | MSave | MSetAutoSave _ | MSetAutoNotify _ | MFailNext _ => True
  end.

Lemma notify_Sync cfg s r ex upd : Sync cfg s -> Sync cfg (notify cfg s r ex upd).
Proof.
  intros K. apply (Sync_same cfg s _ (notify_mem cfg s r ex upd)); [|exact K].
  unfold notify. destruct r as [[|]| | |]; try reflexivity. destruct (autonotify s); [|reflexivity]. destruct (watcher s); reflexivity.
Qed.

Theorem step_wo_Sync cfg op : forall s nt, NoDup (map fst cfg) -> MInv cfg s -> Sync cfg s ->
  mop_ok cfg s op -> sync_ok cfg s op -> Sync cfg (fst (step_wo cfg s op nt)).
Proof.
  induction op; intros s nt NDc M K G Gs; cbn [step_wo mop_ok sync_ok] in *;
    try (destruct (def_of cfg pt) as [d|] eqn:Hd; [|exact K]);
    try (specialize (G d eq_refl)).
  - destruct nt; cbn [fst snd]; [apply notify_Sync|]; apply add_wo_Sync; assumption.
  - destruct nt; cbn [fst snd]; [apply notify_Sync|]; apply add_many_wo_Sync; assumption.
  - destruct nt; cbn [fst snd]; [apply notify_Sync|]; apply add_many_wo_Sync; assumption.
  - destruct nt; cbn [fst snd]; [apply notify_Sync|]; apply remove_wo_Sync; assumption.
  - destruct nt; cbn [fst snd]; [apply notify_Sync|]; apply remove_many_wo_Sync; assumption.
  - destruct G as [G1 G2]. destruct nt; cbn [fst snd]; [apply notify_Sync|]; apply update_wo_Sync; assumption.
  - destruct G as [G1 [G2 [G3 [G4 G5]]]]. destruct Gs as [Gs1 Gs2].
    destruct nt; cbn [fst snd]; [apply notify_Sync|]; apply update_many_wo_Sync; assumption.
  - destruct nt; cbn [fst snd]; [apply notify_Sync|]; apply remove_filtered_wo_Sync; assumption.
  - contradiction.
  - apply IHop; assumption.
  - contradiction.
  - destruct G as [G1 G2]. destruct (load_policy_res cfg s) as [E|E].
    + apply (Sync_same cfg s _ (load_policy_fail cfg s E)); [apply load_policy_content|exact K].
    + apply load_policy_Sync; assumption.
  - unfold save_policy in *. destruct (adapter_call (ad s) (ASave (all_prules cfg s))) as [[a ok] old] eqn:Ea.
    destruct ok; cbn [negb].
    + pose proof (save_establishes_Sync cfg s) as Hs. unfold save_policy in Hs. rewrite Ea in Hs. cbn [negb] in Hs.
      apply Hs. destruct (watcher (with_ad s a)); reflexivity.
    + cbn [fst]. destruct (adapter_call_content _ _ _ _ _ Ea) as [_ C2].
      apply (Sync_same cfg s (with_ad s a)); [split; reflexivity|apply C2; reflexivity|exact K].
  - cbn [fst]. apply (Sync_same cfg s); [split; reflexivity|reflexivity|exact K].
  - cbn [fst]. apply (Sync_same cfg s); [split; reflexivity|reflexivity|exact K].
  - cbn [fst]. apply (Sync_same cfg s); [split; reflexivity|reflexivity|exact K].
Qed.

Fixpoint sguards (cfg : mconf) (s : mstate) (ops : list mop) : Prop :=
  match ops with
  | [] => True
  | op :: t => mop_ok cfg s op /\ sync_ok cfg s op /\ sguards cfg (fst (step cfg s op)) t
  end.

Theorem run_Sync cfg ops : forall s, NoDup (map fst cfg) -> MInv cfg s -> Sync cfg s -> sguards cfg s ops ->
  MInv cfg (fst (run cfg s ops)) /\ Sync cfg (fst (run cfg s ops)).
Proof.
  induction ops as [|op t IH]; intros s NDc M K G; cbn [run fst]; [auto|]. destruct G as [G1 [G2 G3]].
  pose proof (step_wo_MInv cfg op s true NDc M G1) as M1. pose proof (step_wo_Sync cfg op s true NDc M K G1 G2) as K1.
  fold (step cfg s op) in M1, K1. destruct (step cfg s op) as [s1 r1]. cbn [fst] in *.
  specialize (IH s1 NDc M1 K1 G3). destruct (run cfg s1 t). exact IH.
Qed.

(* with auto-save off the adapter is untouched until SavePolicy *)
Theorem autosave_off_untouched cfg op : forall s nt, autosave s = false ->
  match op with MSave | MLoad | MFailNext _ | MSetAutoSave _ | MSelf _ | MUpdateFiltered _ _ _ _ => False | _ => True end ->
  ad (fst (step_wo cfg s op nt)) = ad s.
Proof.
  intros s nt Hoff Hk.
  assert (Hn : forall c x r e u, ad (notify c x r e u) = ad x).
  { intros c x r e u. unfold notify. destruct r as [[|]| | |]; try reflexivity. destruct (autonotify x); [|reflexivity]. destruct (watcher x); reflexivity. }
  destruct op; cbn [step_wo] in *; try contradiction;
    try (destruct (def_of cfg pt) as [d|]; [|reflexivity]);
    try (destruct nt; cbn [fst snd]; [rewrite Hn|]).
  all: try reflexivity.
  all: match goal with
    | |- ad (fst (add_wo ?d ?s ?pt ?r)) = _ =>
        apply (proj1 (add_wo_R pt ad_untouched ad_untouched_refl (ad_untouched_store pt) (ad_untouched_links pt) (fun _ => True) ad_untouched_persist d s r I Hoff))
    | |- ad (fst (add_many_wo ?d ?s ?pt ?rs ?arr)) = _ =>
        apply (proj1 (add_many_wo_R pt ad_untouched ad_untouched_refl (ad_untouched_store pt) (ad_untouched_links pt) (fun _ => True) ad_untouched_persist d s rs arr I Hoff))
    | |- ad (fst (remove_wo ?d ?s ?pt ?r)) = _ =>
        apply (proj1 (remove_wo_R pt ad_untouched (ad_untouched_store pt) (ad_untouched_links pt) (fun _ => True) ad_untouched_persist d s r I Hoff))
    | |- ad (fst (remove_many_wo ?d ?s ?pt ?rs)) = _ =>
        apply (proj1 (remove_many_wo_R pt ad_untouched ad_untouched_refl (ad_untouched_store pt) (ad_untouched_links pt) (fun _ => True) ad_untouched_persist d s rs I Hoff))
    | |- ad (fst (update_wo ?d ?s ?pt ?o ?n)) = _ =>
        apply (proj1 (update_wo_R pt ad_untouched (ad_untouched_store pt) (ad_untouched_links pt) (fun _ => True) ad_untouched_persist d s o n I Hoff))
    | |- ad (fst (update_many_wo ?d ?s ?pt ?os ?ns)) = _ =>
        apply (proj1 (update_many_wo_R pt ad_untouched ad_untouched_refl (ad_untouched_store pt) (ad_untouched_links pt) (fun _ => True) ad_untouched_persist d s os ns I Hoff))
    | |- ad (fst (remove_filtered_wo ?d ?s ?pt ?fi ?fvs)) = _ =>
        apply (proj1 (remove_filtered_wo_R pt ad_untouched ad_untouched_refl (ad_untouched_store pt) (ad_untouched_links pt) (fun _ => True) ad_untouched_persist d s fi fvs I Hoff))
    end.
Qed.


(* ---------- C15: every effective change is announced exactly once, after it is in place ---------- *)
Definition is_ok_true (r : mres) : bool := match r with ROk true => true | _ => false end.
Definition has_watcher (w : wkind) : bool := match w with WNone => false | _ => true end.

(* the notification a watcher of kind w receives for a call: WatcherEx gets the call-specific
   one for add/remove calls, UpdatableWatcher for update calls, everything else Update() *)
Definition pick_notice (w : wkind) (ex upd : option notice) : notice :=
  match w with
  | WEx => match ex with Some n => n | None => NUpdate end
  | WUpdatable => match upd with Some n => n | None => NUpdate end
  | _ => NUpdate
  end.

Lemma notify_wlog cfg s r ex upd :
  wlog (notify cfg s r ex upd) =
    if is_ok_true r && autonotify s && has_watcher (watcher s)
    then wlog s ++ [(pick_notice (watcher s) ex upd, snapshot cfg s)] else wlog s.
Proof.
  unfold notify, is_ok_true, has_watcher, pick_notice. destruct r as [[|]| | |]; cbn [andb]; try reflexivity.
  destruct (autonotify s); cbn [andb]; [|reflexivity]. destruct (watcher s); reflexivity.
Qed.

Lemma notify_snapshot cfg s r ex upd : snapshot cfg (notify cfg s r ex upd) = snapshot cfg s.
Proof.
  unfold notify. destruct r as [[|]| | |]; try reflexivity. destruct (autonotify s); [|reflexivity].
  destruct (watcher s); reflexivity.
Qed.

Definition notices_of (op : mop) : option (option notice * option notice) :=
  match op with
  | MAdd pt r => Some (Some (NAdd pt r), None)
  | MAddMany pt rs | MAddManyEx pt rs => Some (Some (NAddMany pt rs), None)
  | MRemove pt r => Some (Some (NRemove pt r), None)
  | MRemoveMany pt rs => Some (Some (NRemoveMany pt rs), None)
  | MUpdate pt o n => Some (None, Some (NUpdatePolicy pt o n))
  | MUpdateMany pt os ns => Some (None, Some (NUpdatePolicies pt os ns))
  | MRemoveFiltered pt fi fvs => Some (Some (NRemoveFiltered pt fi fvs), None)
  | _ => None
  end.

Ltac ctl_of :=
  match goal with
  | |- same_ctl ?s (fst (add_wo ?d ?s ?pt ?r)) =>
      apply (add_wo_R pt same_ctl same_ctl_refl (same_ctl_store pt) (same_ctl_links pt) (fun _ => True) same_ctl_persist d s r I)
  | |- same_ctl ?s (fst (add_many_wo ?d ?s ?pt ?rs ?arr)) =>
      apply (add_many_wo_R pt same_ctl same_ctl_refl (same_ctl_store pt) (same_ctl_links pt) (fun _ => True) same_ctl_persist d s rs arr I)
  | |- same_ctl ?s (fst (remove_wo ?d ?s ?pt ?r)) =>
      apply (remove_wo_R pt same_ctl (same_ctl_store pt) (same_ctl_links pt) (fun _ => True) same_ctl_persist d s r I)
  | |- same_ctl ?s (fst (remove_many_wo ?d ?s ?pt ?rs)) =>
      apply (remove_many_wo_R pt same_ctl same_ctl_refl (same_ctl_store pt) (same_ctl_links pt) (fun _ => True) same_ctl_persist d s rs I)
  | |- same_ctl ?s (fst (update_wo ?d ?s ?pt ?o ?n)) =>
      apply (update_wo_R pt same_ctl (same_ctl_store pt) (same_ctl_links pt) (fun _ => True) same_ctl_persist d s o n I)
  | |- same_ctl ?s (fst (update_many_wo ?d ?s ?pt ?os ?ns)) =>
      apply (update_many_wo_R pt same_ctl same_ctl_refl (same_ctl_store pt) (same_ctl_links pt) (fun _ => True) same_ctl_persist d s os ns I)
  | |- same_ctl ?s (fst (remove_filtered_wo ?d ?s ?pt ?fi ?fvs)) =>
      apply (remove_filtered_wo_R pt same_ctl same_ctl_refl (same_ctl_store pt) (same_ctl_links pt) (fun _ => True) same_ctl_persist d s fi fvs I)
  end.

Fixpoint is_mgmt (op : mop) : Prop :=
  match op with
  | MSave | MSetAutoSave _ | MSetAutoNotify _ | MFailNext _ => False
  | MSelf op' => is_mgmt op'
  | _ => True
  end.

(* the *WithoutNotify part of every management call — hence every Self* call —, ClearPolicy and
   LoadPolicy leave flags, watcher and watcher log alone: they announce nothing *)
Theorem step_wo_silent cfg op : forall s, is_mgmt op -> same_ctl s (fst (step_wo cfg s op false)).
Proof.
  induction op; intros s Hm; cbn [step_wo is_mgmt] in *; try contradiction;
    try (destruct (def_of cfg pt) as [d|]; [|apply same_ctl_refl]);
    cbn [fst snd]; try ctl_of.
  - destruct (update_filtered_wo d s pt ns fi fvs) as [[s' r] old] eqn:E. cbn [fst].
    replace s' with (fst (fst (update_filtered_wo d s pt ns fi fvs))) by (rewrite E; reflexivity).
    apply (update_filtered_wo_R pt same_ctl (same_ctl_store pt) (same_ctl_links pt) (fun _ => True) same_ctl_persist d s ns fi fvs I).
  - apply IHop. exact Hm.
  - unfold clear_policy. cbn [fst]. repeat split.
  - unfold load_policy. crunch; repeat split.
Qed.

Theorem self_announces_nothing cfg op s : is_mgmt op -> wlog (fst (step cfg s (MSelf op))) = wlog s.
Proof. intros H. unfold step. cbn [step_wo]. apply (step_wo_silent cfg op s H). Qed.

(* exactly one notification, of the right kind, with the post-state visible, iff the call was
   effective (ok, no error) and a watcher is set with auto-notify on; nothing otherwise *)
Theorem announce_exactly_once cfg op s ex upd : notices_of op = Some (ex, upd) ->
  let s' := fst (step cfg s op) in let r := snd (step cfg s op) in
  wlog s' = (if is_ok_true r && autonotify s && has_watcher (watcher s)
             then wlog s ++ [(pick_notice (watcher s) ex upd, snapshot cfg s')] else wlog s).
Proof.
  intros Hn. unfold step.
  assert (Hm : is_mgmt op) by (destruct op; try discriminate; exact I).
  pose proof (step_wo_silent cfg op s Hm) as (_ & C2 & C3 & C4).
  destruct op; cbn [notices_of] in Hn; try discriminate; inversion Hn; subst; cbn [step_wo] in *;
    (destruct (def_of cfg pt) as [d|]; [|cbn [fst snd is_ok_true andb]; reflexivity]);
    cbn [fst snd] in *; rewrite notify_wlog, notify_snapshot, C2, C3, C4; reflexivity.
Qed.

(* ---------- SavePolicy followed by LoadPolicy reproduces the rules in the same per-type order ---------- *)
Definition loadable (d : adef) (r : rule) : Prop :=
  wf_rule r = true /\ (if a_is_g d then a_arity d <= List.length r else List.length r = a_arity d).

(* invariant used while loading: every store coherent and well-formed *)
Definition SInv (m : smap store) : Prop := forall pt, Inv (mget m pt).

Lemma load_block cfg pt d : def_of cfg pt = Some d -> a_prio d = None ->
  forall l m, SInv m -> NoDup (pol (mget m pt) ++ l) -> (forall r, In r l -> loadable d r) ->
  exists m', load_all cfg m (map (fun r => (pt, r)) l) = Some m' /\ SInv m' /\
    pol (mget m' pt) = pol (mget m pt) ++ l /\ (forall pt', pt' <> pt -> mget m' pt' = mget m pt').
Proof.
  intros Hd Hp. induction l as [|r t IH]; intros m I ND Hl; cbn [map load_all].
  - exists m. rewrite app_nil_r. auto.
  - destruct (Hl r (or_introl eq_refl)) as [Wr Har]. cbn [load_one]. rewrite Hd.
    assert (Echk : (if a_is_g d then Nat.ltb (List.length r) (a_arity d) else negb (Nat.eqb (List.length r) (a_arity d))) = false).
    { destruct (a_is_g d); [apply Nat.ltb_ge; exact Har|rewrite Har, Nat.eqb_refl; reflexivity]. }
    rewrite Echk. fold (mget m pt).
    assert (Nr : ~ In r (pol (mget m pt))).
    { intros H. apply NoDup_remove_2 in ND. apply ND. apply in_or_app. left. exact H. }
    assert (Hh : has (mget m pt) r = false).
    { apply not_true_iff_false. intros H. apply Nr. apply (has_iff_In _ _ (I pt) Wr). exact H. }
    rewrite Hh, Hp.
    set (m1 := set pt (add None (mget m pt) r) (del pt m)).
    assert (E1 : pol (mget m1 pt) = pol (mget m pt) ++ [r]).
    { unfold m1. rewrite mget_set_del, String.eqb_refl. reflexivity. }
    assert (I1 : SInv m1).
    { intros pt'. unfold m1. rewrite mget_set_del. destruct (String.eqb pt' pt); [apply add_Inv; [apply I|exact Wr|exact Hh]|apply I]. }
    destruct (IH m1 I1) as [m' [L [I' [P' O']]]].
    + rewrite E1, <- app_assoc. exact ND.
    + intros x Hx. apply Hl. right. exact Hx.
    + exists m'. split; [exact L|]. split; [exact I'|]. split.
      * rewrite P', E1, <- app_assoc. reflexivity.
      * intros pt' Hne. rewrite (O' pt' Hne). unfold m1. rewrite mget_set_del.
        apply String.eqb_neq in Hne. rewrite Hne. reflexivity.
Qed.

Lemma load_all_app cfg c1 : forall c2 m m1, load_all cfg m c1 = Some m1 -> load_all cfg m (c1 ++ c2) = load_all cfg m1 c2.
Proof.
  induction c1 as [|x t IH]; intros c2 m m1 H; cbn [load_all app] in *; [inversion H; reflexivity|].
  destruct (load_one cfg m x) as [m0|]; [|discriminate]. apply IH. exact H.
Qed.

(* loading what SavePolicy stored: every type gets its own rules back, in order *)
Lemma load_saved cfg0 s : forall cfg m, (forall pt d, In (pt, d) cfg -> def_of cfg0 pt = Some d /\ a_prio d = None) ->
  NoDup (map fst cfg) -> SInv m ->
  (forall pt, In pt (map fst cfg) -> pol (mget m pt) = []) ->
  (forall pt, Inv (get_store s pt)) ->
  (forall pt d r, In (pt, d) cfg -> In r (pol (get_store s pt)) -> loadable d r) ->
  exists m', load_all cfg0 m (all_prules cfg s) = Some m' /\ SInv m' /\
    (forall pt, In pt (map fst cfg) -> pol (mget m' pt) = pol (get_store s pt)) /\
    (forall pt, ~ In pt (map fst cfg) -> mget m' pt = mget m pt).
Proof.
  induction cfg as [|[k dk] t IH]; intros m Hdef NDc I Hempty Is Hl; cbn [all_prules flat_map map fst].
  - exists m. cbn [load_all]. split; [reflexivity|]. split; [exact I|]. split; [intros pt []|auto].
  - inversion NDc as [|? ? Nk NDt]; subst.
    destruct (Hdef k dk (or_introl eq_refl)) as [Hd Hp].
    destruct (load_block cfg0 k dk Hd Hp (pol (get_store s k)) m I) as [m1 [L1 [I1 [P1 O1]]]].
    + rewrite (Hempty k (or_introl eq_refl)). cbn [app]. apply Inv_NoDup. apply Is.
    + intros r Hr. apply (Hl k dk r (or_introl eq_refl) Hr).
    + destruct (IH m1) as [m' [L [I' [P' O']]]]; try assumption.
      * intros pt d Hin. apply Hdef. right. exact Hin.
      * intros pt Hin. rewrite (O1 pt); [apply Hempty; right; exact Hin|]. intros ->. contradiction.
      * intros pt d r Hin. apply Hl. right. exact Hin.
      * exists m'. split; [|split; [exact I'|split]].
        -- cbn [fst]. fold (all_prules t s). rewrite (load_all_app cfg0 _ _ m m1 L1). exact L.
        -- intros pt [<-|Hin]; [|apply P'; exact Hin].
           rewrite (O' k Nk), P1, (Hempty k (or_introl eq_refl)). reflexivity.
        -- intros pt Hn. rewrite (O' pt); [|intros H; apply Hn; right; exact H].
           apply O1. intros ->. apply Hn. left. reflexivity.
Qed.

Lemma sort_stores_noprio cfg m : (forall pt d, def_of cfg pt = Some d -> a_prio d = None) ->
  forall pt, mget (sort_stores cfg m) pt = mget m pt.
Proof.
  intros Hn pt. unfold mget, sort_stores. induction m as [|[k st] t IH]; cbn [map lookup]; [reflexivity|].
  destruct (def_of cfg k) as [d|] eqn:Hd.
  - rewrite (Hn k d Hd). cbn [lookup]. destruct (String.eqb pt k); [reflexivity|exact IH].
  - cbn [lookup]. destruct (String.eqb pt k); [reflexivity|exact IH].
Qed.

(* SavePolicy followed by LoadPolicy: the same rules in the same per-type order, for every state
   whose listed rules could themselves have been loaded (no priority column: a load sorts) *)
Theorem save_load_roundtrip cfg s : NoDup (map fst cfg) ->
  (forall pt d, def_of cfg pt = Some d -> a_prio d = None) ->
  (forall pt, Inv (get_store s pt)) ->
  (forall pt d r, def_of cfg pt = Some d -> In r (pol (get_store s pt)) -> loadable d r) ->
  snd (save_policy cfg s) = ROk true ->
  let s1 := fst (save_policy cfg s) in
  forall pt, In pt (map fst cfg) -> pol (get_store (fst (load_policy cfg s1)) pt) = pol (get_store s pt).
Proof.
  intros NDc Hnp Is Hl Hok s1 pt Hpt.
  assert (Sm1 : same_mem s s1) by (apply save_policy_mem).
  assert (Ec : content (ad s1) = all_prules cfg s).
  { unfold s1, save_policy in *. destruct (adapter_call (ad s) (ASave (all_prules cfg s))) as [[a ok] old] eqn:Ea.
    destruct (adapter_call_content _ _ _ _ _ Ea) as [C1 _]. destruct ok; cbn [negb] in *; [|discriminate].
    cbn [with_ad watcher]. destruct (watcher s); cbn [fst ad with_ad]; rewrite (C1 eq_refl); reflexivity. }
  destruct (load_policy_res cfg s1) as [E|E].
  - rewrite (proj1 (load_policy_fail cfg s1 E) pt). rewrite (proj1 Sm1 pt). reflexivity.
  - unfold load_policy in *. destruct (adapter_call (ad s1) ALoad) as [[a ok] old] eqn:Ea.
    destruct (adapter_call_content _ _ _ _ _ Ea) as [C1 _].
    destruct ok; cbn [negb] in *; [|discriminate].
    assert (Eca : content a = all_prules cfg s) by (rewrite (C1 eq_refl); cbn [content_after fst]; exact Ec).
    rewrite Eca in *.
    destruct (load_saved cfg s cfg []) as [m' [L [I' [P' _]]]].
    + intros k d Hin. pose proof (In_lookup k d cfg NDc Hin) as Hd. split; [exact Hd|apply (Hnp k d Hd)].
    + exact NDc.
    + intros k. apply empty_Inv.
    + intros k _. reflexivity.
    + exact Is.
    + intros k d r Hin Hr. apply (Hl k d r (In_lookup k d cfg NDc Hin) Hr).
    + rewrite L in *. destruct (rebuild_links cfg (sort_stores cfg m') cfg) as [ls lok].
      destruct lok; cbn [negb] in *; [|discriminate]. cbn [fst].
      unfold get_store at 1. cbn [stores]. fold (mget (sort_stores cfg m') pt).
      rewrite (sort_stores_noprio cfg m' Hnp pt). apply P'. exact Hpt.
Qed.

(* a peer that reloads from the shared adapter reaches the originator's rules (as sets, per type) *)
Theorem peer_converges cfg s p : NoDup (map fst cfg) -> Sync cfg s ->
  content (ad p) = content (ad s) -> content_ok cfg (content (ad p)) ->
  snd (load_policy cfg p) = ROk true ->
  forall pt d r, def_of cfg pt = Some d ->
    (In r (pol (get_store (fst (load_policy cfg p)) pt)) <-> In r (pol (get_store s pt))).
Proof.
  intros NDc K Ec Hc Hok pt d r Hd.
  pose proof (load_policy_Sync cfg p NDc Hc Hok) as Kp.
  rewrite <- (proj2 Kp pt d r Hd), load_policy_content, Ec. apply (proj2 K pt d r Hd).
Qed.
