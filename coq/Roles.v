(* Roles.v — executable model of rbac/default-role-manager for the managers the enforcer
   creates by default when no matching function is registered: RoleManagerImpl (g = _, _) and
   DomainManager (g = _, _, _).  The state is the set of links (user, role, domain); the
   non-domain manager uses the default domain "".  HasLink is the level-budgeted breadth-first
   search of hasLinkHelper (frontier maps = duplicate-free sets).  Definitions only. *)
From Coq Require Import List String Bool Arith.
Import ListNotations.
From Casbin Require Import Base.

Definition link := (string * string * string)%type.   (* (user, role, domain) *)

Definition link_eqb (a b : link) : bool :=
  let '(u1, r1, d1) := a in let '(u2, r2, d2) := b in
  String.eqb u1 u2 && String.eqb r1 r2 && String.eqb d1 d2.

Definition mem_link (l : link) (ls : list link) : bool := existsb (link_eqb l) ls.

(* user.roles[role.name] = role: a set *)
Definition add_link (l : link) (ls : list link) : list link :=
  if mem_link l ls then ls else ls ++ [l].
(* user.roles.Delete(role.name) *)
Definition del_link (l : link) (ls : list link) : list link :=
  filter (fun x => negb (link_eqb l x)) ls.

(* role.rangeRoles without matching function: the direct roles of x in domain d *)
Definition succs (ls : list link) (d : string) (x : string) : list string :=
  map (fun l => snd (fst l))
      (filter (fun l => String.eqb (fst (fst l)) x && String.eqb (snd l) d) ls).
Definition preds (ls : list link) (d : string) (x : string) : list string :=
  map (fun l => fst (fst l))
      (filter (fun l => String.eqb (snd (fst l)) x && String.eqb (snd l) d) ls).

(* hasLinkHelper(target, roles, level): level counts down from maxHierarchyLevel, `level < 0`
   stops; fuel = level + 1 *)
Fixpoint bfs (ls : list link) (d : string) (fuel : nat) (target : string) (frontier : list string) : bool :=
  match fuel with
  | 0 => false
  | S f =>
      match frontier with
      | [] => false
      | _ => if mem_str target frontier then true
             else bfs ls d f target (flat_map (succs ls d) frontier)
      end
  end.

Definition max_level : nat := 10.   (* NewRoleManagerImpl(10) / NewDomainManager(10) in enforcer.go *)

(* RoleManagerImpl.HasLink / DomainManager.HasLink *)
Definition has_link_n (n : nat) (ls : list link) (u r d : string) : bool :=
  if String.eqb u r then true else bfs ls d (S n) r [u].
Definition has_link := has_link_n max_level.

Fixpoint dedup (l : list string) : list string :=
  match l with
  | [] => []
  | x :: t => if mem_str x t then dedup t else x :: dedup t
  end.

(* GetRoles / GetUsers: direct neighbours (as sets) *)
Definition get_roles (ls : list link) (u d : string) : list string := dedup (succs ls d u).
Definition get_users (ls : list link) (r d : string) : list string := dedup (preds ls d r).

(* ---------- from grouping rules to links (model/assertion.go) ---------- *)
(* count = number of "_" in the role definition (2 or 3 here); a rule shorter than count is an
   error, a longer one is truncated *)
Definition link_of_rule (count : nat) (r : rule) : option link :=
  if Nat.ltb (List.length r) count then None
  else match count, r with
       | 2, u :: ro :: _ => Some (u, ro, ""%string)
       | 3, u :: ro :: d :: _ => Some (u, ro, d)
       | _, _ => None
       end.

(* buildIncrementalRoleLinks: stops at the first rule that does not meet the definition;
   None = that error, with the links built so far lost to the caller (the role manager keeps
   them: see links_partial) *)
Fixpoint build_incremental (count : nat) (adding : bool) (rules : list rule) (ls : list link)
  : list link * bool (* ok *) :=
  match rules with
  | [] => (ls, true)
  | r :: t =>
      match link_of_rule count r with
      | None => (ls, false)
      | Some l => build_incremental count adding t (if adding then add_link l ls else del_link l ls)
      end
  end.

(* buildRoleLinks after Clear: from the listed rules alone *)
Definition rebuild (count : nat) (rules : list rule) : list link * bool :=
  build_incremental count true rules [].

(* ---------- specification: reachability within n edges ---------- *)
Inductive walk (ls : list link) (d : string) : string -> string -> nat -> Prop :=
| walk0 x : walk ls d x x 0
| walkS x y z k : In (x, y, d) ls -> walk ls d y z k -> walk ls d x z (S k).
