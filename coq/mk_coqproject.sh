#!/bin/sh
# _CoqProject is generated: every .v under coq/ except the extraction files.
cd "$(dirname "$0")"
{ echo "-Q . Casbin"; find . -name '*.v' ! -path './extract/*' ! -path './search/*' | sed 's|^\./||' | LC_ALL=C sort; } > _CoqProject.new
if ! cmp -s _CoqProject.new _CoqProject; then mv _CoqProject.new _CoqProject; else rm _CoqProject.new; fi
if [ ! -f Makefile ] || [ _CoqProject -nt Makefile ]; then coq_makefile -f _CoqProject -o Makefile >/dev/null; fi
