(* Effect.v — executable model of effector/default_effector.go (MergeEffects) and of
   the streaming loop of enforcer.go that drives it, plus the declarative
   specification `combine`.  Definitions only; proofs are in EffectProofs.v. *)
From Coq Require Import List Bool Arith.
Import ListNotations.

Inductive eft := Allow | Indet | Deny.

(* the five effect expressions of constant/constants.go, plus anything else *)
Inductive effect_expr :=
| AllowOverride | DenyOverride | AllowAndDeny | Priority | SubjectPriority | Unsupported.

Definition eft_eqb (a b : eft) : bool :=
  match a, b with Allow, Allow | Indet, Indet | Deny, Deny => true | _, _ => false end.

(* one slot of the two parallel Go arrays: (matcherResults[i] != 0, policyEffects[i]) *)
Notation entry := (bool * eft)%type (only parsing).
(* Go zero values: matcherResults[i] = 0, policyEffects[i] = Effect(0) = Allow *)
Definition zero : entry := (false, Allow).

(* the arrays as MergeEffects sees them at step i of n: filled prefix 0..i, zero rest *)
Definition arr (v : list entry) (i n : nat) : list entry :=
  firstn (S i) v ++ repeat zero (n - S i).

(* `for i, eft := range effects { if matches[i]==0 continue; if eft==Allow {...break} }` *)
Fixpoint first_allow (a : list entry) (k : nat) : option nat :=
  match a with
  | [] => None
  | (m, e) :: t => if m && eft_eqb e Allow then Some k else first_allow t (S k)
  end.

(* `for i := len-1; i >= 0; i-- { if matches[i]==0 continue; if effects[i] != Indeterminate {...break} }` *)
Fixpoint last_det (a : list entry) (k : nat) : option (nat * eft) :=
  match a with
  | [] => None
  | (m, e) :: t =>
      match last_det t (S k) with
      | Some r => Some r
      | None => if m && negb (eft_eqb e Indet) then Some (k, e) else None
      end
  end.

(* MergeEffects(expr, effects, matches, policyIndex=i, policyLength=n);
   None = the `unsupported effect` error *)
Definition merge (ef : effect_expr) (a : list entry) (i n : nat) : option (eft * option nat) :=
  let '(m, e) := nth i a zero in
  match ef with
  | AllowOverride =>
      Some (if m && eft_eqb e Allow then (Allow, Some i) else (Indet, None))
  | DenyOverride =>
      Some (if m && eft_eqb e Deny then (Deny, Some i)
            else if Nat.eqb i (n - 1) then (Allow, None) else (Indet, None))
  | AllowAndDeny =>
      Some (if m && eft_eqb e Deny then (Deny, Some i)
            else if Nat.ltb i (n - 1) then (Indet, None)
            else match first_allow a 0 with Some j => (Allow, Some j) | None => (Indet, None) end)
  | Priority | SubjectPriority =>
      Some (match last_det a 0 with
            | Some (j, e') => ((if eft_eqb e' Allow then Allow else Deny), Some j)
            | None => (Indet, None)
            end)
  | Unsupported => None
  end.

(* the enforce loop over an already evaluated vector:
     for i := range policy { effect, explain, err = Merge(...); if err → return; if effect != Indet break }
   result: None = error; Some (effect, explainIndex) as left in the variables after the loop *)
Fixpoint loop (ef : effect_expr) (v : list entry) (n : nat) (fuel i : nat) : option (eft * option nat) :=
  match fuel with
  | 0 => Some (Indet, None)
  | S fuel' =>
      match merge ef (arr v i n) i n with
      | None => None
      | Some r =>
          match fst r with
          | Indet => if Nat.eqb (S i) n then Some r else loop ef v n fuel' (S i)
          | _ => Some r
          end
      end
  end.

Record outcome := { decision : bool; explain : option nat; failed : bool }.

(* decision / explanation / error for a non-empty vector (the `policyLen != 0` branch) *)
Definition stream (ef : effect_expr) (v : list entry) : outcome :=
  match loop ef v (length v) (length v) 0 with
  | None => {| decision := false; explain := None; failed := true |}
  | Some (e, x) => {| decision := eft_eqb e Allow; explain := x; failed := false |}
  end.

(* the else-branch of enforce (empty policy, or a matcher that mentions no policy field):
   one virtual slot, matched, Allow iff the matcher evaluated to true, merged at (0,1) *)
Definition stream_nopolicy (ef : effect_expr) (matcher_true : bool) : outcome :=
  stream ef [(true, if matcher_true then Allow else Indet)].

(* ---------- specification ---------- *)
Definition matched_with (e : eft) (x : entry) : bool := fst x && eft_eqb (snd x) e.
Definition some_allow (v : list entry) := existsb (matched_with Allow) v.
Definition some_deny (v : list entry) := existsb (matched_with Deny) v.
Definition det (x : entry) : bool := fst x && negb (eft_eqb (snd x) Indet).
(* effect of the first matched rule whose effect is allow or deny, otherwise deny *)
Fixpoint first_det (v : list entry) : bool :=
  match v with
  | [] => false
  | x :: t => if det x then eft_eqb (snd x) Allow else first_det t
  end.

Definition supported (ef : effect_expr) : bool :=
  match ef with Unsupported => false | _ => true end.

Definition combine (ef : effect_expr) (v : list entry) : bool :=
  match ef with
  | AllowOverride => some_allow v
  | DenyOverride => negb (some_deny v)
  | AllowAndDeny => some_allow v && negb (some_deny v)
  | Priority | SubjectPriority => first_det v
  | Unsupported => false
  end.

Definition order_insensitive_effect (ef : effect_expr) : bool :=
  match ef with AllowOverride | DenyOverride | AllowAndDeny => true | _ => false end.

(* all vectors of length n (for in-Coq sanity tests only) *)
Definition all_entries : list entry :=
  [(true,Allow);(true,Indet);(true,Deny);(false,Allow);(false,Indet);(false,Deny)].
Fixpoint vecs (n : nat) : list (list entry) :=
  match n with
  | 0 => [[]]
  | S k => flat_map (fun t => map (fun h => h :: t) all_entries) (vecs k)
  end.
