(* ConfigProofs.v — proofs about the model of Config.v.
   Structure:
     1. characters, TrimSpace on padded strings
     2. the physical-line splitter on  x ++ "\n" ++ rest
     3. the line machine consumes one rendered item (blank/comment line, header, definition)
     4. whole documents: layout_invariant
     5. section order, load_model depends on look-ups only
     6. arbitrary texts: totality with explicit errors, nothing dropped, slice bounds
     7. necessity of the guards (refuted statements), canonical layout *)
From Coq Require Import List Ascii String Bool Arith Lia Permutation.
Import ListNotations.
From Casbin Require Import Config.

Local Open Scope char_scope.
Local Open Scope list_scope.

(* ========================================================================================== *)
(** * 1. Characters and TrimSpace *)

Lemma frev_rev : forall l, frev l = rev l.
Proof. intro l. unfold frev. symmetry. apply rev_alt. Qed.

Lemma str_eqb_eq : forall a b, str_eqb a b = true <-> a = b.
Proof.
  induction a as [|x a IH]; destruct b as [|y b]; cbn [str_eqb]; split; intro H; try reflexivity; try discriminate.
  - apply andb_true_iff in H. destruct H as [H1 H2]. apply Ascii.eqb_eq in H1. apply IH in H2. now subst.
  - inversion H; subst. apply andb_true_iff. split. apply Ascii.eqb_refl. now apply IH.
Qed.

Lemma str_eqb_refl : forall a, str_eqb a a = true.
Proof. intro a. now apply str_eqb_eq. Qed.

Lemma str_eqb_neq : forall a b, str_eqb a b = false <-> a <> b.
Proof.
  intros a b. split; intro H.
  - intro E. apply str_eqb_eq in E. congruence.
  - destruct (str_eqb a b) eqn:E; [|reflexivity]. apply str_eqb_eq in E. contradiction.
Qed.

Lemma str_eqb_sym : forall a b, str_eqb a b = str_eqb b a.
Proof.
  intros a b. destruct (str_eqb a b) eqn:E.
  - apply str_eqb_eq in E. subst. symmetry. apply str_eqb_refl.
  - symmetry. apply str_eqb_neq. apply str_eqb_neq in E. congruence.
Qed.

(* a white-space byte is none of the structural characters *)
Lemma space_cases : forall c, is_space c = true ->
  c = SP \/ c = "009" \/ c = LF \/ c = "011" \/ c = "012" \/ c = CR.
Proof.
  intros c H. unfold is_space in H.
  repeat (apply orb_true_iff in H; destruct H as [H|H]);
    apply Ascii.eqb_eq in H; subst; tauto.
Qed.

Lemma space_not_struct : forall c, is_space c = true ->
  is_cmt c = false /\ Ascii.eqb c "=" = false /\ Ascii.eqb c "[" = false /\ Ascii.eqb c "\" = false.
Proof.
  intros c H. destruct (space_cases c H) as [E|[E|[E|[E|[E|E]]]]]; subst; repeat split; reflexivity.
Qed.

Definition all_space (p : list ascii) : Prop := forallb is_space p = true.

Lemma blankb_all_space : forall p, blankb p = true -> all_space p.
Proof.
  unfold blankb, all_space. induction p as [|c p IH]; cbn [forallb]; intro H; [reflexivity|].
  apply andb_true_iff in H. destruct H as [H1 H2]. apply andb_true_iff in H1. destruct H1 as [H1 _].
  rewrite H1. cbn. now apply IH.
Qed.

Lemma blankb_no_lf : forall p, blankb p = true -> no_lf p = true.
Proof.
  unfold blankb, no_lf. induction p as [|c p IH]; cbn [forallb]; intro H; [reflexivity|].
  apply andb_true_iff in H. destruct H as [H1 H2]. apply andb_true_iff in H1. destruct H1 as [_ H1].
  rewrite H1. cbn. now apply IH.
Qed.

Lemma all_space_app : forall a b, all_space a -> all_space b -> all_space (a ++ b).
Proof. unfold all_space. intros. rewrite forallb_app. now rewrite H, H0. Qed.

Lemma forallb_rev : forall (A : Type) (f : A -> bool) l, forallb f (rev l) = forallb f l.
Proof.
  intros A f l. induction l as [|x l IH]; [reflexivity|].
  cbn [rev forallb]. rewrite forallb_app. cbn [forallb]. rewrite IH. rewrite andb_true_r. apply andb_comm.
Qed.

Lemma trim_left_space_app : forall a x, all_space a -> trim_left (a ++ x) = trim_left x.
Proof.
  unfold all_space. induction a as [|c a IH]; intros x H; [reflexivity|].
  cbn [forallb] in H. apply andb_true_iff in H. destruct H as [H1 H2].
  cbn [app trim_left]. rewrite H1. now apply IH.
Qed.

Lemma trim_left_all_space : forall a, all_space a -> trim_left a = [].
Proof. intros a H. rewrite <- (app_nil_r a). now rewrite trim_left_space_app. Qed.

Lemma trim_left_nonspace : forall c t, is_space c = false -> trim_left (c :: t) = c :: t.
Proof. intros c t H. cbn [trim_left]. now rewrite H. Qed.

Lemma trim_left_snoc : forall l c, is_space c = false -> trim_left (l ++ [c]) = trim_left l ++ [c].
Proof.
  induction l as [|x l IH]; intros c H; cbn [app trim_left].
  - now rewrite H.
  - destruct (is_space x); [now apply IH|reflexivity].
Qed.

Lemma trim_left_app_nonspace : forall l c m, is_space c = false -> trim_left (l ++ c :: m) = trim_left l ++ c :: m.
Proof.
  induction l as [|x l IH]; intros c m H; cbn [app trim_left].
  - now rewrite H.
  - destruct (is_space x); [now apply IH|reflexivity].
Qed.

Lemma trim_right_nil : trim_right [] = [].
Proof. reflexivity. Qed.

Lemma trim_right_app_space : forall x b, all_space b -> trim_right (x ++ b) = trim_right x.
Proof.
  intros x b H. unfold trim_right. rewrite !frev_rev. rewrite rev_app_distr.
  rewrite trim_left_space_app; [reflexivity|]. unfold all_space. now rewrite forallb_rev.
Qed.

Lemma trim_right_snoc : forall x c, is_space c = false -> trim_right (x ++ [c]) = x ++ [c].
Proof.
  intros x c H. unfold trim_right. rewrite !frev_rev. rewrite rev_app_distr. cbn [rev app].
  rewrite trim_left_nonspace by assumption. cbn [rev]. now rewrite rev_involutive.
Qed.

Lemma trim_right_cons_nonspace : forall c t, is_space c = false -> trim_right (c :: t) = c :: trim_right t.
Proof.
  intros c t H. unfold trim_right. rewrite !frev_rev. cbn [rev].
  rewrite trim_left_snoc by assumption. rewrite rev_app_distr. reflexivity.
Qed.

(* trailing white space is only removed behind the last non-blank byte *)
Lemma trim_right_app_nonspace : forall a c t, is_space c = false -> trim_right (a ++ c :: t) = a ++ c :: trim_right t.
Proof.
  intros a c t H. unfold trim_right. rewrite !frev_rev. rewrite rev_app_distr. cbn [rev].
  rewrite <- app_assoc. cbn [app]. rewrite trim_left_app_nonspace by assumption.
  rewrite rev_app_distr. cbn [rev]. rewrite rev_involutive. rewrite <- app_assoc. reflexivity.
Qed.

(* a non-empty trimmed string: first and last byte are not white space *)
Lemma trimmedb_cons : forall c t, trimmedb (c :: t) = true ->
  is_space c = false /\ exists y d, c :: t = y ++ [d] /\ is_space d = false.
Proof.
  intros c t H. unfold trimmedb in H. apply andb_true_iff in H. destruct H as [H1 H2].
  apply negb_true_iff in H1. apply negb_true_iff in H2. split; [assumption|].
  exists (removelast (c :: t)), (last (c :: t) c). split; [|assumption].
  apply app_removelast_last. discriminate.
Qed.

Lemma trimmedb_intro : forall c t y d, c :: t = y ++ [d] -> is_space c = false -> is_space d = false ->
  trimmedb (c :: t) = true.
Proof.
  intros c t y d E H1 H2. unfold trimmedb. rewrite H1. rewrite E. rewrite last_last. now rewrite H2.
Qed.

Lemma trim_right_trimmed : forall x, trimmedb x = true -> trim_right x = x.
Proof.
  intros [|c t] H; [reflexivity|].
  destruct (trimmedb_cons _ _ H) as [_ [y [d [E Hd]]]]. rewrite E. now apply trim_right_snoc.
Qed.

(* TrimSpace removes exactly the padding round a trimmed string *)
Lemma trim_pad : forall a x b, all_space a -> all_space b -> trimmedb x = true -> trim (a ++ x ++ b) = x.
Proof.
  intros a x b Ha Hb Hx. unfold trim. rewrite trim_left_space_app by assumption.
  destruct x as [|c t].
  - cbn [app]. now rewrite trim_left_all_space.
  - destruct (trimmedb_cons _ _ Hx) as [Hc _].
    cbn [app]. rewrite trim_left_nonspace by assumption.
    change (c :: t ++ b) with ((c :: t) ++ b). rewrite trim_right_app_space by assumption.
    now apply trim_right_trimmed.
Qed.

Lemma trim_pad_l : forall a x, all_space a -> trimmedb x = true -> trim (a ++ x) = x.
Proof. intros a x Ha Hx. rewrite <- (app_nil_r x) at 1. now apply trim_pad. Qed.

Lemma trim_pad_r : forall x b, all_space b -> trimmedb x = true -> trim (x ++ b) = x.
Proof. intros x b Hb Hx. change (x ++ b) with ([] ++ x ++ b). now apply trim_pad. Qed.

Lemma trim_all_space : forall a, all_space a -> trim a = [].
Proof. intros a H. unfold trim. now rewrite trim_left_all_space. Qed.

(* the first non-blank byte survives TrimSpace *)
Lemma trim_first : forall a c t, all_space a -> is_space c = false -> trim (a ++ c :: t) = c :: trim_right t.
Proof.
  intros a c t Ha Hc. unfold trim. rewrite trim_left_space_app by assumption.
  rewrite trim_left_nonspace by assumption. now apply trim_right_cons_nonspace.
Qed.

(* trailing blanks never matter *)
Lemma trim_app_space : forall y b, all_space b -> trim (y ++ b) = trim y.
Proof.
  intros y b Hb. unfold trim. induction y as [|c y IH].
  - cbn [app]. rewrite trim_left_all_space by assumption. reflexivity.
  - cbn [app trim_left]. destruct (is_space c); [exact IH|].
    change (c :: y ++ b) with ((c :: y) ++ b). now apply trim_right_app_space.
Qed.

(* ========================================================================================== *)
(** * 2. Physical lines *)

Lemma no_lf_cons : forall c x, no_lf (c :: x) = true -> Ascii.eqb c LF = false /\ no_lf x = true.
Proof.
  intros c x H. unfold no_lf in *. cbn [forallb] in H. apply andb_true_iff in H. destruct H as [H1 H2].
  unfold not_lf in H1. apply negb_true_iff in H1. now split.
Qed.

Lemma phys_lines_lf : forall t, phys_lines (LF :: t) = [] :: phys_lines t.
Proof. intro t. cbn [phys_lines]. now rewrite Ascii.eqb_refl. Qed.

Lemma phys_lines_single : forall c, Ascii.eqb c LF = false -> phys_lines [c] = [[c]].
Proof. intros c H. cbn [phys_lines]. now rewrite H. Qed.

Lemma phys_lines_cons2 : forall c d t, Ascii.eqb c LF = false -> Ascii.eqb d LF = false ->
  phys_lines (c :: d :: t) = cons_first c (phys_lines (d :: t)).
Proof. intros c d t H H0. cbn [phys_lines]. rewrite H, H0, andb_false_r. reflexivity. Qed.

Lemma phys_lines_c_lf : forall c t, Ascii.eqb c LF = false ->
  phys_lines (c :: LF :: t) = (if Ascii.eqb c CR then [] else [c]) :: phys_lines t.
Proof.
  intros c t H. cbn [phys_lines]. rewrite H. rewrite !Ascii.eqb_refl. rewrite andb_true_r.
  destruct (Ascii.eqb c CR); reflexivity.
Qed.

(* the splitter on  x ++ "\n" ++ rest  where x contains no "\n" *)
Lemma phys_lines_line : forall x rest, no_lf x = true ->
  phys_lines (x ++ LF :: rest) = strip_cr x :: phys_lines rest.
Proof.
  induction x as [|c x IH]; intros rest H.
  - cbn [app strip_cr]. apply phys_lines_lf.
  - apply no_lf_cons in H. destruct H as [Hc Hx].
    destruct x as [|d x'].
    + cbn [app strip_cr]. rewrite phys_lines_c_lf by assumption. reflexivity.
    + pose proof (no_lf_cons _ _ Hx) as [Hd _].
      change ((c :: d :: x') ++ LF :: rest) with (c :: d :: (x' ++ LF :: rest)).
      rewrite phys_lines_cons2 by assumption.
      change (d :: x' ++ LF :: rest) with ((d :: x') ++ LF :: rest).
      rewrite (IH rest Hx). reflexivity.
Qed.

(* a last line without terminator is delivered as it is; an empty rest is EOF *)
Lemma phys_lines_last : forall x, no_lf x = true -> x <> [] -> phys_lines x = [x].
Proof.
  induction x as [|c x IH]; intros H N; [congruence|].
  apply no_lf_cons in H. destruct H as [Hc Hx].
  destruct x as [|d x'].
  - now apply phys_lines_single.
  - pose proof (no_lf_cons _ _ Hx) as [Hd _].
    rewrite phys_lines_cons2 by assumption. rewrite IH by (assumption || discriminate). reflexivity.
Qed.

Lemma strip_cr_cases : forall x, strip_cr x = x \/ x = strip_cr x ++ [CR].
Proof.
  induction x as [|c x IH]; [now left|].
  destruct x as [|d x'].
  - cbn [strip_cr]. destruct (Ascii.eqb c CR) eqn:E; [|now left].
    apply Ascii.eqb_eq in E. subst. now right.
  - change (strip_cr (c :: d :: x')) with (c :: strip_cr (d :: x')).
    destruct IH as [IH|IH]; [left; now rewrite IH|right].
    cbn [app]. now rewrite <- IH.
Qed.

Lemma trim_strip_cr : forall x, trim (strip_cr x) = trim x.
Proof.
  intro x. destruct (strip_cr_cases x) as [E|E]; [now rewrite E|].
  rewrite E at 2. symmetry. apply trim_app_space. reflexivity.
Qed.

Lemma unlines_cons2 : forall b r r2 rest,
  unlines b (r :: r2 :: rest) = r ++ LF :: unlines b (r2 :: rest).
Proof. reflexivity. Qed.

(* the trimmed physical lines of a rendered text are the trimmed raw lines *)
Lemma lines_unlines_nl : forall rs, Forall (fun r => no_lf r = true) rs ->
  map trim (phys_lines (unlines true rs)) = map trim rs.
Proof.
  induction rs as [|r rs IH]; intro H; [reflexivity|].
  inversion H as [|? ? Hr Hrs]; subst.
  destruct rs as [|r2 rest].
  - cbn [unlines]. rewrite phys_lines_line by assumption. cbn [phys_lines map]. now rewrite trim_strip_cr.
  - rewrite unlines_cons2. rewrite phys_lines_line by assumption.
    cbn [map]. rewrite trim_strip_cr. f_equal. now apply IH.
Qed.

Lemma lines_unlines_nonl : forall rs, Forall (fun r => no_lf r = true) rs ->
  map trim (phys_lines (unlines false rs)) = map trim rs
  \/ exists rs', rs = rs' ++ [[]] /\ map trim (phys_lines (unlines false rs)) = map trim rs'.
Proof.
  induction rs as [|r rs IH]; intro H; [now left|].
  inversion H as [|? ? Hr Hrs]; subst.
  destruct rs as [|r2 rest].
  - cbn [unlines]. destruct r as [|c r'].
    + right. exists []. split; reflexivity.
    + left. rewrite phys_lines_last by (assumption || discriminate). reflexivity.
  - rewrite unlines_cons2. rewrite phys_lines_line by assumption.
    cbn [map]. rewrite trim_strip_cr. destruct (IH Hrs) as [E|[rs' [E1 E2]]].
    + left. now rewrite E.
    + right. exists (r :: rs'). split; [now rewrite E1|]. cbn [map]. now rewrite E2.
Qed.

(* ========================================================================================== *)
(** * 3. The line machine on rendered items *)

Notation cfgT := (list (list ascii * list ascii * list ascii)) (only parsing).

Definition run (ls : list (list ascii)) : result cfgT :=
  match steps init ls with
  | Err e => Err e
  | Ok s => match finish s with Err e => Err e | Ok s' => Ok (st_wr s') end
  end.

Lemma parse_raw_run : forall t, parse_raw t = run (map trim (phys_lines t)).
Proof. reflexivity. Qed.

Lemma steps_app : forall a b s,
  steps s (a ++ b) = match steps s a with Ok s' => steps s' b | Err e => Err e end.
Proof.
  induction a as [|x a IH]; intros b s; cbn [app steps]; [reflexivity|].
  destruct (step s x); [apply IH|reflexivity].
Qed.

(* the state between two items: nothing pending, or one complete definition waiting to be
   written (canWrite = true); E is the configuration including the pending definition *)
Definition Inv (s : st) (sec : list ascii) (E : cfgT) : Prop :=
  st_sec s = sec /\
  ((st_buf s = [] /\ map entry (st_wr s) = E) \/
   (st_cw s = true /\ st_buf s <> [] /\
    exists k v, split_eq (st_buf s) = Some (k, v) /\ E = entry (sec, k, v) :: map entry (st_wr s))).

Lemma pre_flush : forall s sec E, Inv s sec E ->
  exists s0, (if st_cw s then flush s else Ok s) = Ok s0 /\
             st_sec s0 = sec /\ st_buf s0 = [] /\ map entry (st_wr s0) = E.
Proof.
  intros [sc bf c w] sec E [Hs H]. cbn [st_sec st_buf st_cw st_wr] in *. subst sc.
  destruct H as [[Hb HE]|[Hc [Hb [k [v [Hsp HE]]]]]].
  - subst bf. exists (mkSt sec [] c w). split; [|now repeat split].
    destruct c; reflexivity.
  - subst c. exists (mkSt sec [] true ((sec, k, v) :: w)). split; [|repeat split; now subst].
    unfold flush. cbn [st_buf st_sec st_cw st_wr]. destruct bf; [congruence|]. now rewrite Hsp.
Qed.

Notation N sec w := (mkSt sec [] false w).

Lemma step_norm : forall s sec E, Inv s sec E ->
  exists w0, map entry w0 = E /\ forall L, step s L = step (N sec w0) L.
Proof.
  intros s sec E H. destruct (pre_flush _ _ _ H) as [s0 [Hp [H1 [H2 H3]]]].
  exists (st_wr s0). split; [assumption|]. intro L. unfold step at 1. rewrite Hp.
  rewrite H1, H2. reflexivity.
Qed.

Lemma steps_norm : forall s sec E, Inv s sec E ->
  exists w0, map entry w0 = E /\ forall L ls, steps s (L :: ls) = steps (N sec w0) (L :: ls).
Proof.
  intros s sec E H. destruct (step_norm _ _ _ H) as [w0 [H1 H2]].
  exists w0. split; [assumption|]. intros L ls. cbn [steps]. now rewrite H2.
Qed.

Lemma Inv_N : forall sec w, Inv (N sec w) sec (map entry w).
Proof. intros. split; [reflexivity|]. left. now split. Qed.

Lemma step_N_skip : forall sec w L, is_skip L = true -> step (N sec w) L = Ok (mkSt sec [] true w).
Proof. intros sec w L H. unfold step. cbn [st_cw st_sec st_buf st_wr]. now rewrite H. Qed.

Lemma step_N_header : forall sec w L, is_skip L = false -> is_header L = true ->
  step (N sec w) L = Ok (N (inner L) w).
Proof. intros sec w L H1 H2. unfold step. cbn [st_cw st_sec st_buf st_wr]. rewrite H1, H2. reflexivity. Qed.

Lemma step_cont : forall sec B w L, is_skip L = false -> is_header L = false -> ends_with "\" L = true ->
  step (mkSt sec B false w) L = Ok (mkSt sec (B ++ cut_comment (trim (removelast L) ++ [SP])) false w).
Proof. intros sec B w L H1 H2 H3. unfold step. cbn [st_cw st_sec st_buf st_wr]. rewrite H1, H2, H3. reflexivity. Qed.

Lemma step_last : forall sec B w L, is_skip L = false -> is_header L = false -> ends_with "\" L = false ->
  step (mkSt sec B false w) L = Ok (mkSt sec (B ++ cut_comment L) true w).
Proof. intros sec B w L H1 H2 H3. unfold step. cbn [st_cw st_sec st_buf st_wr]. rewrite H1, H2, H3. reflexivity. Qed.

Lemma ends_with_snoc : forall c y d, ends_with c (y ++ [d]) = Ascii.eqb d c.
Proof. intros. unfold ends_with. rewrite frev_rev, rev_app_distr. reflexivity. Qed.

Lemma ends_with_app : forall c A B, B <> [] -> ends_with c (A ++ B) = ends_with c B.
Proof.
  intros c A B H. destruct (exists_last H) as [B' [d E]]. subst B.
  rewrite app_assoc. now rewrite !ends_with_snoc.
Qed.

Definition nocmt (x : list ascii) : Prop := forallb (fun c => negb (is_cmt c)) x = true.

Lemma cut_comment_id : forall x, nocmt x -> cut_comment x = x.
Proof.
  unfold nocmt. induction x as [|c x IH]; intro H; [reflexivity|].
  cbn [forallb] in H. apply andb_true_iff in H. destruct H as [H1 H2]. apply negb_true_iff in H1.
  cbn [cut_comment]. rewrite H1. now rewrite IH.
Qed.

Lemma nocmt_app : forall a b, nocmt a -> nocmt b -> nocmt (a ++ b).
Proof. unfold nocmt. intros. rewrite forallb_app. now rewrite H, H0. Qed.

Lemma nocmt_space : forall a, all_space a -> nocmt a.
Proof.
  unfold all_space, nocmt. induction a as [|c a IH]; intro H; [reflexivity|].
  cbn [forallb] in *. apply andb_true_iff in H. destruct H as [H1 H2].
  destruct (space_not_struct c H1) as [E _]. rewrite E. cbn. now apply IH.
Qed.

Lemma nocmt_head : forall c t, nocmt (c :: t) -> is_cmt c = false.
Proof. unfold nocmt. intros c t H. cbn [forallb] in H. apply andb_true_iff in H. destruct H as [H _]. now apply negb_true_iff in H. Qed.

(* lines of the three kinds *)
Lemma skip_line : forall k, wf_skip k = true -> is_skip (trim (skip_raw k)) = true.
Proof.
  intros [p|i semi t] H; cbn [wf_skip skip_raw] in *.
  - rewrite trim_all_space by now apply blankb_all_space. reflexivity.
  - apply andb_true_iff in H. destruct H as [H _]. apply blankb_all_space in H.
    destruct semi; rewrite trim_first by (assumption || reflexivity); reflexivity.
Qed.

Lemma header_line : forall ind name trail, all_space ind -> all_space trail ->
  let L := trim (ind ++ "[" :: name ++ "]" :: trail) in
  is_skip L = false /\ is_header L = true /\ inner L = name.
Proof.
  intros ind name trail Hi Ht.
  assert (E : ind ++ "[" :: name ++ "]" :: trail = ind ++ ("[" :: name ++ ["]"]) ++ trail).
  { cbn [app]. rewrite <- app_assoc. reflexivity. }
  cbv zeta. rewrite E. rewrite trim_pad; try assumption.
  - repeat split.
    + unfold is_header. cbn [starts_with]. rewrite Ascii.eqb_refl.
      change ("[" :: name ++ ["]"]) with (("[" :: name) ++ ["]"]). rewrite ends_with_snoc. reflexivity.
    + unfold inner. cbn [tl]. apply removelast_last.
  - apply (trimmedb_intro _ _ ("[" :: name) "]"); reflexivity.
Qed.

(* the text of the last physical line of a definition *)
Fixpoint final_text (X : list ascii) (cs : list cont) : list ascii :=
  match cs with [] => X | c :: r => final_text (c_text c) r end.

Definition value_tail (cs : list cont) : list ascii := flat_map (fun c => SP :: c_text c) cs.

Lemma cut_comment_marker : forall a m t, nocmt a -> is_cmt m = true -> cut_comment (a ++ m :: t) = a.
Proof.
  unfold nocmt. induction a as [|c a IH]; intros m t H Hm.
  - cbn [app cut_comment]. now rewrite Hm.
  - cbn [forallb] in H. apply andb_true_iff in H. destruct H as [H1 H2]. apply negb_true_iff in H1.
    cbn [app cut_comment]. rewrite H1. now rewrite IH.
Qed.

(* the blanks in front of an in-line remark reach the buffer (and are trimmed by write()) *)
Definition extra (pad : list ascii) (c : option (bool * list ascii)) : list ascii :=
  match c with None => [] | Some _ => pad end.

Lemma cmt_raw_some : forall semi t, exists m, cmt_raw (Some (semi, t)) = m :: t /\ is_cmt m = true /\ is_space m = false.
Proof. intros [|] t; eexists; (split; [reflexivity|split; reflexivity]). Qed.

(* the physical lines of one definition, started with an empty or partial buffer *)
Lemma conts_run : forall cs ind X B sec w pad c,
  all_space ind -> all_space pad -> wf_cmt c = true ->
  X <> [] -> trimmedb X = true -> nocmt X ->
  Forall (fun c => wf_cont c = true /\ nocmt (c_text c)) cs ->
  is_header (final_text X cs) = false -> ends_with "\" (final_text X cs) = false ->
  steps (mkSt sec B false w) (map trim (cont_lines (ind ++ X) cs (pad ++ cmt_raw c)))
  = Ok (mkSt sec (B ++ X ++ value_tail cs ++ extra pad c) true w).
Proof.
  induction cs as [|a cs IH]; intros ind X B sec w pad c Hi Ht Hcm HX HXt HXc Hcs Hh He.
  - cbn [cont_lines map steps final_text value_tail flat_map] in *.
    destruct X as [|xc xt]; [congruence|].
    destruct (trimmedb_cons _ _ HXt) as [Hxc _].
    destruct c as [[semi t]|].
    + (* with an in-line remark *)
      destruct (cmt_raw_some semi t) as [m [Em [Hm Hms]]].
      unfold wf_cmt in Hcm. rewrite Em in *.
      repeat (apply andb_true_iff in Hcm; destruct Hcm as [Hcm ?]).
      rename H into Hg2, H0 into Hg1. apply negb_true_iff in Hg1. apply negb_true_iff in Hg2.
      rewrite trim_right_cons_nonspace in Hg1, Hg2 by assumption.
      assert (E : trim ((ind ++ xc :: xt) ++ pad ++ m :: t) = ((xc :: xt) ++ pad) ++ m :: trim_right t).
      { unfold trim. rewrite <- app_assoc. rewrite trim_left_space_app by assumption.
        cbn [app]. rewrite trim_left_nonspace by assumption.
        change (xc :: xt ++ pad ++ m :: t) with ((xc :: xt) ++ pad ++ m :: t). rewrite app_assoc.
        now apply trim_right_app_nonspace. }
      rewrite E. rewrite step_last.
      * rewrite cut_comment_marker; [|apply nocmt_app; [assumption|now apply nocmt_space]|assumption].
        cbn [extra]. reflexivity.
      * cbn [app is_skip]. now apply nocmt_head in HXc.
      * unfold is_header. rewrite ends_with_app by discriminate. rewrite Hg2. apply andb_false_r.
      * rewrite ends_with_app by discriminate. exact Hg1.
    + cbn [cmt_raw extra]. rewrite !app_nil_r.
      rewrite <- app_assoc. rewrite trim_pad by assumption.
      rewrite step_last; try assumption.
      * now rewrite cut_comment_id by assumption.
      * cbn [is_skip]. now apply nocmt_head in HXc.
  - inversion Hcs as [|? ? [Ha Hac] Hcs']; subst.
    unfold wf_cont in Ha. repeat (apply andb_true_iff in Ha; destruct Ha as [Ha ?]).
    rename H into Htr, H0 into Hne, H1 into Hind, H2 into Htrail.
    apply blankb_all_space in Ha. apply blankb_all_space in Hind. apply blankb_all_space in Htrail.
    apply negb_true_iff in Hne.
    cbn [cont_lines map steps].
    assert (E : (ind ++ X) ++ c_pad a ++ "\" :: c_trail a = ind ++ (X ++ c_pad a ++ ["\"]) ++ c_trail a).
    { rewrite <- !app_assoc. reflexivity. }
    rewrite E. clear E.
    destruct X as [|xc t]; [congruence|].
    destruct (trimmedb_cons _ _ HXt) as [Hc _].
    assert (Etr : trimmedb ((xc :: t) ++ c_pad a ++ ["\"]) = true).
    { apply (trimmedb_intro xc (t ++ c_pad a ++ ["\"]) ((xc :: t) ++ c_pad a) "\").
      - cbn [app]. now rewrite <- app_assoc.
      - assumption.
      - reflexivity. }
    rewrite trim_pad by assumption.
    assert (El : (xc :: t) ++ c_pad a ++ ["\"] = ((xc :: t) ++ c_pad a) ++ ["\"]) by now rewrite <- app_assoc.
    rewrite step_cont.
    + rewrite El. rewrite removelast_last. rewrite trim_pad_r by assumption.
      rewrite cut_comment_id by (apply nocmt_app; [assumption|reflexivity]).
      cbn [final_text] in Hh, He.
      rewrite (IH (c_ind a) (c_text a) (B ++ (xc :: t) ++ [SP]) sec w pad c); try assumption.
      * f_equal. f_equal. cbn [value_tail flat_map]. rewrite <- !app_assoc. reflexivity.
      * destruct (c_text a); [discriminate|discriminate].
    + cbn [app is_skip]. now apply nocmt_head in HXc.
    + unfold is_header. rewrite El. rewrite ends_with_snoc. cbn. now rewrite andb_false_r.
    + rewrite El. rewrite ends_with_snoc. reflexivity.
Qed.

Lemma split_eq_app : forall K V, forallb (fun c => negb (Ascii.eqb c "=")) K = true ->
  split_eq (K ++ "=" :: V) = Some (K, V).
Proof.
  induction K as [|c K IH]; intros V H.
  - reflexivity.
  - cbn [forallb] in H. apply andb_true_iff in H. destruct H as [H1 H2]. apply negb_true_iff in H1.
    cbn [app split_eq]. rewrite H1. now rewrite IH.
Qed.

Lemma noeq_space : forall a, all_space a -> forallb (fun c => negb (Ascii.eqb c "=")) a = true.
Proof.
  unfold all_space. induction a as [|c a IH]; intro H; [reflexivity|].
  cbn [forallb] in *. apply andb_true_iff in H. destruct H as [H1 H2].
  destruct (space_not_struct c H1) as [_ [E _]]. rewrite E. cbn. now apply IH.
Qed.

Lemma plain_nocmt : forall x, plain x = true -> nocmt x.
Proof.
  unfold plain, nocmt. induction x as [|c x IH]; intro H; [reflexivity|].
  cbn [forallb] in *. apply andb_true_iff in H. destruct H as [H1 H2].
  apply andb_true_iff in H1. destruct H1 as [_ H1]. rewrite H1. cbn. now apply IH.
Qed.

Lemma plain_no_lf : forall x, plain x = true -> no_lf x = true.
Proof.
  unfold plain, no_lf. induction x as [|c x IH]; intro H; [reflexivity|].
  cbn [forallb] in *. apply andb_true_iff in H. destruct H as [H1 H2].
  apply andb_true_iff in H1. destruct H1 as [H1 _]. rewrite H1. cbn. now apply IH.
Qed.

Lemma plain_app : forall a b, plain (a ++ b) = true -> plain a = true /\ plain b = true.
Proof. unfold plain. intros a b H. rewrite forallb_app in H. now apply andb_true_iff in H. Qed.

Lemma plain_value_tail : forall cs, plain (value_tail cs) = true -> Forall (fun c => plain (c_text c) = true) cs.
Proof.
  induction cs as [|a cs IH]; intro H; [constructor|].
  cbn [value_tail flat_map] in H. change (SP :: c_text a) with ([SP] ++ c_text a) in H.
  rewrite <- app_assoc in H. apply plain_app in H. destruct H as [_ H].
  apply plain_app in H. destruct H as [H1 H2]. constructor; [assumption|now apply IH].
Qed.

Lemma def_value_eq : forall d, def_value d = d_first d ++ value_tail (d_more d).
Proof. reflexivity. Qed.

Lemma ends_final : forall ch cs X, X <> [] -> Forall (fun c => c_text c <> []) cs ->
  ends_with ch (X ++ value_tail cs) = ends_with ch (final_text X cs).
Proof.
  induction cs as [|a cs IH]; intros X HX H.
  - cbn [value_tail flat_map final_text]. now rewrite app_nil_r.
  - inversion H as [|? ? Ha Hcs]; subst. cbn [value_tail flat_map final_text].
    change (SP :: c_text a) with ([SP] ++ c_text a). rewrite <- app_assoc. rewrite app_assoc.
    rewrite ends_with_app.
    + apply (IH (c_text a)); assumption.
    + destruct (c_text a); [congruence|discriminate].
Qed.

Lemma last_ok_final : forall cs X a, last_ok (a :: cs) = negb (is_header (final_text X (a :: cs))).
Proof.
  induction cs as [|b cs IH]; intros X a; [reflexivity|].
  change (last_ok (a :: b :: cs)) with (last_ok (b :: cs)).
  change (final_text X (a :: b :: cs)) with (final_text (c_text a) (b :: cs)). apply IH.
Qed.

Lemma wf_cont_text : forall c, wf_cont c = true -> c_text c <> [].
Proof.
  intros c H. unfold wf_cont in H. repeat (apply andb_true_iff in H; destruct H as [H ?]).
  destruct (c_text c); [discriminate|discriminate].
Qed.

Lemma Forall_and : forall (A : Type) (P Q : A -> Prop) l, Forall P l -> Forall Q l -> Forall (fun x => P x /\ Q x) l.
Proof. induction 1; intro H2; inversion H2; subst; constructor; auto. Qed.

Lemma forallb_Forall : forall (A : Type) (f : A -> bool) l, forallb f l = true -> Forall (fun x => f x = true) l.
Proof.
  induction l as [|x l IH]; intro H; [constructor|].
  cbn [forallb] in H. apply andb_true_iff in H. destruct H. constructor; auto.
Qed.

Ltac norm_app := repeat (progress (cbn [app]; rewrite <- ?app_assoc)).

(* one whole definition, from the state between two items *)
Lemma def_run : forall d sec w,
  wf_ldef d = true -> wf_key (d_key d) = true -> wf_value (def_value d) = true ->
  exists s', steps (N sec w) (map trim (cont_lines (d_ind d ++ def_head d) (d_more d) (d_trail d ++ cmt_raw (d_cmt d)))) = Ok s'
             /\ Inv s' sec ((norm_sec sec, d_key d, def_value d) :: map entry w).
Proof.
  intros d sec w Hd Hk Hv.
  unfold wf_ldef, wf_ldef_g in Hd. repeat (apply andb_true_iff in Hd; destruct Hd as [Hd ?]).
  rename H into Hmore, H0 into Hft, H1 into Hcmt, H2 into Htrail, H3 into Hws2, H4 into Hws1, H5 into Hind.
  apply blankb_all_space in Htrail. apply blankb_all_space in Hws2.
  apply blankb_all_space in Hws1. apply blankb_all_space in Hind.
  unfold wf_key in Hk. repeat (apply andb_true_iff in Hk; destruct Hk as [Hk ?]).
  rename H into Hkb, H0 into Hkeq, H1 into Hkp, H2 into Hkt.
  apply negb_true_iff in Hkb.
  unfold wf_value in Hv. repeat (apply andb_true_iff in Hv; destruct Hv as [Hv ?]).
  rename H into Hvs, H0 into Hvp. apply negb_true_iff in Hvs.
  destruct (d_key d) as [|kc kt] eqn:EK; [discriminate|]. clear Hk.
  destruct (trimmedb_cons _ _ Hkt) as [Hkc _].
  cbn [starts_with] in Hkb.
  assert (Hsplit : forall V, split_eq (((kc :: kt) ++ d_ws1 d) ++ "=" :: V) = Some ((kc :: kt) ++ d_ws1 d, V)).
  { intro V. apply split_eq_app. rewrite forallb_app. rewrite Hkeq. now rewrite noeq_space. }
  assert (Hex : forall p, all_space p -> all_space (extra p (d_cmt d))).
  { intros p Hp. destruct (d_cmt d); [exact Hp|reflexivity]. }
  destruct (d_first d) as [|fc ft] eqn:EF.
  - (* empty value: the line is  key ws1 '='  followed by blanks only *)
    destruct (d_more d) as [|? ?] eqn:EM; [|discriminate].
    unfold def_head. rewrite EK, EF.
    assert (E : (d_ind d ++ (kc :: kt) ++ d_ws1 d ++ "=" :: d_ws2 d ++ []) ++ d_trail d ++ cmt_raw (d_cmt d)
                = (d_ind d ++ ((kc :: kt) ++ d_ws1 d ++ ["="])) ++ (d_ws2 d ++ d_trail d) ++ cmt_raw (d_cmt d)).
    { rewrite app_nil_r. rewrite <- !app_assoc. reflexivity. }
    cbn [cont_lines]. rewrite E. clear E.
    pose proof (conts_run [] (d_ind d) ((kc :: kt) ++ d_ws1 d ++ ["="]) [] sec w (d_ws2 d ++ d_trail d) (d_cmt d)) as R.
    cbn [cont_lines] in R. rewrite R; clear R.
    + eexists. split; [reflexivity|]. split; [reflexivity|]. right.
      cbn [st_cw st_buf st_wr]. split; [reflexivity|]. split; [discriminate|].
      exists ((kc :: kt) ++ d_ws1 d), (extra (d_ws2 d ++ d_trail d) (d_cmt d)). split.
      * cbn [value_tail flat_map].
        rewrite <- (Hsplit (extra (d_ws2 d ++ d_trail d) (d_cmt d))). f_equal. norm_app. reflexivity.
      * unfold entry. rewrite def_value_eq, EF, EM. cbn [value_tail flat_map].
        rewrite (trim_pad_r (kc :: kt)) by assumption.
        rewrite trim_all_space by (apply Hex; now apply all_space_app). reflexivity.
    + assumption.
    + now apply all_space_app.
    + assumption.
    + discriminate.
    + apply (trimmedb_intro kc (kt ++ d_ws1 d ++ ["="]) ((kc :: kt) ++ d_ws1 d) "=").
      * cbn [app]. now rewrite <- app_assoc.
      * assumption.
      * reflexivity.
    + apply nocmt_app; [now apply plain_nocmt|]. apply nocmt_app; [now apply nocmt_space|reflexivity].
    + constructor.
    + cbn [final_text]. unfold is_header. cbn [app starts_with]. now rewrite Hkb.
    + cbn [final_text]. rewrite app_assoc. rewrite ends_with_snoc. reflexivity.
  - (* non-empty value *)
    rewrite def_value_eq in *. rewrite EF in *.
    apply plain_app in Hvp. destruct Hvp as [Hfp Htp].
    apply plain_value_tail in Htp.
    destruct (trimmedb_cons _ _ Hft) as [Hfc [fy [fd [Efy Hfd]]]].
    assert (Hconts : Forall (fun c => wf_cont c = true /\ nocmt (c_text c)) (d_more d)).
    { apply Forall_and.
      - destruct (d_more d); [constructor|].
        repeat (apply andb_true_iff in Hmore; destruct Hmore as [Hmore ?]).
        now apply forallb_Forall.
      - eapply Forall_impl; [|exact Htp]. intros a Ha. now apply plain_nocmt. }
    assert (Hne : Forall (fun c => c_text c <> []) (d_more d)).
    { eapply Forall_impl; [|exact Hconts]. intros a [Ha _]. now apply wf_cont_text. }
    pose proof (conts_run (d_more d) (d_ind d) (def_head d) [] sec w (d_trail d) (d_cmt d)) as R.
    rewrite R; clear R.
    + eexists. split; [reflexivity|]. split; [reflexivity|]. right.
      cbn [st_cw st_buf st_wr]. split; [reflexivity|]. split.
      { unfold def_head. rewrite EK. discriminate. }
      exists ((kc :: kt) ++ d_ws1 d), (d_ws2 d ++ ((fc :: ft) ++ value_tail (d_more d)) ++ extra (d_trail d) (d_cmt d)). split.
      * rewrite <- (Hsplit (d_ws2 d ++ ((fc :: ft) ++ value_tail (d_more d)) ++ extra (d_trail d) (d_cmt d))). f_equal.
        unfold def_head. rewrite EK, EF. norm_app. reflexivity.
      * unfold entry. rewrite trim_pad_r by assumption.
        rewrite trim_pad; [reflexivity|assumption|now apply Hex|assumption].
    + assumption.
    + assumption.
    + assumption.
    + unfold def_head. rewrite EK. discriminate.
    + unfold def_head. rewrite EK, EF.
      apply (trimmedb_intro kc (kt ++ d_ws1 d ++ "=" :: d_ws2 d ++ fc :: ft) ((kc :: kt) ++ d_ws1 d ++ "=" :: d_ws2 d ++ fy) fd).
      * rewrite Efy. cbn [app]. rewrite <- !app_assoc. cbn [app]. rewrite <- !app_assoc. reflexivity.
      * assumption.
      * assumption.
    + unfold def_head. rewrite EK, EF. apply nocmt_app; [now apply plain_nocmt|].
      apply nocmt_app; [now apply nocmt_space|].
      change ("=" :: d_ws2 d ++ fc :: ft) with (["="] ++ d_ws2 d ++ fc :: ft).
      apply nocmt_app; [reflexivity|]. apply nocmt_app; [now apply nocmt_space|now apply plain_nocmt].
    + assumption.
    + destruct (d_more d) as [|a cs] eqn:EM.
      * cbn [final_text]. unfold is_header, def_head. rewrite EK. cbn [app starts_with]. now rewrite Hkb.
      * repeat (apply andb_true_iff in Hmore; destruct Hmore as [Hmore ?]).
        cbn [negb orb] in H. rewrite (last_ok_final cs (def_head d) a) in H. now apply negb_true_iff in H.
    + assert (Ev : ends_with "\" (final_text (fc :: ft) (d_more d)) = false).
      { rewrite <- ends_final; [assumption|discriminate|assumption]. }
      destruct (d_more d) as [|a cs].
      * cbn [final_text] in *.
        assert (E : def_head d = (d_key d ++ d_ws1 d ++ "=" :: d_ws2 d) ++ fc :: ft).
        { unfold def_head. rewrite EF. norm_app. reflexivity. }
        rewrite E. rewrite ends_with_app; [assumption|discriminate].
      * exact Ev.
Qed.

(* blank and comment lines between items change nothing *)
Lemma gap_run : forall gap s sec E, forallb wf_skip gap = true -> Inv s sec E ->
  exists s', steps s (map trim (map skip_raw gap)) = Ok s' /\ Inv s' sec E.
Proof.
  induction gap as [|k gap IH]; intros s sec E Hg HI.
  - exists s. now split.
  - cbn [forallb] in Hg. apply andb_true_iff in Hg. destruct Hg as [Hk Hg].
    destruct (step_norm _ _ _ HI) as [w0 [Hw Hs]].
    cbn [map steps]. rewrite Hs. rewrite step_N_skip by now apply skip_line.
    apply IH; [assumption|]. subst E. split; [reflexivity|]. left. now split.
Qed.

Lemma cont_lines_cons : forall cur cs trail, exists L ls, cont_lines cur cs trail = L :: ls.
Proof. intros cur [|c cs] trail; cbn [cont_lines]; eauto. Qed.

Lemma def_raws_run : forall d s sec E,
  wf_ldef d = true -> wf_key (d_key d) = true -> wf_value (def_value d) = true -> Inv s sec E ->
  exists s', steps s (map trim (def_raws d)) = Ok s' /\ Inv s' sec ((norm_sec sec, d_key d, def_value d) :: E).
Proof.
  intros d s sec E Hd Hk Hv HI. unfold def_raws. rewrite map_app, steps_app.
  assert (Hg : forallb wf_skip (d_gap d) = true).
  { unfold wf_ldef, wf_ldef_g in Hd. repeat (apply andb_true_iff in Hd; destruct Hd as [Hd ?]). assumption. }
  destruct (gap_run _ _ _ _ Hg HI) as [s1 [R1 I1]]. rewrite R1.
  destruct (steps_norm _ _ _ I1) as [w0 [Hw Hs]].
  destruct (cont_lines_cons (d_ind d ++ def_head d) (d_more d) (d_trail d ++ cmt_raw (d_cmt d))) as [L [ls EL]].
  destruct (def_run d sec w0 Hd Hk Hv) as [s2 [R2 I2]].
  rewrite EL in *. cbn [map] in *. rewrite Hs. rewrite R2. exists s2. split; [reflexivity|]. now subst E.
Qed.

Definition ldef_entry (sec : list ascii) (d : ldef) := (norm_sec sec, d_key d, def_value d).

Lemma defs_run : forall defs s sec E,
  forallb wf_ldef defs = true ->
  forallb (fun d => wf_key (d_key d) && wf_value (def_value d)) defs = true ->
  Inv s sec E ->
  exists s', steps s (map trim (flat_map def_raws defs)) = Ok s'
             /\ Inv s' sec (rev (map (ldef_entry sec) defs) ++ E).
Proof.
  induction defs as [|d defs IH]; intros s sec E H1 H2 HI.
  - exists s. now split.
  - cbn [forallb] in H1, H2. apply andb_true_iff in H1. destruct H1 as [Hd H1].
    apply andb_true_iff in H2. destruct H2 as [Hkv H2]. apply andb_true_iff in Hkv. destruct Hkv as [Hk Hv].
    cbn [flat_map]. rewrite map_app, steps_app.
    destruct (def_raws_run d s sec E Hd Hk Hv HI) as [s1 [R1 I1]]. rewrite R1.
    destruct (IH s1 sec _ H1 H2 I1) as [s2 [R2 I2]]. exists s2. split; [assumption|].
    cbn [map rev]. rewrite <- app_assoc. exact I2.
Qed.

Lemma sec_run : forall sc s sec E,
  wf_lsec sc = true ->
  forallb (fun d => wf_key (d_key d) && wf_value (def_value d)) (s_defs sc) = true ->
  Inv s sec E ->
  exists s', steps s (map trim (sec_raws sc)) = Ok s'
             /\ Inv s' (s_name sc) (rev (map (ldef_entry (s_name sc)) (s_defs sc)) ++ E).
Proof.
  intros sc s sec E Hs Hkv HI. unfold wf_lsec, wf_lsec_g in Hs.
  repeat (apply andb_true_iff in Hs; destruct Hs as [Hs ?]).
  rename H into Hdefs, H0 into Htr, H1 into Hind.
  apply blankb_all_space in Htr. apply blankb_all_space in Hind.
  unfold sec_raws. rewrite map_app, steps_app.
  destruct (gap_run _ _ _ _ Hs HI) as [s1 [R1 I1]]. rewrite R1.
  destruct (steps_norm _ _ _ I1) as [w0 [Hw Hst]].
  cbn [map]. rewrite Hst. cbn [steps].
  destruct (header_line (s_ind sc) (s_name sc) (s_trail sc) Hind Htr) as [H1 [H2 H3]].
  unfold header_raw. rewrite step_N_header by assumption. rewrite H3.
  subst E. apply defs_run; try assumption. apply Inv_N.
Qed.

Definition lsec_entries (sc : lsec) := map (ldef_entry (s_name sc)) (s_defs sc).

Lemma secs_run : forall secs s sec E,
  forallb wf_lsec secs = true ->
  forallb (fun sc => forallb (fun d => wf_key (d_key d) && wf_value (def_value d)) (s_defs sc)) secs = true ->
  Inv s sec E ->
  exists s' sec', steps s (map trim (flat_map sec_raws secs)) = Ok s'
                  /\ Inv s' sec' (rev (flat_map lsec_entries secs) ++ E).
Proof.
  induction secs as [|sc secs IH]; intros s sec E H1 H2 HI.
  - exists s, sec. now split.
  - cbn [forallb] in H1, H2. apply andb_true_iff in H1. destruct H1 as [Hs H1].
    apply andb_true_iff in H2. destruct H2 as [Hkv H2].
    cbn [flat_map]. rewrite map_app, steps_app.
    destruct (sec_run sc s sec E Hs Hkv HI) as [s1 [R1 I1]]. rewrite R1.
    destruct (IH s1 _ _ H1 H2 I1) as [s2 [sec2 [R2 I2]]]. exists s2, sec2. split; [assumption|].
    rewrite rev_app_distr. rewrite <- app_assoc. exact I2.
Qed.

Lemma finish_Inv : forall s sec E, Inv s sec E -> exists s', finish s = Ok s' /\ map entry (st_wr s') = E.
Proof.
  intros s sec E HI. destruct (pre_flush _ _ _ HI) as [s0 [Hp [H1 [H2 H3]]]].
  exists s0. unfold finish. rewrite Hp. split; [|assumption]. unfold flush. now rewrite H2.
Qed.

(* a trailing empty line changes nothing *)
Lemma run_snoc_blank : forall ls, run (ls ++ [[]]) = run ls.
Proof.
  intro ls. unfold run. rewrite steps_app. destruct (steps init ls) as [s|e]; [|reflexivity].
  destruct s as [sc bf c w]. cbn [steps]. unfold step, finish, flush.
  cbn [st_cw st_buf st_sec st_wr is_skip].
  destruct c; destruct bf as [|b bf]; cbn [st_cw st_buf st_sec st_wr]; try reflexivity.
  all: destruct (split_eq (b :: bf)) as [[k v]|]; cbn [st_cw st_buf st_sec st_wr]; reflexivity.
Qed.

(* ========================================================================================== *)
(** * 4. Whole documents *)

Lemma forallb_map : forall (A B : Type) (f : B -> bool) (g : A -> B) l,
  forallb f (map g l) = forallb (fun x => f (g x)) l.
Proof. induction l as [|x l IH]; [reflexivity|]. cbn [map forallb]. now rewrite IH. Qed.

Lemma forallb_andb : forall (A : Type) (f g : A -> bool) l,
  forallb (fun x => f x && g x) l = forallb f l && forallb g l.
Proof.
  induction l as [|x l IH]; [reflexivity|]. cbn [forallb]. rewrite IH.
  destruct (f x), (g x), (forallb f l), (forallb g l); reflexivity.
Qed.

Lemma forallb_ext' : forall (A : Type) (f g : A -> bool) l, (forall x, f x = g x) -> forallb f l = forallb g l.
Proof. intros A f g l H. induction l as [|x l IH]; [reflexivity|]. cbn [forallb]. now rewrite H, IH. Qed.

Lemma no_lf_app : forall a b, no_lf (a ++ b) = no_lf a && no_lf b.
Proof. intros. unfold no_lf. apply forallb_app. Qed.

Lemma Forall_flat_map_intro : forall (A B : Type) (P : B -> Prop) (f : A -> list B) l,
  Forall (fun x => Forall P (f x)) l -> Forall P (flat_map f l).
Proof.
  induction 1 as [|x l Hx Hl IH]; [constructor|]. cbn [flat_map]. apply Forall_app. now split.
Qed.

Lemma skip_no_lf : forall k, wf_skip k = true -> no_lf (skip_raw k) = true.
Proof.
  intros [p|i semi t] H; cbn [wf_skip skip_raw] in *.
  - now apply blankb_no_lf.
  - apply andb_true_iff in H. destruct H as [H1 H2]. rewrite no_lf_app. rewrite (blankb_no_lf _ H1).
    cbn [andb]. unfold no_lf in *. cbn [forallb]. rewrite H2. destruct semi; reflexivity.
Qed.

Lemma gap_no_lf : forall gap, forallb wf_skip gap = true -> Forall (fun r => no_lf r = true) (map skip_raw gap).
Proof.
  induction gap as [|k gap IH]; intro H; [constructor|].
  cbn [forallb] in H. apply andb_true_iff in H. destruct H. constructor; [now apply skip_no_lf|auto].
Qed.

Lemma cont_lines_no_lf : forall cs cur trail, no_lf cur = true -> no_lf trail = true ->
  Forall (fun c => wf_cont c = true /\ no_lf (c_text c) = true) cs ->
  Forall (fun r => no_lf r = true) (cont_lines cur cs trail).
Proof.
  induction cs as [|a cs IH]; intros cur trail Hc Ht H; cbn [cont_lines].
  - constructor; [|constructor]. rewrite no_lf_app. now rewrite Hc, Ht.
  - inversion H as [|? ? [Ha Hat] Hcs]; subst.
    unfold wf_cont in Ha. repeat (apply andb_true_iff in Ha; destruct Ha as [Ha ?]).
    apply blankb_no_lf in Ha. apply blankb_no_lf in H2. apply blankb_no_lf in H3.
    constructor.
    + rewrite !no_lf_app. rewrite Hc, Ha. cbn [andb]. unfold no_lf in *. cbn [forallb]. now rewrite H3.
    + apply IH; try assumption. rewrite no_lf_app. now rewrite H2, Hat.
Qed.

Lemma cmt_no_lf : forall c, wf_cmt c = true -> no_lf (cmt_raw c) = true.
Proof.
  intros [[semi t]|] H; [|reflexivity]. unfold wf_cmt in H.
  repeat (apply andb_true_iff in H; destruct H as [H ?]).
  unfold no_lf in *. cbn [cmt_raw forallb]. rewrite H. destruct semi; reflexivity.
Qed.

Lemma def_no_lf : forall d, wf_ldef d = true -> wf_key (d_key d) = true -> wf_value (def_value d) = true ->
  Forall (fun r => no_lf r = true) (def_raws d).
Proof.
  intros d Hd Hk Hv. unfold def_raws. apply Forall_app.
  unfold wf_ldef, wf_ldef_g in Hd. repeat (apply andb_true_iff in Hd; destruct Hd as [Hd ?]).
  rename H into Hmore, H0 into Hft, H1 into Hcmt, H2 into Htrail, H3 into Hws2, H4 into Hws1, H5 into Hind.
  split; [now apply gap_no_lf|].
  unfold wf_key in Hk. repeat (apply andb_true_iff in Hk; destruct Hk as [Hk ?]).
  rename H1 into Hkp.
  unfold wf_value in Hv. repeat (apply andb_true_iff in Hv; destruct Hv as [Hv ?]).
  rename H3 into Hvp.
  rewrite def_value_eq in *. apply plain_app in Hvp. destruct Hvp as [Hfp Htp].
  apply plain_value_tail in Htp.
  apply cont_lines_no_lf.
  - unfold def_head. rewrite !no_lf_app. rewrite (blankb_no_lf _ Hind), (plain_no_lf _ Hkp), (blankb_no_lf _ Hws1).
    cbn [andb]. unfold no_lf at 1. cbn [forallb]. fold (no_lf (d_ws2 d ++ d_first d)).
    rewrite no_lf_app. rewrite (blankb_no_lf _ Hws2), (plain_no_lf _ Hfp). reflexivity.
  - rewrite no_lf_app. rewrite (blankb_no_lf _ Htrail). now rewrite cmt_no_lf.
  - apply Forall_and.
    + destruct (d_more d); [constructor|].
      repeat (apply andb_true_iff in Hmore; destruct Hmore as [Hmore ?]). now apply forallb_Forall.
    + eapply Forall_impl; [|exact Htp]. intros a Ha. now apply plain_no_lf.
Qed.

Definition kv_ok (d : ldef) : bool := wf_key (d_key d) && wf_value (def_value d).

Lemma wf_doc_erase : forall secs, wf_doc (map erase_sec secs) = true ->
  forallb (fun sc => no_lf (s_name sc)) secs = true /\
  forallb (fun sc => forallb kv_ok (s_defs sc)) secs = true.
Proof.
  intros secs H. unfold wf_doc in H. rewrite forallb_map in H.
  rewrite forallb_andb in H. apply andb_true_iff in H. destruct H as [H1 H2]. split; [exact H1|].
  erewrite forallb_ext'; [exact H2|]. intro sc. cbn [erase_sec snd]. rewrite forallb_map. reflexivity.
Qed.

Lemma sec_no_lf : forall sc, wf_lsec sc = true -> no_lf (s_name sc) = true -> forallb kv_ok (s_defs sc) = true ->
  Forall (fun r => no_lf r = true) (sec_raws sc).
Proof.
  intros sc Hs Hn Hkv. unfold wf_lsec, wf_lsec_g in Hs. repeat (apply andb_true_iff in Hs; destruct Hs as [Hs ?]).
  unfold sec_raws. apply Forall_app. split; [now apply gap_no_lf|]. constructor.
  - unfold header_raw. rewrite no_lf_app. rewrite (blankb_no_lf _ H1). cbn [andb].
    unfold no_lf at 1. cbn [forallb]. fold (no_lf (s_name sc ++ "]" :: s_trail sc)). rewrite no_lf_app. rewrite Hn.
    cbn [andb]. unfold no_lf at 1. cbn [forallb]. fold (no_lf (s_trail sc)). now rewrite (blankb_no_lf _ H0).
  - apply Forall_flat_map_intro. apply Forall_forall. intros d Hin.
    rewrite forallb_forall in H, Hkv. specialize (H d Hin). specialize (Hkv d Hin).
    unfold kv_ok in Hkv. apply andb_true_iff in Hkv. destruct Hkv. now apply def_no_lf.
Qed.

Lemma raws_no_lf : forall l, wf_ldoc l = true -> Forall (fun r => no_lf r = true) (doc_raws l).
Proof.
  intros l H. unfold wf_ldoc in H. apply andb_true_iff in H. destruct H as [Hd Hl].
  unfold wf_layout, wf_layout_g in Hl. apply andb_true_iff in Hl. destruct Hl as [Hs Ht].
  unfold erase in Hd. apply wf_doc_erase in Hd. destruct Hd as [Hn Hkv].
  unfold doc_raws. apply Forall_app. split; [|now apply gap_no_lf].
  apply Forall_flat_map_intro. apply Forall_forall. intros sc Hin.
  rewrite forallb_forall in Hs, Hn, Hkv. apply sec_no_lf; auto.
Qed.

Lemma entries_erase : forall secs, flat_map lsec_entries secs = flat_map sec_entries (map erase_sec secs).
Proof.
  induction secs as [|sc secs IH]; [reflexivity|]. cbn [flat_map map]. rewrite IH. f_equal.
  unfold lsec_entries, sec_entries. cbn [erase_sec fst snd]. rewrite map_map. reflexivity.
Qed.

Lemma parse_raw_render : forall l, wf_ldoc l = true ->
  parse_raw (render l) = run (map trim (doc_raws l)).
Proof.
  intros l H. pose proof (raws_no_lf l H) as Hn. rewrite parse_raw_run. unfold render.
  destruct (l_final_nl l).
  - now rewrite lines_unlines_nl.
  - destruct (lines_unlines_nonl _ Hn) as [E|[rs' [E1 E2]]]; [now rewrite E|].
    rewrite E2. rewrite E1. rewrite map_app. cbn [map]. change (trim []) with (@nil ascii).
    now rewrite run_snoc_blank.
Qed.

(** The layout theorem: for EVERY document and EVERY layout of it inside the guards, the
    configuration read from the rendered text is exactly what the document defines. *)
Theorem layout_invariant : forall l, wf_ldoc l = true -> parse (render l) = Ok (cfg_doc (erase l)).
Proof.
  intros l H. unfold parse. rewrite (parse_raw_render l H).
  unfold wf_ldoc in H. apply andb_true_iff in H. destruct H as [Hd Hl].
  unfold wf_layout, wf_layout_g in Hl. apply andb_true_iff in Hl. destruct Hl as [Hs Ht].
  unfold erase in Hd. apply wf_doc_erase in Hd. destruct Hd as [_ Hkv].
  unfold run, doc_raws. rewrite map_app, steps_app.
  destruct (secs_run (l_secs l) init [] [] Hs Hkv (Inv_N [] [])) as [s1 [sec1 [R1 I1]]].
  rewrite R1. destruct (gap_run _ _ _ _ Ht I1) as [s2 [R2 I2]]. rewrite R2.
  destruct (finish_Inv _ _ _ I2) as [s3 [R3 E3]]. rewrite R3. rewrite E3.
  rewrite app_nil_r. unfold cfg_doc, erase. now rewrite entries_erase.
Qed.

Corollary two_layouts : forall l1 l2, wf_ldoc l1 = true -> wf_ldoc l2 = true -> erase l1 = erase l2 ->
  parse (render l1) = parse (render l2) /\ load_text (render l1) = load_text (render l2).
Proof.
  intros l1 l2 H1 H2 E. unfold load_text. rewrite (layout_invariant l1 H1), (layout_invariant l2 H2), E. now split.
Qed.

(* ========================================================================================== *)
(** * 5. Section order; the model depends on look-ups only *)

Lemma lookup_app : forall a b s k,
  lookup (a ++ b) s k = match lookup a s k with Some v => Some v | None => lookup b s k end.
Proof.
  unfold lookup. induction a as [|e a IH]; intros b s k; [reflexivity|].
  cbn [app find]. destruct (str_eqb (fst (fst e)) s && str_eqb (snd (fst e)) k); [reflexivity|apply IH].
Qed.

Lemma lookup_none : forall c s k, (forall e, In e c -> fst (fst e) <> s) -> lookup c s k = None.
Proof.
  unfold lookup. induction c as [|e c IH]; intros s k H; [reflexivity|].
  cbn [find]. assert (E : str_eqb (fst (fst e)) s = false) by (apply str_eqb_neq; apply H; now left).
  rewrite E. cbn [andb]. apply IH. intros e' Hin. apply H. now right.
Qed.

Lemma lookup_other_section : forall sc s k, norm_sec (fst sc) <> s -> lookup (rev (sec_entries sc)) s k = None.
Proof.
  intros sc s k H. apply lookup_none. intros e Hin. apply in_rev in Hin.
  unfold sec_entries in Hin. apply in_map_iff in Hin. destruct Hin as [kv [E _]]. subst e. exact H.
Qed.

Lemma cfg_doc_cons : forall x d, cfg_doc (x :: d) = cfg_doc d ++ rev (sec_entries x).
Proof. intros. unfold cfg_doc. cbn [flat_map]. apply rev_app_distr. Qed.

Lemma distinctb_NoDup : forall l, distinctb l = true <-> NoDup l.
Proof.
  induction l as [|x l IH]; cbn [distinctb].
  - split; [constructor|reflexivity].
  - rewrite andb_true_iff, negb_true_iff, IH. split.
    + intros [H1 H2]. constructor; [|assumption]. intro Hin.
      assert (existsb (str_eqb x) l = true); [|congruence].
      apply existsb_exists. exists x. split; [assumption|apply str_eqb_refl].
    + intro H. inversion H as [|? ? Hn Hd]; subst. split; [|assumption].
      destruct (existsb (str_eqb x) l) eqn:E; [|reflexivity].
      apply existsb_exists in E. destruct E as [y [Hin Hy]]. apply str_eqb_eq in Hy. subst. contradiction.
Qed.

Lemma distinct_perm : forall d d' : list (list ascii * list (list ascii * list ascii)),
  Permutation d d' -> distinct_sections d = true -> distinct_sections d' = true.
Proof.
  unfold distinct_sections. intros d d' P H. apply distinctb_NoDup. apply distinctb_NoDup in H.
  eapply Permutation_NoDup; [|exact H]. now apply Permutation_map.
Qed.

(** With pairwise different section names the order of the sections does not matter. *)
Theorem section_order : forall d d' : list (list ascii * list (list ascii * list ascii)),
  Permutation d d' -> distinct_sections d = true ->
  forall s k, lookup (cfg_doc d) s k = lookup (cfg_doc d') s k.
Proof.
  induction 1 as [|x l l' P IH|x y l|l l' l'' P1 IH1 P2 IH2]; intros Hd s k.
  - reflexivity.
  - rewrite !cfg_doc_cons, !lookup_app. rewrite IH; [reflexivity|].
    unfold distinct_sections in *. cbn [map distinctb] in Hd. apply andb_true_iff in Hd. tauto.
  - rewrite !cfg_doc_cons, !lookup_app. destruct (lookup (cfg_doc l) s k); [reflexivity|].
    unfold distinct_sections in Hd. cbn [map distinctb existsb] in Hd.
    apply andb_true_iff in Hd. destruct Hd as [Hd _]. apply negb_true_iff in Hd.
    apply orb_false_iff in Hd. destruct Hd as [Hd _]. apply str_eqb_neq in Hd.
    destruct (str_eqb (norm_sec (fst x)) s) eqn:E.
    + apply str_eqb_eq in E. rewrite (lookup_other_section y) by congruence.
      now destruct (lookup (rev (sec_entries x)) s k).
    + apply str_eqb_neq in E. rewrite (lookup_other_section x) by assumption.
      now destruct (lookup (rev (sec_entries y)) s k).
  - rewrite IH1 by assumption. apply IH2. eapply distinct_perm; eassumption.
Qed.

Lemma cfg_doc_length_perm : forall d d' : list (list ascii * list (list ascii * list ascii)),
  Permutation d d' -> List.length (cfg_doc d) = List.length (cfg_doc d').
Proof.
  induction 1 as [|x l l' P IH|x y l|l l' l'' P1 IH1 P2 IH2].
  - reflexivity.
  - rewrite !cfg_doc_cons, !app_length. now rewrite IH.
  - rewrite !cfg_doc_cons, !app_length. lia.
  - congruence.
Qed.

Lemma get_lookup : forall c c', (forall s k, lookup c s k = lookup c' s k) -> forall s k, get c s k = get c' s k.
Proof. intros c c' H s k. unfold get. now rewrite H. Qed.

Lemma load_section_ext : forall c c' sec fuel i, (forall s k, get c s k = get c' s k) ->
  load_section c sec fuel i = load_section c' sec fuel i.
Proof.
  intros c c' sec fuel. induction fuel as [|f IH]; intros i H; [reflexivity|].
  cbn [load_section]. rewrite H. destruct (add_def sec (key_of sec i) (get c' (sec_name sec) (key_of sec i))); [|reflexivity].
  now rewrite IH.
Qed.

(** loadModelFromConfig is a function of the look-ups (and the model's loop bound). *)
Lemma load_model_ext : forall c c', (forall s k, get c s k = get c' s k) -> List.length c = List.length c' ->
  load_model c = load_model c'.
Proof.
  intros c c' H HL. unfold load_model.
  assert (E : forall secs, load_secs c secs = load_secs c' secs).
  { induction secs as [|sec secs IH]; [reflexivity|]. cbn [load_secs]. rewrite HL.
    rewrite (load_section_ext c c') by assumption. now rewrite IH. }
  now rewrite E.
Qed.

(** Two layouts of two documents that differ only in the order of their (distinctly named)
    sections give the same model: same assertions, same tokens, same error. *)
Theorem layout_and_order : forall l1 l2, wf_ldoc l1 = true -> wf_ldoc l2 = true ->
  Permutation (erase l1) (erase l2) -> distinct_sections (erase l1) = true ->
  load_text (render l1) = load_text (render l2).
Proof.
  intros l1 l2 H1 H2 P D. unfold load_text.
  rewrite (layout_invariant l1 H1), (layout_invariant l2 H2).
  apply load_model_ext.
  - apply get_lookup. now apply section_order.
  - now apply cfg_doc_length_perm.
Qed.

(* ========================================================================================== *)
(** * 6. Arbitrary texts *)

(** ** 6a. Totality with explicit errors *)

Definition no_equals_error (e : error) : Prop :=
  exists b, e = ENoEquals b /\ split_eq b = None /\ b <> [].

Lemma flush_err : forall s e, flush s = Err e -> no_equals_error e.
Proof.
  intros s e H. unfold flush in H. destruct (st_buf s) as [|c b] eqn:E; [discriminate|].
  destruct (split_eq (c :: b)) as [[k v]|] eqn:E2; [discriminate|]. inversion H; subst.
  exists (c :: b). repeat split; [assumption|discriminate].
Qed.

Lemma step_err : forall s L e, step s L = Err e -> no_equals_error e.
Proof.
  intros s L e H. unfold step in H.
  destruct (if st_cw s then flush s else Ok s) as [s0|e0] eqn:E0.
  - destruct (is_skip L); [discriminate|]. destruct (is_header L); [|discriminate].
    cbn [st_buf st_sec st_wr st_cw] in H.
    destruct (is_nil (st_buf s0)); [discriminate|].
    destruct (flush (mkSt (st_sec s0) (st_buf s0) false (st_wr s0))) as [s2|e2] eqn:E2; [discriminate|].
    inversion H; subst. eapply flush_err; eassumption.
  - inversion H; subst. destruct (st_cw s); [|discriminate]. eapply flush_err; eassumption.
Qed.

Lemma steps_err : forall ls s e, steps s ls = Err e -> no_equals_error e.
Proof.
  induction ls as [|L ls IH]; intros s e H; cbn [steps] in H; [discriminate|].
  destruct (step s L) as [s'|e'] eqn:E; [eapply IH; eassumption|].
  inversion H; subst. eapply step_err; eassumption.
Qed.

Lemma finish_err : forall s e, finish s = Err e -> no_equals_error e.
Proof.
  intros s e H. unfold finish in H. destruct (if st_cw s then flush s else Ok s) as [s0|e0] eqn:E0.
  - eapply flush_err; eassumption.
  - inversion H; subst. destruct (st_cw s); [|discriminate]. eapply flush_err; eassumption.
Qed.

(** Reading a configuration from ANY text gives a configuration or the one error of
    config.go's write(): a pending definition text without '='. *)
Theorem parse_total : forall t,
  (exists c, parse t = Ok c) \/ (exists e, parse t = Err e /\ no_equals_error e).
Proof.
  intro t. unfold parse, parse_raw.
  destruct (steps init (map trim (phys_lines t))) as [s|e] eqn:E.
  - destruct (finish s) as [s'|e] eqn:F; [left; eauto|].
    right. exists e. split; [reflexivity|]. eapply finish_err; eassumption.
  - right. exists e. split; [reflexivity|]. eapply steps_err; eassumption.
Qed.

Lemma load_section_err : forall c sec fuel i e, load_section c sec fuel i = Err e -> e = EFuel.
Proof.
  intros c sec fuel. induction fuel as [|f IH]; intros i e H; cbn [load_section] in H.
  - now inversion H.
  - destruct (add_def sec (key_of sec i) (get c (sec_name sec) (key_of sec i))); [|discriminate].
    destruct (load_section c sec f (S i)) as [r|e'] eqn:E; [discriminate|].
    inversion H; subst. eapply IH; eassumption.
Qed.

Lemma load_secs_err : forall c secs e, load_secs c secs = Err e -> e = EFuel.
Proof.
  intros c secs. induction secs as [|sec secs IH]; intros e H; cbn [load_secs] in H; [discriminate|].
  destruct (load_section c sec (S (List.length c)) 1) as [a|e'] eqn:E.
  - destruct (load_secs c secs) as [m|e''] eqn:E2; [discriminate|]. inversion H; subst. now apply IH.
  - inversion H; subst. eapply load_section_err; eassumption.
Qed.

(** Building a model from ANY text gives a model, the configuration error, or the
    "missing required sections" error (EFuel is the model's own loop bound, see Config.v). *)
Theorem load_total : forall t,
  match load_text t with
  | Ok _ => exists c, parse t = Ok c
  | Err (ENoEquals b) => parse t = Err (ENoEquals b) /\ no_equals_error (ENoEquals b)
  | Err (EMissing ms) => ms <> [] /\ exists c, parse t = Ok c
  | Err EFuel => exists c, parse t = Ok c
  end.
Proof.
  intro t. unfold load_text. destruct (parse_total t) as [[c Hc]|[e [He Hn]]].
  - rewrite Hc. unfold load_model. destruct (load_secs c all_secs) as [m|e] eqn:E.
    + destruct (missing m) eqn:M; [eauto|]. split; [discriminate|eauto].
    + apply load_secs_err in E. subst. eauto.
  - rewrite He. destruct Hn as [b [Hb Hn]]. subst e. split; [reflexivity|]. exists b. now split.
Qed.

(** ** 6b. Nothing is dropped *)

Lemma split_eq_sound : forall b k v, split_eq b = Some (k, v) -> b = k ++ "=" :: v.
Proof.
  induction b as [|c b IH]; intros k v H; cbn [split_eq] in H; [discriminate|].
  destruct (Ascii.eqb c "=") eqn:E.
  - apply Ascii.eqb_eq in E. inversion H; subst. reflexivity.
  - destruct (split_eq b) as [[k' v']|]; [|discriminate]. inversion H; subst.
    cbn [app]. f_equal. now apply IH.
Qed.

Lemma flat_map_app' : forall (A B : Type) (f : A -> list B) l1 l2,
  flat_map f (l1 ++ l2) = flat_map f l1 ++ flat_map f l2.
Proof. induction l1 as [|x l1 IH]; intro l2; [reflexivity|]. cbn [app flat_map]. now rewrite IH, app_assoc. Qed.

(* everything that has been written or is waiting in the buffer, in text order *)
Definition pending (s : st) : list ascii := flat_map raw_text (rev (st_wr s)) ++ st_buf s.

Lemma flush_pending : forall s s', flush s = Ok s' -> pending s' = pending s /\ st_buf s' = [].
Proof.
  intros s s' H. unfold flush in H. destruct (st_buf s) as [|c b] eqn:E.
  - inversion H; subst. now split.
  - destruct (split_eq (c :: b)) as [[k v]|] eqn:E2; [|discriminate]. inversion H; subst.
    split; [|reflexivity]. unfold pending. cbn [st_wr st_buf rev]. rewrite flat_map_app'.
    cbn [flat_map]. unfold raw_text at 2. cbn [fst snd]. rewrite E.
    rewrite (split_eq_sound _ _ _ E2). rewrite !app_nil_r. reflexivity.
Qed.

Lemma pre_pending : forall s s0, (if st_cw s then flush s else Ok s) = Ok s0 -> pending s0 = pending s.
Proof.
  intros s s0 H. destruct (st_cw s); [now apply flush_pending in H|]. now inversion H.
Qed.

Lemma step_pending : forall s L s', step s L = Ok s' -> pending s' = pending s ++ payload L.
Proof.
  intros s L s' H. unfold step in H.
  destruct (if st_cw s then flush s else Ok s) as [s0|e0] eqn:E0; [|discriminate].
  apply pre_pending in E0. rewrite <- E0. unfold payload.
  destruct (is_skip L).
  - inversion H; subst. unfold pending. cbn [st_wr st_buf]. now rewrite app_nil_r.
  - destruct (is_header L).
    + cbn [st_buf st_sec st_wr st_cw] in H. rewrite app_nil_r.
      destruct (is_nil (st_buf s0)).
      * inversion H; subst. reflexivity.
      * destruct (flush (mkSt (st_sec s0) (st_buf s0) false (st_wr s0))) as [s2|e2] eqn:E2; [|discriminate].
        inversion H; subst. apply flush_pending in E2. destruct E2 as [E2 _].
        unfold pending in *. cbn [st_wr st_buf] in *. exact E2.
    + inversion H; subst. unfold pending. cbn [st_wr st_buf]. now rewrite app_assoc.
Qed.

Lemma steps_pending : forall ls s s', steps s ls = Ok s' -> pending s' = pending s ++ flat_map payload ls.
Proof.
  induction ls as [|L ls IH]; intros s s' H; cbn [steps] in H.
  - inversion H; subst. cbn [flat_map]. now rewrite app_nil_r.
  - destruct (step s L) as [s1|e] eqn:E; [|discriminate].
    apply step_pending in E. apply IH in H. rewrite H, E. cbn [flat_map]. now rewrite app_assoc.
Qed.

Lemma finish_pending : forall s s', finish s = Ok s' -> pending s' = pending s /\ st_buf s' = [].
Proof.
  intros s s' H. unfold finish in H.
  destruct (if st_cw s then flush s else Ok s) as [s0|e0] eqn:E0; [|discriminate].
  apply pre_pending in E0. apply flush_pending in H. destruct H as [H1 H2]. split; congruence.
Qed.

(** Conservation: whenever a text is accepted, the concatenation of what its lines contribute
    (in text order) IS the concatenation of the `option=value` texts that were stored: no byte
    of a definition line, other than layout blanks, a continuation backslash and an in-line
    comment, disappears, and nothing is invented. *)
Theorem nothing_dropped : forall t w, parse_raw t = Ok w ->
  flat_map payload (map trim (phys_lines t)) = flat_map raw_text (rev w).
Proof.
  intros t w H. unfold parse_raw in H.
  destruct (steps init (map trim (phys_lines t))) as [s|e] eqn:E; [|discriminate].
  destruct (finish s) as [s'|e] eqn:F; [|discriminate]. inversion H; subst.
  apply steps_pending in E. apply finish_pending in F. destruct F as [F1 F2].
  unfold pending in *. cbn [init st_wr st_buf rev flat_map app] in E.
  rewrite F2, app_nil_r in F1. congruence.
Qed.

Lemma payload_plain_line : forall L, is_skip L = false -> is_header L = false ->
  ends_with "\" L = false -> nocmt L -> payload L = L.
Proof. intros L H1 H2 H3 H4. unfold payload. rewrite H1, H2, H3. now apply cut_comment_id. Qed.

(** Hence every definition line of an accepted text that carries neither a comment character
    nor a continuation backslash is present, in full and contiguously, in the stored texts. *)
Corollary def_line_kept : forall t w L, parse_raw t = Ok w ->
  In L (map trim (phys_lines t)) ->
  is_skip L = false -> is_header L = false -> ends_with "\" L = false -> nocmt L ->
  exists pre post, flat_map raw_text (rev w) = pre ++ L ++ post.
Proof.
  intros t w L H Hin H1 H2 H3 H4. rewrite <- (nothing_dropped t w H).
  apply in_split in Hin. destruct Hin as [l1 [l2 E]]. rewrite E.
  rewrite flat_map_app'. cbn [flat_map]. rewrite (payload_plain_line L) by assumption. eauto.
Qed.

(** What the configuration holds for each stored text: section (""->"default"), TrimSpace of the
    part before the first '=', TrimSpace of everything after it — the value is never cut. *)
Lemma parse_entries : forall t w, parse_raw t = Ok w -> parse t = Ok (map entry w).
Proof. intros t w H. unfold parse. now rewrite H. Qed.

(** For rendered documents: every definition of the document is in the result, in full. *)
Corollary rendered_defs_present : forall l s k v, wf_ldoc l = true ->
  In (s, k, v) (flat_map (fun sc => map (fun kv => (fst sc, fst kv, snd kv)) (snd sc)) (erase l)) ->
  exists c, parse (render l) = Ok c /\ In (norm_sec s, k, v) c.
Proof.
  intros l s k v H Hin. exists (cfg_doc (erase l)). split; [now apply layout_invariant|].
  unfold cfg_doc. apply -> in_rev. apply in_flat_map in Hin. destruct Hin as [sc [Hsc Hin]].
  apply in_flat_map. exists sc. split; [assumption|]. unfold sec_entries.
  apply in_map_iff in Hin. destruct Hin as [kv [E Hkv]]. inversion E; subst.
  apply in_map_iff. exists kv. now split.
Qed.

(** TrimSpace removes white space only: x = blanks ++ trim x ++ blanks. *)
Lemma trim_left_decomp : forall x, exists a, all_space a /\ x = a ++ trim_left x.
Proof.
  induction x as [|c x [a [Ha E]]].
  - exists []. now split.
  - cbn [trim_left]. destruct (is_space c) eqn:Ec.
    + exists (c :: a). split; [unfold all_space in *; cbn [forallb]; now rewrite Ec|]. cbn [app]. now rewrite <- E.
    + exists []. now split.
Qed.

Theorem trim_only_blanks : forall x, exists a b, all_space a /\ all_space b /\ x = a ++ trim x ++ b.
Proof.
  intro x. destruct (trim_left_decomp x) as [a [Ha Ea]].
  destruct (trim_left_decomp (rev (trim_left x))) as [b [Hb Eb]].
  exists a, (rev b). split; [assumption|]. split; [unfold all_space; now rewrite forallb_rev|].
  unfold trim, trim_right. rewrite !frev_rev. rewrite Ea at 1. f_equal.
  rewrite <- (rev_involutive (trim_left x)) at 1. rewrite Eb at 1. now rewrite rev_app_distr.
Qed.

(** The splitter loses nothing but line terminators: every byte other than "\n" and "\r" is in
    the physical lines, in order. *)
Lemma flat_map_cons_first : forall c ls,
  flat_map (filter keep_byte) (cons_first c ls) = filter keep_byte [c] ++ flat_map (filter keep_byte) ls.
Proof.
  intros c [|l r]; cbn [cons_first flat_map].
  - reflexivity.
  - cbn [filter]. destruct (keep_byte c); reflexivity.
Qed.

Theorem lines_lossless : forall t, flat_map (filter keep_byte) (phys_lines t) = filter keep_byte t.
Proof.
  assert (G : forall n t, List.length t <= n -> flat_map (filter keep_byte) (phys_lines t) = filter keep_byte t).
  { induction n as [|n IH]; intros t Hn.
    - destruct t; [reflexivity|cbn in Hn; lia].
    - destruct t as [|c t']; [reflexivity|]. cbn [List.length] in Hn.
      cbn [phys_lines]. destruct (Ascii.eqb c LF) eqn:Ec.
      + apply Ascii.eqb_eq in Ec. subst c. cbn [flat_map filter app]. apply IH. lia.
      + destruct t' as [|d t''].
        * cbn [flat_map]. now rewrite app_nil_r.
        * destruct (Ascii.eqb c CR && Ascii.eqb d LF) eqn:Ecd.
          -- apply andb_true_iff in Ecd. destruct Ecd as [E1 E2].
             apply Ascii.eqb_eq in E1. apply Ascii.eqb_eq in E2. subst c d.
             cbn [flat_map filter app]. apply IH. cbn [List.length] in Hn. lia.
          -- rewrite flat_map_cons_first. rewrite IH by lia.
             change (c :: d :: t'') with ([c] ++ d :: t''). now rewrite filter_app. }
  intro t. now apply (G (List.length t)).
Qed.

(** ** 6c. The slice expressions of the Go code stay in bounds *)

(* section = string(line[1 : len(line)-1]) *)
Lemma header_slice_in_bounds : forall L, is_header L = true -> 2 <= List.length L.
Proof.
  intros [|c [|d t]] H; cbn [List.length]; try lia.
  - discriminate.
  - unfold is_header, ends_with in H. cbn in H. apply andb_true_iff in H. destruct H as [H1 H2].
    apply Ascii.eqb_eq in H1. apply Ascii.eqb_eq in H2. subst. discriminate.
Qed.

(* p = bytes.TrimSpace(line[:len(line)-1]) *)
Lemma continuation_slice_in_bounds : forall L, ends_with "\" L = true -> 1 <= List.length L.
Proof. intros [|c t] H; [discriminate|]. cbn [List.length]. lia. Qed.

Fixpoint cnt (c : ascii) (l : list ascii) : nat :=
  match l with [] => 0 | x :: t => (if Ascii.eqb x c then 1 else 0) + cnt c t end.

Lemma split_on_length : forall c l, List.length (split_on c l) = S (cnt c l).
Proof.
  induction l as [|x l IH]; [reflexivity|]. cbn [split_on cnt].
  destruct (Ascii.eqb x c).
  - cbn [List.length]. now rewrite IH.
  - destruct (split_on c l) as [|y r] eqn:E; cbn [List.length] in *; lia.
Qed.

Lemma cnt_app : forall c a b, cnt c (a ++ b) = cnt c a + cnt c b.
Proof. induction a as [|x a IH]; intro b; [reflexivity|]. cbn [app cnt]. rewrite IH. lia. Qed.

Lemma drop_to_spec : forall c v r, drop_to c v = Some r -> exists pre, v = pre ++ c :: r.
Proof.
  induction v as [|x v IH]; intros r H; cbn [drop_to] in H; [discriminate|].
  destruct (Ascii.eqb x c) eqn:E.
  - apply Ascii.eqb_eq in E. inversion H; subst. now exists [].
  - destruct (IH r H) as [pre Hp]. exists (x :: pre). now rewrite Hp.
Qed.

Lemma take_until_spec : forall c r i, take_until c r = Some i -> exists post, r = i ++ c :: post.
Proof.
  induction r as [|x r IH]; intros i H; cbn [take_until] in H; [discriminate|].
  destruct (Ascii.eqb x c) eqn:E.
  - apply Ascii.eqb_eq in E. inversion H; subst. now exists r.
  - destruct (take_until c r) as [p|] eqn:E2; [|discriminate]. inversion H; subst.
    destruct (IH p eq_refl) as [post Hp]. exists post. now rewrite Hp at 1.
Qed.

(* ast.Tokens = ast.Tokens[:len(ast.Tokens)-len(ast.ParamsTokens)]  (role definitions) *)
Lemma g_tokens_slice_in_bounds : forall v, List.length (params_tokens v) <= List.length (split_on "," v).
Proof.
  intro v. unfold params_tokens. destruct (drop_to "(" v) as [r|] eqn:E1; [|cbn; lia].
  destruct (take_until ")" r) as [i|] eqn:E2; [|cbn; lia].
  apply drop_to_spec in E1. destruct E1 as [pre E1]. apply take_until_spec in E2. destruct E2 as [post E2].
  rewrite !split_on_length. subst v r. change ("(" :: i ++ ")" :: post) with (["("] ++ i ++ ")" :: post).
  rewrite !cnt_app. lia.
Qed.

(* ========================================================================================== *)
(** * 7. Every document has a layout; necessity of the guards *)

Lemma erase_canon : forall d : list (list ascii * list (list ascii * list ascii)), erase (canon d) = d.
Proof.
  intro d. unfold erase, canon. cbn [l_secs]. rewrite map_map.
  induction d as [|[n defs] d IH]; [reflexivity|]. cbn [map]. rewrite IH. f_equal.
  unfold erase_sec, canon_sec. cbn [s_name s_defs fst snd]. f_equal. rewrite map_map.
  induction defs as [|[k v] defs IHd]; [reflexivity|]. cbn [map]. rewrite IHd. f_equal.
  unfold erase_def, canon_def, def_value. cbn [d_key d_first d_more flat_map fst snd]. now rewrite app_nil_r.
Qed.

Lemma wf_layout_canon : forall d : list (list ascii * list (list ascii * list ascii)),
  wf_doc d = true -> wf_layout (canon d) = true.
Proof.
  intros d H. unfold wf_layout, wf_layout_g, canon. cbn [l_secs l_tail forallb]. rewrite andb_true_r.
  rewrite forallb_map. unfold wf_doc in H. rewrite forallb_forall in *. intros [n defs] Hin.
  specialize (H _ Hin). cbn [fst snd] in H. apply andb_true_iff in H. destruct H as [_ H].
  unfold wf_lsec_g, canon_sec. cbn [s_gap s_ind s_trail s_defs forallb blankb fst snd andb].
  rewrite forallb_map. rewrite forallb_forall in *. intros [k v] Hkv. specialize (H _ Hkv).
  cbn [fst snd] in H. apply andb_true_iff in H. destruct H as [_ H].
  unfold wf_value in H. repeat (apply andb_true_iff in H; destruct H as [H ?]).
  unfold wf_ldef_g, canon_def. cbn [d_gap d_ind d_ws1 d_ws2 d_trail d_cmt d_first d_more fst snd forallb wf_cmt].
  rewrite H. reflexivity.
Qed.

(** Every well-formed document has at least one layout inside the guards (the plain one), so
    "for all laid-out documents" covers every well-formed document. *)
Theorem canonical_layout : forall d : list (list ascii * list (list ascii * list ascii)),
  wf_doc d = true -> wf_ldoc (canon d) = true /\ erase (canon d) = d.
Proof.
  intros d H. split; [|apply erase_canon]. unfold wf_ldoc. rewrite erase_canon, H. now apply wf_layout_canon.
Qed.

(** The form of the statement asked for: for all documents d and all layouts l of d. *)
Corollary layout_invariant_doc : forall (d : list (list ascii * list (list ascii * list ascii))) l,
  erase l = d -> wf_doc d = true -> wf_layout l = true -> parse (render l) = Ok (cfg_doc d).
Proof.
  intros d l E Hd Hl. subst d. apply layout_invariant. unfold wf_ldoc. now rewrite Hd, Hl.
Qed.

(** ** Tokens of request / policy definitions do not depend on blanks round the commas *)

Fixpoint join_comma (ys : list (list ascii)) : list ascii :=
  match ys with
  | [] => []
  | y :: r => match r with [] => y | _ => y ++ "," :: join_comma r end
  end.

Definition comma_free (y : list ascii) : Prop := forallb (fun c => negb (Ascii.eqb c ",")) y = true.

Lemma split_on_comma_free : forall y, comma_free y -> split_on "," y = [y].
Proof.
  unfold comma_free. induction y as [|c y IH]; intro H; [reflexivity|].
  cbn [forallb] in H. apply andb_true_iff in H. destruct H as [H1 H2]. apply negb_true_iff in H1.
  cbn [split_on]. rewrite H1. now rewrite IH.
Qed.

Lemma split_on_app_comma : forall y rest, comma_free y ->
  split_on "," (y ++ "," :: rest) = y :: split_on "," rest.
Proof.
  unfold comma_free. induction y as [|c y IH]; intros rest H.
  - cbn [app split_on]. reflexivity.
  - cbn [forallb] in H. apply andb_true_iff in H. destruct H as [H1 H2]. apply negb_true_iff in H1.
    cbn [app split_on]. rewrite H1. now rewrite IH.
Qed.

Lemma split_on_join : forall ys, ys <> [] -> Forall comma_free ys -> split_on "," (join_comma ys) = ys.
Proof.
  induction ys as [|y ys IH]; intros N H; [congruence|].
  inversion H as [|? ? Hy Hys]; subst. destruct ys as [|y2 r].
  - cbn [join_comma]. now apply split_on_comma_free.
  - change (join_comma (y :: y2 :: r)) with (y ++ "," :: join_comma (y2 :: r)).
    rewrite split_on_app_comma by assumption. rewrite IH; [reflexivity|discriminate|assumption].
Qed.

Lemma comma_free_space : forall a, all_space a -> comma_free a.
Proof.
  unfold all_space, comma_free. induction a as [|c a IH]; intro H; [reflexivity|].
  cbn [forallb] in *. apply andb_true_iff in H. destruct H as [H1 H2].
  destruct (space_cases c H1) as [E|[E|[E|[E|[E|E]]]]]; subst; cbn; now apply IH.
Qed.

Lemma comma_free_app : forall a b, comma_free a -> comma_free b -> comma_free (a ++ b).
Proof. unfold comma_free. intros. rewrite forallb_app. now rewrite H, H0. Qed.

(** `r = sub, obj ,act` : whatever blanks surround the field names, AddDef computes the tokens
    key_sub, key_obj, key_act. *)
Theorem tokens_blank_insensitive : forall (xs : list (list ascii * list ascii * list ascii)) key,
  xs <> [] ->
  Forall (fun x => all_space (fst (fst x)) /\ all_space (snd x) /\
                   trimmedb (snd (fst x)) = true /\ comma_free (snd (fst x))) xs ->
  map (fun t => key ++ "_" :: trim t) (split_on "," (join_comma (map (fun x => fst (fst x) ++ snd (fst x) ++ snd x) xs)))
  = map (fun x => key ++ "_" :: snd (fst x)) xs.
Proof.
  intros xs key N H. rewrite split_on_join.
  - rewrite map_map. apply map_ext_in. intros [[a t] b] Hin. rewrite Forall_forall in H.
    destruct (H _ Hin) as [Ha [Hb [Ht _]]]. cbn [fst snd] in *. now rewrite trim_pad.
  - destruct xs; [congruence|discriminate].
  - apply Forall_forall. intros y Hy. apply in_map_iff in Hy. destruct Hy as [[[a t] b] [E Hin]]. subst y.
    rewrite Forall_forall in H. destruct (H _ Hin) as [Ha [Hb [_ Hc]]]. cbn [fst snd] in *.
    apply comma_free_app; [now apply comma_free_space|]. apply comma_free_app; [assumption|now apply comma_free_space].
Qed.

(** ** The guards are necessary *)

Definition L (x : string) : list ascii := list_ascii_of_string x.

(* F34: the last continuation line has the shape "[...]" *)
Definition f34_layout : ldoc :=
  mkLdoc [mkLsec [] [] (L "matchers") []
            [mkLdef [] [] (L "m") [SP] [SP] (L "r.obj == p.obj || r.obj in")
                    [mkCont [SP] [] [SP; SP] (L "['data2', 'data3']")] [] None]] [] true.

Lemma continuation_header_refuted :
  exists l, wf_doc (erase l) = true /\ wf_layout_g false l = true /\ wf_layout l = false /\
            parse (render l) <> Ok (cfg_doc (erase l)) /\
            (* what is read instead: the value without its list, and no error *)
            parse (render l) = Ok [(L "matchers", L "m", L "r.obj == p.obj || r.obj in")].
Proof.
  exists f34_layout. vm_compute. repeat split; try reflexivity. intro H. discriminate H.
Qed.

(* F35: a blank (or comment) line between the physical lines of a continued definition *)
Definition f35_layout : ldoc :=
  mkLdoc [mkLsec [] [] (L "matchers") []
            [mkLdef [] [] (L "m") [SP] [SP] (L "r.sub == p.sub &&")
                    [mkCont [SP] [] [SP; SP] (L "r.obj == p.obj")] [] None]] [] true.

Definition insert_line (k : nat) (x : list ascii) (ls : list (list ascii)) := firstn k ls ++ x :: skipn k ls.

Lemma line_inside_continuation_refuted :
  exists l k x, wf_ldoc l = true /\ (x = [] \/ x = L "# note") /\
    parse (unlines true (insert_line k x (doc_raws l))) <> parse (render l) /\
    parse (unlines true (insert_line k x (doc_raws l)))
    = Ok [(L "matchers", L "r.obj", L "= p.obj"); (L "matchers", L "m", L "r.sub == p.sub &&")].
Proof.
  exists f35_layout, 2, []. vm_compute. repeat split; try reflexivity; try (now left). intro H. discriminate H.
Qed.

(* two sections of the same name: their order matters *)
Lemma duplicate_sections_order_refuted :
  exists d d' : list (list ascii * list (list ascii * list ascii)),
    Permutation d d' /\ wf_doc d = true /\ distinct_sections d = false /\
    lookup (cfg_doc d) (L "s") (L "k") <> lookup (cfg_doc d') (L "s") (L "k").
Proof.
  exists [(L "s", [(L "k", L "1")]); (L "s", [(L "k", L "2")])],
         [(L "s", [(L "k", L "2")]); (L "s", [(L "k", L "1")])].
  split; [apply perm_swap|]. vm_compute. repeat split; try reflexivity. intro H. discriminate H.
Qed.

(* a value cannot contain a comment character: the reader cuts the line there *)
Lemma comment_char_in_value_refuted :
  exists l, wf_layout l = true /\ wf_doc (erase l) = false /\ parse (render l) <> Ok (cfg_doc (erase l)).
Proof.
  exists (canon [(L "matchers", [(L "m", L "r.obj == 'a#b'")])]).
  vm_compute. repeat split; try reflexivity. intro H. discriminate H.
Qed.

(* F14 (repaired in /repo): had the reader handed the 4096-byte chunks of a long line to the line
   machine as if they were lines, the layout theorem would be false. *)
Fixpoint chunks (n k : nat) (l : list ascii) : list (list ascii) :=
  match l with
  | [] => [[]]
  | c :: t => match k with
              | 0 => [] :: cons_first c (chunks n (n - 1) t)
              | S k' => cons_first c (chunks n k' t)
              end
  end.

Definition parse_chunked (t : list ascii) : result (list (list ascii * list ascii * list ascii)) :=
  match run (map trim (flat_map (chunks 4096 4096) (phys_lines t))) with
  | Err e => Err e
  | Ok w => Ok (map entry w)
  end.

Definition long_layout : ldoc :=
  mkLdoc [mkLsec [] [] (L "matchers") []
            [mkLdef [] [] (L "m") [SP] [SP] (L "g(r.sub, p.sub) &&")
                    [mkCont (repeat SP 4100) [] [SP] (L "r.obj == p.obj")] [] (Some (true, L " remark"))]] [] false.

Lemma long_line_chunking_refuted :
  exists l, wf_ldoc l = true /\ parse_chunked (render l) <> Ok (cfg_doc (erase l)) /\
            parse (render l) = Ok (cfg_doc (erase l)).
Proof.
  exists long_layout. split; [vm_compute; reflexivity|]. split.
  - vm_compute. intro H. discriminate H.
  - apply layout_invariant. vm_compute. reflexivity.
Qed.

(** ** Entry points on Coq strings *)

Theorem layout_invariant_string : forall l, wf_ldoc l = true ->
  parse_string (string_of_list_ascii (render l)) = Ok (cfg_doc (erase l)).
Proof.
  intros l H. unfold parse_string. rewrite list_ascii_of_string_of_list_ascii. now apply layout_invariant.
Qed.

(* ========================================================================================== *)
(** * 8. The loop bound of the model's loadSection always suffices *)

From Coq Require Import DecimalNat FinFun.

Lemma uint_digits_inj : forall u u', uint_digits u = uint_digits u' -> u = u'.
Proof.
  induction u as [|u IH|u IH|u IH|u IH|u IH|u IH|u IH|u IH|u IH|u IH]; intros u' H;
    destruct u'; cbn [uint_digits] in H; try discriminate H; try reflexivity;
    inversion H; f_equal; now apply IH.
Qed.

Lemma to_uint_nonnil : forall n, Nat.to_uint n <> Decimal.Nil.
Proof.
  intros n H. pose proof (Unsigned.to_of (Nat.to_uint n)) as E. rewrite Unsigned.of_to in E.
  rewrite H in E. discriminate E.
Qed.

Lemma dec_nonempty : forall n, dec n <> [].
Proof.
  intros n H. unfold dec in H. pose proof (to_uint_nonnil n) as N. destruct (Nat.to_uint n); try discriminate H.
  now apply N.
Qed.

Lemma dec_inj : forall n m, dec n = dec m -> n = m.
Proof. intros n m H. apply Unsigned.to_uint_inj. now apply uint_digits_inj. Qed.

Lemma key_of_inj : forall sec, Injective (key_of sec).
Proof.
  intros sec i j H. unfold key_of in H.
  destruct (Nat.eqb i 1) eqn:Ei; destruct (Nat.eqb j 1) eqn:Ej.
  - apply Nat.eqb_eq in Ei. apply Nat.eqb_eq in Ej. congruence.
  - exfalso. rewrite <- (app_nil_r sec) in H at 1. apply app_inv_head in H. symmetry in H. now apply dec_nonempty in H.
  - exfalso. rewrite <- (app_nil_r sec) in H at 2. apply app_inv_head in H. now apply dec_nonempty in H.
  - apply app_inv_head in H. now apply dec_inj.
Qed.

Definition option_keys (c : list (list ascii * list ascii * list ascii)) : list (list ascii) :=
  map (fun e => snd (fst e)) c.

Lemma get_nonempty_in : forall c s k, get c s k <> [] -> In k (option_keys c).
Proof.
  intros c s k H. unfold get, lookup in H.
  destruct (find (fun e => str_eqb (fst (fst e)) s && str_eqb (snd (fst e)) k) c) as [e|] eqn:F; [|congruence].
  apply find_some in F. destruct F as [Hin Hb]. apply andb_true_iff in Hb. destruct Hb as [_ Hb].
  apply str_eqb_eq in Hb. subst k. unfold option_keys. apply in_map_iff. now exists e.
Qed.

Lemma add_def_some : forall sec key v a, add_def sec key v = Some a -> v <> [].
Proof. intros sec key v a H E. subst v. discriminate H. Qed.

Lemma load_section_fuel : forall c sec f i e, load_section c sec f i = Err e ->
  forall j, i <= j < i + f -> In (key_of sec j) (option_keys c).
Proof.
  intros c sec f. induction f as [|f IH]; intros i e H j Hj; [lia|].
  cbn [load_section] in H.
  destruct (add_def sec (key_of sec i) (get c (sec_name sec) (key_of sec i))) as [a|] eqn:A; [|discriminate].
  destruct (load_section c sec f (S i)) as [r|e'] eqn:R; [discriminate|].
  destruct (Nat.eq_dec j i) as [->|Hne].
  - apply add_def_some in A. eapply get_nonempty_in; eassumption.
  - apply (IH (S i) e' R). lia.
Qed.

(** loadSection visits keys sec, sec2, sec3, ... that are pairwise different; each visit needs its
    own configuration entry, so more than |config| successful visits are impossible. *)
Theorem fuel_suffices : forall c sec, exists a, load_section c sec (S (List.length c)) 1 = Ok a.
Proof.
  intros c sec. destruct (load_section c sec (S (List.length c)) 1) as [a|e] eqn:E; [eauto|exfalso].
  pose proof (load_section_fuel _ _ _ _ _ E) as H.
  assert (Hincl : incl (map (key_of sec) (seq 1 (S (List.length c)))) (option_keys c)).
  { intros k Hk. apply in_map_iff in Hk. destruct Hk as [j [Ej Hj]]. subst k. apply in_seq in Hj. apply H. lia. }
  assert (Hnd : NoDup (map (key_of sec) (seq 1 (S (List.length c))))).
  { apply Injective_map_NoDup; [apply key_of_inj|apply seq_NoDup]. }
  pose proof (NoDup_incl_length Hnd Hincl) as Hlen.
  rewrite map_length, seq_length in Hlen. unfold option_keys in Hlen. rewrite map_length in Hlen. lia.
Qed.

Lemma load_secs_ok : forall c secs, exists m, load_secs c secs = Ok m.
Proof.
  intros c secs. induction secs as [|sec secs [m IH]]; [now exists []|].
  cbn [load_secs]. destruct (fuel_suffices c sec) as [a Ha]. rewrite Ha, IH. eauto.
Qed.

(** Building a model from ANY text gives a model or one of the two errors of the Go code. *)
Theorem load_total_strong : forall t,
  match load_text t with
  | Ok _ => exists c, parse t = Ok c
  | Err (ENoEquals b) => parse t = Err (ENoEquals b) /\ no_equals_error (ENoEquals b)
  | Err (EMissing ms) => ms <> [] /\ exists c, parse t = Ok c
  | Err EFuel => False
  end.
Proof.
  intro t. pose proof (load_total t) as H. destruct (load_text t) as [m|[b|ms|]] eqn:E; try exact H.
  unfold load_text in E. destruct H as [c Hc]. rewrite Hc in E. unfold load_model in E.
  destruct (load_secs_ok c all_secs) as [m Hm]. rewrite Hm in E. destruct (missing m); discriminate E.
Qed.
