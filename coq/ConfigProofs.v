(* ConfigProofs.v — proofs about the model of Config.v.
   Structure:
     1. characters, TrimSpace on padded strings
     2. the physical-line splitter on  x ++ "\n" ++ rest
     3. the line machine consumes one rendered item (blank/comment line, header, definition)
     4. whole documents: layout_invariant
     5. section order, load_model depends on look-ups only
     6. arbitrary texts: totality with explicit errors, nothing dropped, slice bounds
     7. necessity of the guards (refuted statements), canonical layout *)
From Coq Require Import List Ascii String Bool Arith Lia Permutation.
Import ListNotations.
From Casbin Require Import Config.

Local Open Scope char_scope.
Local Open Scope list_scope.

(* ========================================================================================== *)
(** * 1. Characters and TrimSpace *)

Lemma frev_rev : forall l, frev l = rev l.
Proof. intro l. unfold frev. symmetry. apply rev_alt. Qed.

Lemma str_eqb_eq : forall a b, str_eqb a b = true <-> a = b.
Proof.
  induction a as [|x a IH]; destruct b as [|y b]; cbn [str_eqb]; split; intro H; try reflexivity; try discriminate.
  - apply andb_true_iff in H. destruct H as [H1 H2]. apply Ascii.eqb_eq in H1. apply IH in H2. now subst.
  - inversion H; subst. apply andb_true_iff. split. apply Ascii.eqb_refl. now apply IH.
Qed.

Lemma str_eqb_refl : forall a, str_eqb a a = true.
Proof. intro a. now apply str_eqb_eq. Qed.

Lemma str_eqb_neq : forall a b, str_eqb a b = false <-> a <> b.
Proof.
  intros a b. split; intro H.
  - intro E. apply str_eqb_eq in E. congruence.
  - destruct (str_eqb a b) eqn:E; [|reflexivity]. apply str_eqb_eq in E. contradiction.
Qed.

Lemma str_eqb_sym : forall a b, str_eqb a b = str_eqb b a.
Proof.
  intros a b. destruct (str_eqb a b) eqn:E.
  - apply str_eqb_eq in E. subst. symmetry. apply str_eqb_refl.
  - symmetry. apply str_eqb_neq. apply str_eqb_neq in E. congruence.
Qed.

(* a white-space byte is none of the structural characters *)
Lemma space_cases : forall c, is_space c = true ->
  c = SP \/ c = "009" \/ c = LF \/ c = "011" \/ c = "012" \/ c = CR.
Proof.
  intros c H. unfold is_space in H.
  repeat (apply orb_true_iff in H; destruct H as [H|H]);
    apply Ascii.eqb_eq in H; subst; tauto.
Qed.

Lemma space_not_struct : forall c, is_space c = true ->
  is_cmt c = false /\ Ascii.eqb c "=" = false /\ Ascii.eqb c "[" = false /\ Ascii.eqb c "\" = false.
Proof.
  intros c H. destruct (space_cases c H) as [E|[E|[E|[E|[E|E]]]]]; subst; repeat split; reflexivity.
Qed.

Definition all_space (p : list ascii) : Prop := forallb is_space p = true.

Lemma blankb_all_space : forall p, blankb p = true -> all_space p.
Proof.
  unfold blankb, all_space. induction p as [|c p IH]; cbn [forallb]; intro H; [reflexivity|].
  apply andb_true_iff in H. destruct H as [H1 H2]. apply andb_true_iff in H1. destruct H1 as [H1 _].
  rewrite H1. cbn. now apply IH.
Qed.

Lemma blankb_no_lf : forall p, blankb p = true -> no_lf p = true.
Proof.
  unfold blankb, no_lf. induction p as [|c p IH]; cbn [forallb]; intro H; [reflexivity|].
  apply andb_true_iff in H. destruct H as [H1 H2]. apply andb_true_iff in H1. destruct H1 as [_ H1].
  rewrite H1. cbn. now apply IH.
Qed.

Lemma all_space_app : forall a b, all_space a -> all_space b -> all_space (a ++ b).
Proof. unfold all_space. intros. rewrite forallb_app. now rewrite H, H0. Qed.

Lemma forallb_rev : forall (A : Type) (f : A -> bool) l, forallb f (rev l) = forallb f l.
Proof.
  intros A f l. induction l as [|x l IH]; [reflexivity|].
  cbn [rev forallb]. rewrite forallb_app. cbn [forallb]. rewrite IH. rewrite andb_true_r. apply andb_comm.
Qed.

Lemma trim_left_space_app : forall a x, all_space a -> trim_left (a ++ x) = trim_left x.
Proof.
  unfold all_space. induction a as [|c a IH]; intros x H; [reflexivity|].
  cbn [forallb] in H. apply andb_true_iff in H. destruct H as [H1 H2].
  cbn [app trim_left]. rewrite H1. now apply IH.
Qed.

Lemma trim_left_all_space : forall a, all_space a -> trim_left a = [].
Proof. intros a H. rewrite <- (app_nil_r a). now rewrite trim_left_space_app. Qed.

Lemma trim_left_nonspace : forall c t, is_space c = false -> trim_left (c :: t) = c :: t.
Proof. intros c t H. cbn [trim_left]. now rewrite H. Qed.

Lemma trim_left_snoc : forall l c, is_space c = false -> trim_left (l ++ [c]) = trim_left l ++ [c].
Proof.
  induction l as [|x l IH]; intros c H; cbn [app trim_left].
  - now rewrite H.
  - destruct (is_space x); [now apply IH|reflexivity].
Qed.

Lemma trim_right_nil : trim_right [] = [].
Proof. reflexivity. Qed.

Lemma trim_right_app_space : forall x b, all_space b -> trim_right (x ++ b) = trim_right x.
Proof.
  intros x b H. unfold trim_right. rewrite !frev_rev. rewrite rev_app_distr.
  rewrite trim_left_space_app; [reflexivity|]. unfold all_space. now rewrite forallb_rev.
Qed.

Lemma trim_right_snoc : forall x c, is_space c = false -> trim_right (x ++ [c]) = x ++ [c].
Proof.
  intros x c H. unfold trim_right. rewrite !frev_rev. rewrite rev_app_distr. cbn [rev app].
  rewrite trim_left_nonspace by assumption. cbn [rev]. now rewrite rev_involutive.
Qed.

Lemma trim_right_cons_nonspace : forall c t, is_space c = false -> trim_right (c :: t) = c :: trim_right t.
Proof.
  intros c t H. unfold trim_right. rewrite !frev_rev. cbn [rev].
  rewrite trim_left_snoc by assumption. rewrite rev_app_distr. reflexivity.
Qed.

(* a non-empty trimmed string: first and last byte are not white space *)
Lemma trimmedb_cons : forall c t, trimmedb (c :: t) = true ->
  is_space c = false /\ exists y d, c :: t = y ++ [d] /\ is_space d = false.
Proof.
  intros c t H. unfold trimmedb in H. apply andb_true_iff in H. destruct H as [H1 H2].
  apply negb_true_iff in H1. apply negb_true_iff in H2. split; [assumption|].
  exists (removelast (c :: t)), (last (c :: t) c). split; [|assumption].
  apply app_removelast_last. discriminate.
Qed.

Lemma trimmedb_intro : forall c t y d, c :: t = y ++ [d] -> is_space c = false -> is_space d = false ->
  trimmedb (c :: t) = true.
Proof.
  intros c t y d E H1 H2. unfold trimmedb. rewrite H1. rewrite E. rewrite last_last. now rewrite H2.
Qed.

Lemma trim_right_trimmed : forall x, trimmedb x = true -> trim_right x = x.
Proof.
  intros [|c t] H; [reflexivity|].
  destruct (trimmedb_cons _ _ H) as [_ [y [d [E Hd]]]]. rewrite E. now apply trim_right_snoc.
Qed.

(* TrimSpace removes exactly the padding round a trimmed string *)
Lemma trim_pad : forall a x b, all_space a -> all_space b -> trimmedb x = true -> trim (a ++ x ++ b) = x.
Proof.
  intros a x b Ha Hb Hx. unfold trim. rewrite trim_left_space_app by assumption.
  destruct x as [|c t].
  - cbn [app]. now rewrite trim_left_all_space.
  - destruct (trimmedb_cons _ _ Hx) as [Hc _].
    cbn [app]. rewrite trim_left_nonspace by assumption.
    change (c :: t ++ b) with ((c :: t) ++ b). rewrite trim_right_app_space by assumption.
    now apply trim_right_trimmed.
Qed.

Lemma trim_pad_l : forall a x, all_space a -> trimmedb x = true -> trim (a ++ x) = x.
Proof. intros a x Ha Hx. rewrite <- (app_nil_r x) at 1. now apply trim_pad. Qed.

Lemma trim_pad_r : forall x b, all_space b -> trimmedb x = true -> trim (x ++ b) = x.
Proof. intros x b Hb Hx. change (x ++ b) with ([] ++ x ++ b). now apply trim_pad. Qed.

Lemma trim_all_space : forall a, all_space a -> trim a = [].
Proof. intros a H. unfold trim. now rewrite trim_left_all_space. Qed.

(* the first non-blank byte survives TrimSpace *)
Lemma trim_first : forall a c t, all_space a -> is_space c = false -> trim (a ++ c :: t) = c :: trim_right t.
Proof.
  intros a c t Ha Hc. unfold trim. rewrite trim_left_space_app by assumption.
  rewrite trim_left_nonspace by assumption. now apply trim_right_cons_nonspace.
Qed.

(* trailing blanks never matter *)
Lemma trim_app_space : forall y b, all_space b -> trim (y ++ b) = trim y.
Proof.
  intros y b Hb. unfold trim. induction y as [|c y IH].
  - cbn [app]. rewrite trim_left_all_space by assumption. reflexivity.
  - cbn [app trim_left]. destruct (is_space c); [exact IH|].
    change (c :: y ++ b) with ((c :: y) ++ b). now apply trim_right_app_space.
Qed.

(* ========================================================================================== *)
(** * 2. Physical lines *)

(* what ReadLine removes from a terminated line: one "\r" in front of the "\n" *)
Fixpoint strip_cr (x : list ascii) : list ascii :=
  match x with
  | [] => []
  | c :: t => match t with
              | [] => if Ascii.eqb c CR then [] else [c]
              | _ => c :: strip_cr t
              end
  end.

Lemma no_lf_cons : forall c x, no_lf (c :: x) = true -> Ascii.eqb c LF = false /\ no_lf x = true.
Proof.
  intros c x H. unfold no_lf in *. cbn [forallb] in H. apply andb_true_iff in H. destruct H as [H1 H2].
  unfold not_lf in H1. apply negb_true_iff in H1. now split.
Qed.

Lemma phys_lines_lf : forall t, phys_lines (LF :: t) = [] :: phys_lines t.
Proof. intro t. cbn [phys_lines]. now rewrite Ascii.eqb_refl. Qed.

Lemma phys_lines_single : forall c, Ascii.eqb c LF = false -> phys_lines [c] = [[c]].
Proof. intros c H. cbn [phys_lines]. now rewrite H. Qed.

Lemma phys_lines_cons2 : forall c d t, Ascii.eqb c LF = false -> Ascii.eqb d LF = false ->
  phys_lines (c :: d :: t) = cons_first c (phys_lines (d :: t)).
Proof. intros c d t H H0. cbn [phys_lines]. rewrite H, H0, andb_false_r. reflexivity. Qed.

Lemma phys_lines_c_lf : forall c t, Ascii.eqb c LF = false ->
  phys_lines (c :: LF :: t) = (if Ascii.eqb c CR then [] else [c]) :: phys_lines t.
Proof.
  intros c t H. cbn [phys_lines]. rewrite H. rewrite !Ascii.eqb_refl. rewrite andb_true_r.
  destruct (Ascii.eqb c CR); reflexivity.
Qed.

(* the splitter on  x ++ "\n" ++ rest  where x contains no "\n" *)
Lemma phys_lines_line : forall x rest, no_lf x = true ->
  phys_lines (x ++ LF :: rest) = strip_cr x :: phys_lines rest.
Proof.
  induction x as [|c x IH]; intros rest H.
  - cbn [app strip_cr]. apply phys_lines_lf.
  - apply no_lf_cons in H. destruct H as [Hc Hx].
    destruct x as [|d x'].
    + cbn [app strip_cr]. rewrite phys_lines_c_lf by assumption. reflexivity.
    + pose proof (no_lf_cons _ _ Hx) as [Hd _].
      change ((c :: d :: x') ++ LF :: rest) with (c :: d :: (x' ++ LF :: rest)).
      rewrite phys_lines_cons2 by assumption.
      change (d :: x' ++ LF :: rest) with ((d :: x') ++ LF :: rest).
      rewrite (IH rest Hx). reflexivity.
Qed.

(* a last line without terminator is delivered as it is; an empty rest is EOF *)
Lemma phys_lines_last : forall x, no_lf x = true -> x <> [] -> phys_lines x = [x].
Proof.
  induction x as [|c x IH]; intros H N; [congruence|].
  apply no_lf_cons in H. destruct H as [Hc Hx].
  destruct x as [|d x'].
  - now apply phys_lines_single.
  - pose proof (no_lf_cons _ _ Hx) as [Hd _].
    rewrite phys_lines_cons2 by assumption. rewrite IH by (assumption || discriminate). reflexivity.
Qed.

Lemma strip_cr_cases : forall x, strip_cr x = x \/ x = strip_cr x ++ [CR].
Proof.
  induction x as [|c x IH]; [now left|].
  destruct x as [|d x'].
  - cbn [strip_cr]. destruct (Ascii.eqb c CR) eqn:E; [|now left].
    apply Ascii.eqb_eq in E. subst. now right.
  - change (strip_cr (c :: d :: x')) with (c :: strip_cr (d :: x')).
    destruct IH as [IH|IH]; [left; now rewrite IH|right].
    cbn [app]. now rewrite <- IH.
Qed.

Lemma trim_strip_cr : forall x, trim (strip_cr x) = trim x.
Proof.
  intro x. destruct (strip_cr_cases x) as [E|E]; [now rewrite E|].
  rewrite E at 2. symmetry. apply trim_app_space. reflexivity.
Qed.

Lemma unlines_cons2 : forall b r r2 rest,
  unlines b (r :: r2 :: rest) = r ++ LF :: unlines b (r2 :: rest).
Proof. reflexivity. Qed.

(* the trimmed physical lines of a rendered text are the trimmed raw lines *)
Lemma lines_unlines_nl : forall rs, Forall (fun r => no_lf r = true) rs ->
  map trim (phys_lines (unlines true rs)) = map trim rs.
Proof.
  induction rs as [|r rs IH]; intro H; [reflexivity|].
  inversion H as [|? ? Hr Hrs]; subst.
  destruct rs as [|r2 rest].
  - cbn [unlines]. rewrite phys_lines_line by assumption. cbn [phys_lines map]. now rewrite trim_strip_cr.
  - rewrite unlines_cons2. rewrite phys_lines_line by assumption.
    cbn [map]. rewrite trim_strip_cr. f_equal. now apply IH.
Qed.

Lemma lines_unlines_nonl : forall rs, Forall (fun r => no_lf r = true) rs ->
  map trim (phys_lines (unlines false rs)) = map trim rs
  \/ exists rs', rs = rs' ++ [[]] /\ map trim (phys_lines (unlines false rs)) = map trim rs'.
Proof.
  induction rs as [|r rs IH]; intro H; [now left|].
  inversion H as [|? ? Hr Hrs]; subst.
  destruct rs as [|r2 rest].
  - cbn [unlines]. destruct r as [|c r'].
    + right. exists []. split; reflexivity.
    + left. rewrite phys_lines_last by (assumption || discriminate). reflexivity.
  - rewrite unlines_cons2. rewrite phys_lines_line by assumption.
    cbn [map]. rewrite trim_strip_cr. destruct (IH Hrs) as [E|[rs' [E1 E2]]].
    + left. now rewrite E.
    + right. exists (r :: rs'). split; [now rewrite E1|]. cbn [map]. now rewrite E2.
Qed.
