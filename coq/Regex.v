(* Regex.v — the fragment of Go's regexp (RE2 syntax) that util/builtin_operators.go relies on.

   * strings are lists of bytes (`list ascii`);
   * `re`       : regular-expression AST (character classes `.`, `[^c]`, literal byte;
                  concatenation, alternation, Kleene star);
   * `matches`  : the textbook denotational semantics (whole-string match, i.e. what Go's
                  `^...$` gives on a search);
   * `rmatch`   : an executable matcher by Brzozowski derivatives;
   * `rmatch_correct` (end of the file): rmatch r s = true <-> matches r s.

   This file is self-contained (definitions and their correctness proof together) because the
   proof is short and the rest of the C09 development only uses `rmatch_correct`. *)
From Coq Require Import List Bool Ascii.
Import ListNotations.

Notation str := (list ascii) (only parsing).

(* one-byte character classes *)
Inductive cls :=
| CAny              (* `.`    : any byte except line feed (Go: no `s` flag) *)
| CNot (c : ascii)  (* `[^c]` : any byte except c (line feed included)     *)
| CChr (c : ascii). (* literal byte *)

Definition nl : ascii := Ascii.ascii_of_nat 10.

Definition cls_ok (k : cls) (x : ascii) : bool :=
  match k with
  | CAny => negb (Ascii.eqb x nl)
  | CNot c => negb (Ascii.eqb x c)
  | CChr c => Ascii.eqb x c
  end.

Inductive re :=
| Emp | Eps
| Cls (k : cls)
| Cat (a b : re)
| Alt (a b : re)
| Star (a : re).

Inductive matches : re -> str -> Prop :=
| MEps : matches Eps []
| MCls : forall k x, cls_ok k x = true -> matches (Cls k) [x]
| MCat : forall a b s t, matches a s -> matches b t -> matches (Cat a b) (s ++ t)
| MAltL : forall a b s, matches a s -> matches (Alt a b) s
| MAltR : forall a b s, matches b s -> matches (Alt a b) s
| MStar0 : forall a, matches (Star a) []
| MStarS : forall a s t, matches a s -> matches (Star a) t -> matches (Star a) (s ++ t).

Fixpoint nullable (r : re) : bool :=
  match r with
  | Emp => false
  | Eps => true
  | Cls _ => false
  | Cat a b => nullable a && nullable b
  | Alt a b => nullable a || nullable b
  | Star _ => true
  end.

(* smart constructors: keep the derivatives small (Emp is absorbing for Cat, neutral for Alt) *)
Definition cat (a b : re) : re :=
  match a with
  | Emp => Emp
  | Eps => b
  | _ => Cat a b
  end.

Definition alt (a b : re) : re :=
  match a with
  | Emp => b
  | _ => match b with Emp => a | _ => Alt a b end
  end.

Fixpoint deriv (x : ascii) (r : re) : re :=
  match r with
  | Emp => Emp
  | Eps => Emp
  | Cls k => if cls_ok k x then Eps else Emp
  | Cat a b => if nullable a then alt (cat (deriv x a) b) (deriv x b) else cat (deriv x a) b
  | Alt a b => alt (deriv x a) (deriv x b)
  | Star a => cat (deriv x a) (Star a)
  end.

Fixpoint rmatch (r : re) (s : str) : bool :=
  match s with
  | [] => nullable r
  | x :: t => rmatch (deriv x r) t
  end.

(* ------------------------------------------------------------------ *)
(* correctness *)

Lemma nullable_correct : forall r, nullable r = true <-> matches r [].
Proof.
  induction r as [| |k|a IHa b IHb|a IHa b IHb|a IHa]; cbn [nullable]; split; intro H.
  - discriminate.
  - inversion H.
  - constructor.
  - reflexivity.
  - discriminate.
  - inversion H.
  - apply andb_true_iff in H. destruct H as [Ha Hb].
    change (@nil ascii) with (@nil ascii ++ []). constructor; [apply IHa|apply IHb]; assumption.
  - inversion H as [| |a' b' s t Hs Ht E1 E2| | | |]. subst.
    apply app_eq_nil in E2. destruct E2; subst.
    apply andb_true_iff; split; [apply IHa|apply IHb]; assumption.
  - apply orb_true_iff in H. destruct H as [H|H]; [apply MAltL, IHa|apply MAltR, IHb]; assumption.
  - apply orb_true_iff. inversion H; subst; [left; apply IHa|right; apply IHb]; assumption.
  - constructor.
  - reflexivity.
Qed.

Lemma matches_Emp : forall s, ~ matches Emp s.
Proof. intros s H. inversion H. Qed.

Lemma cat_correct : forall a b s, matches (cat a b) s <-> matches (Cat a b) s.
Proof.
  intros a b s. destruct a; cbn [cat]; try tauto.
  - split; intro H; [inversion H|].
    inversion H as [| |a' b' s1 t H1 H2 E1 E2| | | |]; subst. inversion H1.
  - split; intro H.
    + change s with ([] ++ s). constructor; [constructor|assumption].
    + inversion H as [| |a' b' s1 t H1 H2 E1 E2| | | |]; subst. inversion H1; subst. exact H2.
Qed.

Lemma alt_correct : forall a b s, matches (alt a b) s <-> matches (Alt a b) s.
Proof.
  intros a b s.
  assert (L : matches b s <-> matches (Alt Emp b) s).
  { split; intro H; [apply MAltR; exact H|]. inversion H; subst; [inversion H3|assumption]. }
  assert (R : forall a0, matches a0 s <-> matches (Alt a0 Emp) s).
  { intro a0. split; intro H; [apply MAltL; exact H|]. inversion H; subst; [assumption|inversion H3]. }
  destruct a; cbn [alt]; try exact L; destruct b; try tauto; apply R.
Qed.

Lemma star_cons : forall a x s, matches (Star a) (x :: s) ->
  exists s1 s2, s = s1 ++ s2 /\ matches a (x :: s1) /\ matches (Star a) s2.
Proof.
  intros a x s H. remember (Star a) as r eqn:Er. remember (x :: s) as w eqn:Ew.
  revert x s Ew. induction H as [| | | | | |a' s1 t H1 _ H2 IH2]; intros x0 s0 Ew; try discriminate.
  inversion Er; subst a'. destruct s1 as [|y s1'].
  - cbn in Ew. apply IH2; [reflexivity|exact Ew].
  - cbn in Ew. inversion Ew; subst. exists s1', t. repeat split; assumption.
Qed.

Lemma deriv_correct : forall r x s, matches (deriv x r) s <-> matches r (x :: s).
Proof.
  induction r as [| |k|a IHa b IHb|a IHa b IHb|a IHa]; intros x s; cbn [deriv].
  - split; intro H; inversion H.
  - split; intro H; inversion H.
  - destruct (cls_ok k x) eqn:E; split; intro H.
    + inversion H; subst. constructor. exact E.
    + inversion H; subst. constructor.
    + inversion H.
    + inversion H; subst. congruence.
  - assert (Hcat : matches (cat (deriv x a) b) s <->
                   exists s1 s2, s = s1 ++ s2 /\ matches a (x :: s1) /\ matches b s2).
    { rewrite cat_correct. split.
      - intro H. inversion H as [| |a' b' s1 t H1 H2 E1 E2| | | |]; subst.
        exists s1, t. repeat split; [apply IHa|]; assumption.
      - intros (s1 & s2 & E & H1 & H2). subst. constructor; [apply IHa|]; assumption. }
    assert (Hsplit : matches (Cat a b) (x :: s) <->
                     (exists s1 s2, s = s1 ++ s2 /\ matches a (x :: s1) /\ matches b s2) \/
                     (matches a [] /\ matches b (x :: s))).
    { split.
      - intro H. inversion H as [| |a' b' s1 t H1 H2 E1 E2| | | |]; subst.
        destruct s1 as [|y s1']; cbn in E2.
        + right. subst t. split; assumption.
        + inversion E2; subst. left. exists s1', t. repeat split; assumption.
      - intros [(s1 & s2 & E & H1 & H2)|[H1 H2]].
        + subst. change (x :: s1 ++ s2) with ((x :: s1) ++ s2). constructor; assumption.
        + change (x :: s) with ([] ++ x :: s). constructor; assumption. }
    destruct (nullable a) eqn:Na.
    + rewrite alt_correct, Hsplit. split.
      * intro H. inversion H; subst.
        -- left. apply Hcat. assumption.
        -- right. split; [apply nullable_correct; exact Na|apply IHb; assumption].
      * intros [H|[_ H]]; [apply MAltL, Hcat; exact H|apply MAltR, IHb; exact H].
    + rewrite Hcat, Hsplit. split; [intro H; left; exact H|].
      intros [H|[H _]]; [exact H|]. apply nullable_correct in H. congruence.
  - rewrite alt_correct. split; intro H; inversion H; subst.
    + apply MAltL, IHa. assumption.
    + apply MAltR, IHb. assumption.
    + apply MAltL, IHa. assumption.
    + apply MAltR, IHb. assumption.
  - rewrite cat_correct. split; intro H.
    + inversion H as [| |a' b' s1 t H1 H2 E1 E2| | | |]; subst.
      change (x :: s1 ++ t) with ((x :: s1) ++ t). constructor; [apply IHa|]; assumption.
    + apply star_cons in H. destruct H as (s1 & s2 & E & H1 & H2). subst.
      constructor; [apply IHa|]; assumption.
Qed.

Theorem rmatch_correct : forall s r, rmatch r s = true <-> matches r s.
Proof.
  induction s as [|x t IH]; intro r; cbn [rmatch].
  - apply nullable_correct.
  - rewrite IH. apply deriv_correct.
Qed.

(* ------------------------------------------------------------------ *)
(* a few derived facts used by KeyMatchProofs.v *)

Lemma matches_Eps : forall s, matches Eps s <-> s = [].
Proof. intro s. split; intro H; [inversion H; reflexivity|subst; constructor]. Qed.

Lemma matches_Cls : forall k s, matches (Cls k) s <-> exists x, s = [x] /\ cls_ok k x = true.
Proof.
  intros k s. split.
  - intro H. inversion H; subst. eexists; split; [reflexivity|assumption].
  - intros (x & E & H). subst. constructor. exact H.
Qed.

Lemma matches_Cat : forall a b s,
  matches (Cat a b) s <-> exists s1 s2, s = s1 ++ s2 /\ matches a s1 /\ matches b s2.
Proof.
  intros a b s. split.
  - intro H. inversion H; subst. eexists; eexists; repeat split; eassumption.
  - intros (s1 & s2 & E & H1 & H2). subst. constructor; assumption.
Qed.

Lemma matches_Star_Cls : forall k s,
  matches (Star (Cls k)) s <-> forallb (cls_ok k) s = true.
Proof.
  intros k s. split.
  - intro H. remember (Star (Cls k)) as r eqn:Er.
    induction H as [| | | | | |a s1 t H1 _ H2 IH2]; try discriminate.
    + reflexivity.
    + inversion Er; subst a. apply matches_Cls in H1. destruct H1 as (x & E & Hx). subst.
      cbn. rewrite Hx. cbn. apply IH2. reflexivity.
  - induction s as [|x t IH]; cbn; intro H.
    + constructor.
    + apply andb_true_iff in H. destruct H as [Hx Ht].
      change (x :: t) with ([x] ++ t). constructor; [constructor; exact Hx|apply IH; exact Ht].
Qed.
