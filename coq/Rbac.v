(* Rbac.v — executable model of the RBAC introspection API of rbac_api.go (and of the parts of
   enforcer.go / management_api.go / model/policy.go / util/util.go it calls) for the two RBAC
   matcher families with the allow-override effect:
     Plain        r = sub, obj, act       p = sub, obj, act       g = _, _
                  m = g(r.sub, p.sub) && r.obj == p.obj && r.act == p.act
     WithDomains  r = sub, dom, obj, act  p = sub, dom, obj, act  g = _, _, _
                  m = g(r.sub, p.sub, r.dom) && r.dom == p.dom && r.obj == p.obj && r.act == p.act
   The role manager is Casbin.Roles (RoleManagerImpl / DomainManager without matching functions);
   `ls` is the list of grouping rules in stored order, read as links (user, role, domain), domain
   "" for the plain family.  One role definition "g" and one policy type "p" (e.rmMap has a single
   entry, so the `for v := range e.rmMap` loops of rbac_api.go run once).
   Outside the model (Go returns an error or panics there): requests / rules whose length differs
   from the definition (`invalid request size`, `invalid policy size`, index out of range) —
   guards wf_req / wf_policy.  Definitions only; proofs are in RbacProofs.v. *)
From Coq Require Import List String Bool Arith.
Import ListNotations.
From Casbin Require Import Base Roles Effect.
Local Open Scope string_scope.

Inductive kind := Plain | WithDomains.

Definition arity (k : kind) : nat := match k with Plain => 3 | WithDomains => 4 end.
Definition wf_req (k : kind) (req : list string) : bool := Nat.eqb (List.length req) (arity k).
Definition wf_policy (k : kind) (policy : list rule) : bool :=
  forallb (fun r => Nat.eqb (List.length r) (arity k)) policy.

Definition l_user (l : link) : string := fst (fst l).
Definition l_role (l : link) : string := snd (fst l).
Definition l_dom (l : link) : string := snd l.

(* every name that occurs in a grouping rule *)
Definition nodes (ls : list link) : list string := flat_map (fun l => [l_user l; l_role l]) ls.

(* ---------- GetNamedImplicitRolesForUser / GetImplicitUsersForRole: queue BFS ---------- *)
(* state of the loop: roleSet (a set, here the list of its keys), q, res *)
Notation bstate := (list string * list string * list string)%type (only parsing).

(* for _, r := range roles { if _, ok := roleSet[r]; !ok { res = append(res, r); q = append(q, r); roleSet[r] = true } } *)
Fixpoint visit (rs : list string) (st : bstate) : bstate :=
  match rs with
  | [] => st
  | r :: t =>
      let '(seen, q, res) := st in
      if mem_str r seen then visit t st
      else visit t (r :: seen, (q ++ [r])%list, (res ++ [r])%list)
  end.

(* for len(q) > 0 { name := q[0]; q = q[1:]; roles := next(name); <visit> }; return res
   `next` is rm.GetRoles(name, domain...) resp. rm.GetUsers(name, domain...).
   Go's loop is unbounded; the model runs on explicit fuel, None = out of fuel
   (RbacProofs.qbfs_fuel_sufficient: never returned with the fuel used below). *)
Fixpoint qloop (next : string -> list string) (fuel : nat) (st : bstate) : option (list string) :=
  match fuel with
  | 0 => None
  | S f =>
      let '(seen, q, res) := st in
      match q with
      | [] => Some res
      | x :: q' => qloop next f (visit (next x) (seen, q', res))
      end
  end.

(* roleSet[name] = true; q = [name]; res = nil *)
Definition qbfs (next : string -> list string) (fuel : nat) (start : string) : option (list string) :=
  qloop next fuel ([start], [start], []).

(* number of names + 2: every name is dequeued at most once, plus the start, plus the final test *)
Definition closure_fuel (ls : list link) : nat := S (S (List.length (nodes ls))).

Definition implicit_roles_opt (ls : list link) (u d : string) : option (list string) :=
  qbfs (fun x => get_roles ls x d) (closure_fuel ls) u.
Definition implicit_users_for_role_opt (ls : list link) (r d : string) : option (list string) :=
  qbfs (fun x => get_users ls x d) (closure_fuel ls) r.

Definition or_nil (o : option (list string)) : list string := match o with Some l => l | None => [] end.

(* GetImplicitRolesForUser(u[, d]) — Go order depends on sync.Map iteration inside GetRoles:
   compared as a sorted list *)
Definition implicit_roles (ls : list link) (u d : string) : list string := or_nil (implicit_roles_opt ls u d).
(* GetImplicitUsersForRole(r[, d]) — compared sorted *)
Definition implicit_users_for_role (ls : list link) (r d : string) : list string :=
  or_nil (implicit_users_for_role_opt ls r d).

(* GetRolesForUser / GetUsersForRole = rm.GetRoles / rm.GetUsers (compared sorted) *)
Definition get_roles_for_user (ls : list link) (u d : string) : list string := get_roles ls u d.
Definition get_users_for_role (ls : list link) (r d : string) : list string := get_users ls r d.

(* ---------- the property's guard: "hierarchy depth within the role manager's limit" ---------- *)
(* names reachable from u within n edges (duplicate-free) *)
Fixpoint ball (ls : list link) (d : string) (n : nat) (u : string) : list string :=
  match n with
  | 0 => [u]
  | S m => let b := ball ls d m u in dedup (b ++ flat_map (succs ls d) b)%list
  end.
(* the names within max_level edges of u are closed under "direct role of", i.e. every role
   reachable from u at all is reachable within max_level edges (RbacProofs.depth_ok_iff) *)
Definition depth_ok (ls : list link) (d u : string) : bool :=
  let b := ball ls d max_level u in
  forallb (fun x => forallb (fun y => mem_str y b) (succs ls d x)) b.

(* ---------- Enforce for the two matcher families ---------- *)
(* g(name1, name2[, domain]) = rm.HasLink: hasLinkHelper with its frontier kept as a SET
   (`nextRoles` is a map), which is what the Go code does; Roles.bfs keeps the frontier as a
   list with repetitions (same answers — RbacProofs.g_link_eq — but exponentially many
   repetitions on dense graphs, so the executable model uses this form) *)
Fixpoint bfs_set (ls : list link) (d : string) (fuel : nat) (target : string) (frontier : list string) : bool :=
  match fuel with
  | 0 => false
  | S f =>
      match frontier with
      | [] => false
      | _ => if mem_str target frontier then true
             else bfs_set ls d f target (dedup (flat_map (succs ls d) frontier))
      end
  end.
Definition g_link (ls : list link) (u r d : string) : bool :=
  if String.eqb u r then true else bfs_set ls d (S max_level) r [u].

Definition match_rbac (k : kind) (ls : list link) (req rule : list string) : bool :=
  match k with
  | Plain =>
      match req, rule with
      | [rs; ro; ra], [ps; po; pa] =>
          g_link ls rs ps "" && String.eqb ro po && String.eqb ra pa
      | _, _ => false
      end
  | WithDomains =>
      match req, rule with
      | [rs; rd; ro; ra], [ps; pd; po; pa] =>
          g_link ls rs ps rd && String.eqb rd pd && String.eqb ro po && String.eqb ra pa
      | _, _ => false
      end
  end.

(* parameters.pVals = make([]string, len(pTokens)) *)
Definition empty_rule (k : kind) : rule := repeat "" (arity k).

(* enforcer.go enforce(): `policyLen != 0 && strings.Contains(expString, "p_")` → the policy loop
   with streaming MergeEffects (no p_eft column: every policy effect is Allow); otherwise the
   else-branch: the matcher is evaluated once on empty policy fields *)
Definition enforce_rbac (k : kind) (ls : list link) (policy : list rule) (req : list string) : bool :=
  match policy with
  | [] => decision (stream_nopolicy AllowOverride (match_rbac k ls req (empty_rule k)))
  | _ => decision (stream AllowOverride (map (fun rule => (match_rbac k ls req rule, Allow)) policy))
  end.

(* the declarative reading *)
Definition enforce_spec (k : kind) (ls : list link) (policy : list rule) (req : list string) : bool :=
  match policy with
  | [] => match_rbac k ls req (empty_rule k)
  | _ => existsb (match_rbac k ls req) policy
  end.

(* the else-branch granted the request although no rule is listed *)
Definition vacuous_grant (k : kind) (ls : list link) (policy : list rule) (req : list string) : bool :=
  match policy with [] => match_rbac k ls req (empty_rule k) | _ => false end.

(* ---------- GetNamedImplicitPermissionsForUser("p", "g", user, domain...) ---------- *)
Definition rule_sub (r : rule) : string := hd "" r.          (* rule[0] *)
(* policyRoles = {user} ∪ implicit roles *)
Definition policy_roles (ls : list link) (u d : string) : list string := u :: implicit_roles ls u d.

(* len(domain) == 0: `if _, ok := policyRoles[rule[0]]; ok { append(deepCopyPolicy(rule)) }` —
   policy order.  (On the WithDomains family this is a legal call too: roles of the default
   domain "", rules of every domain.) *)
Definition implicit_permissions (ls : list link) (policy : list rule) (u : string) : list rule :=
  filter (fun rule => mem_str (rule_sub rule) (policy_roles ls u "")) policy.

(* one domain given (domainIndex = 1): rm.Match(d, rule[1]) is `d == rule[1]` without a domain
   matching function; newRule[1] = d *)
Definition implicit_permissions_dom (ls : list link) (policy : list rule) (u d : string) : list rule :=
  flat_map (fun rule =>
              if String.eqb d (nth 1 rule "") then
                if mem_str (rule_sub rule) (policy_roles ls u d) then [set_nth 1 d rule] else []
              else []) policy.

(* a listed permission p = sub :: perm grants exactly the request fields perm
   ([obj; act] resp. [dom; obj; act]) *)
Definition grants (p : rule) (perm : list string) : bool :=
  match p with [] => false | _ :: t => list_eqb String.eqb t perm end.

(* ---------- GetPermissionsForUser(user, domain...) = GetFilteredNamedPolicy("p", 0, args...) ---------- *)
(* model.GetFilteredPolicy: `fieldValue != "" && rule[i] != fieldValue` → not matched *)
Fixpoint fields_match (vals fields : list string) : bool :=
  match vals with
  | [] => true
  | v :: vs =>
      match fields with
      | [] => String.eqb v "" && fields_match vs []
      | f :: fs => (String.eqb v "" || String.eqb f v) && fields_match vs fs
      end
  end.
(* args := make([]string, len(tokens)); args[0] = user; args[domIndex = 1] = domain[0] *)
Definition perm_args (k : kind) (u : string) (dom : option string) : list string :=
  match dom with
  | None => u :: repeat "" (arity k - 1)
  | Some d => u :: d :: repeat "" (arity k - 2)
  end.
Definition get_permissions_for_user (k : kind) (policy : list rule) (u : string) (dom : option string)
  : list rule := filter (fields_match (perm_args k u dom)) policy.

(* ---------- GetImplicitUsersForPermission(permission...) ---------- *)
(* util.ArrayRemoveDuplicates: keeps first occurrences, in order *)
Fixpoint uniq (l : list string) : list string :=
  match l with
  | [] => []
  | x :: t => x :: filter (fun y => negb (String.eqb x y)) (uniq t)
  end.

(* subjects = dedupe(GetAllSubjects() ++ g field 0) minus g field 1 (of every domain) *)
Definition candidate_subjects (ls : list link) (policy : list rule) : list string :=
  let p_subjects := uniq (map rule_sub policy) in
  let g_inherit := uniq (map l_role ls) in
  let g_subjects := uniq (map l_user ls) in
  filter (fun x => negb (mem_str x g_inherit)) (uniq (p_subjects ++ g_subjects)%list).

(* Go order is deterministic here (policy order, then grouping-rule order) *)
Definition implicit_users_for_permission (k : kind) (ls : list link) (policy : list rule)
           (perm : list string) : list string :=
  filter (fun u => enforce_rbac k ls policy (u :: perm)) (candidate_subjects ls policy).

(* "non-role subject": occurs as a p subject or as the user of a grouping rule, and never as the
   role (second field) of a grouping rule of any domain *)
Definition non_role_subject (ls : list link) (policy : list rule) (u : string) : Prop :=
  (In u (map rule_sub policy) \/ In u (map l_user ls)) /\ ~ In u (map l_role ls).
