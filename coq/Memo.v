(* Memo.v — the enforcer with its decision-relevant caches: Machine.v plus the g() memo that
   lives inside the compiled matcher (util.GenerateGFunction: one map per role definition, keyed
   by the NUL-joined arguments) and is dropped exactly when invalidateMatcherMap() runs.
   Enforce is modelled for the two RBAC matcher families
     rbac:   m = g(r.sub, p.sub) && r.obj == p.obj && r.act == p.act           (p = sub, obj, act)
     domain: m = g(r.sub, p.sub, r.dom) && r.dom == p.dom && r.obj == p.obj && r.act == p.act
   under allow-override: rules are evaluated in stored order, the left operand g() first, the
   loop stops at the first match.  Definitions only. *)
From Coq Require Import List String Ascii Bool Arith.
Import ListNotations.
From Casbin Require Import Base Store Roles Machine.

Definition nul : ascii := Ascii.zero.

(* builder.WriteByte(0); builder.WriteString(arg) for every argument *)
Fixpoint gkey (args : list string) : string :=
  match args with
  | [] => EmptyString
  | a :: t => String nul (a ++ gkey t)
  end.

Inductive family := FRbac | FDomain.

Record cstate := { ms : mstate; memo : smap (smap bool) }.   (* role definition -> key -> value *)

Definition memo_get (c : cstate) (pt : string) (k : string) : option bool :=
  match lookup pt (memo c) with Some m => lookup k m | None => None end.
Definition memo_put (c : cstate) (pt : string) (k : string) (v : bool) : cstate :=
  let m := match lookup pt (memo c) with Some m => m | None => [] end in
  {| ms := ms c; memo := set pt (set k v m) (del pt (memo c)) |}.

(* rm.HasLink(name1, name2[, domain]) *)
Definition has_link_args (ls : list link) (args : list string) : bool :=
  match args with
  | [u; r] => has_link ls u r ""%string
  | [u; r; d] => has_link ls u r d
  | _ => false
  end.

(* the memoised g function *)
Definition g_call (c : cstate) (pt : string) (args : list string) : bool * cstate :=
  match memo_get c pt (gkey args) with
  | Some v => (v, c)
  | None => let v := has_link_args (get_links (ms c) pt) args in (v, memo_put c pt (gkey args) v)
  end.

Definition req_arity (f : family) : nat := match f with FRbac => 3 | FDomain => 4 end.

(* arguments of g() and the rest of the conjunction for one rule; fields by position *)
Definition g_args (f : family) (req rule : list string) : list string :=
  match f with
  | FRbac => [nth 0 req ""; nth 0 rule ""]%string
  | FDomain => [nth 0 req ""; nth 0 rule ""; nth 1 req ""]%string
  end.
Definition rest_match (f : family) (req rule : list string) : bool :=
  match f with
  | FRbac => String.eqb (nth 1 req ""%string) (nth 1 rule ""%string) && String.eqb (nth 2 req ""%string) (nth 2 rule ""%string)
  | FDomain => String.eqb (nth 1 req ""%string) (nth 1 rule ""%string) && String.eqb (nth 2 req ""%string) (nth 2 rule ""%string)
               && String.eqb (nth 3 req ""%string) (nth 3 rule ""%string)
  end.

Inductive eres := EDec (b : bool) | EErr.

(* the policy loop: `g(...) && ...` per rule (left operand first, short circuit), stop at the
   first matched rule (allow-override, no eft column); a rule of the wrong size is an error *)
Fixpoint enforce_rules (f : family) (c : cstate) (req : list string) (rules : list rule) : eres * cstate :=
  match rules with
  | [] => (EDec false, c)
  | rule :: t =>
      if negb (Nat.eqb (List.length rule) (req_arity f)) then (EErr, c)
      else
        let '(gv, c1) := g_call c "g" (g_args f req rule) in
        if gv && rest_match f req rule then (EDec true, c1) else enforce_rules f c1 req t
  end.

Definition empty_rule (f : family) : rule := repeat ""%string (req_arity f).

(* Enforce(req): request size check, then the policy loop, or with an empty policy the matcher
   once on empty policy fields *)
Definition enforce (f : family) (c : cstate) (req : list string) : eres * cstate :=
  if negb (Nat.eqb (List.length req) (req_arity f)) then (EErr, c)
  else
    match pol (get_store (ms c) "p") with
    | [] => let '(gv, c1) := g_call c "g" (g_args f req (empty_rule f)) in
            (EDec (gv && rest_match f req (empty_rule f)), c1)
    | rules => enforce_rules f c req rules
    end.

(* the same decision without any memo: what a freshly constructed enforcer computes *)
Definition match_pure (f : family) (ls : list link) (req rule : list string) : bool :=
  has_link_args ls (g_args f req rule) && rest_match f req rule.
Fixpoint enforce_rules_pure (f : family) (ls : list link) (req : list string) (rules : list rule) : eres :=
  match rules with
  | [] => EDec false
  | rule :: t =>
      if negb (Nat.eqb (List.length rule) (req_arity f)) then EErr
      else if match_pure f ls req rule then EDec true else enforce_rules_pure f ls req t
  end.
Definition enforce_pure (f : family) (rules : list rule) (ls : list link) (req : list string) : eres :=
  if negb (Nat.eqb (List.length req) (req_arity f)) then EErr
  else match rules with
       | [] => EDec (match_pure f ls req (empty_rule f))
       | _ => enforce_rules_pure f ls req rules
       end.

(* ---------- operations: management calls and Enforce, interleaved ---------- *)
Inductive cop := CMach (op : mop) | CEnforce (req : list string).
Inductive cres := CRes (r : mres) | CDec (e : eres).

(* a management call drops the memo exactly when invalidateMatcherMap() ran during it *)
Definition cstep (cfg : mconf) (f : family) (c : cstate) (op : cop) : cstate * cres :=
  match op with
  | CMach o =>
      let '(s', r) := step cfg (ms c) o in
      ({| ms := s'; memo := if Nat.eqb (inval s') (inval (ms c)) then memo c else [] |}, CRes r)
  | CEnforce req => let '(e, c') := enforce f c req in (c', CDec e)
  end.

Fixpoint crun (cfg : mconf) (f : family) (c : cstate) (ops : list cop) : cstate * list cres :=
  match ops with
  | [] => (c, [])
  | op :: t => let '(c1, r) := cstep cfg f c op in let '(c2, rs) := crun cfg f c1 t in (c2, r :: rs)
  end.

Definition cinit (cfg : mconf) (sv : bool) (content : list (string * rule)) : cstate :=
  {| ms := init_state cfg sv false WNone content; memo := [] |}.
