(* RoleCondProofs.v — proofs about the conditional role managers (model: RoleCond.v, over
   RoleGraph.v).  Final statements are collected in Properties/C05Cond.v. *)
From Coq Require Import List String Bool Arith Lia.
Import ListNotations.
From Casbin Require Import Base BaseProofs Roles RolesProofs RoleGraph RoleGraphProofs RoleCond.

(* ================= the per-Role maps ================= *)
Lemma ckey_eqb_eq a b : ckey_eqb a b = true <-> a = b.
Proof.
  destruct a as [i [x d]], b as [j [y e]]. unfold ckey_eqb. cbn [fst snd].
  rewrite !andb_true_iff, Nat.eqb_eq, !String.eqb_eq. split.
  - intros [-> [-> ->]]. reflexivity.
  - intros E. inversion E. auto.
Qed.
Lemma ckey_eqb_refl a : ckey_eqb a a = true.
Proof. apply ckey_eqb_eq. reflexivity. Qed.
Lemma ckey_eqb_neq a b : a <> b -> ckey_eqb a b = false.
Proof. intros N. destruct (ckey_eqb a b) eqn:E; [|reflexivity]. apply ckey_eqb_eq in E. contradiction. Qed.

Lemma kget_kput_same {A} k (v : A) m : kget k (kput k v m) = Some v.
Proof.
  induction m as [|[k' v'] t IH]; cbn [kput kget].
  - rewrite ckey_eqb_refl. reflexivity.
  - destruct (ckey_eqb k k') eqn:E; cbn [kget]; [rewrite ckey_eqb_refl; reflexivity|rewrite E; exact IH].
Qed.
Lemma kget_kput_other {A} k k' (v : A) m : k <> k' -> kget k' (kput k v m) = kget k' m.
Proof.
  intros N. induction m as [|[k0 v0] t IH]; cbn [kput kget].
  - rewrite (ckey_eqb_neq k' k) by congruence. reflexivity.
  - destruct (ckey_eqb k k0) eqn:E; cbn [kget].
    + apply ckey_eqb_eq in E. subst k0. rewrite (ckey_eqb_neq k' k) by congruence. reflexivity.
    + rewrite IH. reflexivity.
Qed.
Lemma kput_keys {A} k (v : A) m x : In x (map fst (kput k v m)) <-> x = k \/ In x (map fst m).
Proof.
  induction m as [|[k0 v0] t IH]; cbn [kput map fst In].
  - intuition.
  - destruct (ckey_eqb k k0) eqn:E; cbn [map fst In].
    + apply ckey_eqb_eq in E. subst k0. intuition.
    + rewrite IH. intuition.
Qed.
Lemma kget_None {A} k (m : list (ckey * A)) : ~ In k (map fst m) -> kget k m = None.
Proof.
  induction m as [|[k0 v0] t IH]; cbn [kget map fst In]; [reflexivity|]. intros N.
  rewrite (ckey_eqb_neq k k0) by (intros ->; apply N; left; reflexivity). apply IH. intros H. apply N. right. exact H.
Qed.
Lemma kget_Some_In {A} k (m : list (ckey * A)) v : kget k m = Some v -> In k (map fst m).
Proof.
  induction m as [|[k0 v0] t IH]; cbn [kget map fst In]; [discriminate|].
  destruct (ckey_eqb k k0) eqn:E; [apply ckey_eqb_eq in E; auto|auto].
Qed.

Lemma concat_range_segs h o : List.concat (range_segs h o) = range_roles h o.
Proof.
  unfold range_segs, range_roles. cbn [List.concat]. rewrite concat_app, <- !flat_map_concat_map. reflexivity.
Qed.

Lemma fold_concat {X Y} (g : X -> Y -> X) (ls : list (list Y)) (a : X) :
  fold_left (fun acc l => fold_left g l acc) ls a = fold_left g (List.concat ls) a.
Proof.
  revert a. induction ls as [|l t IH]; intros a; cbn [fold_left List.concat]; [reflexivity|].
  rewrite fold_left_app. apply IH.
Qed.

Lemma remove_role_next s name : m_next (remove_role s name) = m_next s.
Proof. unfold remove_role. destruct (lookup name (m_all s)); reflexivity. Qed.
Lemma remove_role_mf s name : m_mf (remove_role s name) = m_mf s.
Proof. unfold remove_role. destruct (lookup name (m_all s)); reflexivity. Qed.

Notation Pany := (fun _ : bool => True).

Section WithCond.
Variable mf : string -> string -> bool.
Variable cf : nat -> list string -> option bool.

Notation WFr := (WF mf).

(* ================= (a) no function registered: the promoted RoleManagerImpl ================= *)
Lemma cond_pass_nofn s x y d : c_fn s = [] -> cond_pass cf s x y d = Some true.
Proof.
  intros E. unfold cond_pass. destruct (lookup x (m_all (c_rm s))); [|reflexivity].
  destruct (lookup y (m_all (c_rm s))); [|reflexivity]. rewrite E. reflexivity.
Qed.

Lemma seg_next_nofn s cur d seg : c_fn s = [] ->
  (forall q, In q seg -> name_of (m_heap (c_rm s)) (snd q) = fst q) ->
  forall next, seg_next cf s cur d seg next = fold_left (fun acc q => mput (fst q) (snd q) acc) seg next.
Proof.
  intros E. induction seg as [|q t IH]; intros Hn next; cbn [seg_next fold_left]; [reflexivity|].
  rewrite (cond_pass_nofn _ _ _ _ E). rewrite (Hn q) by (left; reflexivity).
  apply IH. intros q' Hq. apply Hn. right. exact Hq.
Qed.

Lemma segs_next_nofn s cur d segs : c_fn s = [] ->
  (forall q, In q (List.concat segs) -> name_of (m_heap (c_rm s)) (snd q) = fst q) ->
  forall next, fold_left (fun acc seg => seg_next cf s cur d seg acc) segs next
             = fold_left (fun acc q => mput (fst q) (snd q) acc) (List.concat segs) next.
Proof.
  intros E. induction segs as [|seg t IH]; intros Hn next; cbn [fold_left List.concat]; [reflexivity|].
  rewrite fold_left_app, seg_next_nofn; [|exact E|intros q Hq; apply Hn; cbn [List.concat]; apply in_or_app; left; exact Hq].
  apply IH. intros q Hq. apply Hn. cbn [List.concat]. apply in_or_app. right. exact Hq.
Qed.

Lemma range_names s k i o q : WFr s -> regd s k i -> hget i (m_heap s) = Some o ->
  In q (range_roles (m_heap s) o) -> regd s (fst q) (snd q) /\ name_of (m_heap s) (snd q) = fst q.
Proof.
  intros W H G HI. destruct q as [y j]. cbn [fst snd].
  pose proof (range_roles_regd mf _ _ _ _ _ _ W H G HI) as R. split; [exact R|].
  apply name_of_regd; [apply (proj1 W)|exact R].
Qed.

Lemma chl_scan_nofn s d t fr : c_fn s = [] -> WFr (c_rm s) -> good (c_rm s) fr ->
  forall next, chl_scan mf cf s d t fr next = hl_scan mf (m_heap (c_rm s)) (m_mf (c_rm s)) t fr next.
Proof.
  intros E W. induction fr as [|[k j] t' IH]; intros Gf next; cbn [chl_scan hl_scan snd]; [reflexivity|].
  assert (Hk : regd (c_rm s) k j) by (apply Gf; left; reflexivity).
  destruct (ws_obj _ (proj1 W) _ _ Hk) as [o [G N]]. rewrite (obj_of_get _ _ _ G).
  destruct (String.eqb t (o_name o) || (m_mf (c_rm s) && rm_match mf (m_mf (c_rm s)) (o_name o) t)); [reflexivity|].
  rewrite segs_next_nofn; [|exact E|].
  - rewrite concat_range_segs. apply IH. intros y v H. apply Gf. right. exact H.
  - intros q Hq. rewrite concat_range_segs in Hq. apply (range_names _ _ _ _ _ W Hk G Hq).
Qed.

Lemma chl_helper_nofn s fuel t : c_fn s = [] -> WFr (c_rm s) ->
  forall d fr, good (c_rm s) fr ->
  chl_helper mf cf s fuel d t fr = hl_helper mf (m_heap (c_rm s)) (m_mf (c_rm s)) fuel t fr.
Proof.
  intros E W. induction fuel as [|f IH]; intros d fr Gf; cbn [chl_helper hl_helper]; [reflexivity|].
  destruct fr as [|p fr']; [reflexivity|].
  rewrite chl_scan_nofn by assumption.
  pose proof (hl_scan_spec mf (c_rm s) t (p :: fr') [] W Gf) as HS.
  assert (G0 : good (c_rm s) []) by (intros k j []). specialize (HS G0).
  destruct (hl_scan mf (m_heap (c_rm s)) (m_mf (c_rm s)) t (p :: fr') []) as [nx|]; [|reflexivity].
  apply IH. apply HS.
Qed.

(* the state part of HasLink never depends on the functions *)
Lemma crm_has_link_state n s u r d :
  fst (crm_has_link mf cf n s u r d) = with_rm s (fst (has_link mf n (c_rm s) u r)).
Proof.
  unfold crm_has_link, has_link.
  destruct (String.eqb u r || (m_mf (c_rm s) && rm_match mf (m_mf (c_rm s)) u r)); cbn [fst].
  - destruct s; reflexivity.
  - destruct (get_role mf (c_rm s) u) as [[m1 ui] uc]. destruct (get_role mf m1 r) as [[m2 ri] rc]. reflexivity.
Qed.

Theorem crm_has_link_nofn n s u r d : c_fn s = [] -> WFr (c_rm s) ->
  snd (crm_has_link mf cf n s u r d) = snd (has_link mf n (c_rm s) u r).
Proof.
  intros E W. unfold crm_has_link, has_link.
  destruct (String.eqb u r || (m_mf (c_rm s) && rm_match mf (m_mf (c_rm s)) u r)); [reflexivity|].
  destruct (get_role mf (c_rm s) u) as [[m1 ui] uc] eqn:E1. destruct (get_role mf m1 r) as [[m2 ri] rc] eqn:E2. cbn [snd].
  destruct (get_role_WF mf Pany (GRM_any mf) _ _ _ _ _ W I E1) as [W1 [H1 [_ _]]].
  destruct (get_role_WF mf Pany (GRM_any mf) _ _ _ _ _ W1 I E2) as [W2 [H2 [_ Mono2]]].
  rewrite chl_helper_nofn; cbn [with_rm c_rm c_fn]; try assumption; [reflexivity|].
  intros k j [H|[]]. inversion H. subst.
  rewrite (name_of_regd _ _ _ (proj1 W2) (Mono2 _ _ H1)). apply Mono2. exact H1.
Qed.

(* ================= (b) HasLink with conditions ================= *)
(* x -> y is an edge that hasLinkHelper follows in domain d *)
Definition cedge (s : crm) (d x y : string) : Prop :=
  sedge (c_rm s) x y /\ cond_pass cf s x y d = Some true.
(* the first hop is taken in the domain of the call, every later one in the default domain *)
Inductive cwalk (s : crm) : string -> string -> string -> nat -> Prop :=
| cw0 d x : cwalk s d x x 0
| cwS d x y z k : cedge s d x y -> cwalk s ddom y z k -> cwalk s d x z (S k).
(* no function that sits on an edge returns an error on its current parameters *)
Definition no_err (s : crm) : Prop :=
  forall x y d, sedge (c_rm s) x y -> cond_pass cf s x y d <> None.

Lemma seg_next_spec s cur d seg : WFs (c_rm s) -> good (c_rm s) seg ->
  forall next, good (c_rm s) next ->
  good (c_rm s) (seg_next cf s cur d seg next) /\
  (forall y, In y (map fst next) -> In y (map fst (seg_next cf s cur d seg next))) /\
  (forall y, In y (map fst (seg_next cf s cur d seg next)) ->
     In y (map fst next) \/ (In y (map fst seg) /\ cond_pass cf s cur y d = Some true)) /\
  ((forall y, In y (map fst seg) -> cond_pass cf s cur y d <> None) ->
   forall y, In y (map fst seg) -> cond_pass cf s cur y d = Some true ->
     In y (map fst (seg_next cf s cur d seg next))).
Proof.
  intros W. induction seg as [|[yk j] t IH]; intros Gs next Gn; cbn [seg_next snd map fst In].
  - split; [exact Gn|]. split; [auto|]. split; [auto|]. intros _ y [].
  - assert (Hq : regd (c_rm s) yk j) by (apply Gs; left; reflexivity).
    assert (Gt : good (c_rm s) t) by (intros y v H; apply Gs; right; exact H).
    rewrite (name_of_regd _ _ _ W Hq).
    destruct (cond_pass cf s cur yk d) as [[|]|] eqn:C.
    + assert (Gn' : good (c_rm s) (mput yk j next)).
      { intros y v H. apply mput_In_weak in H as [[-> ->]|H]; [exact Hq|apply Gn; exact H]. }
      destruct (IH Gt _ Gn') as [I1 [I2 [I3 I4]]]. split; [exact I1|]. split; [|split].
      * intros y H. apply I2. apply mput_keys. right. exact H.
      * intros y H. apply I3 in H as [H|[H1 H2]]; [|auto].
        apply mput_keys in H as [->|H]; [right; split; [left; reflexivity|exact C]|left; exact H].
      * intros NE y [<-|H] P; [apply I2; apply mput_keys; left; reflexivity|].
        apply I4; [intros y' H'; apply NE; right; exact H'|exact H|exact P].
    + destruct (IH Gt _ Gn) as [I1 [I2 [I3 I4]]]. split; [exact I1|]. split; [exact I2|]. split.
      * intros y H. apply I3 in H as [H|[H1 H2]]; auto.
      * intros NE y [<-|H] P; [congruence|].
        apply I4; [intros y' H'; apply NE; right; exact H'|exact H|exact P].
    + split; [exact Gn|]. split; [auto|]. split; [auto|].
      intros NE. exfalso. apply (NE yk); [left; reflexivity|exact C].
Qed.

Lemma segs_next_spec s cur d segs : WFs (c_rm s) -> (forall seg, In seg segs -> good (c_rm s) seg) ->
  forall next, good (c_rm s) next ->
  let nx := fold_left (fun acc seg => seg_next cf s cur d seg acc) segs next in
  good (c_rm s) nx /\
  (forall y, In y (map fst next) -> In y (map fst nx)) /\
  (forall y, In y (map fst nx) ->
     In y (map fst next) \/ (In y (map fst (List.concat segs)) /\ cond_pass cf s cur y d = Some true)) /\
  ((forall y, In y (map fst (List.concat segs)) -> cond_pass cf s cur y d <> None) ->
   forall y, In y (map fst (List.concat segs)) -> cond_pass cf s cur y d = Some true -> In y (map fst nx)).
Proof.
  intros W. induction segs as [|seg t IH]; intros Gs next Gn; cbv zeta; cbn [fold_left List.concat].
  - split; [exact Gn|]. split; [auto|]. split; [auto|]. intros _ y [].
  - destruct (seg_next_spec s cur d seg W (Gs seg (or_introl eq_refl)) next Gn) as [S1 [S2 [S3 S4]]].
    assert (Gt : forall sg, In sg t -> good (c_rm s) sg) by (intros sg H; apply Gs; right; exact H).
    destruct (IH Gt _ S1) as [I1 [I2 [I3 I4]]]. split; [exact I1|]. split; [|split].
    + intros y H. apply I2, S2, H.
    + intros y H. rewrite map_app, in_app_iff. apply I3 in H as [H|[H1 H2]]; [|auto].
      apply S3 in H as [H|[H1 H2]]; auto.
    + intros NE y H P. rewrite map_app, in_app_iff in H. destruct H as [H|H].
      * apply I2. apply S4; [|exact H|exact P]. intros y' H'. apply NE. rewrite map_app, in_app_iff. left. exact H'.
      * apply I4; [|exact H|exact P]. intros y' H'. apply NE. rewrite map_app, in_app_iff. right. exact H'.
Qed.

Lemma chl_scan_spec s d t frontier next : WFr (c_rm s) -> good (c_rm s) frontier -> good (c_rm s) next ->
  match chl_scan mf cf s d t frontier next with
  | None => exists x, In x (map fst frontier) /\ starget mf (c_rm s) t x
  | Some nx =>
      (forall x, In x (map fst frontier) -> ~ starget mf (c_rm s) t x) /\ good (c_rm s) nx /\
      (forall y, In y (map fst next) -> In y (map fst nx)) /\
      (forall y, In y (map fst nx) ->
         In y (map fst next) \/ exists x, In x (map fst frontier) /\ cedge s d x y) /\
      (no_err s -> forall x y, In x (map fst frontier) -> cedge s d x y -> In y (map fst nx))
  end.
Proof.
  intros W. revert next. induction frontier as [|[k j] fr IH]; intros next Gf Gn; cbn [chl_scan snd].
  - split; [intros x []|]. split; [exact Gn|]. split; [auto|]. split; [auto|]. intros _ x y [].
  - assert (Hk : regd (c_rm s) k j) by (apply Gf; left; reflexivity).
    destruct (ws_obj _ (proj1 W) _ _ Hk) as [o [G N]]. rewrite (obj_of_get _ _ _ G), N.
    destruct (String.eqb t k || (m_mf (c_rm s) && rm_match mf (m_mf (c_rm s)) k t)) eqn:C.
    + apply check_iff in C. exists k. split; [left; reflexivity|exact C].
    + assert (C' : ~ starget mf (c_rm s) t k) by (intros H; apply check_iff in H; congruence).
      assert (Gsegs : forall seg, In seg (range_segs (m_heap (c_rm s)) o) -> good (c_rm s) seg).
      { intros seg Hs y v H. apply (range_roles_regd mf _ _ _ _ _ _ W Hk G).
        rewrite <- concat_range_segs. apply in_concat. exists seg. auto. }
      destruct (segs_next_spec s k d _ (proj1 W) Gsegs next Gn) as [S1 [S2 [S3 S4]]].
      rewrite concat_range_segs in S3, S4.
      set (next' := fold_left (fun acc seg => seg_next cf s k d seg acc) (range_segs (m_heap (c_rm s)) o) next) in *.
      assert (Gf' : good (c_rm s) fr) by (intros y v H; apply Gf; right; exact H).
      specialize (IH next' Gf' S1). destruct (chl_scan mf cf s d t fr next') as [nx|].
      * destruct IH as [I1 [I2 [I3 [I4 I5]]]]. split; [|split; [exact I2|split; [|split]]].
        -- intros x [<-|H]; [exact C'|apply I1; exact H].
        -- intros y H. apply I3, S2, H.
        -- intros y H. cbn [map fst In]. apply I4 in H as [H|[x [H1 H2]]]; [|right; exists x; auto].
           apply S3 in H as [H|[H1 H2]]; [left; exact H|]. right. exists k. split; [left; reflexivity|].
           split; [|exact H2]. apply (sedge_iff _ _ _ _ y (proj1 W) Hk G). exact H1.
        -- intros NE x y [<-|H] [He Hp]; [|apply (I5 NE x y H); split; assumption].
           apply I3. apply S4; [| |exact Hp].
           ++ intros y' H'. apply NE. apply (sedge_iff _ _ _ _ y' (proj1 W) Hk G). exact H'.
           ++ apply (sedge_iff _ _ _ _ y (proj1 W) Hk G). exact He.
      * destruct IH as [x [H1 H2]]. exists x. split; [right; exact H1|exact H2].
Qed.

Lemma chl_helper_spec s fuel t : WFr (c_rm s) -> forall d frontier, good (c_rm s) frontier ->
  (chl_helper mf cf s fuel d t frontier = true ->
   exists x y k, In x (map fst frontier) /\ k < fuel /\ cwalk s d x y k /\ starget mf (c_rm s) t y) /\
  (no_err s ->
   (exists x y k, In x (map fst frontier) /\ k < fuel /\ cwalk s d x y k /\ starget mf (c_rm s) t y) ->
   chl_helper mf cf s fuel d t frontier = true).
Proof.
  intros W. induction fuel as [|f IH]; intros d frontier Gf; cbn [chl_helper].
  - split; [discriminate|intros _ [x [y [k [_ [H _]]]]]; lia].
  - destruct frontier as [|p fr].
    + split; [discriminate|intros _ [x [y [k [[] _]]]]].
    + pose proof (chl_scan_spec s d t (p :: fr) [] W Gf) as HS.
      assert (G0 : good (c_rm s) []) by (intros k j []). specialize (HS G0).
      destruct (chl_scan mf cf s d t (p :: fr) []) as [nx|].
      * destruct HS as [S1 [S2 [_ [S4 S5]]]]. destruct (IH ddom nx S2) as [IHs IHc]. split.
        -- intros H. apply IHs in H as [x' [y [k [H1 [H2 [H3 H4]]]]]]. apply S4 in H1 as [[]|[x [Hx He]]].
           exists x, y, (S k). split; [exact Hx|split; [lia|split; [econstructor; eauto|exact H4]]].
        -- intros NE [x [y [k [H1 [H2 [H3 H4]]]]]]. apply (IHc NE).
           inversion H3 as [d0 x0|d0 x0 z y0 k' He Hw]; subst.
           ++ exfalso. apply (S1 _ H1 H4).
           ++ exists z, y, k'. split; [apply (S5 NE x z H1 He)|split; [lia|auto]].
      * split; [intros _|reflexivity]. destruct HS as [x [H1 H2]]. exists x, x, 0.
        split; [exact H1|split; [lia|split; [constructor|exact H2]]].
Qed.

(* the state in which hasLinkHelper runs: both names registered *)
Definition chl_state (s : crm) (n1 n2 : string) : crm := with_rm s (hl_state mf (c_rm s) n1 n2).

Lemma crm_has_link_value n s n1 n2 d : WFr (c_rm s) ->
  (snd (crm_has_link mf cf n s n1 n2 d) = true ->
   exists y k, k <= n /\ cwalk (chl_state s n1 n2) d n1 y k /\ starget mf (c_rm s) n2 y) /\
  (no_err (chl_state s n1 n2) ->
   (exists y k, k <= n /\ cwalk (chl_state s n1 n2) d n1 y k /\ starget mf (c_rm s) n2 y) ->
   snd (crm_has_link mf cf n s n1 n2 d) = true).
Proof.
  intros W. unfold crm_has_link, chl_state, hl_state.
  destruct (String.eqb n1 n2 || (m_mf (c_rm s) && rm_match mf (m_mf (c_rm s)) n1 n2)) eqn:C; cbn [snd].
  - split; [intros _|reflexivity]. exists n1, 0. split; [lia|split; [constructor|]].
    unfold starget. apply orb_true_iff in C as [C|C]; [apply String.eqb_eq in C; auto|].
    apply andb_true_iff in C as [Hm C]. unfold rm_match in C. apply orb_true_iff in C as [C|C].
    + apply String.eqb_eq in C. auto.
    + apply andb_true_iff in C as [_ C]. auto.
  - destruct (get_role mf (c_rm s) n1) as [[m1 u] uc] eqn:E1. cbn [fst].
    destruct (get_role mf m1 n2) as [[m2 r] rc] eqn:E2. cbn [fst snd].
    destruct (get_role_WF mf Pany (GRM_any mf) _ _ _ _ _ W I E1) as [W1 [H1 [M1 Mono1]]].
    destruct (get_role_WF mf Pany (GRM_any mf) _ _ _ _ _ W1 I E2) as [W2 [H2 [M2 Mono2]]].
    pose proof (Mono2 _ _ H1) as H1'.
    rewrite (name_of_regd _ _ _ (proj1 W2) H2), (name_of_regd _ _ _ (proj1 W2) H1').
    assert (Gf : good (c_rm (with_rm s m2)) [(n1, u)]).
    { intros k j [H|[]]. inversion H. subst. exact H1'. }
    destruct (chl_helper_spec (with_rm s m2) (S n) n2 W2 d [(n1, u)] Gf) as [HSo HCo].
    assert (ST : forall y, starget mf (c_rm (with_rm s m2)) n2 y <-> starget mf (c_rm s) n2 y).
    { intros y. unfold starget. cbn [with_rm c_rm]. rewrite M2, M1. tauto. }
    split.
    + intros H. apply HSo in H as [x [y [k [[<-|[]] [Hk [Hw Ht]]]]]]. exists y, k. split; [lia|]. split; [exact Hw|apply ST; exact Ht].
    + intros NE [y [k [Hk [Hw Ht]]]]. apply (HCo NE). exists n1, y, k.
      split; [left; reflexivity|split; [lia|split; [exact Hw|apply ST; exact Ht]]].
Qed.


(* ================= well-formedness over all histories ================= *)
(* every stored key belongs to an allocated Role object and names a registered role *)
Definition keys_ok (s : crm) : Prop :=
  forall k, In k (map fst (c_fn s)) \/ In k (map fst (c_par s)) ->
    fst k < m_next (c_rm s) /\ exists j, regd (c_rm s) (fst (snd k)) j.
Definition CWF (s : crm) : Prop := WFr (c_rm s) /\ keys_ok s.

Lemma CWF_new b : CWF (crm_new b).
Proof. split; [apply WF_new|]. intros k [[]|[]]. Qed.

Lemma keys_ok_ext s m' : keys_ok s -> m_next (c_rm s) <= m_next m' ->
  (forall k j, regd (c_rm s) k j -> regd m' k j) -> keys_ok (with_rm s m').
Proof.
  intros K Hn Hr k Hk. cbn [with_rm c_fn c_par c_rm] in *. destruct (K k Hk) as [H1 [j H2]].
  split; [lia|exists j; apply Hr; exact H2].
Qed.

Lemma get_role_next s name s' i c : get_role mf s name = (s', i, c) -> m_next s <= m_next s'.
Proof.
  unfold get_role. destruct (lookup name (m_all s)); intros E; inversion E; subst; cbn [m_next]; lia.
Qed.

Lemma get_role_fresh s name s' i c k j : WFs s -> get_role mf s name = (s', i, c) ->
  regd s' k j -> regd s k j \/ m_next s <= j.
Proof.
  intros W E H. apply (get_role_regd mf _ _ _ _ _ k j W E) in H as [H|[-> [_ ->]]]; [auto|].
  destruct (get_role_WFs mf _ _ _ _ _ W E) as [_ [_ [_ [_ [_ Ht]]]]]. destruct (Ht eq_refl) as [_ [-> _]]. right. lia.
Qed.

Lemma regd_set_heap m h k j : regd (set_heap m h) k j <-> regd m k j.
Proof. unfold regd, set_heap. cbn [m_all]. tauto. Qed.

Lemma add_link_ext m n1 n2 : WFr m ->
  m_next m <= m_next (add_link mf m n1 n2) /\ (forall k j, regd m k j -> regd (add_link mf m n1 n2) k j) /\
  (forall k j, regd (add_link mf m n1 n2) k j -> regd m k j \/ m_next m <= j).
Proof.
  intros W. unfold add_link.
  destruct (get_role mf m n1) as [[m1 u] c1] eqn:E1. destruct (get_role mf m1 n2) as [[m2 r] c2] eqn:E2.
  destruct (get_role_WF mf Pany (GRM_any mf) _ _ _ _ _ W I E1) as [W1 [_ [_ Mono1]]].
  destruct (get_role_WF mf Pany (GRM_any mf) _ _ _ _ _ W1 I E2) as [_ [_ [_ Mono2]]].
  pose proof (get_role_next _ _ _ _ _ E1) as N1. pose proof (get_role_next _ _ _ _ _ E2) as N2.
  split; [cbn [set_heap m_next]; lia|]. split; [intros k j H; apply regd_set_heap; auto|].
  intros k j H. apply regd_set_heap in H. apply (get_role_fresh _ _ _ _ _ k j (proj1 W1) E2) in H as [H|H]; [|right; lia].
  apply (get_role_fresh _ _ _ _ _ k j (proj1 W) E1) in H. exact H.
Qed.
Lemma delete_link_ext m n1 n2 : WFr m ->
  m_next m <= m_next (delete_link mf m n1 n2) /\ (forall k j, regd m k j -> regd (delete_link mf m n1 n2) k j) /\
  (forall k j, regd (delete_link mf m n1 n2) k j -> regd m k j \/ m_next m <= j).
Proof.
  intros W. unfold delete_link.
  destruct (get_role mf m n1) as [[m1 u] c1] eqn:E1. destruct (get_role mf m1 n2) as [[m2 r] c2] eqn:E2.
  destruct (get_role_WF mf Pany (GRM_any mf) _ _ _ _ _ W I E1) as [W1 [_ [_ Mono1]]].
  destruct (get_role_WF mf Pany (GRM_any mf) _ _ _ _ _ W1 I E2) as [_ [_ [_ Mono2]]].
  pose proof (get_role_next _ _ _ _ _ E1) as N1. pose proof (get_role_next _ _ _ _ _ E2) as N2.
  split; [cbn [set_heap m_next]; lia|]. split; [intros k j H; apply regd_set_heap; auto|].
  intros k j H. apply regd_set_heap in H. apply (get_role_fresh _ _ _ _ _ k j (proj1 W1) E2) in H as [H|H]; [|right; lia].
  apply (get_role_fresh _ _ _ _ _ k j (proj1 W) E1) in H. exact H.
Qed.

Lemma has_link_next n m u r : m_next m <= m_next (fst (has_link mf n m u r)).
Proof.
  unfold has_link. destruct (String.eqb u r || (m_mf m && rm_match mf (m_mf m) u r)); cbn [fst]; [lia|].
  destruct (get_role mf m u) as [[m1 ui] uc] eqn:E1. destruct (get_role mf m1 r) as [[m2 ri] rc] eqn:E2. cbn [fst].
  pose proof (get_role_next _ _ _ _ _ E1) as N1. pose proof (get_role_next _ _ _ _ _ E2) as N2.
  destruct uc, rc; rewrite ?remove_role_next; lia.
Qed.
Lemma get_roles_next m u : m_next m <= m_next (fst (get_roles mf m u)).
Proof.
  unfold get_roles. destruct (get_role mf m u) as [[m1 ui] c] eqn:E1. cbn [fst].
  pose proof (get_role_next _ _ _ _ _ E1) as N1. destruct c; rewrite ?remove_role_next; lia.
Qed.
Lemma get_users_next m u : m_next m <= m_next (fst (get_users mf m u)).
Proof.
  unfold get_users. destruct (get_role mf m u) as [[m1 ui] c] eqn:E1. cbn [fst].
  pose proof (get_role_next _ _ _ _ _ E1) as N1. destruct c; rewrite ?remove_role_next; lia.
Qed.

(* a registered role without roles and users leaves allRoles *)
Lemma drop_empty m name i o : WFr m -> regd m name i -> hget i (m_heap m) = Some o ->
  o_roles o = [] -> o_users o = [] ->
  WFr (remove_role m name) /\
  (forall x y, In (x, y) (links_of (remove_role m name)) <-> In (x, y) (links_of m)) /\
  (forall k j, regd (remove_role m name) k j <-> k <> name /\ regd m k j).
Proof.
  intros W H G Er Eu. split; [split|split].
  - eapply unreg_WFs; eauto. apply (proj1 W).
  - apply (URM_any mf); [exact W|exact I].
  - intros x y. eapply unreg_links; eauto. apply (proj1 W).
  - intros k j. rewrite (remove_role_eq _ _ i) by (apply regd_lookup; [apply (proj1 W)|exact H]).
    unfold regd. cbn [m_all]. apply del_In.
Qed.

(* the two getRole calls that open GetDomainLinkConditionFunc / GetLinkConditionFuncParams /
   AddDomainLinkConditionFunc / SetDomainLinkConditionFuncParams *)
Lemma get_pair m un rn m1 u uc m2 r rc : WFr m ->
  get_role mf m un = (m1, u, uc) -> get_role mf m1 rn = (m2, r, rc) ->
  WFr m2 /\ regd m2 un u /\ regd m2 rn r /\ m_mf m2 = m_mf m /\ m_next m <= m_next m2 /\
  (forall k j, regd m k j -> regd m2 k j) /\
  (forall k j, regd m2 k j -> regd m k j \/ m_next m <= j) /\
  (forall x y, In (x, y) (links_of m2) <-> In (x, y) (links_of m)) /\
  name_of (m_heap m2) u = un /\ name_of (m_heap m2) r = rn.
Proof.
  intros W E1 E2.
  destruct (get_role_WF mf Pany (GRM_any mf) _ _ _ _ _ W I E1) as [W1 [H1 [M1 Mono1]]].
  destruct (get_role_WF mf Pany (GRM_any mf) _ _ _ _ _ W1 I E2) as [W2 [H2 [M2 Mono2]]].
  pose proof (get_role_next _ _ _ _ _ E1) as N1. pose proof (get_role_next _ _ _ _ _ E2) as N2.
  split; [exact W2|]. split; [apply Mono2; exact H1|]. split; [exact H2|]. split; [congruence|]. split; [lia|].
  split; [auto|]. split; [|split].
  - intros k j H. apply (get_role_fresh _ _ _ _ _ k j (proj1 W1) E2) in H as [H|H]; [|right; lia].
    apply (get_role_fresh _ _ _ _ _ k j (proj1 W) E1) in H. exact H.
  - intros x y. rewrite (get_role_links mf _ _ _ _ _ x y (proj1 W1) E2). apply (get_role_links mf _ _ _ _ _ x y (proj1 W) E1).
  - split; apply name_of_regd; auto; apply (proj1 W2).
Qed.

(* the state left behind by the two Get... entry points *)
Lemma get_pair_cleanup m un rn m1 u uc m2 r rc : WFr m ->
  get_role mf m un = (m1, u, uc) -> get_role mf m1 rn = (m2, r, rc) ->
  let m' := if uc then remove_role m2 (name_of (m_heap m2) u)
            else if rc then remove_role m2 (name_of (m_heap m2) r) else m2 in
  WFr m' /\ m_mf m' = m_mf m /\ m_next m <= m_next m' /\
  (forall k j, regd m k j -> regd m' k j) /\
  (forall x y, In (x, y) (links_of m') <-> In (x, y) (links_of m)) /\
  (forall k j, regd m' k j -> regd m k j \/ m_next m <= j).
Proof.
  intros W E1 E2. cbv zeta.
  destruct (get_pair _ _ _ _ _ _ _ _ _ W E1 E2) as [W2 [H1 [H2 [M2 [N2 [Mono [Fr [L2 [Nu Nr]]]]]]]]].
  rewrite Nu, Nr.
  destruct (get_role_WFs mf _ _ _ _ _ (proj1 W) E1) as [W1 [_ [_ [_ [Hf1 Ht1]]]]].
  destruct uc.
  - destruct (Ht1 eq_refl) as [L1 _].
    destruct (get_role_created_empty mf _ _ _ _ (proj1 W) E1) as [o1 [G1 [Er Eu]]].
    destruct (get_role_keeps mf _ _ _ _ _ _ _ W1 E2 G1) as [o2 [G2 [_ [Er2 Eu2]]]].
    destruct (drop_empty m2 un u o2 W2 H1 G2) as [W3 [L3 R3]]; [congruence|congruence|].
    split; [exact W3|]. split; [rewrite remove_role_mf; exact M2|]. split; [rewrite remove_role_next; exact N2|]. split.
    + intros k j H. apply R3. split; [|apply Mono; exact H]. intros ->.
      apply lookup_None_notin in L1. apply L1. eapply In_keys; exact H.
    + split; [intros x y; rewrite L3; apply L2|]. intros k j H. apply R3 in H as [_ H]. apply Fr. exact H.
  - rewrite (Hf1 eq_refl) in *. destruct rc.
    + destruct (get_role_WFs mf _ _ _ _ _ (proj1 W) E2) as [_ [_ [_ [_ [_ Ht2]]]]]. destruct (Ht2 eq_refl) as [L2' _].
      destruct (get_role_created_empty mf _ _ _ _ (proj1 W) E2) as [o2 [G2 [Er Eu]]].
      destruct (drop_empty m2 rn r o2 W2 H2 G2 Er Eu) as [W3 [L3 R3]].
      split; [exact W3|]. split; [rewrite remove_role_mf; exact M2|]. split; [rewrite remove_role_next; exact N2|]. split.
      * intros k j H. apply R3. split; [|apply Mono; exact H]. intros ->.
        apply lookup_None_notin in L2'. apply L2'. eapply In_keys; exact H.
      * split; [intros x y; rewrite L3; apply L2|]. intros k j H. apply R3 in H as [_ H]. apply Fr. exact H.
    + split; [exact W2|]. split; [exact M2|]. split; [exact N2|]. split; [exact Mono|split; [exact L2|exact Fr]].
Qed.

Lemma crm_get_fn_rm s un rn d : c_fn (fst (crm_get_fn mf s un rn d)) = c_fn s /\ c_par (fst (crm_get_fn mf s un rn d)) = c_par s.
Proof.
  unfold crm_get_fn. destruct (get_role mf (c_rm s) un) as [[m1 u] uc]. destruct (get_role mf m1 rn) as [[m2 r] rc].
  destruct uc; [split; reflexivity|]. destruct rc; split; reflexivity.
Qed.
Lemma crm_get_params_rm s un rn d : c_fn (fst (crm_get_params mf s un rn d)) = c_fn s /\ c_par (fst (crm_get_params mf s un rn d)) = c_par s.
Proof.
  unfold crm_get_params. destruct (get_role mf (c_rm s) un) as [[m1 u] uc]. destruct (get_role mf m1 rn) as [[m2 r] rc].
  destruct uc; [split; reflexivity|]. destruct rc; split; reflexivity.
Qed.

(* what every call does to the embedded manager, to the links, and to the well-formedness *)
Definition ext (s s' : crm) : Prop :=
  m_next (c_rm s) <= m_next (c_rm s') /\ (forall k j, regd (c_rm s) k j -> regd (c_rm s') k j) /\
  (forall k j, regd (c_rm s') k j -> regd (c_rm s) k j \/ m_next (c_rm s) <= j).

Lemma crm_get_fn_facts s un rn d : CWF s ->
  CWF (fst (crm_get_fn mf s un rn d)) /\ m_mf (c_rm (fst (crm_get_fn mf s un rn d))) = m_mf (c_rm s) /\
  (forall x y, In (x, y) (links_of (c_rm (fst (crm_get_fn mf s un rn d)))) <-> In (x, y) (links_of (c_rm s))) /\
  ext s (fst (crm_get_fn mf s un rn d)).
Proof.
  intros [W K]. unfold crm_get_fn.
  destruct (get_role mf (c_rm s) un) as [[m1 u] uc] eqn:E1. destruct (get_role mf m1 rn) as [[m2 r] rc] eqn:E2.
  pose proof (get_pair_cleanup _ _ _ _ _ _ _ _ _ W E1 E2) as HC. cbv zeta in HC.
  destruct uc; [|destruct rc]; cbn [fst with_rm c_rm]; destruct HC as [W' [M' [N' [R' [L' F']]]]];
    (split; [split; [exact W'|apply (keys_ok_ext s _ K N' R')]|split; [exact M'|split; [exact L'|split; [exact N'|split; assumption]]]]).
Qed.
Lemma crm_get_params_facts s un rn d : CWF s ->
  CWF (fst (crm_get_params mf s un rn d)) /\ m_mf (c_rm (fst (crm_get_params mf s un rn d))) = m_mf (c_rm s) /\
  (forall x y, In (x, y) (links_of (c_rm (fst (crm_get_params mf s un rn d)))) <-> In (x, y) (links_of (c_rm s))) /\
  ext s (fst (crm_get_params mf s un rn d)).
Proof.
  intros [W K]. unfold crm_get_params.
  destruct (get_role mf (c_rm s) un) as [[m1 u] uc] eqn:E1. destruct (get_role mf m1 rn) as [[m2 r] rc] eqn:E2.
  pose proof (get_pair_cleanup _ _ _ _ _ _ _ _ _ W E1 E2) as HC. cbv zeta in HC.
  destruct uc; [|destruct rc]; cbn [fst with_rm c_rm]; destruct HC as [W' [M' [N' [R' [L' F']]]]];
    (split; [split; [exact W'|apply (keys_ok_ext s _ K N' R')]|split; [exact M'|split; [exact L'|split; [exact N'|split; assumption]]]]).
Qed.

Lemma regd_fresh m k i : WFs m -> regd m k i -> i < m_next m.
Proof. intros W H. destruct (ws_obj _ W _ _ H) as [o [G _]]. eapply ws_fresh; eauto. Qed.

Lemma crm_add_fn_facts s un rn d f : CWF s ->
  CWF (crm_add_fn mf s un rn d f) /\ m_mf (c_rm (crm_add_fn mf s un rn d f)) = m_mf (c_rm s) /\
  (forall x y, In (x, y) (links_of (c_rm (crm_add_fn mf s un rn d f))) <-> In (x, y) (links_of (c_rm s))) /\
  ext s (crm_add_fn mf s un rn d f).
Proof.
  intros [W K]. unfold crm_add_fn.
  destruct (get_role mf (c_rm s) un) as [[m1 u] uc] eqn:E1. destruct (get_role mf m1 rn) as [[m2 r] rc] eqn:E2.
  destruct (get_pair _ _ _ _ _ _ _ _ _ W E1 E2) as [W2 [H1 [H2 [M2 [N2 [Mono [Fr [L2 [Nu Nr]]]]]]]]].
  rewrite Nr. cbn [c_rm]. split; [split; [exact W2|]|split; [exact M2|split; [exact L2|split; [exact N2|split; assumption]]]].
  intros k Hk. cbn [c_fn c_par c_rm] in *. rewrite kput_keys in Hk. destruct Hk as [[->|Hk]|Hk].
  - cbn [fst snd]. split; [apply (regd_fresh _ un); [apply (proj1 W2)|exact H1]|exists r; exact H2].
  - destruct (K k (or_introl Hk)) as [A [j B]]. split; [lia|exists j; auto].
  - destruct (K k (or_intror Hk)) as [A [j B]]. split; [lia|exists j; auto].
Qed.
Lemma crm_set_params_facts s un rn d ps : CWF s ->
  CWF (crm_set_params mf s un rn d ps) /\ m_mf (c_rm (crm_set_params mf s un rn d ps)) = m_mf (c_rm s) /\
  (forall x y, In (x, y) (links_of (c_rm (crm_set_params mf s un rn d ps))) <-> In (x, y) (links_of (c_rm s))) /\
  ext s (crm_set_params mf s un rn d ps).
Proof.
  intros [W K]. unfold crm_set_params.
  destruct (get_role mf (c_rm s) un) as [[m1 u] uc] eqn:E1. destruct (get_role mf m1 rn) as [[m2 r] rc] eqn:E2.
  destruct (get_pair _ _ _ _ _ _ _ _ _ W E1 E2) as [W2 [H1 [H2 [M2 [N2 [Mono [Fr [L2 [Nu Nr]]]]]]]]].
  rewrite Nr. cbn [c_rm]. split; [split; [exact W2|]|split; [exact M2|split; [exact L2|split; [exact N2|split; assumption]]]].
  intros k Hk. cbn [c_fn c_par c_rm] in *. rewrite kput_keys in Hk. destruct Hk as [Hk|[->|Hk]].
  - destruct (K k (or_introl Hk)) as [A [j B]]. split; [lia|exists j; auto].
  - cbn [fst snd]. split; [apply (regd_fresh _ un); [apply (proj1 W2)|exact H1]|exists r; exact H2].
  - destruct (K k (or_intror Hk)) as [A [j B]]. split; [lia|exists j; auto].
Qed.

Lemma cstep_CWF n s op : CWF s -> CWF (fst (cstep mf cf n s op)).
Proof.
  intros C. pose proof C as [W K]. destruct op; cbn [cstep].
  - (* AddLink *) cbn [fst]. unfold crm_add_link. split; cbn [with_rm c_rm].
    + apply (add_link_WF mf Pany (GRM_any mf)); [exact W|exact I].
    + destruct (add_link_ext (c_rm s) u r W) as [A1 [A2 _]]. apply keys_ok_ext; assumption.
  - cbn [fst]. unfold crm_delete_link. split; cbn [with_rm c_rm].
    + apply (delete_link_WF mf Pany (GRM_any mf)); [exact W|exact I].
    + destruct (delete_link_ext (c_rm s) u r W) as [A1 [A2 _]]. apply keys_ok_ext; assumption.
  - (* HasLink *) destruct (crm_has_link mf cf n s u r d) as [s' b] eqn:E. cbn [fst].
    assert (Es : s' = with_rm s (fst (has_link mf n (c_rm s) u r))).
    { rewrite <- (crm_has_link_state n s u r d). rewrite E. reflexivity. }
    subst s'. destruct (has_link_WF mf Pany (GRM_any mf) (URM_any mf) n (c_rm s) u r W I) as [W' [_ [R' _]]].
    split; [exact W'|]. apply keys_ok_ext; [exact K|apply has_link_next|]. intros k j H. apply R'. exact H.
  - unfold crm_get_roles. destruct (get_roles mf (c_rm s) u) as [m l] eqn:E. cbn [fst].
    destruct (get_roles_WF mf Pany (GRM_any mf) (URM_any mf) (c_rm s) u W I) as [W' [_ [R' _]]].
    pose proof (get_roles_next (c_rm s) u) as N'. rewrite E in W', R', N'. cbn [fst] in *.
    split; [exact W'|]. apply keys_ok_ext; [exact K|exact N'|]. intros k j H. apply R'. exact H.
  - unfold crm_get_users. destruct (get_users mf (c_rm s) u) as [m l] eqn:E. cbn [fst].
    destruct (get_users_WF mf Pany (GRM_any mf) (URM_any mf) (c_rm s) u W I) as [W' [_ [R' _]]].
    pose proof (get_users_next (c_rm s) u) as N'. rewrite E in W', R', N'. cbn [fst] in *.
    split; [exact W'|]. apply keys_ok_ext; [exact K|exact N'|]. intros k j H. apply R'. exact H.
  - cbn [fst]. split; [apply WF_clear|]. intros k [[]|[]].
  - cbn [fst]. split; [apply (rm_add_matching_func_WF mf); exact W|]. intros k [[]|[]].
  - cbn [fst]. apply crm_add_fn_facts. exact C.
  - cbn [fst]. apply crm_set_params_facts. exact C.
  - destruct (crm_get_fn mf s u r d) as [s' o] eqn:E. cbn [fst].
    pose proof (crm_get_fn_facts s u r d C) as H. rewrite E in H. apply H.
  - destruct (crm_get_params mf s u r d) as [s' o] eqn:E. cbn [fst].
    pose proof (crm_get_params_facts s u r d C) as H. rewrite E in H. apply H.
Qed.

Theorem crun_CWF n ops : forall s, CWF s -> CWF (crun mf cf n s ops).
Proof.
  induction ops as [|op t IH]; intros s C; [exact C|]. unfold crun. cbn [fold_left]. apply IH. apply cstep_CWF. exact C.
Qed.


(* ================= (a) over histories ================= *)
(* the calls a ConditionalRoleManager shares with RoleManagerImpl *)
Definition proj (op : cop) : option rop :=
  match op with
  | CAdd u r => Some (RAdd u r) | CDel u r => Some (RDel u r) | CHas u r _ => Some (RHas u r)
  | CRoles u => Some (RRoles u) | CUsers u => Some (RUsers u) | CClear => Some RClear | CAddMF => Some RAddMF
  | _ => None
  end.
Definition to_rres (r : cres) : rres :=
  match r with CBool b => ResBool b | CList l => ResList l | _ => ResUnit end.
Definition projs (ops : list cop) : list rop :=
  flat_map (fun op => match proj op with Some r => [r] | None => [] end) ops.
Definition plain_cop (op : cop) : Prop := proj op <> None.

Lemma cstep_plain n s op rp : c_fn s = [] -> WFr (c_rm s) -> proj op = Some rp ->
  c_rm (fst (cstep mf cf n s op)) = fst (rstep mf n (c_rm s) rp) /\
  c_fn (fst (cstep mf cf n s op)) = [] /\
  to_rres (snd (cstep mf cf n s op)) = snd (rstep mf n (c_rm s) rp).
Proof.
  intros E W P. destruct op; cbn [proj] in P; inversion P; subst; cbn [cstep rstep].
  - cbn [fst snd crm_add_link with_rm c_rm c_fn to_rres]. auto.
  - cbn [fst snd crm_delete_link with_rm c_rm c_fn to_rres]. auto.
  - pose proof (crm_has_link_state n s u r d) as H1. pose proof (crm_has_link_nofn n s u r d E W) as H2.
    destruct (crm_has_link mf cf n s u r d) as [s' b]. destruct (has_link mf n (c_rm s) u r) as [m b'].
    cbn [fst snd] in *. subst. cbn [with_rm c_rm c_fn to_rres]. auto.
  - unfold crm_get_roles. destruct (get_roles mf (c_rm s) u) as [m l]. cbn [fst snd with_rm c_rm c_fn to_rres]. auto.
  - unfold crm_get_users. destruct (get_users mf (c_rm s) u) as [m l]. cbn [fst snd with_rm c_rm c_fn to_rres]. auto.
  - cbn [fst snd crm_clear c_rm c_fn to_rres]. auto.
  - cbn [fst snd crm_add_matching_func c_rm c_fn to_rres]. auto.
Qed.

Lemma projs_cons_some op rp t : proj op = Some rp -> projs (op :: t) = rp :: projs t.
Proof. intros P. unfold projs. cbn [flat_map]. rewrite P. reflexivity. Qed.
Lemma projs_cons_none op t : proj op = None -> projs (op :: t) = projs t.
Proof. intros P. unfold projs. cbn [flat_map]. rewrite P. reflexivity. Qed.

(* a history of the shared calls drives the embedded RoleManagerImpl exactly as the same calls
   drive a plain manager (any matching function), and no function appears *)
Theorem crun_plain n ops : forall s, c_fn s = [] -> WFr (c_rm s) -> Forall plain_cop ops ->
  c_rm (crun mf cf n s ops) = rrun mf n (c_rm s) (projs ops) /\ c_fn (crun mf cf n s ops) = [] /\
  WFr (c_rm (crun mf cf n s ops)).
Proof.
  induction ops as [|op t IH]; intros s E W F; [cbn; auto|].
  inversion F as [|? ? P Ft]; subst. unfold plain_cop in P. destruct (proj op) as [rp|] eqn:Pr; [|congruence].
  destruct (cstep_plain n s op rp E W Pr) as [H1 [H2 _]].
  rewrite (projs_cons_some _ _ _ Pr). unfold crun, rrun. cbn [fold_left]. fold (crun mf cf n (fst (cstep mf cf n s op)) t).
  fold (rrun mf n (fst (rstep mf n (c_rm s) rp)) (projs t)). rewrite <- H1. apply IH; [exact H2| |exact Ft].
  rewrite H1. apply rstep_WF. exact W.
Qed.

Theorem crun_plain_answers n ops op rp : Forall plain_cop ops -> proj op = Some rp ->
  to_rres (snd (cstep mf cf n (crun mf cf n (crm_new false) ops) op))
  = snd (rstep mf n (rrun mf n (new_rm false) (projs ops)) rp).
Proof.
  intros F P. destruct (crun_plain n ops (crm_new false) eq_refl (WF_new mf false) F) as [H1 [H2 H3]].
  destruct (cstep_plain n _ op rp H2 H3 P) as [_ [_ H]]. rewrite H, H1. reflexivity.
Qed.

(* without a matching function and without a registered condition function every history of the
   remaining calls (Set...Params and the two getters included) refines the link set of Roles.v *)
Definition nofn_cop (op : cop) : Prop :=
  match op with CAddFn _ _ _ _ => False | CAddMF => False | _ => True end.

Lemma links_equiv_abs d0 m m' ls : (forall x y, In (x, y) (links_of m') <-> In (x, y) (links_of m)) ->
  links_equiv (abs_rm d0 m) ls -> links_equiv (abs_rm d0 m') ls.
Proof.
  intros L E [[x y] d']. rewrite <- (E (x, y, d')), !abs_rm_In, L. tauto.
Qed.

Lemma crm_set_params_fn s un rn d ps : c_fn (crm_set_params mf s un rn d ps) = c_fn s.
Proof.
  unfold crm_set_params. destruct (get_role mf (c_rm s) un) as [[m1 u] uc]. destruct (get_role mf m1 rn) as [[m2 r] rc]. reflexivity.
Qed.

Lemma cstep_nofn n d0 s ls op : CWF s -> m_mf (c_rm s) = false -> c_fn s = [] ->
  links_equiv (abs_rm d0 (c_rm s)) ls -> nofn_cop op ->
  CWF (fst (cstep mf cf n s op)) /\ m_mf (c_rm (fst (cstep mf cf n s op))) = false /\
  c_fn (fst (cstep mf cf n s op)) = [] /\
  links_equiv (abs_rm d0 (c_rm (fst (cstep mf cf n s op))))
              (match proj op with Some rp => fst (astep n d0 ls rp) | None => ls end) /\
  match proj op with
  | Some rp => res_agree (to_rres (snd (cstep mf cf n s op))) (snd (astep n d0 ls rp))
  | None => True
  end.
Proof.
  intros C Hm E L N. split; [apply cstep_CWF; exact C|].
  destruct (proj op) as [rp|] eqn:P.
  - destruct (cstep_plain n s op rp E (proj1 C) P) as [H1 [H2 H3]].
    assert (Pl : plain_rop rp) by (destruct op; cbn [proj] in P; inversion P; subst; cbn; auto; destruct N).
    destruct (rstep_refines mf n d0 (c_rm s) ls rp (conj (proj1 C) Hm) L Pl) as [[_ R1] [R2 R3]].
    rewrite H1, H3. auto.
  - destruct op; cbn [proj] in P; try discriminate; try (destruct N); cbn [cstep].
    + cbn [fst]. destruct (crm_set_params_facts s u r d ps C) as [_ [M [Lk _]]]. split; [congruence|].
      split; [rewrite crm_set_params_fn; exact E|]. split; [|exact I]. eapply links_equiv_abs; eauto.
    + destruct (crm_get_fn mf s u r d) as [s' o] eqn:G. cbn [fst].
      pose proof (crm_get_fn_facts s u r d C) as [_ [M [Lk _]]]. pose proof (crm_get_fn_rm s u r d) as [F1 _].
      rewrite G in *. cbn [fst] in *. split; [congruence|]. split; [congruence|]. split; [|exact I]. eapply links_equiv_abs; eauto.
    + destruct (crm_get_params mf s u r d) as [s' o] eqn:G. cbn [fst].
      pose proof (crm_get_params_facts s u r d C) as [_ [M [Lk _]]]. pose proof (crm_get_params_rm s u r d) as [F1 _].
      rewrite G in *. cbn [fst] in *. split; [congruence|]. split; [congruence|]. split; [|exact I]. eapply links_equiv_abs; eauto.
Qed.

Theorem crun_nofn n d0 ops : forall s ls, CWF s -> m_mf (c_rm s) = false -> c_fn s = [] ->
  links_equiv (abs_rm d0 (c_rm s)) ls -> Forall nofn_cop ops ->
  CWF (crun mf cf n s ops) /\ m_mf (c_rm (crun mf cf n s ops)) = false /\ c_fn (crun mf cf n s ops) = [] /\
  links_equiv (abs_rm d0 (c_rm (crun mf cf n s ops))) (arun n d0 ls (projs ops)).
Proof.
  induction ops as [|op t IH]; intros s ls C Hm E L F; [cbn; auto|].
  inversion F as [|? ? N Ft]; subst.
  destruct (cstep_nofn n d0 s ls op C Hm E L N) as [C' [Hm' [E' [L' _]]]].
  unfold crun. cbn [fold_left]. fold (crun mf cf n (fst (cstep mf cf n s op)) t).
  destruct (proj op) as [rp|] eqn:P.
  - rewrite (projs_cons_some _ _ _ P). unfold arun. cbn [fold_left]. fold (arun n d0 (fst (astep n d0 ls rp)) (projs t)).
    apply IH; assumption.
  - rewrite (projs_cons_none _ _ P). apply IH; assumption.
Qed.

(* ... and every shared call made after it is answered as the link-set model answers it *)
Theorem crun_nofn_answers n d0 ops op rp : Forall nofn_cop ops -> nofn_cop op -> proj op = Some rp ->
  res_agree (to_rres (snd (cstep mf cf n (crun mf cf n (crm_new false) ops) op)))
            (snd (astep n d0 (arun n d0 [] (projs ops)) rp)).
Proof.
  intros F N P.
  assert (L0 : links_equiv (abs_rm d0 (c_rm (crm_new false))) []) by (intros l; cbn; tauto).
  destruct (crun_nofn n d0 ops (crm_new false) [] (CWF_new false) eq_refl eq_refl L0 F) as [C [Hm [E L]]].
  pose proof (cstep_nofn n d0 _ _ op C Hm E L N) as [_ [_ [_ [_ H]]]]. rewrite P in H. exact H.
Qed.

(* ================= (b) HasLink with conditions, on the stored links ================= *)
Definition ledge (s : crm) (d x y : string) : Prop :=
  In (x, y) (links_of (c_rm s)) /\ cond_pass cf s x y d = Some true.
Inductive lwalk (s : crm) : string -> string -> string -> nat -> Prop :=
| lw0 d x : lwalk s d x x 0
| lwS d x y z k : ledge s d x y -> lwalk s ddom y z k -> lwalk s d x z (S k).
Definition no_err_links (s : crm) : Prop :=
  forall x y d, In (x, y) (links_of (c_rm s)) -> cond_pass cf s x y d <> None.

(* registering further names does not change the condition of a pair of registered names *)
Lemma cond_pass_ext s m' x y d : WFs (c_rm s) -> WFs m' ->
  (forall k j, regd (c_rm s) k j -> regd m' k j) ->
  (exists i, regd (c_rm s) x i) -> (exists j, regd (c_rm s) y j) ->
  cond_pass cf (with_rm s m') x y d = cond_pass cf s x y d.
Proof.
  intros W W' Mono [i Hi] [j Hj]. unfold cond_pass. cbn [with_rm c_rm c_fn c_par].
  rewrite (proj1 (regd_lookup _ _ _ W') (Mono _ _ Hi)), (proj1 (regd_lookup _ _ _ W') (Mono _ _ Hj)).
  rewrite (proj1 (regd_lookup _ _ _ W) Hi), (proj1 (regd_lookup _ _ _ W) Hj).
  rewrite (name_of_regd _ _ _ W' (Mono _ _ Hj)), (name_of_regd _ _ _ W Hj). reflexivity.
Qed.

Lemma hl_state_mono m n1 n2 : WFr m ->
  WFr (hl_state mf m n1 n2) /\ (forall k j, regd m k j -> regd (hl_state mf m n1 n2) k j).
Proof.
  intros W. unfold hl_state. destruct (get_role mf m n1) as [[m1 u] uc] eqn:E1. cbn [fst].
  destruct (get_role mf m1 n2) as [[m2 r] rc] eqn:E2. cbn [fst].
  destruct (get_pair _ _ _ _ _ _ _ _ _ W E1 E2) as [W2 [_ [_ [_ [_ [Mono _]]]]]]. auto.
Qed.

Lemma ledge_cedge s n1 n2 d x y : WFr (c_rm s) -> m_mf (c_rm s) = false ->
  (cedge (chl_state s n1 n2) d x y <-> ledge s d x y).
Proof.
  intros W Hm. destruct (hl_state_facts mf (c_rm s) n1 n2 (conj W Hm)) as [N2 L2].
  destruct (hl_state_mono (c_rm s) n1 n2 W) as [W2 Mono].
  unfold cedge, ledge, chl_state. cbn [with_rm c_rm]. rewrite (sedge_nomf mf _ x y N2), L2.
  split; intros [HL HP]; (split; [exact HL|]);
    destruct (link_ends_regd _ _ _ (proj1 W) HL) as [Hx Hy]; apply keys_regd in Hx, Hy;
    [rewrite <- (cond_pass_ext s _ x y d (proj1 W) (proj1 W2) Mono Hx Hy)|rewrite (cond_pass_ext s _ x y d (proj1 W) (proj1 W2) Mono Hx Hy)]; exact HP.
Qed.

Lemma lwalk_cwalk s n1 n2 : WFr (c_rm s) -> m_mf (c_rm s) = false ->
  forall d x y k, cwalk (chl_state s n1 n2) d x y k <-> lwalk s d x y k.
Proof.
  intros W Hm d x y k. split; intros Wk; induction Wk; try constructor.
  - econstructor; [|eassumption]. apply (ledge_cedge s n1 n2); assumption.
  - econstructor; [|eassumption]. apply (ledge_cedge s n1 n2); assumption.
Qed.

(* HasLink(u, r, d) of a manager without matching function: r is reached from u within n stored
   links each of whose condition (if any) holds on its current parameters — the condition of the
   FIRST link taken in the domain d of the call, every later one in the default domain.  An error
   never grants (first part, unconditional); when no condition on a stored link errs the
   characterisation is exact (second part). *)
Theorem crm_has_link_spec n s u r d : WFr (c_rm s) -> m_mf (c_rm s) = false ->
  (snd (crm_has_link mf cf n s u r d) = true -> exists k, k <= n /\ lwalk s d u r k) /\
  (no_err_links s -> (exists k, k <= n /\ lwalk s d u r k) -> snd (crm_has_link mf cf n s u r d) = true).
Proof.
  intros W Hm. destruct (crm_has_link_value n s u r d W) as [HS HC]. split.
  - intros H. apply HS in H as [y [k [Hk [Hw [->|[Hm' _]]]]]]; [|congruence].
    exists k. split; [exact Hk|]. apply (lwalk_cwalk s u r W Hm). exact Hw.
  - intros NE [k [Hk Hw]]. apply HC.
    + intros x y d' He. destruct (hl_state_facts mf (c_rm s) u r (conj W Hm)) as [N2 L2].
      destruct (hl_state_mono (c_rm s) u r W) as [W2 Mono].
      unfold chl_state in *. cbn [with_rm c_rm] in He. apply (sedge_nomf mf _ x y N2), L2 in He.
      destruct (link_ends_regd _ _ _ (proj1 W) He) as [Hx Hy]. apply keys_regd in Hx, Hy.
      rewrite (cond_pass_ext s _ x y d' (proj1 W) (proj1 W2) Mono Hx Hy). apply NE. exact He.
    + exists r, k. split; [exact Hk|]. split; [apply (lwalk_cwalk s u r W Hm); exact Hw|left; reflexivity].
Qed.

(* ================= (c) frame: what a registration changes ================= *)
(* the function / the parameters stored for the link x -> y in domain d, by name *)
Definition fn_of (s : crm) (x y d : string) : option nat :=
  match lookup x (m_all (c_rm s)), lookup y (m_all (c_rm s)) with
  | Some u, Some r => kget (u, (name_of (m_heap (c_rm s)) r, d)) (c_fn s)
  | _, _ => None
  end.
Definition par_of (s : crm) (x y d : string) : option (list string) :=
  match lookup x (m_all (c_rm s)), lookup y (m_all (c_rm s)) with
  | Some u, Some r => kget (u, (name_of (m_heap (c_rm s)) r, d)) (c_par s)
  | _, _ => None
  end.

Lemma cond_pass_fn_par s x y d :
  cond_pass cf s x y d = match fn_of s x y d with
                         | Some f => cf f (match par_of s x y d with Some ps => ps | None => [] end)
                         | None => Some true
                         end.
Proof.
  unfold cond_pass, fn_of, par_of. destruct (lookup x (m_all (c_rm s))); [|reflexivity].
  destruct (lookup y (m_all (c_rm s))); reflexivity.
Qed.

Lemma lookup_regd m k : WFs m -> (lookup k (m_all m) = None <-> ~ exists i, regd m k i).
Proof.
  intros W. rewrite lookup_None_notin, keys_regd. tauto.
Qed.

(* a table entry looked up by name in an extension of the manager: the old entry, or none for a
   pair that was not registered *)
Lemma tab_ext {A} (tab : list (ckey * A)) s m' x y d : WFs (c_rm s) -> WFs m' ->
  (forall k, In k (map fst tab) -> fst k < m_next (c_rm s) /\ exists j, regd (c_rm s) (fst (snd k)) j) ->
  (forall k j, regd (c_rm s) k j -> regd m' k j) ->
  (forall k j, regd m' k j -> regd (c_rm s) k j \/ m_next (c_rm s) <= j) ->
  match lookup x (m_all m'), lookup y (m_all m') with
  | Some u, Some r => kget (u, (name_of (m_heap m') r, d)) tab
  | _, _ => None
  end =
  match lookup x (m_all (c_rm s)), lookup y (m_all (c_rm s)) with
  | Some u, Some r => kget (u, (name_of (m_heap (c_rm s)) r, d)) tab
  | _, _ => None
  end.
Proof.
  intros W W' K Mono Fr.
  destruct (lookup x (m_all m')) as [xi|] eqn:Lx'.
  2:{ assert (Lx : lookup x (m_all (c_rm s)) = None).
      { apply lookup_regd; [exact W|]. intros [i Hi]. apply Mono, regd_lookup in Hi; [congruence|exact W']. }
      rewrite Lx. reflexivity. }
  destruct (lookup y (m_all m')) as [yi|] eqn:Ly'.
  2:{ assert (Ly : lookup y (m_all (c_rm s)) = None).
      { apply lookup_regd; [exact W|]. intros [i Hi]. apply Mono, regd_lookup in Hi; [congruence|exact W']. }
      rewrite Ly. destruct (lookup x (m_all (c_rm s))); reflexivity. }
  apply regd_lookup in Lx', Ly'; try exact W'. rewrite (name_of_regd _ _ _ W' Ly').
  destruct (Fr _ _ Lx') as [Hx|Hx].
  - rewrite (proj1 (regd_lookup _ _ _ W) Hx). destruct (Fr _ _ Ly') as [Hy|Hy].
    + rewrite (proj1 (regd_lookup _ _ _ W) Hy), (name_of_regd _ _ _ W Hy). reflexivity.
    + assert (Ly : lookup y (m_all (c_rm s)) = None).
      { apply lookup_regd; [exact W|]. intros [j Hj]. pose proof (regd_fun _ _ _ _ W' (Mono _ _ Hj) Ly'). subst j.
        apply (regd_fresh _ _ _ W) in Hj. lia. }
      rewrite Ly. apply kget_None. intros Hk. destruct (K _ Hk) as [_ [j Hj]]. cbn [fst snd] in Hj.
      apply (proj1 (lookup_regd _ y W) Ly). eauto.
  - assert (Lx : lookup x (m_all (c_rm s)) = None).
    { apply lookup_regd; [exact W|]. intros [i Hi]. pose proof (regd_fun _ _ _ _ W' (Mono _ _ Hi) Lx'). subst i.
      apply (regd_fresh _ _ _ W) in Hi. lia. }
    rewrite Lx. apply kget_None. intros Hk. destruct (K _ Hk) as [Hlt _]. cbn [fst] in Hlt. lia.
Qed.

(* calls that only touch the embedded manager leave every function and parameter list alone *)
Lemma fn_par_ext s m' : CWF s -> WFs m' ->
  (forall k j, regd (c_rm s) k j -> regd m' k j) ->
  (forall k j, regd m' k j -> regd (c_rm s) k j \/ m_next (c_rm s) <= j) ->
  forall x y d, fn_of (with_rm s m') x y d = fn_of s x y d /\ par_of (with_rm s m') x y d = par_of s x y d.
Proof.
  intros [W K] W' Mono Fr x y d. unfold fn_of, par_of. cbn [with_rm c_rm c_fn c_par]. split.
  - apply (tab_ext (c_fn s) s m' x y d (proj1 W) W'); auto.
  - apply (tab_ext (c_par s) s m' x y d (proj1 W) W'); auto.
Qed.

Theorem add_link_frame s a b x y d : CWF s ->
  fn_of (crm_add_link mf s a b) x y d = fn_of s x y d /\ par_of (crm_add_link mf s a b) x y d = par_of s x y d.
Proof.
  intros C. destruct (add_link_ext (c_rm s) a b (proj1 C)) as [_ [Mono Fr]]. unfold crm_add_link.
  apply fn_par_ext; auto. apply (add_link_WF mf Pany (GRM_any mf)); [apply (proj1 C)|exact I].
Qed.
Theorem delete_link_frame s a b x y d : CWF s ->
  fn_of (crm_delete_link mf s a b) x y d = fn_of s x y d /\ par_of (crm_delete_link mf s a b) x y d = par_of s x y d.
Proof.
  intros C. destruct (delete_link_ext (c_rm s) a b (proj1 C)) as [_ [Mono Fr]]. unfold crm_delete_link.
  apply fn_par_ext; auto. apply (delete_link_WF mf Pany (GRM_any mf)); [apply (proj1 C)|exact I].
Qed.

(* AddDomainLinkConditionFunc(u, r, d, f): the function of (u, r, d) becomes f; every other function,
   every parameter list and every link stay *)
Theorem add_fn_frame s un rn d f : CWF s ->
  fn_of (crm_add_fn mf s un rn d f) un rn d = Some f /\
  (forall x y d', (x, y, d') <> (un, rn, d) -> fn_of (crm_add_fn mf s un rn d f) x y d' = fn_of s x y d') /\
  (forall x y d', par_of (crm_add_fn mf s un rn d f) x y d' = par_of s x y d') /\
  (forall x y, In (x, y) (links_of (c_rm (crm_add_fn mf s un rn d f))) <-> In (x, y) (links_of (c_rm s))).
Proof.
  intros C. pose proof C as [W K]. unfold crm_add_fn.
  destruct (get_role mf (c_rm s) un) as [[m1 u] uc] eqn:E1. destruct (get_role mf m1 rn) as [[m2 r] rc] eqn:E2.
  destruct (get_pair _ _ _ _ _ _ _ _ _ W E1 E2) as [W2 [H1 [H2 [M2 [N2 [Mono [Fr [L2 [Nu Nr]]]]]]]]].
  rewrite Nr. split; [|split; [|split]].
  - unfold fn_of. cbn [c_rm c_fn]. rewrite (proj1 (regd_lookup _ _ _ (proj1 W2)) H1), (proj1 (regd_lookup _ _ _ (proj1 W2)) H2), Nr.
    apply kget_kput_same.
  - intros x y d' NE. destruct (fn_par_ext s m2 C (proj1 W2) Mono Fr x y d') as [F1 _]. rewrite <- F1.
    unfold fn_of. cbn [with_rm c_rm c_fn]. destruct (lookup x (m_all m2)) as [xi|] eqn:Lx; [|reflexivity].
    destruct (lookup y (m_all m2)) as [yi|] eqn:Ly; [|reflexivity]. apply kget_kput_other. intros Ek.
    apply regd_lookup in Lx, Ly; try apply (proj1 W2). rewrite (name_of_regd _ _ _ (proj1 W2) Ly) in Ek. inversion Ek. subst.
    apply NE. f_equal. f_equal. eapply regd_inj; eauto. apply (proj1 W2).
  - intros x y d'. destruct (fn_par_ext s m2 C (proj1 W2) Mono Fr x y d') as [_ F2]. rewrite <- F2. reflexivity.
  - exact L2.
Qed.

(* SetDomainLinkConditionFuncParams(u, r, d, ps): the parameters of (u, r, d) become ps; nothing else moves *)
Theorem set_params_frame s un rn d ps : CWF s ->
  par_of (crm_set_params mf s un rn d ps) un rn d = Some ps /\
  (forall x y d', (x, y, d') <> (un, rn, d) -> par_of (crm_set_params mf s un rn d ps) x y d' = par_of s x y d') /\
  (forall x y d', fn_of (crm_set_params mf s un rn d ps) x y d' = fn_of s x y d') /\
  (forall x y, In (x, y) (links_of (c_rm (crm_set_params mf s un rn d ps))) <-> In (x, y) (links_of (c_rm s))).
Proof.
  intros C. pose proof C as [W K]. unfold crm_set_params.
  destruct (get_role mf (c_rm s) un) as [[m1 u] uc] eqn:E1. destruct (get_role mf m1 rn) as [[m2 r] rc] eqn:E2.
  destruct (get_pair _ _ _ _ _ _ _ _ _ W E1 E2) as [W2 [H1 [H2 [M2 [N2 [Mono [Fr [L2 [Nu Nr]]]]]]]]].
  rewrite Nr. split; [|split; [|split]].
  - unfold par_of. cbn [c_rm c_par]. rewrite (proj1 (regd_lookup _ _ _ (proj1 W2)) H1), (proj1 (regd_lookup _ _ _ (proj1 W2)) H2), Nr.
    apply kget_kput_same.
  - intros x y d' NE. destruct (fn_par_ext s m2 C (proj1 W2) Mono Fr x y d') as [_ F1]. rewrite <- F1.
    unfold par_of. cbn [with_rm c_rm c_par]. destruct (lookup x (m_all m2)) as [xi|] eqn:Lx; [|reflexivity].
    destruct (lookup y (m_all m2)) as [yi|] eqn:Ly; [|reflexivity]. apply kget_kput_other. intros Ek.
    apply regd_lookup in Lx, Ly; try apply (proj1 W2). rewrite (name_of_regd _ _ _ (proj1 W2) Ly) in Ek. inversion Ek. subst.
    apply NE. f_equal. f_equal. eapply regd_inj; eauto. apply (proj1 W2).
  - intros x y d'. destruct (fn_par_ext s m2 C (proj1 W2) Mono Fr x y d') as [F2 _]. rewrite <- F2. reflexivity.
  - exact L2.
Qed.

(* hence: a registration changes the truth of the condition of that one link only *)
Corollary add_fn_cond_frame s un rn d f x y d' : CWF s -> (x, y, d') <> (un, rn, d) ->
  cond_pass cf (crm_add_fn mf s un rn d f) x y d' = cond_pass cf s x y d'.
Proof.
  intros C NE. destruct (add_fn_frame s un rn d f C) as [_ [F1 [F2 _]]].
  rewrite !cond_pass_fn_par, (F1 x y d' NE), (F2 x y d'). reflexivity.
Qed.
Corollary set_params_cond_frame s un rn d ps x y d' : CWF s -> (x, y, d') <> (un, rn, d) ->
  cond_pass cf (crm_set_params mf s un rn d ps) x y d' = cond_pass cf s x y d'.
Proof.
  intros C NE. destruct (set_params_frame s un rn d ps C) as [_ [F1 [F2 _]]].
  rewrite !cond_pass_fn_par, (F1 x y d' NE), (F2 x y d'). reflexivity.
Qed.
(* the function applies to the parameters that were stored BEFORE it was registered, and new
   parameters apply to the function registered before them *)
Corollary add_fn_cond s un rn d f : CWF s ->
  cond_pass cf (crm_add_fn mf s un rn d f) un rn d
  = cf f (match par_of s un rn d with Some ps => ps | None => [] end).
Proof.
  intros C. destruct (add_fn_frame s un rn d f C) as [F0 [_ [F2 _]]].
  rewrite cond_pass_fn_par, F0, (F2 un rn d). reflexivity.
Qed.
Corollary set_params_cond s un rn d ps : CWF s ->
  cond_pass cf (crm_set_params mf s un rn d ps) un rn d
  = match fn_of s un rn d with Some f => cf f ps | None => Some true end.
Proof.
  intros C. destruct (set_params_frame s un rn d ps C) as [F0 [_ [F2 _]]].
  rewrite cond_pass_fn_par, F0, (F2 un rn d). reflexivity.
Qed.


(* when no registered function can return an error, no condition on a link does *)
Lemma kget_val_In {A} k (m : list (ckey * A)) v : kget k m = Some v -> In v (map snd m).
Proof.
  induction m as [|[k0 v0] t IH]; cbn [kget map snd In]; [discriminate|].
  destruct (ckey_eqb k k0); [intros E; inversion E; auto|auto].
Qed.
Lemma no_err_total s : (forall f ps, In f (map snd (c_fn s)) -> cf f ps <> None) -> no_err_links s.
Proof.
  intros H x y d _. rewrite cond_pass_fn_par. destruct (fn_of s x y d) as [f|] eqn:F; [|discriminate].
  apply H. unfold fn_of in F. destruct (lookup x (m_all (c_rm s))); [|discriminate].
  destruct (lookup y (m_all (c_rm s))); [|discriminate]. eapply kget_val_In; eauto.
Qed.


(* inside hasLinkHelper the model looks conditions up without touching the state (cond_pass); that is
   what the stateful getters of the code do on REGISTERED names, and hasLinkHelper only meets
   registered names (range_names, the `good` frontiers of chl_scan_spec) *)
Lemma with_rm_self s : with_rm s (c_rm s) = s.
Proof. destruct s; reflexivity. Qed.
Theorem getters_pure_on_registered s un rn d u r : WFs (c_rm s) ->
  regd (c_rm s) un u -> regd (c_rm s) rn r ->
  crm_get_fn mf s un rn d = (s, fn_of s un rn d) /\ crm_get_params mf s un rn d = (s, par_of s un rn d).
Proof.
  intros W Hu Hr. apply regd_lookup in Hu, Hr; try exact W.
  unfold crm_get_fn, crm_get_params, fn_of, par_of.
  rewrite (get_role_old mf _ _ _ Hu), (get_role_old mf _ _ _ Hr), Hu, Hr, with_rm_self. auto.
Qed.

(* (a1) as one statement *)
Theorem crm_has_link_nofn_full n s u r d : c_fn s = [] -> WFr (c_rm s) ->
  snd (crm_has_link mf cf n s u r d) = snd (has_link mf n (c_rm s) u r) /\
  fst (crm_has_link mf cf n s u r d) = with_rm s (fst (has_link mf n (c_rm s) u r)).
Proof. intros E W. split; [apply crm_has_link_nofn; assumption|apply crm_has_link_state]. Qed.

End WithCond.

(* ================= ConditionalDomainManager ================= *)
Section CondDomain.
Variable mf : string -> string -> bool.
Variable dmf : string -> string -> bool.
Variable cf : nat -> list string -> option bool.

Record CDWF (dm : cdmgr) : Prop := mkCDWF {
  cdw_nodup : NoDup (map fst (cd_rms dm));
  cdw_rm : forall d rm, In (d, rm) (cd_rms dm) -> CWF mf rm }.

Lemma CDWF_new : CDWF cdm_new.
Proof. constructor; [constructor|intros d rm []]. Qed.

Lemma CDWF_upd dm d rm : CDWF dm -> CWF mf rm -> CDWF (set_crms dm (mput d rm (cd_rms dm))).
Proof.
  intros [N R] C. constructor; cbn [set_crms cd_rms].
  - apply mput_nodup. exact N.
  - intros d' rm' H. apply mput_In in H; [|exact N]. destruct H as [[-> ->]|[_ H]]; [exact C|eapply R; eauto].
Qed.

(* a manager assembled by copyFrom has links but neither functions nor parameters *)
Lemma copy_from_CWF acc other : WF mf (c_rm acc) -> c_fn acc = [] -> c_par acc = [] ->
  WF mf (c_rm (crm_copy_from mf acc other)) /\ c_fn (crm_copy_from mf acc other) = [] /\ c_par (crm_copy_from mf acc other) = [].
Proof.
  intros W F P. unfold crm_copy_from. cbn [with_rm c_rm c_fn c_par]. split; [apply copy_from_WF; exact W|auto].
Qed.

Lemma get_crm_CDWF dm d store dm1 rm : CDWF dm -> get_crm mf dmf dm d store = (dm1, rm) ->
  CDWF dm1 /\ CWF mf rm /\ cd_mf dm1 = cd_mf dm /\ cd_dmf dm1 = cd_dmf dm /\
  (lookup d (cd_rms dm) = None -> c_fn rm = [] /\ c_par rm = []).
Proof.
  intros D E. unfold get_crm in E. destruct (lookup d (cd_rms dm)) as [rm0|] eqn:L.
  - inversion E. subst. split; [exact D|]. split; [eapply (cdw_rm _ D); apply lookup_In; exact L|]. repeat split; discriminate.
  - set (rms1 := if store then mput d (crm_new (cd_mf dm)) (cd_rms dm) else cd_rms dm) in *.
    assert (HF : forall l acc, WF mf (c_rm acc) -> c_fn acc = [] -> c_par acc = [] ->
              let r := fold_left (fun acc p => if negb (String.eqb d (fst p)) && cdm_match dmf dm d (fst p)
                                               then crm_copy_from mf acc (snd p) else acc) l acc in
              WF mf (c_rm r) /\ c_fn r = [] /\ c_par r = []).
    { induction l as [|p t IH]; intros acc W F P; cbn [fold_left]; [auto|]. apply IH;
        destruct (negb (String.eqb d (fst p)) && cdm_match dmf dm d (fst p)); auto; apply copy_from_CWF; assumption. }
    assert (HR : forall r, WF mf (c_rm r) -> c_fn r = [] -> c_par r = [] -> CWF mf r).
    { intros r W F P. split; [exact W|]. intros k. rewrite F, P. intros [[]|[]]. }
    assert (H0 : WF mf (c_rm (crm_new (cd_mf dm))) /\ c_fn (crm_new (cd_mf dm)) = [] /\ c_par (crm_new (cd_mf dm)) = []).
    { split; [apply WF_new|auto]. }
    destruct H0 as [W0 [F0 P0]]. destruct (HF rms1 _ W0 F0 P0) as [W1 [F1 P1]]. cbv zeta in W1, F1, P1.
    destruct (cd_dmf dm) eqn:Dm; inversion E; subst; clear E.
    + split; [|split; [apply HR; assumption|split; [destruct store; reflexivity|split; [destruct store; cbn; auto|auto]]]].
      destruct store; [|exact D].
      match goal with |- CDWF (set_crms dm (mput d ?X rms1)) =>
        change (CDWF (set_crms (set_crms dm rms1) (mput d X (cd_rms (set_crms dm rms1))))) end.
      apply CDWF_upd; [|apply HR; assumption].
      unfold rms1. apply (CDWF_upd dm d (crm_new (cd_mf dm)) D). apply CWF_new.
    + split; [|split; [apply CWF_new|split; [destruct store; reflexivity|split; [destruct store; cbn; auto|auto]]]].
      destruct store; [|exact D].
      match goal with |- CDWF (set_crms dm (mput d ?X rms1)) =>
        change (CDWF (set_crms (set_crms dm rms1) (mput d X (cd_rms (set_crms dm rms1))))) end.
      apply CDWF_upd; [|apply CWF_new].
      unfold rms1. apply (CDWF_upd dm d (crm_new (cd_mf dm)) D). apply CWF_new.
Qed.

Lemma CDWF_map dm (g : crm -> crm) : CDWF dm -> (forall rm, CWF mf rm -> CWF mf (g rm)) ->
  CDWF (set_crms dm (map (fun p => (fst p, g (snd p))) (cd_rms dm))).
Proof.
  intros [N R] G. constructor; cbn [set_crms cd_rms].
  - rewrite map_map. cbn [fst]. exact N.
  - intros d rm H. apply in_map_iff in H as [[d0 rm0] [E H]]. cbn [fst snd] in E. inversion E. subst. apply G. eapply R; eauto.
Qed.

Lemma cdstep_CDWF n dm op : CDWF dm -> CDWF (fst (cdstep mf dmf cf n dm op)).
Proof.
  intros D. destruct op; cbn [cdstep].
  - unfold cdm_add_link. destruct (get_crm mf dmf dm d true) as [dm1 rm] eqn:E. cbn [fst].
    destruct (get_crm_CDWF _ _ _ _ _ D E) as [D1 [C1 _]]. apply CDWF_upd; [exact D1|].
    apply (cstep_CWF mf cf n rm (CAdd u r) C1).
  - unfold cdm_delete_link. destruct (get_crm mf dmf dm d true) as [dm1 rm] eqn:E. cbn [fst].
    destruct (get_crm_CDWF _ _ _ _ _ D E) as [D1 [C1 _]]. apply CDWF_upd; [exact D1|].
    apply (cstep_CWF mf cf n rm (CDel u r) C1).
  - unfold cdm_has_link. destruct (get_crm mf dmf dm d false) as [dm1 rm] eqn:E.
    destruct (crm_has_link mf cf n rm u r d) as [rm' b] eqn:H. cbn [fst].
    destruct (get_crm_CDWF _ _ _ _ _ D E) as [D1 [C1 _]].
    destruct (lookup d (cd_rms dm1)); [|exact D1]. apply CDWF_upd; [exact D1|].
    pose proof (cstep_CWF mf cf n rm (CHas u r d) C1) as C2. cbn [cstep] in C2. rewrite H in C2. exact C2.
  - exact D.
  - exact D.
  - constructor; [constructor|intros d rm []].
  - destruct D as [N R]. constructor; [exact N|exact R].
  - destruct D as [N R]. constructor; [exact N|exact R].
  - cbn [fst]. unfold cdm_add_fn. apply (CDWF_map dm (fun rm => crm_add_fn mf rm u r d f)); [exact D|].
    intros rm C. apply (cstep_CWF mf cf n rm (CAddFn u r d f) C).
  - cbn [fst]. unfold cdm_set_params. apply (CDWF_map dm (fun rm => crm_set_params mf rm u r d ps)); [exact D|].
    intros rm C. apply (cstep_CWF mf cf n rm (CSetPar u r d ps) C).
  - exact D.
  - exact D.
Qed.

(* after every history of a ConditionalDomainManager (matching functions and the panicking calls
   included) rmMap holds one well-formed ConditionalRoleManager per domain *)
Theorem cdrun_CDWF n ops : forall dm, CDWF dm -> CDWF (cdrun mf dmf cf n dm ops).
Proof.
  induction ops as [|op t IH]; intros dm D; [exact D|]. unfold cdrun. cbn [fold_left]. apply IH. apply cdstep_CDWF. exact D.
Qed.

(* HasLink(u, r, d) is answered by the manager stored for d (with d as the domain of the first hop) *)
Theorem cdm_has_link_stored n dm u r d rm : lookup d (cd_rms dm) = Some rm ->
  snd (cdm_has_link mf dmf cf n dm u r d) = snd (crm_has_link mf cf n rm u r d).
Proof.
  intros L. unfold cdm_has_link, get_crm. rewrite L. destruct (crm_has_link mf cf n rm u r d) as [rm' b]. reflexivity.
Qed.

(* without a domain matching function AddLink / DeleteLink never reach the panicking assertion *)
Theorem cdm_links_no_panic dm u r d : cd_dmf dm = false ->
  snd (cdm_add_link mf dmf dm u r d) = CUnit /\ snd (cdm_delete_link mf dmf dm u r d) = CUnit.
Proof.
  intros Hd. unfold cdm_add_link, cdm_delete_link. destruct (get_crm mf dmf dm d true) as [dm1 rm] eqn:E. cbn [snd].
  assert (H1 : cd_dmf dm1 = false).
  { unfold get_crm in E. destruct (lookup d (cd_rms dm)); inversion E; subst; [exact Hd|]. rewrite Hd. cbn. exact Hd. }
  unfold cdm_affected. cbn [set_crms cd_dmf]. rewrite H1. auto.
Qed.

End CondDomain.

(* ================= the enforcer's conditional branch ================= *)
Section CondEnforcer.
Variable mf : string -> string -> bool.
Variable dmf : string -> string -> bool.
Variable cf : nat -> list string -> option bool.

(* a grouping rule of g = _, _, (_, .., _) with np parameter tokens has at least 2 + np fields *)
Definition long (np : nat) (r : rule) : Prop := 2 + np <= List.length r.
(* x -> y is named by a listed rule *)
Definition rule_links (rs : list rule) (x y : string) : Prop := exists r, In r rs /\ fld 0 r = x /\ fld 1 r = y.

(* the invariant: the role definition has a ConditionalRoleManager without matching function whose
   stored links are exactly the links named by the listed grouping rules *)
Definition EI (np : nat) (e : cenf) : Prop :=
  (exists s, e_mgr e = MC s /\ CWF mf s /\ m_mf (c_rm s) = false /\
             forall x y, In (x, y) (links_of (c_rm s)) <-> rule_links (e_rules e) x y) /\
  Forall (long np) (e_store e).

(* the calls that build the conditional links (the others are F04, see estep) *)
Definition guarded (np : nat) (op : eop) : Prop :=
  match op with
  | EAddMany rs => Forall (long np) rs
  | ELoad | EClearPolicy | EAddFn _ _ _ _ | ESetPar _ _ _ _ | EHas _ _ _ => True
  | EAddOne _ | ERemoveOne _ | ERemoveMany _ | EBuildInc _ _ => False
  end.

Lemma fld_firstn i c r : i < c -> fld i (firstn c r) = fld i r.
Proof.
  unfold fld. revert c r. induction i as [|i IH]; intros c r H; destruct c as [|c]; try lia; destruct r as [|a t]; cbn [firstn nth]; auto.
  apply IH. lia.
Qed.

Lemma add_new_In rs : forall l r, In r (add_new rs l) <-> In r l \/ In r rs.
Proof.
  unfold add_new. induction rs as [|a t IH]; intros l r; cbn [fold_left In]; [tauto|].
  rewrite IH. destruct (mem_rule a l) eqn:M.
  - apply mem_rule_In in M. split; [tauto|]. intros [H|[<-|H]]; auto.
  - rewrite in_app_iff. cbn [In]. tauto.
Qed.

Lemma rule_links_app rs rs' l x y : (forall r, In r l <-> In r rs \/ In r rs') ->
  (rule_links l x y <-> rule_links rs x y \/ rule_links rs' x y).
Proof.
  intros H. unfold rule_links. split.
  - intros [r [Hr E]]. apply H in Hr as [Hr|Hr]; [left|right]; exists r; auto.
  - intros [[r [Hr E]]|[r [Hr E]]]; exists r; (split; [apply H; auto|exact E]).
Qed.

Lemma cond_link_add_MC s r : CWF mf s -> m_mf (c_rm s) = false ->
  exists s', cond_link_add mf dmf (MC s) r = MC s' /\ CWF mf s' /\ m_mf (c_rm s') = false /\
    forall x y, In (x, y) (links_of (c_rm s')) <-> (x = fld 0 r /\ y = fld 1 r) \/ In (x, y) (links_of (c_rm s)).
Proof.
  intros C Hm. cbn [cond_link_add]. eexists. split; [reflexivity|].
  pose proof (cstep_CWF mf cf 0 s (CAdd (fld 0 r) (fld 1 r)) C) as C1. cbn [cstep fst] in C1.
  destruct (add_link_WF mf Pany (GRM_any mf) (c_rm s) (fld 0 r) (fld 1 r) (proj1 C) I) as [_ [M1 [L1 _]]].
  destruct (crm_set_params_facts mf _ (fld 0 r) (fld 1 r) ddom (skipn 2 r) C1) as [C2 [M2 [L2 _]]].
  split; [exact C2|]. split; [rewrite M2; unfold crm_add_link; cbn [with_rm c_rm]; congruence|].
  intros x y. rewrite L2. unfold crm_add_link. cbn [with_rm c_rm]. apply L1.
Qed.

Lemma build_cond_add np rs : forall s, CWF mf s -> m_mf (c_rm s) = false -> Forall (long np) rs ->
  exists s', build_cond mf dmf np true rs (MC s) = (MC s', true) /\ CWF mf s' /\ m_mf (c_rm s') = false /\
    forall x y, In (x, y) (links_of (c_rm s')) <-> In (x, y) (links_of (c_rm s)) \/ rule_links rs x y.
Proof.
  induction rs as [|r t IH]; intros s C Hm F; cbn [build_cond].
  - exists s. split; [reflexivity|]. split; [exact C|]. split; [exact Hm|]. intros x y. unfold rule_links. split; [auto|].
    intros [H|[r [[] _]]]. exact H.
  - inversion F as [|? ? Lr Ft]; subst. cbn [ntok]. unfold long in Lr.
    assert (E : (List.length r <? 2 + np) = false) by (apply Nat.ltb_ge; exact Lr). rewrite E.
    destruct (cond_link_add_MC s (firstn (2 + np) r) C Hm) as [s1 [E1 [C1 [M1 L1]]]]. rewrite E1.
    destruct (IH s1 C1 M1 Ft) as [s' [E' [C' [M' L']]]]. exists s'. split; [exact E'|]. split; [exact C'|]. split; [exact M'|].
    intros x y. rewrite L', L1, !fld_firstn by lia. unfold rule_links. split.
    + intros [[[-> ->]|H]|[r0 [H0 E0]]]; [right; exists r; cbn [In]; auto|auto|right; exists r0; cbn [In]; auto].
    + intros [H|[r0 [[<-|H0] [<- <-]]]]; [auto|auto|right; exists r0; auto].
Qed.

Lemma estep_EI n np e op : EI np e -> guarded np op -> EI np (fst (estep mf dmf cf n np e op)).
Proof.
  intros [[s [Em [C [Hm L]]]] St] G. destruct op; cbn [guarded] in G; try (exfalso; exact G); cbn [estep].
  - (* AddGroupingPolicies *)
    destruct (existsb (fun r => mem_rule r (e_rules e)) rs); cbn [fst]; [split; [exists s; auto|exact St]|].
    rewrite Em. destruct (build_cond_add np rs s C Hm G) as [s' [E' [C' [M' L']]]]. rewrite E'. cbn [fst e_rules e_mgr e_store].
    split; [|exact St]. exists s'. split; [reflexivity|]. split; [exact C'|]. split; [exact M'|].
    intros x y. rewrite L', L. symmetry. apply rule_links_app. intros r. apply add_new_In.
  - (* LoadPolicy *)
    rewrite Em. cbn [mgr_clear].
    assert (C0 : CWF mf (crm_clear s)) by (split; [apply WF_clear|intros k [[]|[]]]).
    destruct (build_cond_add np (e_store e) (crm_clear s) C0 Hm St) as [s' [E' [C' [M' L']]]]. rewrite E'. cbn [fst e_rules e_mgr e_store].
    split; [|exact St]. exists s'. split; [reflexivity|]. split; [exact C'|]. split; [exact M'|].
    intros x y. rewrite L'. cbn. tauto.
  - (* ClearPolicy *)
    cbn [fst e_rules e_mgr e_store]. split; [|exact St]. rewrite Em. exists (crm_clear s). split; [reflexivity|].
    split; [split; [apply WF_clear|intros k [[]|[]]]|]. split; [exact Hm|].
    intros x y. cbn. unfold rule_links. split; [intros []|intros [r0 [[] _]]].
  - (* AddNamed[Domain]LinkConditionFunc *)
    cbn [fst e_rules e_mgr e_store]. split; [|exact St]. rewrite Em. cbn [mgr_add_fn].
    destruct (crm_add_fn_facts mf s u r d f C) as [C' [M' [L' _]]]. eexists. split; [reflexivity|].
    split; [exact C'|]. split; [congruence|]. intros x y. rewrite L'. apply L.
  - cbn [fst e_rules e_mgr e_store]. split; [|exact St]. rewrite Em. cbn [mgr_set_params].
    destruct (crm_set_params_facts mf s u r d ps C) as [C' [M' [L' _]]]. eexists. split; [reflexivity|].
    split; [exact C'|]. split; [congruence|]. intros x y. rewrite L'. apply L.
  - (* g(u, r[, d]) *)
    rewrite Em. cbn [mgr_has_link]. pose proof (crm_has_link_state mf cf n s u r d) as HS.
    pose proof (cstep_CWF mf cf n s (CHas u r d) C) as C'. cbn [cstep] in C'.
    destruct (crm_has_link mf cf n s u r d) as [s' b]. cbn [fst] in *. cbn [e_rules e_mgr e_store].
    split; [|exact St]. exists s'. split; [reflexivity|]. split; [exact C'|]. subst s'. cbn [with_rm c_rm].
    destruct (has_link_WF mf Pany (GRM_any mf) (URM_any mf) n (c_rm s) u r (proj1 C) I) as [_ [M' [_ L']]].
    split; [congruence|]. intros x y. rewrite L'. apply L.
Qed.

(* inside the guard (batch additions, LoadPolicy, ClearPolicy, registrations, decisions) the links of
   the conditional role manager mirror the listed grouping rules after every history *)
Theorem erun_EI n np ops : forall e, EI np e -> Forall (guarded np) ops -> EI np (erun mf dmf cf n np e ops).
Proof.
  induction ops as [|op t IH]; intros e E F; [exact E|]. inversion F; subst.
  unfold erun. cbn [fold_left]. apply IH; [apply estep_EI; assumption|assumption].
Qed.

Lemma EI_new np store : Forall (long np) store -> EI np (mkCenf [] (MC (crm_new false)) store).
Proof.
  intros F. split; [|exact F]. exists (crm_new false). split; [reflexivity|]. split; [apply CWF_new|]. split; [reflexivity|].
  intros x y. cbn. unfold rule_links. split; [intros []|intros [r [[] _]]].
Qed.

End CondEnforcer.

(* ================= what is FALSE: computed witnesses on the faithful model ================= *)
Local Open Scope string_scope.

(* the function family of the correspondence stream (harness/c05_cond.go) *)
Definition wcf (f : nat) (ps : list string) : option bool :=
  match f with
  | 0 => Some (match ps with p :: _ => String.eqb p "on" | [] => false end)
  | 1 => Some (match ps with _ :: _ :: _ => true | _ => false end)
  | 2 => None
  | 3 => Some false
  | _ => match ps with [] => None | p :: _ => Some (String.eqb p "on") end
  end.

(* a walk every hop of which is taken in the domain of the call: what one would expect *)
Inductive uwalk (cf : nat -> list string -> option bool) (s : crm) (d : string) : string -> string -> nat -> Prop :=
| uw0 x : uwalk cf s d x x 0
| uwS x y z k : ledge cf s d x y -> uwalk cf s d y z k -> uwalk cf s d x z (S k).

Definition hop_ops : list cop := [CAdd "u" "a"; CAdd "a" "b"; CAddFn "a" "b" "d" 3].

(* the domain of the call reaches the first hop only: a -> b carries a condition that fails in
   domain d, HasLink(a, b, d) is false, yet HasLink(u, b, d) is true although the only path is
   u -> a -> b *)
Lemma domain_first_hop_only_refuted :
  let s := crun no_mf wcf 10 (crm_new false) hop_ops in
  snd (crm_has_link no_mf wcf 10 s "u" "b" "d") = true /\
  snd (crm_has_link no_mf wcf 10 s "a" "b" "d") = false /\
  forall k, ~ uwalk wcf s "d" "u" "b" k.
Proof.
  cbv zeta. remember (crun no_mf wcf 10 (crm_new false) hop_ops) as s eqn:Es. vm_compute in Es. subst s.
  split; [vm_compute; reflexivity|]. split; [vm_compute; reflexivity|].
  intros k H. inversion H as [|x y z k1 [HI HP] Hw]; subst. vm_compute in HI.
  destruct HI as [E|[E|[]]]; inversion E; subst.
  inversion Hw as [|x y z k2 [HI2 HP2] Hw2]; subst. vm_compute in HI2.
  destruct HI2 as [E2|[E2|[]]]; inversion E2; subst. vm_compute in HP2. discriminate.
Qed.

(* an erroring condition hides a sibling link: u -> b has no condition, u -> a has one that returns
   an error, and (u -> a stored first) HasLink(u, b) is false: the error stops the Range.  In Go the
   order of that Range is unspecified, so the answer is order dependent there *)
Lemma error_hides_sibling_refuted :
  let s := crun no_mf wcf 10 (crm_new false) [CAdd "u" "a"; CAdd "u" "b"; CAddFn "u" "a" "" 2] in
  (exists k, k <= 10 /\ lwalk wcf s "" "u" "b" k) /\
  snd (crm_has_link no_mf wcf 10 s "u" "b" "") = false /\
  snd (crm_has_link no_mf wcf 10 (crun no_mf wcf 10 (crm_new false) [CAdd "u" "b"; CAdd "u" "a"; CAddFn "u" "a" "" 2]) "u" "b" "") = true.
Proof.
  cbv zeta. split; [|split; vm_compute; reflexivity].
  exists 1. split; [lia|]. apply (lwS wcf _ "" "u" "b" "b" 0); [|apply lw0].
  split; [vm_compute; auto|vm_compute; reflexivity].
Qed.

(* AddMatchingFunc (rebuild) and Clear drop every condition function: the link comes back unconditional *)
Lemma rebuild_drops_functions_refuted :
  let s := crun kmatch wcf 10 (crm_new false) [CAdd "u" "r"; CAddFn "u" "r" "" 3] in
  snd (crm_has_link kmatch wcf 10 s "u" "r" "") = false /\
  snd (crm_has_link kmatch wcf 10 (crm_add_matching_func kmatch s) "u" "r" "") = true /\
  snd (crm_has_link kmatch wcf 10 (crm_add_link kmatch (crm_clear s) "u" "r") "u" "r" "") = true.
Proof. cbv zeta. repeat split; vm_compute; reflexivity. Qed.

(* copyFrom copies links only: with a domain matching function the link u -> r of the pattern
   domain * carries a failing condition, HasLink(u, r, STAR) is false, but the manager assembled for d1
   has the link without the condition *)
Definition copy_ops : list cdop := [KAddDMF; KAdd "u" "r" "*"; KAddFn "u" "r" "*" 3].
Lemma copy_from_drops_functions_refuted :
  let dm := cdrun no_mf kmatch wcf 10 cdm_new copy_ops in
  snd (cdm_has_link no_mf kmatch wcf 10 dm "u" "r" "*") = false /\
  snd (cdm_has_link no_mf kmatch wcf 10 dm "u" "r" "d1") = true.
Proof. cbv zeta. split; vm_compute; reflexivity. Qed.

(* a ConditionalDomainManager forwards a registration to the managers stored at that moment: a
   function registered before the first link of its domain is lost *)
Lemma early_function_lost_refuted :
  snd (cdm_has_link no_mf no_mf wcf 10 (cdrun no_mf no_mf wcf 10 cdm_new [KAddFn "u" "r" "d1" 3; KAdd "u" "r" "d1"]) "u" "r" "d1") = true /\
  snd (cdm_has_link no_mf no_mf wcf 10 (cdrun no_mf no_mf wcf 10 cdm_new [KAdd "u" "r" "d1"; KAddFn "u" "r" "d1" 3]) "u" "r" "d1") = false.
Proof. split; vm_compute; reflexivity. Qed.

(* the methods a ConditionalDomainManager inherits from DomainManager panic once a domain exists *)
Lemma inherited_calls_panic :
  let dm := cdrun no_mf kmatch wcf 10 cdm_new [KAdd "u" "r" "d1"] in
  snd (cdstep no_mf kmatch wcf 10 dm (KRoles "u" "d1")) = CPanic /\
  snd (cdstep no_mf kmatch wcf 10 dm (KUsers "r" "d1")) = CPanic /\
  snd (cdstep no_mf kmatch wcf 10 dm (KRoles "u" "d2")) = CList [] /\
  snd (cdstep no_mf kmatch wcf 10 dm (KDomains "u")) = CPanic /\
  snd (cdstep no_mf kmatch wcf 10 dm KAddMF) = CPanic /\
  snd (cdstep no_mf kmatch wcf 10 dm KAddDMF) = CPanic /\
  snd (cdstep no_mf kmatch wcf 10 (fst (cdstep no_mf kmatch wcf 10 dm KAddDMF)) (KAdd "u" "r" "*")) = CPanic.
Proof. cbv zeta. repeat split; vm_compute; reflexivity. Qed.

(* GetLinkConditionFunc on two unknown names removes the first and leaves the second registered *)
Lemma get_fn_leaks_second_name :
  map fst (m_all (c_rm (fst (crm_get_fn no_mf (crm_new false) "x" "y" "")))) = ["y"] /\
  snd (crm_get_fn no_mf (crm_new false) "x" "y" "") = None.
Proof. split; vm_compute; reflexivity. Qed.

(* F04 at the enforcer: the single-rule AddGroupingPolicy lists the rule and builds no link, the
   batch call builds it, and neither RemoveGroupingPolicy nor RemoveGroupingPolicies removes it *)
Definition f04_rule : rule := ["alice"; "admin"; "_"; "_"].
Definition e_empty : cenf := mkCenf [] (MC (crm_new false)) [].
Definition g_of (e : cenf) (u r : string) : bool := snd (estep no_mf no_mf wcf 10 2 e (EHas u r "")).

Lemma f04_shape :
  let e1 := fst (estep no_mf no_mf wcf 10 2 e_empty (EAddOne f04_rule)) in
  let e2 := fst (estep no_mf no_mf wcf 10 2 e_empty (EAddMany [f04_rule])) in
  let e3 := fst (estep no_mf no_mf wcf 10 2 e2 (ERemoveOne f04_rule)) in
  let e4 := fst (estep no_mf no_mf wcf 10 2 e2 (ERemoveMany [f04_rule])) in
  e_rules e1 = [f04_rule] /\ g_of e1 "alice" "admin" = false /\
  e_rules e2 = [f04_rule] /\ g_of e2 "alice" "admin" = true /\
  e_rules e3 = [] /\ g_of e3 "alice" "admin" = true /\
  e_rules e4 = [] /\ g_of e4 "alice" "admin" = true.
Proof. cbv zeta. repeat split; vm_compute; reflexivity. Qed.

(* so the invariant "links = listed rules" fails outside the guard *)
Lemma f04_refuted : exists e op, EI no_mf 2 e /\ ~ EI no_mf 2 (fst (estep no_mf no_mf wcf 10 2 e op)).
Proof.
  exists e_empty, (EAddOne f04_rule). split; [apply EI_new; constructor|].
  intros [[s [Em [_ [_ L]]]] _]. vm_compute in Em. inversion Em. subst s. clear Em.
  assert (H : In ("alice", "admin") (links_of (c_rm (crm_new false)))).
  { apply L. exists f04_rule. split; [vm_compute; auto|split; reflexivity]. }
  vm_compute in H. exact H.
Qed.
Lemma f04_remove_refuted : exists e op, EI no_mf 2 e /\ ~ EI no_mf 2 (fst (estep no_mf no_mf wcf 10 2 e op)) /\
  (exists r, op = ERemoveMany [r]).
Proof.
  exists (fst (estep no_mf no_mf wcf 10 2 e_empty (EAddMany [f04_rule]))), (ERemoveMany [f04_rule]).
  split; [apply estep_EI; [apply EI_new; constructor|]; constructor; [unfold long; cbn; lia|constructor]|].
  split; [|exists f04_rule; reflexivity].
  intros [[s [Em [_ [_ L]]]] _]. vm_compute in Em. inversion Em. subst s. clear Em.
  specialize (L "alice" "admin"). destruct L as [L _].
  assert (H : rule_links [] "alice" "admin") by (apply L; vm_compute; auto).
  destruct H as [r [[] _]].
Qed.

(* LoadPolicy (Clear + rebuild) drops the functions registered through the enforcer *)
Lemma load_drops_functions_refuted :
  let e := fst (estep no_mf no_mf wcf 10 2 (mkCenf [] (MC (crm_new false)) [["u"; "r"; "off"; "x"]]) ELoad) in
  let e1 := fst (estep no_mf no_mf wcf 10 2 e (EAddFn "u" "r" "" 0)) in
  g_of e "u" "r" = true /\ g_of e1 "u" "r" = false /\ g_of (fst (estep no_mf no_mf wcf 10 2 e1 ELoad)) "u" "r" = true.
Proof. cbv zeta. repeat split; vm_compute; reflexivity. Qed.

(* ---------- examples ---------- *)
(* parameters stored before the function, the function before the parameters, a link deleted and
   added again keeps its function and parameters, a condition in the middle of a chain *)
Lemma conditions_example :
  let h (ops : list cop) u r d := snd (crm_has_link no_mf wcf 10 (crun no_mf wcf 10 (crm_new false) ops) u r d) in
  h [CAdd "a" "b"; CSetPar "a" "b" "" ["on"]; CAddFn "a" "b" "" 0] "a" "b" "" = true /\
  h [CAdd "a" "b"; CAddFn "a" "b" "" 0] "a" "b" "" = false /\
  h [CAdd "a" "b"; CAddFn "a" "b" "" 0; CSetPar "a" "b" "" ["on"]] "a" "b" "" = true /\
  h [CAdd "a" "b"; CAddFn "a" "b" "" 0; CSetPar "a" "b" "" ["on"]; CDel "a" "b"; CAdd "a" "b"] "a" "b" "" = true /\
  h [CAdd "a" "b"; CAddFn "a" "b" "" 0; CDel "a" "b"; CAdd "a" "b"] "a" "b" "" = false /\
  h [CAdd "u" "a"; CAdd "a" "b"; CAdd "b" "c"; CAddFn "a" "b" "" 0] "u" "c" "" = false /\
  h [CAdd "u" "a"; CAdd "a" "b"; CAdd "b" "c"; CAddFn "a" "b" "" 0; CSetPar "a" "b" "" ["on"; "x"]] "u" "c" "" = true /\
  h [CAdd "a" "b"; CAddFn "a" "b" "d" 3] "a" "b" "" = true /\
  h [CAdd "a" "b"; CAddFn "a" "b" "d" 3] "a" "b" "d" = false /\
  h [CAdd "a" "b"; CAddFn "a" "b" "" 2] "a" "b" "" = false /\
  h [CAdd "a" "b"; CAddFn "a" "b" "" 4] "a" "b" "" = false /\
  h [CAdd "a" "b"; CAddFn "a" "b" "" 4; CSetPar "a" "b" "" ["on"]] "a" "b" "" = true.
Proof. cbv zeta. repeat split; vm_compute; reflexivity. Qed.

(* a state that meets the hypotheses of the exact characterisation: functions 0 and 3 never err *)
Lemma spec_example :
  let s := crun no_mf wcf 10 (crm_new false)
             [CAdd "u" "a"; CAdd "a" "b"; CAddFn "a" "b" "" 0; CSetPar "a" "b" "" ["on"]; CAddFn "u" "a" "d" 3] in
  CWF no_mf s /\ m_mf (c_rm s) = false /\ no_err_links wcf s /\
  snd (crm_has_link no_mf wcf 10 s "u" "b" "") = true /\ snd (crm_has_link no_mf wcf 10 s "u" "b" "d") = false.
Proof.
  cbv zeta. split; [apply crun_CWF; apply CWF_new|]. split; [vm_compute; reflexivity|].
  split; [|split; vm_compute; reflexivity].
  apply no_err_total. intros f ps H. vm_compute in H. destruct H as [<-|[<-|[]]]; cbn [wcf]; discriminate.
Qed.
