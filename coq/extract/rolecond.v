(* Extraction of the conditional role-manager model (RoleCond.v, on top of RoleGraph.v) for the
   C05C correspondence stream.  ExtrOcamlBasic only: nat, ascii and string stay the extracted
   inductive types.  Run from ocaml/rolecond/gen by ocaml/build_model.sh. *)
Require Import ExtrOcamlBasic.
From Casbin Require Import Base Roles RoleGraph RoleCond.
Separate Extraction
  RoleGraph.links_of
  RoleCond.crm_new RoleCond.cstep RoleCond.crm_has_link RoleCond.crm_get_roles RoleCond.crm_get_users
  RoleCond.cdm_new RoleCond.cdstep RoleCond.cdm_has_link RoleCond.cdm_get_all_domains
  RoleCond.cdm_get_list RoleCond.cdm_get_domains
  RoleCond.mkCenf RoleCond.estep RoleCond.mgr_has_link.
