(* Extraction of the structural role-manager model (RoleGraph.v) for the C05G correspondence
   stream.  ExtrOcamlBasic only: nat, ascii and string stay the extracted inductive types.
   Run from ocaml/rolegraph/gen by ocaml/build_model.sh. *)
Require Import ExtrOcamlBasic.
From Casbin Require Import Base Roles RoleGraph.
Separate Extraction
  RoleGraph.new_rm RoleGraph.add_link RoleGraph.delete_link RoleGraph.has_link RoleGraph.get_roles
  RoleGraph.get_users RoleGraph.rm_clear RoleGraph.rm_add_matching_func RoleGraph.links_of
  RoleGraph.new_dm RoleGraph.dm_add_link RoleGraph.dm_delete_link RoleGraph.dm_has_link
  RoleGraph.dm_get_roles RoleGraph.dm_get_users RoleGraph.dm_get_domains RoleGraph.dm_get_all_domains
  RoleGraph.dm_clear RoleGraph.dm_add_matching_func RoleGraph.dm_add_domain_matching_func
  RoleGraph.rstep RoleGraph.dstep.
