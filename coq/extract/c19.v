(* Extraction of the DistributedEnforcer *Self operations (Dist.v on the state of Machine.v)
   for the correspondence check of C19.  ExtrOcamlBasic only.
   Run from ocaml/c19/gen by ocaml/build_model.sh. *)
Require Import ExtrOcamlBasic.
From Casbin Require Import Base Store Roles Machine Dist.
Separate Extraction
  Dist.dstep Dist.drun Dist.rstep Dist.rrun Dist.decide_rbac Dist.decide_domain Dist.decide_priority Dist.added Dist.removed
  Store.has
  Machine.init_state Machine.listed Machine.get_store Machine.get_links
  Roles.has_link Roles.get_roles Roles.get_users.
