(* Extraction for C13.  The correspondence of this property is Go-side (recorded concurrent
   histories checked against the real single-threaded enforcer); the model code that runs in
   OCaml is the decision procedure lin_ok on the generated table.  ExtrOcamlBasic only. *)
Require Import ExtrOcamlBasic.
From Casbin Require Import Sync Gen.SyncTable.
Separate Extraction Sync.lin_ok Gen.SyncTable.table Gen.SyncTable.loc_names Gen.SyncTable.exceptions.
