(* Extraction of the executable model for the C09 correspondence check.
   ExtrOcamlBasic only: ascii, nat, positive, N stay the extracted inductive types; byte strings
   are OCaml lists of Ascii.ascii.  Run from ocaml/c09/gen by ocaml/build_model.sh. *)
Require Import ExtrOcamlBasic.
From Casbin Require Import Regex KeyMatch IpMatch.
Separate Extraction
  KeyMatch.keyMatch KeyMatch.keyGet KeyMatch.keyMatch2 KeyMatch.keyGet2 KeyMatch.keyMatch3
  KeyMatch.keyGet3 KeyMatch.keyMatch4 KeyMatch.keyMatch5
  KeyMatch.keyMatchFunc KeyMatch.keyGetFunc KeyMatch.keyMatch2Func KeyMatch.keyGet2Func
  KeyMatch.keyMatch3Func KeyMatch.keyGet3Func KeyMatch.keyMatch4Func KeyMatch.keyMatch5Func
  KeyMatch.print KeyMatch.wf_pattern KeyMatch.seg_fill KeyMatch.nl_free
  IpMatch.ipMatch IpMatch.ipMatchFunc.
