(* Extraction of the executable model of C17 for the correspondence check.
   Only ExtrOcamlBasic is used.  Run from ocaml/c17/gen by ocaml/build_model.sh. *)
Require Import ExtrOcamlBasic.
From Casbin Require Import Effect Meta.
Separate Extraction
  Meta.decide_vec Meta.erun Meta.nopolicy Meta.reaches_error Effect.combine.
