(* Extraction of the executable model of C08 (config parser + AddDef) and of the specification
   side (render / erase / wf_ldoc / cfg_doc), so that the driver can re-check on every generated
   layout that it lies inside the hypotheses of the layout theorem.
   Only ExtrOcamlBasic is used: ascii, string, nat, N, positive stay the extracted inductives.
   Run from ocaml/c08/gen by ocaml/build_model.sh. *)
Require Import ExtrOcamlBasic.
From Casbin Require Import Config.
Separate Extraction
  Config.parse Config.load_text Config.load_model Config.get
  Config.render Config.erase Config.wf_ldoc Config.wf_doc Config.wf_layout Config.cfg_doc
  Config.distinct_sections Config.str_eqb.
