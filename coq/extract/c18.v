(* Extraction of the executable model for the C18 correspondence check (ExtrOcamlBasic only:
   nat, ascii and string stay the extracted inductive types).  Run from ocaml/c18/gen by
   ocaml/build_model.sh. *)
Require Import ExtrOcamlBasic.
From Casbin Require Import Csv Filter.
Separate Extraction
  Csv.load_policy_line Csv.rules_of Csv.mkEntry
  Filter.init Filter.step Filter.decide Filter.mkFilter Filter.Current.
