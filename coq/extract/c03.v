(* Extraction of the executable model of C03 for the correspondence check: enforce (the same
   roots as C01) plus the loaders: LoadPolicyLine, the loops of the string and file adapters,
   Enforcer.LoadPolicy on top.  Only ExtrOcamlBasic is used: nat, Z, ascii and string stay the
   extracted inductive types.  Run from ocaml/c03/gen by ocaml/build_model.sh. *)
Require Import ExtrOcamlBasic.
From Casbin Require Import Base Roles Effect Expr Enforce Csv Filter Priority Total.
Separate Extraction
  Enforce.enforce Enforce.api_enforce Enforce.api_enforce_ex Enforce.api_enforce_with_matcher
  Enforce.api_batch_enforce Enforce.load_matcher Enforce.load_effect Enforce.load_tokens
  Enforce.ctx_of_suffix Enforce.perm_spec Enforce.error_free Enforce.prepare
  Roles.rebuild Effect.combine
  Csv.load_policy_line Csv.rules_of Csv.mkEntry Filter.lines_of Filter.load_lines
  Total.string_load Total.file_load Total.enforcer_load Total.try_line.
