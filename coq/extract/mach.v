(* Extraction of the management-API state machine (Machine.v and what it uses) for the
   correspondence checks of C05 C06 C07 C10 C11 C15.  ExtrOcamlBasic only.
   Run from ocaml/mach/gen by ocaml/build_model.sh. *)
Require Import ExtrOcamlBasic.
From Casbin Require Import Base Store Roles Priority Machine Memo.
Separate Extraction
  Machine.step Machine.run Machine.init_state Machine.listed Machine.get_store Machine.get_links
  Store.has Store.get_filtered Store.api_step
  Roles.has_link Roles.get_roles Roles.get_users
  Priority.sort_by_priority Priority.sort_by_hierarchy
  Memo.cstep Memo.cinit Memo.enforce_pure.
