(* Extraction for C12.  The correspondence of this property is Go-side (race-detector
   exploration); the only model code that runs in OCaml is the decision procedure table_ok on
   the generated table, so that the driver's expected observable "ok" is computed by the
   extracted model and not hard-wired.  ExtrOcamlBasic only. *)
Require Import ExtrOcamlBasic.
From Casbin Require Import Sync Gen.SyncTable.
Separate Extraction Sync.table_ok Sync.with_result_readers Gen.SyncTable.table Gen.SyncTable.race_exceptions.
