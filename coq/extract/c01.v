(* Extraction of the executable model of C01 (matcher evaluation + enforce) for the
   correspondence check.  Only ExtrOcamlBasic is used: nat, Z, ascii and string stay the
   extracted inductive types.  Run from ocaml/c01/gen by ocaml/build_model.sh. *)
Require Import ExtrOcamlBasic.
From Casbin Require Import Base Roles Effect Expr Enforce.
Separate Extraction
  Enforce.enforce Enforce.api_enforce Enforce.api_enforce_ex Enforce.api_enforce_with_matcher
  Enforce.api_batch_enforce Enforce.load_matcher Enforce.load_effect Enforce.load_tokens
  Enforce.ctx_of_suffix Enforce.perm_spec Enforce.error_free Enforce.prepare
  Roles.rebuild Effect.combine.
