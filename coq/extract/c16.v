(* Extraction of the C16 model (Rbac.v over Roles.v / Effect.v) for the correspondence check.
   ExtrOcamlBasic only: nat, ascii and string stay the extracted inductive types.
   Run from ocaml/c16/gen by ocaml/build_model.sh. *)
Require Import ExtrOcamlBasic.
From Casbin Require Import Base Roles Effect Rbac.
Separate Extraction
  Rbac.implicit_roles_opt Rbac.implicit_users_for_role_opt Rbac.implicit_roles Rbac.implicit_users_for_role
  Rbac.get_roles_for_user Rbac.get_users_for_role
  Rbac.implicit_permissions Rbac.implicit_permissions_dom Rbac.get_permissions_for_user
  Rbac.implicit_users_for_permission Rbac.enforce_rbac Rbac.depth_ok Rbac.vacuous_grant
  Rbac.g_link Roles.has_link.
