(* Extraction of the executable model for the correspondence check.
   Only ExtrOcamlBasic is used: bool, option, unit, list, prod, sumbool, sumor map to the
   OCaml types, andb/orb are inlined; nat, N, Z, positive, ascii and string stay the
   extracted inductive types.  Run from ocaml/c02/gen by ocaml/build_model.sh (output goes to the current directory). *)
Require Import ExtrOcamlBasic.
From Casbin Require Import Effect.
Separate Extraction
  Effect.stream Effect.stream_nopolicy Effect.combine.
