(* Extraction of the executable cache model for the C14 correspondence check.
   Only ExtrOcamlBasic is used: nat, Z, positive, ascii and string stay the extracted inductive
   types.  Run from ocaml/c14/gen by ocaml/build_model.sh. *)
Require Import ExtrOcamlBasic.
From Casbin Require Import Cache.
Separate Extraction
  Cache.acl_run_step Cache.acl_init Cache.acl_enforce Cache.get_key Cache.ust Cache.cache_of
  Cache.cx_run_step Cache.cx_init Cache.cx_enforce.
